import Poulpy.Model.Scratch
/-
C12 — per-operation `*_tmp_bytes` formulas (`tb…`) and allocation trees (`tree…`), written from the
Rust line by line (the `lvl_i` names are the ones used in the Rust).  One model for the four back
ends: FFT64Ref/FFT64Avx share `BE.fft64`, NTT120Ref/NTT120Avx share `BE.ntt120` (the AVX crates
delegate every `*_tmp_bytes` and every scratch-taking default to poulpy-cpu-ref's `hal_defaults`).
-/

namespace Scratch

inductive BE where
  | fft64
  | ntt120
deriving Repr, DecidableEq

/-- `size_of::<ScalarPrep>()`: f64 / Q120bScalar([u64;4]) -/
def BE.prep : BE → Nat
  | .fft64 => 8
  | .ntt120 => 32

/-- `size_of::<ScalarBig>()`: i64 / i128 -/
def BE.big : BE → Nat
  | .fft64 => 8
  | .ntt120 => 16

/-! ### byte sizes of layouts (`bytes_of_*`) -/

/-- `VecZnx::bytes_of(n, cols, size)` -/
def vecBytes (n cols size : Nat) : Nat := n * cols * size * 8
/-- `ScalarZnx::bytes_of(n, cols)` -/
def scalarBytes (n cols : Nat) : Nat := n * cols * 8
/-- `MatZnx::bytes_of` -/
def matBytes (n rows colsIn colsOut size : Nat) : Nat := rows * colsIn * vecBytes n colsOut size
/-- `Backend::bytes_of_vec_znx_dft` -/
def dftBytes (be : BE) (n cols size : Nat) : Nat := n * cols * size * be.prep
/-- `Backend::bytes_of_vec_znx_big` -/
def bigBytes (be : BE) (n cols size : Nat) : Nat := n * cols * size * be.big
/-- `Backend::bytes_of_svp_ppol` -/
def svpBytes (be : BE) (n cols : Nat) : Nat := n * cols * be.prep
/-- `Backend::bytes_of_vmp_pmat` -/
def pmatBytes (be : BE) (n rows colsIn colsOut size : Nat) : Nat := n * rows * colsIn * colsOut * size * be.prep
/-- `Backend::bytes_of_cnv_pvec_left/right` -/
def cnvBytes (be : BE) (n cols size : Nat) : Nat := n * cols * size * be.prep

def ceilDiv (a b : Nat) : Nat := (a + b - 1) / b

/-! ### HAL: `*_tmp_bytes` (poulpy-cpu-ref `reference/*`) -/

/-- `vec_znx_normalize_tmp_bytes` = `3 * n * size_of::<i64>()` -/
def normTmp (n : Nat) : Nat := 3 * n * 8
/-- `vec_znx_lsh_tmp_bytes` -/
def lshTmp (n : Nat) : Nat := n * 8
/-- `vec_znx_rsh_tmp_bytes` -/
def rshTmp (n : Nat) : Nat := 2 * n * 8
/-- rotate_assign / automorphism_assign / mul_xp_minus_one_assign / split_ring / merge_rings -/
def oneLimbTmp (n : Nat) : Nat := n * 8
/-- `vec_znx_big_normalize_tmp_bytes`: FFT64 `3n·8`, NTT120 `3n·16` -/
def bigNormTmp (be : BE) (n : Nat) : Nat := 3 * n * be.big
/-- `vec_znx_big_automorphism_assign_tmp_bytes` -/
def bigAutoTmp (be : BE) (n : Nat) : Nat := n * be.big
/-- `vec_znx_idft_apply_tmp_bytes`: FFT64 0, NTT120 `4n·8` -/
def idftTmp : BE → Nat → Nat
  | .fft64, _ => 0
  | .ntt120, n => 4 * n * 8
/-- `vmp_prepare_tmp_bytes`: FFT64 `n·8`, NTT120 `4n·8` -/
def vmpPrepTmp : BE → Nat → Nat
  | .fft64, n => n * 8
  | .ntt120, n => 4 * n * 8
/-- `vmp_apply_dft_to_dft_tmp_bytes(a_size, rows, cols_in)` = `(16 + 8·min(a_size,rows)·cols_in)·8`
(same number for both families) -/
def vmpTmp (aSize rows colsIn : Nat) : Nat := (16 + 8 * (min aSize rows) * colsIn) * 8
/-- `vmp_apply_dft_tmp_bytes` (family_common) -/
def vmpApplyDftTmp (be : BE) (n aSize rows colsIn : Nat) : Nat :=
  dftBytes be n colsIn (min aSize rows) + vmpTmp (min aSize rows) rows colsIn
/-- `cnv_prepare_left_tmp_bytes(res_size, a_size)` -/
def cnvPrepLeftTmp : BE → Nat → Nat → Nat → Nat
  | .fft64, n, r, a => dftBytes .fft64 n 1 (min r a)
  | .ntt120, _, _, _ => 0
/-- `cnv_prepare_right_tmp_bytes(res_size, a_size)` -/
def cnvPrepRightTmp : BE → Nat → Nat → Nat → Nat
  | .fft64, n, r, a => dftBytes .fft64 n 1 (min r a)
  | .ntt120, n, _, _ => 4 * n * 8
/-- `cnv_prepare_self_tmp_bytes(res_size, a_size)` -/
def cnvPrepSelfTmp : BE → Nat → Nat → Nat → Nat
  | .fft64, n, r, a => dftBytes .fft64 n 1 (min r a)
  | .ntt120, _, _, _ => 0
/-- `cnv_apply_dft_tmp_bytes(_, res_size, a_size, b_size)` -/
def cnvApplyTmp : BE → Nat → Nat → Nat → Nat
  | .fft64, r, a, b => 8 * 8 * (min r (a + b - 1))
  | .ntt120, _, a, b => 16 * (a + b) * 4
/-- `cnv_by_const_apply_tmp_bytes(_, res_size, a_size, b_size)` -/
def cnvByConstTmp : BE → Nat → Nat → Nat → Nat
  | .fft64, r, a, b => 8 * ((min r (a + b - 1)) + a) * 8
  | .ntt120, _, _, _ => 0
/-- `cnv_pairwise_apply_dft_tmp_bytes(_, res_size, a_size, b_size)` -/
def cnvPairwiseTmp : BE → Nat → Nat → Nat → Nat
  | .fft64, r, a, b => cnvApplyTmp .fft64 r a b + (a + b) * 8 * 8
  | .ntt120, r, a, b => if a = 0 ∨ b = 0 ∨ r = 0 then 0 else max (16 * (a + b) * 4) (cnvApplyTmp .ntt120 r a b)

/-! ### HAL: trees.  Every HAL default takes exactly its own `tmp_bytes` once (no entry assertion). -/

def treeNormalize (n : Nat) : AllocTree := leaf (normTmp n)
def treeLsh (n : Nat) : AllocTree := leaf (lshTmp n)
def treeRsh (n : Nat) : AllocTree := leaf (rshTmp n)
def treeOneLimb (n : Nat) : AllocTree := leaf (oneLimbTmp n)
def treeBigNormalize (be : BE) (n : Nat) : AllocTree := leaf (bigNormTmp be n)
def treeBigAuto (be : BE) (n : Nat) : AllocTree := leaf (bigAutoTmp be n)
/-- FFT64 ignores its scratch argument; NTT120 takes `4n` u64 -/
def treeIdft : BE → Nat → AllocTree
  | .fft64, _ => .done
  | .ntt120, n => leaf (4 * n * 8)
def treeVmpPrepare (be : BE) (n : Nat) : AllocTree := leaf (vmpPrepTmp be n)
/-- `vmp_apply_dft_to_dft`: `a_size` is the *current* size of the input (after `set_size`) -/
def treeVmp (aSize rows colsIn : Nat) : AllocTree := leaf (vmpTmp aSize rows colsIn)
/-- `vmp_apply_dft` (family_common): `take_vec_znx_dft(b.cols_in, min(a_size, rows))`, then
`vmp_apply_dft_to_dft` on the remainder -/
def treeVmpApplyDft (be : BE) (n aSize rows colsIn : Nat) : AllocTree :=
  .take (dftBytes be n colsIn (min aSize rows)) (treeVmp (min aSize rows) rows colsIn)

/-! ### core -/

/-- what the scratch computations read from a `GLWEInfos` -/
structure G where
  rank : Nat
  size : Nat
  b2k : Nat
deriving Repr

/-- what they read from a `GGLWEInfos` / `GGSWInfos` (`rankIn = rankOut = rank` for a GGSW) -/
structure K where
  rankIn : Nat
  rankOut : Nat
  size : Nat
  b2k : Nat
  dnum : Nat
  dsize : Nat
deriving Repr

/-- `max_k()` = `size · base2k` -/
def G.maxK (g : G) : Nat := g.size * g.b2k
/-- `GLWE::bytes_of_from_infos` -/
def G.bytes (n : Nat) (g : G) : Nat := vecBytes n (g.rank + 1) g.size
/-- the `GLWELayout {base2k: key.base2k, k: a.max_k(), rank: a.rank}` built in the cross-radix branches -/
def G.conv (g : G) (b2k : Nat) : G := ⟨g.rank, ceilDiv g.maxK b2k, b2k⟩

/-- lwe_encrypt_sk_tmp_bytes / lwe_decrypt_tmp_bytes:
`LWEPlaintext::bytes_of(size).next_multiple_of(DEFAULTALIGN) + normalize` -/
def tbLwe (n size : Nat) : Nat := roundUp (vecBytes 1 1 size) + normTmp n
/-- `lwe_encrypt_sk`: assert; `take_vec_znx(1,1,size)`; `vec_znx_normalize_assign(scratch_1)` -/
def treeLweEncryptSk (n size : Nat) : AllocTree :=
  .need (tbLwe n size) (.take (vecBytes 1 1 size) (treeNormalize n))
/-- `lwe_decrypt`: assert; `take_lwe_plaintext`; `vec_znx_normalize(scratch_1)` -/
def treeLweDecrypt (n size : Nat) : AllocTree :=
  .need (tbLwe n size) (.take (vecBytes 1 1 size) (treeNormalize n))

/-- glwe_encrypt_sk_tmp_bytes -/
def tbGlweEncryptSk (be : BE) (n size : Nat) : Nat :=
  let lvl0 := max (vecBytes n 1 size) (normTmp n)
  let lvl1 := vecBytes n 1 size
  let lvl2 := dftBytes be n 1 size
  let lvl3 := max (normTmp n) (bigNormTmp be n)
  lvl0 + lvl1 + lvl2 + lvl3

/-- `glwe_encrypt_sk_internal(.., cols, .., pt = Some(_, col))`; `subNorm` = some mask column `i ≥ 1`
equals `col` (then `vec_znx_normalize_assign(scratch_3)` is reached) -/
def treeEncSkInternal (be : BE) (n size cols : Nat) (subNorm : Bool) : AllocTree :=
  .take (vecBytes n 1 size)                                        -- c0
    (.alt
      (.take (vecBytes n 1 size)                                   -- ci
        (loop (cols - 1)
          (.take (dftBytes be n 1 size)                            -- ci_dft
            (.alt (if subNorm then treeNormalize n else .done) (treeBigNormalize be n)))))
      (treeNormalize n))

def treeGlweEncryptSk (be : BE) (n : Nat) (g : G) : AllocTree :=
  .need (tbGlweEncryptSk be n g.size) (treeEncSkInternal be n g.size (g.rank + 1) false)

/-- glwe_encrypt_pk_tmp_bytes -/
def tbGlweEncryptPk (be : BE) (n size : Nat) : Nat :=
  let lvl0 := svpBytes be n 1
  let lvl1 := max (dftBytes be n 1 size + bigBytes be n 1 size) (scalarBytes n 1)
  let lvl2 := bigNormTmp be n
  lvl0 + lvl1 + lvl2

/-- `glwe_encrypt_pk`: `pkSize` = `pk.size()` -/
def treeGlweEncryptPk (be : BE) (n : Nat) (g : G) (pkSize : Nat) : AllocTree :=
  .need (tbGlweEncryptPk be n g.size)
    (.take (svpBytes be n 1)                                       -- u_dft
      (.alt (leaf (scalarBytes n 1))                               -- u
        (loop (g.rank + 1) (.take (dftBytes be n 1 pkSize) (treeBigNormalize be n)))))

/-- glwe_decrypt_tmp_bytes -/
def tbGlweDecrypt (be : BE) (n size : Nat) : Nat :=
  bigBytes be n 1 size + max (dftBytes be n 1 size) (bigNormTmp be n)

def treeGlweDecrypt (be : BE) (n : Nat) (g : G) : AllocTree :=
  .need (tbGlweDecrypt be n g.size)
    (.take (bigBytes be n 1 g.size)                                -- c0_big
      (.alt (loop g.rank (leaf (dftBytes be n 1 g.size))) (treeBigNormalize be n)))

/-- glwe_normalize_tmp_bytes -/
def tbGlweNormalize (n : Nat) : Nat := normTmp n
/-- `glwe_normalize` / `glwe_normalize_assign` -/
def treeGlweNormalize (n : Nat) : AllocTree := .need (tbGlweNormalize n) (treeNormalize n)

/-- glwe_shift_tmp_bytes -/
def tbGlweShift (n : Nat) : Nat := max (rshTmp n) (lshTmp n)
def treeGlweRsh (n : Nat) : AllocTree := .need (tbGlweShift n) (treeRsh n)
def treeGlweLsh (n : Nat) : AllocTree := .need (tbGlweShift n) (treeLsh n)

/-- glwe_rotate_tmp_bytes (and mul_xp_minus_one_assign uses the same single-limb buffer) -/
def tbGlweRotate (n : Nat) : Nat := oneLimbTmp n
def treeGlweRotateAssign (n : Nat) : AllocTree := .need (tbGlweRotate n) (treeOneLimb n)

/-- gglwe_product_dft_tmp_bytes(res_size, a_size, key) -/
def tbGglweProduct (be : BE) (n aSize : Nat) (k : K) : Nat :=
  if k.dsize = 1 then vmpTmp aSize k.dnum k.rankIn
  else
    let aSize' := min (ceilDiv aSize k.dsize) k.dnum
    dftBytes be n k.rankIn aSize' + dftBytes be n (k.rankOut + 1) k.size + vmpTmp aSize' k.dnum k.rankIn

/-- `gglwe_product_dft(res, a, key)`: `aCols`/`aSize` of the DFT input, `resCols` of the output;
the prepared matrix has `rows = dnum`, `cols_in = rank_in` -/
def treeGglweProduct (be : BE) (n aCols aSize resCols : Nat) (k : K) : AllocTree :=
  .need (tbGglweProduct be n aSize k)
    (if k.dsize = 1 then treeVmp aSize k.dnum k.rankIn
     else
      .take (dftBytes be n aCols (min (ceilDiv aSize k.dsize) k.dnum))          -- ai_dft
        (.take (dftBytes be n resCols k.size)                                    -- res_dft_tmp
          (altList ((List.range k.dsize).map (fun di =>
            treeVmp (min ((aSize + di) / k.dsize) k.dnum) k.dnum k.rankIn)))))

/-- glwe_keyswitch_internal_tmp_bytes(res_infos, a_infos, key_infos) (res_infos only feeds an ignored argument) -/
def tbKsInternal (be : BE) (n : Nat) (a : G) (k : K) : Nat :=
  dftBytes be n a.rank a.size + tbGglweProduct be n a.size k

/-- `glwe_keyswitch_internal(res_dft, a, key)`; `resCols` = columns of `res_dft` -/
def treeKsInternal (be : BE) (n resCols : Nat) (a : G) (k : K) : AllocTree :=
  .need (tbKsInternal be n a k)
    (.take (dftBytes be n a.rank a.size)                                          -- a_dft
      (treeGglweProduct be n a.rank a.size resCols k))

/-- glwe_keyswitch_tmp_bytes(res, a, key) -/
def tbGlweKeyswitch (be : BE) (n : Nat) (res a : G) (k : K) : Nat :=
  let cols := res.rank + 1
  let lvl0 := dftBytes be n cols k.size
  let lvl1 := bigNormTmp be n
  let lvl2 :=
    if a.b2k ≠ k.b2k then
      let ac := a.conv k.b2k
      ac.bytes n + max (max (tbGlweNormalize n) (tbKsInternal be n ac k)) (bigNormTmp be n)
    else tbKsInternal be n a k
  lvl0 + max lvl1 lvl2

/-- `glwe_keyswitch(res, a, key)` (and `glwe_keyswitch_assign` with `a = res`): the final
`vec_znx_big_normalize` loop runs on `scratch_1` in both branches -/
def treeGlweKeyswitch (be : BE) (n : Nat) (res a : G) (k : K) : AllocTree :=
  let cols := res.rank + 1
  .need (tbGlweKeyswitch be n res a k)
    (.take (dftBytes be n cols k.size)
      (.alt
        (if a.b2k ≠ k.b2k then
          let ac := a.conv k.b2k
          .take (ac.bytes n) (.alt (treeGlweNormalize n) (treeKsInternal be n cols ac k))
         else treeKsInternal be n cols a k)
        (loop cols (treeBigNormalize be n))))

/-- glwe_external_product_internal_tmp_bytes(res, a, ggsw): `a` already in the GGSW's radix -/
def tbExtInternal (be : BE) (n : Nat) (a : G) (k : K) : Nat :=
  let inSize := ceilDiv (ceilDiv a.maxK k.b2k) k.dsize
  let cols := k.rankOut + 1
  let lvl0 := dftBytes be n cols inSize
  let lvl1 := if k.dsize > 1 then dftBytes be n cols k.size else 0
  let lvl2 := vmpTmp inSize inSize cols
  lvl0 + lvl1 + lvl2

/-- `glwe_external_product_internal(res_dft, a, ggsw)`; prepared GGSW: `rows = dnum`, `cols_in = rank+1` -/
def treeExtInternal (be : BE) (n resCols : Nat) (a : G) (k : K) : AllocTree :=
  let cols := k.rankOut + 1
  .need (tbExtInternal be n a k)
    (.take (dftBytes be n cols (ceilDiv a.size k.dsize))                          -- a_dft
      (if k.dsize = 1 then treeVmp a.size k.dnum cols
       else
        .take (dftBytes be n resCols k.size)                                      -- res_dft_tmp
          (altList ((List.range k.dsize).map (fun di => treeVmp ((a.size + di) / k.dsize) k.dnum cols)))))

/-- glwe_external_product_tmp_bytes(res, a, ggsw) -/
def tbGlweExternalProduct (be : BE) (n : Nat) (res a : G) (k : K) : Nat :=
  let cols := res.rank + 1
  let lvl0 := dftBytes be n cols k.size
  let lvl1 := bigNormTmp be n
  let lvl2 :=
    if a.b2k ≠ k.b2k then
      let ac := a.conv k.b2k
      ac.bytes n + max (tbGlweNormalize n) (tbExtInternal be n ac k)
    else tbExtInternal be n a k
  lvl0 + max lvl1 lvl2

/-- `glwe_external_product(res, a, ggsw)` (and `_assign` with `a = res`) -/
def treeGlweExternalProduct (be : BE) (n : Nat) (res a : G) (k : K) : AllocTree :=
  let cols := res.rank + 1
  .need (tbGlweExternalProduct be n res a k)
    (.take (dftBytes be n cols k.size)
      (.alt
        (if a.b2k ≠ k.b2k then
          let ac := a.conv k.b2k
          .take (ac.bytes n) (.alt (treeGlweNormalize n) (treeExtInternal be n cols ac k))
         else treeExtInternal be n cols a k)
        (loop cols (treeBigNormalize be n))))

/-- glwe_automorphism_tmp_bytes(res, a, key) -/
def tbGlweAutomorphism (be : BE) (n : Nat) (res a : G) (k : K) : Nat :=
  max (tbGlweKeyswitch be n res a k) (max (oneLimbTmp n) (bigAutoTmp be n))

/-- `glwe_automorphism(res, a, key)` / `_assign`: key-switch through the public API (which asserts
again), then `vec_znx_automorphism_assign` per column on the same scratch -/
def treeGlweAutomorphism (be : BE) (n : Nat) (res a : G) (k : K) : AllocTree :=
  .need (tbGlweAutomorphism be n res a k)
    (.alt (treeGlweKeyswitch be n res a k) (loop (res.rank + 1) (treeOneLimb n)))

/-- `glwe_automorphism_add / _sub / _sub_negate (and their `_assign` forms)`: the key-switch is
inlined; per column `vec_znx_big_automorphism_assign` then `vec_znx_big_normalize` on the scratch
left *after* `res_dft` (and after `a_conv` in the cross-radix branch) -/
def treeGlweAutomorphismAdd (be : BE) (n : Nat) (res a : G) (k : K) : AllocTree :=
  let cols := res.rank + 1
  let post := loop cols (.alt (treeBigAuto be n) (treeBigNormalize be n))
  .need (tbGlweAutomorphism be n res a k)
    (.take (dftBytes be n cols k.size)
      (if a.b2k ≠ k.b2k then
        let ac := a.conv k.b2k
        .take (ac.bytes n) (.alt (treeGlweNormalize n) (.alt (treeKsInternal be n cols ac k) post))
       else .alt (treeKsInternal be n cols a k) post))

/-- glwe_trace_assign_tmp_bytes(res, a, key): scratch of the in-place trace -/
def tbGlweTraceAssign (be : BE) (n : Nat) (res a : G) (k : K) : Nat :=
  let lvl0 := tbGlweAutomorphism be n res a k
  if a.b2k ≠ k.b2k then
    lvl0 + (vecBytes n (k.rankOut + 1) (ceilDiv (min res.maxK a.maxK) k.b2k) + normTmp n)
  else
    lvl0 + (if res.maxK > a.maxK then res.bytes n else a.bytes n)

/-- the temporary of `glwe_trace`: key radix, `k = max(a.max_k, res.max_k)`, rank of `res` -/
def traceTmp (res a : G) (k : K) : G := ⟨res.rank, ceilDiv (max a.maxK res.maxK) k.b2k, k.b2k⟩

/-- glwe_trace_tmp_bytes(res, a, key): temporary + in-place trace on it, and never less than the in-place formula -/
def tbGlweTrace (be : BE) (n : Nat) (res a : G) (k : K) : Nat :=
  let tmp := traceTmp res a k
  let lvl0 := tmp.bytes n
  let lvl1 := max (tbGlweNormalize n) (tbGlweTraceAssign be n tmp tmp k)
  max (lvl0 + lvl1) (tbGlweTraceAssign be n res a k)

/-- the loop of `glwe_trace_assign` when `res` is already in the key's radix -/
def treeTraceLoop (be : BE) (n iters : Nat) (res : G) (k : K) : AllocTree :=
  loop iters (.alt (treeGlweRsh n) (treeGlweAutomorphismAdd be n res res k))

/-- `glwe_trace_assign(res, skip, keys)`; `iters = log_n - skip` -/
def treeGlweTraceAssign (be : BE) (n iters : Nat) (res : G) (k : K) : AllocTree :=
  .need (tbGlweTraceAssign be n res res k)
    (if res.b2k ≠ k.b2k then
      let rc := res.conv k.b2k
      .take (rc.bytes n)
        (.alt (treeGlweNormalize n)
          (.alt (.need (tbGlweTraceAssign be n rc rc k) (treeTraceLoop be n iters rc k)) (treeGlweNormalize n)))
     else treeTraceLoop be n iters res k)

/-- `glwe_trace(res, skip, a, keys)` -/
def treeGlweTrace (be : BE) (n iters : Nat) (res a : G) (k : K) : AllocTree :=
  let tmp : G := traceTmp res a k
  .need (tbGlweTrace be n res a k)
    (.take (tmp.bytes n)
      (.alt (if a.b2k = k.b2k then .done else treeGlweNormalize n)
        (.alt (treeGlweTraceAssign be n iters tmp k)
          (if res.b2k = k.b2k then .done else treeGlweNormalize n))))

/-- gglwe_encrypt_sk_tmp_bytes / ggsw_encrypt_sk_tmp_bytes (identical formulas) -/
def tbGgxEncryptSk (be : BE) (n size : Nat) : Nat :=
  vecBytes n 1 size + max (tbGlweEncryptSk be n size) (normTmp n)

/-- `gglwe_encrypt_sk(res, ..)`: per (col, row): normalize_assign, then `glwe_encrypt_sk` (public API,
asserts) on `scratch_1` -/
def treeGglweEncryptSk (be : BE) (n : Nat) (k : K) : AllocTree :=
  .need (tbGgxEncryptSk be n k.size)
    (.take (vecBytes n 1 k.size)                                                  -- tmp_pt
      (loop (k.rankIn * k.dnum)
        (.alt (treeNormalize n) (treeGlweEncryptSk be n ⟨k.rankOut, k.size, k.b2k⟩))))

/-- `ggsw_encrypt_sk(res, ..)`: per row normalize_assign, per column `glwe_encrypt_sk_internal`
directly (no inner assertion); column `j ≥ 1` reaches the `subNorm` branch -/
def treeGgswEncryptSk (be : BE) (n : Nat) (k : K) : AllocTree :=
  let cols := k.rankOut + 1
  .need (tbGgxEncryptSk be n k.size)
    (.take (vecBytes n 1 k.size)
      (loop k.dnum
        (.alt (treeNormalize n)
          (.alt (treeEncSkInternal be n k.size cols false)
            (loop k.rankOut (treeEncSkInternal be n k.size cols true))))))

/-! ### poulpy-bin-fhe -/

/-- cmux_tmp_bytes(res, a, selector) -/
def tbCmux (be : BE) (n : Nat) (a : G) (k : K) : Nat :=
  dftBytes be n (k.rankOut + 1) k.size + max (tbExtInternal be n a k) (bigNormTmp be n)

/-- `cmux(res, t, f, s)`: no entry assertion; `take_vec_znx_dft(res.rank+1, s.size)`, then
`glwe_external_product_internal(res_dft, res, s)` and the normalize loop on `scratch_1` -/
def treeCmux (be : BE) (n : Nat) (res : G) (k : K) : AllocTree :=
  .take (dftBytes be n (res.rank + 1) k.size)
    (.alt (treeExtInternal be n (res.rank + 1) res k) (loop (res.rank + 1) (treeBigNormalize be n)))

/-- execute_bdd_circuit_tmp_bytes(res, state_size, ggsw): per-thread size -/
def tbExecBdd (be : BE) (n state : Nat) (res : G) (k : K) : Nat :=
  2 * state * res.bytes n + tbCmux be n res k

/-- `count` consecutive takes of `bytes` (`take_glwe_slice`), then `k` -/
def takeMany : Nat → Nat → AllocTree → AllocTree
  | 0, _, k => k
  | c + 1, bytes, k => .take bytes (takeMany c bytes k)

/-- `eval_level`: `take_glwe_slice(2·state, res)`, then every `cmux` of every level on `scratch_1` -/
def treeEvalLevel (be : BE) (n state : Nat) (res : G) (k : K) : AllocTree :=
  takeMany (2 * state) (res.bytes n) (treeCmux be n res k)

/-- `execute_bdd_circuit_multi_thread(threads, ..)`: assertion `available() ≥ threads · per_thread`,
`split_mut(threads, per_thread)`, one `eval_level` sequence per window -/
def treeExecBdd (be : BE) (n threads state : Nat) (res : G) (k : K) : AllocTree :=
  .need (threads * tbExecBdd be n state res k)
    (.par threads (tbExecBdd be n state res k) (treeEvalLevel be n state res k) .done)

/-! ### poulpy-ckks
* `ckks_add`, `ckks_sub`, `ckks_add_pt_const`, `ckks_sub_pt_const`: `glwe_shift_tmp_bytes.max(glwe_normalize_tmp_bytes)`
  (`ckks_sub` also maxes with `vec_znx_rsh_tmp_bytes`, which equals `glwe_shift_tmp_bytes`);
* `ckks_neg`, `ckks_mul_pow2`, `ckks_div_pow2`, `ckks_rescale`, `ckks_align`: `glwe_shift_tmp_bytes`; their
  bodies only call `glwe_lsh` / `glwe_lsh_assign`. -/
def tbCkksShiftNorm (n : Nat) : Nat := max (tbGlweShift n) (tbGlweNormalize n)
/-- any sequence of `glwe_rsh` / `glwe_lsh` / `glwe_normalize` on the same scratch -/
def treeCkksShiftNorm (n : Nat) : AllocTree := altList [treeGlweRsh n, treeGlweLsh n, treeGlweNormalize n]
def tbCkksShift (n : Nat) : Nat := tbGlweShift n
def treeCkksShift (n : Nat) : AllocTree := treeGlweLsh n

end Scratch
