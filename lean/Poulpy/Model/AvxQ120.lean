import Poulpy.Model.Basic
/-
Lane model of the integer kernels of the NTT120 AVX back end that have a scalar twin
(`poulpy-cpu-avx/src/ntt120/{arithmetic_avx,mat_vec_avx}.rs` vs
`poulpy-cpu-ref/src/reference/ntt120/{arithmetic,mat_vec}.rs`).
A `u64` lane is a `Nat` below `2^64`; every `_mm256_add/sub_epi64` is followed by `wrap`
(`% 2^64`); `_mm256_mul_epu32` multiplies the low 32 bits of the two lanes (exact, < 2^64).
Executable; run by `pdriver avx q120 …`.
-/
namespace Avx.Q120

def wrap (x : Nat) : Nat := x % 2 ^ 64
/-- the lane read as `i64` (for `_mm256_cmpgt_epi64`) -/
def sgn (x : Nat) : Int := if x < 2 ^ 63 then (x : Int) else (x : Int) - 2 ^ 64
def ones : Nat := 2 ^ 64 - 1
def cmpgt_epi64 (a b : Nat) : Nat := if sgn b < sgn a then ones else 0
def andnot_si256 (a b : Nat) : Nat := (ones - a) &&& b
def add_epi64 (a b : Nat) : Nat := wrap (a + b)
def sub_epi64 (a b : Nat) : Nat := wrap (a + 2 ^ 64 - b)
def mul_epu32 (a b : Nat) : Nat := (a % 2 ^ 32) * (b % 2 ^ 32)
def mask32 : Nat := 2 ^ 32 - 1

/-! ### Primes30 constants (checked against the crate by `pvh avx q120 op=consts`) -/
def Q : List Nat := [1073479681, 1071513601, 1070727169, 1068236801]
def CRT_CST : List Nat := [43599465, 292938863, 594011630, 140177212]
/-- `BARRETT_MU[k] = floor(2^61 / Q[k])` -/
def MU : List Nat := Q.map (fun q => 2 ^ 61 / q)
/-- `POW32[k] = 2^32 mod Q[k]` -/
def POW32 : List Nat := Q.map (fun q => 2 ^ 32 % q)
/-- `OQ[k] = Q[k] − (2^63 mod Q[k])` -/
def OQ : List Nat := Q.map (fun q => q - 2 ^ 63 % q)

/-! ### AVX lanes (`arithmetic_avx.rs`) -/

/-- `cond_sub(x, q)`: `x − (andnot(cmpgt(q, x), q))` -/
def condSub (x q : Nat) : Nat := sub_epi64 x (andnot_si256 (cmpgt_epi64 q x) q)

/-- `barrett_reduce(tmp, q, mu)` -/
def barrett (tmp q mu : Nat) : Nat :=
  let tmp_hi := tmp >>> 32
  let tmp_lo := tmp &&& mask32
  let q_hi := (mul_epu32 tmp_hi mu) >>> 29
  let q_lo := (mul_epu32 tmp_lo mu) >>> 61
  let q_approx := add_epi64 q_hi q_lo
  let r := sub_epi64 tmp (mul_epu32 q_approx q)
  condSub (condSub r q) q

/-- `reduce_b_to_canonical(x, q, mu, pow32)` -/
def reduceBToCanonical (x q mu pow32 : Nat) : Nat :=
  let x_hi := x >>> 32
  let x_lo := x &&& mask32
  let x_hi_r := condSub x_hi q
  let tmp := add_epi64 (mul_epu32 x_hi_r pow32) x_lo
  barrett tmp q mu

/-- one lane of `c_from_b_avx2`: `(r, r_shift)`, stored as `r | r_shift << 32` -/
def cFromBLane (x q mu pow32 : Nat) : Nat × Nat :=
  let r := reduceBToCanonical x q mu pow32
  let rShift := barrett (mul_epu32 r pow32) q mu
  (r, rShift)

/-- one lane of `b_from_znx64_avx2` for the coefficient `x` (a `u64` bit pattern of the `i64`) and `oq = OQ[k]` -/
def bFromZnx64Lane (x oq : Nat) : Nat :=
  let xl := x &&& (2 ^ 63 - 1)
  let sign := cmpgt_epi64 0 x
  add_epi64 xl (sign &&& oq)

/-! ### reference elements (`arithmetic.rs`) -/

/-- `c_from_b_ref`: `r = x % q`, `((r << 32) % q)` -/
def cFromBRef (x q : Nat) : Nat × Nat := (x % q, (wrap ((x % q) <<< 32)) % q)

/-- `b_from_znx64_ref`: `xl + if xu > i64::MAX { oq } else { 0 }` -/
def bFromZnx64Ref (x oq : Nat) : Nat :=
  let maskLo := 2 ^ 63 - 1
  wrap ((x &&& maskLo) + (if x > maskLo then oq else 0))

/-! ### q120b × q120c dot product (`mat_vec_avx.rs` / `mat_vec.rs`), one prime lane

`x` a q120b lane (`u64`), `y` a q120c lane (`r | r_shift << 32`). -/

/-- loop body of `vec_mat1col_product_bbc_avx2`: `(s1, s2)` -/
def bbcStep (s : Nat × Nat) (xy : Nat × Nat) : Nat × Nat :=
  let xl := xy.1 &&& mask32
  let xh := xy.1 >>> 32
  let y0 := xy.2 &&& mask32
  let y1 := xy.2 >>> 32
  let a := mul_epu32 xl y0
  let b := mul_epu32 xh y1
  let s1 := add_epi64 (add_epi64 s.1 (a &&& mask32)) (b &&& mask32)
  let s2 := add_epi64 (add_epi64 s.2 (a >>> 32)) (b >>> 32)
  (s1, s2)

/-- `reduce_bbc(s_lo, s_hi, mask_h2, h2, s2l, s2h)` -/
def reduceBbc (sLo sHi h s2l s2h : Nat) : Nat :=
  let hiLo := sHi &&& (2 ^ h - 1)
  let hiHi := sHi >>> h
  add_epi64 (add_epi64 sLo (mul_epu32 hiLo s2l)) (mul_epu32 hiHi s2h)

def bbcAvx (h s2l s2h : Nat) (l : List (Nat × Nat)) : Nat :=
  let s := l.foldl bbcStep (0, 0)
  reduceBbc s.1 s.2 h s2l s2h

/-- reference: `accum_mul_q120_bc` (`u64` `+=`, wrapping in the harness profile) and `accum_to_q120b`
(full 64-bit products) -/
def bbcRefStep (s : Nat × Nat) (xy : Nat × Nat) : Nat × Nat :=
  let xLo := xy.1 % 2 ^ 32
  let xHi := xy.1 / 2 ^ 32
  let yLo := xy.2 % 2 ^ 32
  let yHi := xy.2 / 2 ^ 32
  let xyLo := xLo * yLo
  let xyHi := xHi * yHi
  (wrap (s.1 + wrap ((xyLo &&& mask32) + (xyHi &&& mask32))), wrap (s.2 + wrap ((xyLo >>> 32) + (xyHi >>> 32))))

def bbcRef (h s2l s2h : Nat) (l : List (Nat × Nat)) : Nat :=
  let s := l.foldl bbcRefStep (0, 0)
  let lo := s.2 &&& (2 ^ h - 1)
  let hi := s.2 >>> h
  wrap (wrap (s.1 + wrap (lo * s2l)) + wrap (hi * s2h))

/-- the two accumulators without any wrap: exact sums of the low / high halves of the 32×32-bit partial products -/
def bbcExactStep (s : Nat × Nat) (xy : Nat × Nat) : Nat × Nat :=
  let a := (xy.1 % 2 ^ 32) * (xy.2 % 2 ^ 32)
  let b := (xy.1 / 2 ^ 32) * (xy.2 / 2 ^ 32)
  (s.1 + a % 2 ^ 32 + b % 2 ^ 32, s.2 + a / 2 ^ 32 + b / 2 ^ 32)

def bbcExact (h s2l s2h : Nat) (l : List (Nat × Nat)) : Nat :=
  let s := l.foldl bbcExactStep (0, 0)
  s.1 + (s.2 % 2 ^ h) * s2l + (s.2 / 2 ^ h) * s2h

end Avx.Q120
