import Poulpy.Model.Bytes
/-
Layout-metadata state machine (C17).

Rust sources: poulpy-hal/src/layouts/{znx_base,vec_znx,vec_znx_big,vec_znx_dft,scalar_znx,mat_znx}.rs,
api/scratch.rs (`take_*` = `from_data` over a slice of exactly `bytes_of`), lib.rs (`alloc_aligned`, `cast`).

`Lay` is what the safe API can observe of a limb-major container: its dimension fields, the byte
length of the buffer it owns / borrows, and the scalar width `w = size_of::<Scalar>()`
(VecZnx, ScalarZnx: 8; VecZnxBig: 8 on FFT64, 16 on NTT120; VecZnxDft: 8 on FFT64, 32 on NTT120 —
the width only scales every formula).  Buffer *contents* are irrelevant for addressing.
-/
namespace Layout
open Ser

structure Lay where
  n : Nat
  cols : Nat
  size : Nat
  maxSize : Nat
  len : Nat
  w : Nat
deriving DecidableEq, Repr

/-- `Inv` of the property statement: limb count within capacity, capacity within the buffer -/
def Lay.Inv (l : Lay) : Prop := l.size ≤ l.maxSize ∧ l.n * l.cols * l.maxSize * l.w ≤ l.len

instance (l : Lay) : Decidable l.Inv := by unfold Lay.Inv; exact inferInstance

/-- the value of an `ok` outcome (for decidable statements: `Outcome` itself has no `DecidableEq`) -/
def okVal {α : Type} : Outcome α → Option α
  | .ok v => some v
  | _ => none

/-- `(size).next_multiple_of(64)` of `alloc_aligned` -/
def pad64 (x : Nat) : Nat := (x + 63) / 64 * 64

/-- `X::alloc(n, cols, size)`: `alloc_aligned(bytes_of(n, cols, size))`, `max_size = size` -/
def alloc (n cols size w : Nat) : Lay := ⟨n, cols, size, size, pad64 (n * cols * size * w), w⟩

/-- `X::from_bytes(n, cols, size, bytes)`: `assert!(data.len() == bytes_of(n, cols, size))` -/
def fromBytes (n cols size w len : Nat) : Outcome Lay :=
  if len = n * cols * size * w then .ok ⟨n, cols, size, size, len, w⟩ else .panic "assert"

/-- `scratch.take_*(n, cols, size)`: `from_data(take_slice(bytes_of(n, cols, size)), n, cols, size)` -/
def takeScratch (n cols size w : Nat) : Lay := ⟨n, cols, size, size, n * cols * size * w, w⟩

/-- `X::from_data(data, n, cols, size)`: no validation at all (outside the admissible histories) -/
def fromData (n cols size w len : Nat) : Lay := ⟨n, cols, size, size, len, w⟩

inductive Step where
  | setSize (s : Nat)
  | reallocateLimbs (newSize : Nat)
  | readFrom (bs : Bytes)
  | view                      -- to_ref / to_mut: same metadata over the same bytes
deriving Repr

/-- run the (repaired) `VecZnx::read_from` of `Model/Bytes` on a receiver with these dimensions -/
def readMeta (rd : Rd VecZnx Unit) (l : Lay) (bs : Bytes) : Outcome Lay :=
  match rd ⟨l.n, l.cols, l.size, l.maxSize, List.replicate l.len 0⟩ bs with
  | .ok _ v _ => .ok ⟨v.n, v.cols, v.size, v.maxSize, v.data.length, l.w⟩
  | .err _ v => .ok ⟨v.n, v.cols, v.size, v.maxSize, v.data.length, l.w⟩     -- an `Err` is returned to the caller, the object lives on
  | .panic c _ => .panic c

def step (l : Lay) : Step → Outcome Lay
  | .setSize s => if s ≤ l.maxSize then .ok { l with size := s } else .panic "assert"     -- assert!(size <= self.max_size)
  | .reallocateLimbs ns => if l.size = ns then .ok l else .ok (alloc l.n l.cols ns l.w)
  | .readFrom bs => readMeta VecZnx.readFrom l bs
  | .view => .ok l

def run (l : Lay) : List Step → Outcome Lay
  | [] => .ok l
  | s :: rest => match step l s with
    | .ok l' => run l' rest
    | .err k => .err k
    | .panic c => .panic c

/-- byte range `[start, end)` of `at(i, j)` / `at_mut(i, j)` (znx_base.rs `at_ptr`, after 3faf6c4):
`assert!(i < cols)`, `assert!(j < size)`, `offset = n * (j * cols + i)` scalars,
`assert!(offset + n <= n * poly_count())` (`poly_count = rows·cols·size`, `rows = 1` here), `n` scalars long -/
def atRange (l : Lay) (i j : Nat) : Outcome (Nat × Nat) :=
  if ¬ i < l.cols then .panic "assert"
  else if ¬ j < l.size then .panic "assert"
  else if ¬ l.n * (j * l.cols + i) + l.n ≤ l.n * (1 * l.cols * l.size) then .panic "assert"
  else .ok (l.n * (j * l.cols + i) * l.w, l.n * (j * l.cols + i) * l.w + l.n * l.w)

/-- byte range of `raw()` / `raw_mut()`: `n * poly_count()` scalars from the start (`rows = 1`) -/
def rawRange (l : Lay) : Nat × Nat := (0, l.n * (l.cols * l.size) * l.w)

/-- `MatZnx::at(row, col)` (mat_znx.rs:161): `nb = bytes_of(n, cols_out, size)`,
`start = nb * cols_in * row + col * nb`, `end = start + nb` (then `data[start..end]`, bounds-checked) -/
def matAtRange (m : MatZnx) (row col : Nat) : Outcome (Nat × Nat) :=
  if ¬ row < m.rows then .panic "assert"
  else if ¬ col < m.colsIn then .panic "assert"
  else
    let nb := m.n * m.colsOut * m.size * 8
    let start := nb * m.colsIn * row + col * nb
    if start + nb > m.data.length then .panic "bounds" else .ok (start, start + nb)

/-- `cast::<T, V>(data)`: length of the result in `V`s (lib.rs:182) -/
def castLen (byteLen sizeV ptr alignV : Nat) : Outcome Nat :=
  if sizeV = 0 then .panic "assert"
  else if byteLen % sizeV ≠ 0 then .panic "assert"
  else if ptr % alignV ≠ 0 then .panic "assert"
  else .ok (byteLen / sizeV)

/-- indices touched by the AVX kernels' loop pattern: `span = n >> 2` blocks of 4 lanes, then the
scalar tail `span << 2 .. n` -/
def simdIdx (n : Nat) : List Nat :=
  (List.range (n >>> 2)).flatMap (fun k => [4 * k, 4 * k + 1, 4 * k + 2, 4 * k + 3]) ++
    List.range' ((n >>> 2) <<< 2) (n - ((n >>> 2) <<< 2))

/-! ### prepared / big layouts (VecZnxBig, VecZnxDft, SvpPPol, CnvPVecL/R, VmpPMat)

All use the trait accessors of znx_base.rs (`at(i,j)`: `assert!(i < cols())`, `assert!(j < size())`, offset
`n·(j·cols()+i)` scalars; `raw()`: `n·poly_count()` scalars) over a buffer `B::alloc_bytes(B::bytes_of_*(…))`
= `alloc_aligned` (padded to 64).  Scalar widths `size_of::<B::ScalarBig>()`, `size_of::<B::ScalarPrep>()`:
FFT64 (ref and AVX) 8 / 8 (`i64`, `f64`), NTT120 (ref and AVX) 16 / 32 (`i128`, `Q120bScalar` = 4 × u64). -/

inductive Be where
  | fft64
  | ntt120
deriving DecidableEq, Repr

def wBig : Be → Nat
  | .fft64 => 8
  | .ntt120 => 16
def wPrep : Be → Nat
  | .fft64 => 8
  | .ntt120 => 32

/-- `VecZnxBig::alloc`, `VecZnxDft::alloc`, `CnvPVecL/R::alloc` (`max_size = size`) -/
def allocPrep (n cols size w : Nat) : Lay := alloc n cols size w
/-- `SvpPPol::alloc(n, cols)`: `size() = 1` -/
def allocSvp (n cols w : Nat) : Lay := alloc n cols 1 w

/-- `VmpPMat`: `cols() = cols_in`, `poly_count() = rows·cols_in·size·cols_out` -/
structure Vmp where
  n : Nat
  rows : Nat
  colsIn : Nat
  colsOut : Nat
  size : Nat
  len : Nat
  w : Nat
deriving DecidableEq, Repr

def allocVmp (n rows colsIn colsOut size w : Nat) : Vmp :=
  ⟨n, rows, colsIn, colsOut, size, pad64 (n * rows * colsIn * colsOut * size * w), w⟩

/-- the trait's `at(i, j)` on a `VmpPMat` (`poly_count() = rows·cols_in·size·cols_out`): the third assertion
rejects every access to a matrix with zero rows or zero output columns -/
def vmpAtRange (m : Vmp) (i j : Nat) : Outcome (Nat × Nat) :=
  if ¬ i < m.colsIn then .panic "assert"
  else if ¬ j < m.size then .panic "assert"
  else if ¬ m.n * (j * m.colsIn + i) + m.n ≤ m.n * (m.rows * m.colsIn * m.size * m.colsOut) then .panic "assert"
  else .ok (m.n * (j * m.colsIn + i) * m.w, m.n * (j * m.colsIn + i) * m.w + m.n * m.w)

def vmpRawRange (m : Vmp) : Nat × Nat := (0, m.n * (m.rows * m.colsIn * m.size * m.colsOut) * m.w)

/-- `VecZnxDft::into_big` (`from_data(self.data, n, cols, size)`): same bytes, scalar width of `ScalarBig` -/
def intoBig (l : Lay) (be : Be) : Lay := ⟨l.n, l.cols, l.size, l.size, l.len, wBig be⟩

/-! ### NTT120 `vec_znx_idft_apply_consume`: in-place 32-byte → 16-byte compaction
(`compact_all_blocks_scalar`, reference/ntt120/vec_znx_dft.rs:327).  Units: `u64` words of the buffer.
For block `k < n_blocks = cols·size`: `intt_ref` in place on `[4nk, 4nk+4n)`; then for `c < n`:
read the four words `[4nk+4c, 4nk+4c+4)`, then write the `i128` at words `[2nk+2c, 2nk+2c+2)`. -/

def compactBlock (n k : Nat) : Nat × Nat := (4 * n * k, 4 * n * k + 4 * n)
def compactRead (n k c : Nat) : Nat × Nat := (4 * n * k + 4 * c, 4 * n * k + 4 * c + 4)
def compactWrite (n k c : Nat) : Nat × Nat := (2 * n * k + 2 * c, 2 * n * k + 2 * c + 2)

/-- program order of the (block, coefficient) steps -/
def stepBefore (k c k' c' : Nat) : Prop := k < k' ∨ (k = k' ∧ c < c')

/-- the whole access trace, for the driver: `(r, a, b)` / `(w, a, b)` events in program order -/
def compactTrace (n nBlocks : Nat) : List (Bool × Nat × Nat) :=
  (List.range nBlocks).flatMap (fun k => (List.range n).flatMap (fun c =>
    [(false, (compactRead n k c).1, (compactRead n k c).2), (true, (compactWrite n k c).1, (compactWrite n k c).2)]))

/-- executable check of the hazard on a trace: no write touches a word that a *later* read needs -/
def traceClobbers : List (Bool × Nat × Nat) → Bool
  | [] => false
  | (true, a, b) :: rest => rest.any (fun e => !e.1 && decide (a < e.2.2) && decide (e.2.1 < b)) || traceClobbers rest
  | (false, _, _) :: rest => traceClobbers rest

end Layout
