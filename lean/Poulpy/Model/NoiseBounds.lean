/-
Worst-case noise bounds of the binary-FHE layer as closed formulas (what `pdriver noise` evaluates and what the numeric
conditions of C14 / C15 are instantiated with).  All quantities are non-negative integers in units of `2^-64` of the torus
(`∞`-norm of the centred error polynomial).  `dsize = 1`.  Imports nothing.

Derivations (one external product `a ⊡ GGSW(m)`, `m ∈ {0, 1}`, GGSW rows with key error `≤ E`):
* gadget term `Σ_{i ≤ rank} Σ_{r < dnum} digit_{i,r}·E_{i,r}`: `‖digit‖₁ ≤ N·D` with `D` the limb bound of the decomposed input — `2^b − 1` for a
  ciphertext as the routines return it (`EpCoeff.ep_coeff`), `2·(2^b − 1)` for the difference `t − f` of a CMux (`EpCoeff.cmux_coeff`) ⇒
  `(rank+1)·dnum·N·D·E` (the PROVED bounds; balanced digits would give `2^{b-1}`);
* truncation: the decomposition reads the top `dnum·b` bits of the `k`-bit input; the dropped part (`< 2^{-dnum·b}/2` per coefficient
  after rounding) is multiplied by `m·σ_i`, `σ_0 = 1`, `σ_i = s_i`, `‖s_i‖₁ ≤ hw` ⇒ `(1 + rank·hw)·2^{-dnum·b-1}` (zero if `k ≤ dnum·b`);
* normalisation: at most one unit of the result's last limb per column (`C02.normTol`) ⇒ `(1 + rank·hw)·2^{-k}`.
-/

namespace NoiseB

structure Par where
  /-- ring degree -/
  n : Nat
  rank : Nat
  /-- rows and radix of the GGSW / key -/
  dnum : Nat
  b : Nat
  /-- precision (bits) of the ciphertext the product is applied to / returns -/
  k : Nat
  /-- bound on `‖s_i‖₁` of the GLWE secret (`N` for a ternary key) -/
  hw : Nat
deriving Repr

/-- limb bound of a ciphertext as returned by the routines -/
def dig (p : Par) : Nat := 2 ^ p.b - 1
def gadget (p : Par) (D E : Nat) : Nat := (p.rank + 1) * p.dnum * p.n * D * E
def trunc (p : Par) : Nat := if p.dnum * p.b < p.k then (1 + p.rank * p.hw) * 2 ^ (64 - p.dnum * p.b - 1) else 0
def normU (p : Par) : Nat := (1 + p.rank * p.hw) * 2 ^ (64 - p.k)

/-- one external product (`BrMachine.B`, without the block's normalisation) -/
def epBound (p : Par) (E : Nat) : Nat := gadget p (dig p) E + trunc p
/-- one CMux (`BddMachine.Bc`): external product of `t − f` + normalisation of the sum -/
def cmuxBound (p : Par) (E : Nat) : Nat := gadget p (2 * dig p) E + trunc p + normU p

/-- blind rotation (`BrMachine.exec_spec`): `2·n_lwe·B + (#blocks)·U` -/
def blindBound (p : Par) (nLwe blocks E : Nat) : Nat := 2 * (nLwe * epBound p E) + blocks * normU p

/-- `bdd_eval_noise`: `L` levels -/
def bddBound (p : Par) (L E : Nat) : Nat := L * cmuxBound p E

/-- `Δ = 2^-2` (two bits of precision for a bit) in units of `2^-64` -/
def bitDelta : Nat := 2 ^ 62

/-- numeric condition of `word_op_correct`: `2·(L·Bc + Bp) < Δ` -/
def wordOk (p : Par) (L E Bp : Nat) : Bool := 2 * (bddBound p L E + Bp) < bitDelta

/-- key error of a circuit-bootstrapped GGSW (`cbt_cell_error`): `hw·(blind + trace) + expand` -/
def cbtErr (pBrk : Par) (nLwe blocks Ebrk Bt : Nat) (pTsk : Par) (Etsk : Nat) : Nat :=
  pBrk.hw * (blindBound pBrk nLwe blocks Ebrk + Bt) + (gadget pTsk (dig pTsk) Etsk + trunc pTsk + normU pTsk)

/-- numeric condition of `blind_rotation_correct` for a table encoded at `2^-logDelta` -/
def blindOk (p : Par) (nLwe blocks E logDelta : Nat) : Bool := 2 * blindBound p nLwe blocks E < 2 ^ (64 - logDelta)

/-! ### the PROVED per-CMux bound (`EpCoeff.cmux_coeff` / `CmuxMachine.Par.errBound`), in units of `2^-(b·rs + b·S)` of the torus -/

/-- `2^(b·rs)·(rank+1)·dnum·(Σ_{di<dsize} 2^(b·di))·N·2·(2^b − 1)·BE + (1 + rank·hw)·normTol(b·rs, b·S)`: the ciphertexts of the evaluation
have digits `≤ 2^b − 1` (what `cmux` returns), so the decomposed difference has limbs `≤ 2·(2^b − 1)`; `BE` = key error in units of `2^-(b·S)` -/
def cmuxProved (n rank dnum dsize b rs S hw BE : Nat) : Nat :=
  2 ^ (b * rs) * ((rank + 1) * (dnum * (((List.range dsize).map fun di => 2 ^ (b * di)).sum * (n * (2 * (2 ^ b - 1))) * BE)))
    + (1 + rank * hw) * (if b * S ≤ b * rs then 0 else 2 ^ (b * S))

/-- `2·L·Bc < Δ`, `Δ = 2^-2` -/
def wordOkProved (n rank dnum dsize b rs S hw BE L : Nat) : Bool :=
  2 * (L * cmuxProved n rank dnum dsize b rs S hw BE) < 2 ^ (b * rs + b * S - 2)

/-- `⌈log2⌉`-free printing helper: the position of the highest set bit (0 for 0) -/
def log2c (x : Nat) : Nat := if x = 0 then 0 else Nat.log2 x + 1

end NoiseB
