import Poulpy.Model.Basic
/-
Model of the packed-integer layer of poulpy-bin-fhe (C15)

  poulpy-bin-fhe/src/bdd_arithmetic/mod.rs                 UnsignedInteger::{BITS, LOG_BITS, LOG_BYTES, bit_index}
  poulpy-bin-fhe/src/bdd_arithmetic/ciphertexts/fhe_uint.rs encrypt_sk / decrypt layout, pack, get_bit_glwe,
                                                             get_bit_lwe, get_byte, zero_byte, splice_u8,
                                                             splice_u16, sext
  poulpy-bin-fhe/src/bdd_arithmetic/eval.rs                 Cswap (plaintext contract)
  …/ciphertexts/fhe_uint_prepared.rs                        prepare_custom (which bits survive)

at **plaintext level**: a packed integer is its plaintext polynomial.  Every rotation the code
performs is by a multiple of `2^log_gap` (`log_gap = log N − LOG_BITS`) and every trace keeps
multiples of `(N >> start)`, so everything lives in the sub-ring `Z[Y]/(Y^BITS + 1)`, `Y = X^{2^log_gap}`:
the model keeps the `BITS` *slots* (slot `σ` = coefficient `σ << log_gap`) as a function `Nat → Int`
(only arguments `< BITS` matter).  `glwe_rotate`, `glwe_trace` (normalised: kept coefficients
unchanged, the others zero), `glwe_add/sub` are modelled by their action on slots; noise is dropped.
-/

namespace FheUint

structure Ty where
  bits : Nat
  logBits : Nat
  logBytes : Nat
deriving Repr, DecidableEq

def u8 : Ty := ⟨8, 3, 0⟩
def u16 : Ty := ⟨16, 4, 1⟩
def u32 : Ty := ⟨32, 5, 2⟩

/-- `UnsignedInteger::bit_index(i) = ((i & 7) << LOG_BYTES) | (i >> 3)` -/
def bitIndex (T : Ty) (i : Nat) : Nat := ((i &&& 7) <<< T.logBytes) ||| (i >>> 3)

/-- inverse: slot `σ = p·NB + B` holds bit `8·B + p` -/
def bitIndexInv (T : Ty) (s : Nat) : Nat := ((s &&& (2 ^ T.logBytes - 1)) <<< 3) ||| (s >>> T.logBytes)

/-- coefficient of bit `i` in a ring of degree `2^logN`: `bit_index(i) << log_gap` -/
def coeffIndex (T : Ty) (logN i : Nat) : Nat := bitIndex T i <<< (logN - T.logBits)

abbrev Slots := Nat → Int

/-- `glwe_rotate(r·2^gap, ·)` on slots: multiplication by `Y^r` in `Z[Y]/(Y^B + 1)`, `|r| ≤ 2B` -/
def rot (B : Nat) (r : Int) (p : Slots) : Slots := fun s =>
  let c := (((s : Int) - r) % (2 * (B : Int))).toNat
  if c < B then p c else - p (c - B)

/-- `glwe_trace(start, ·)`: keeps the coefficients that are multiples of `N >> start`, i.e. the slots
that are multiples of `B >> start`; zero elsewhere -/
def trace (B start : Nat) (p : Slots) : Slots := fun s => if s % (B >>> start) = 0 then p s else 0

def add (p q : Slots) : Slots := fun s => p s + q s
def sub (p q : Slots) : Slots := fun s => p s - q s

/-- `encrypt_sk`: `data_bits[bit_index(i) << log_gap] = data.bit(i)` -/
def encode (T : Ty) (w : Nat) : Slots := fun s => if s < T.bits then ((w >>> bitIndexInv T s) % 2 : Nat) else 0

/-- `decrypt`: `bits[i] = data_bits[bit_index(i) << log_gap] as u8`, `from_bits` sets bit `i` iff that is non-zero
(the plaintext is decoded at 2 bits of precision: the value mod 4) -/
def decodeBit (T : Ty) (p : Slots) (i : Nat) : Bool := p (bitIndex T i) % 4 ≠ 0

def decode (T : Ty) (p : Slots) : Nat :=
  (List.range T.bits).foldl (fun acc i => if decodeBit T p i then acc + 2 ^ i else acc) 0

/-- `pack`: bit ciphertext `i` goes to coefficient `bit_index(i) << log_gap` -/
def pack (T : Ty) (bits : List Int) : Slots := fun s =>
  if s < T.bits then bits.getD (bitIndexInv T s) 0 else 0

/-- `get_bit_glwe(bit)`: rotate by `-(bit_index(bit) << log_gap)`, full trace -/
def getBit (T : Ty) (i : Nat) (p : Slots) : Slots := trace T.bits 0 (rot T.bits (-(bitIndex T i : Int)) p)

/-- `get_byte(byte)` -/
def getByte (T : Ty) (byte : Nat) (p : Slots) : Slots :=
  trace T.bits (T.logBits - T.logBytes) (rot T.bits (-(bitIndex T (byte <<< 3) : Int)) p)

/-- `zero_byte(byte)`: rotate the byte to position 0, subtract its trace, rotate back -/
def zeroByte (T : Ty) (byte : Nat) (p : Slots) : Slots :=
  let r : Int := bitIndex T (byte <<< 3)
  let p1 := rot T.bits (-r) p
  let p2 := sub p1 (trace T.bits (T.logBits - T.logBytes) p1)
  rot T.bits r p2

/-- `splice_u8(dst, src, a, b)` -/
def spliceU8 (T : Ty) (dst src : Nat) (a b : Slots) : Slots :=
  let r : Int := bitIndex T (dst <<< 3)
  let self1 := zeroByte T dst a
  let t1 := rot T.bits (-(bitIndex T (src <<< 3) : Int)) b
  let t2 := trace T.bits (T.logBits - T.logBytes) t1
  let t3 := rot T.bits r t2
  add self1 t3

/-- `splice_u16(dst, src, a, b)` -/
def spliceU16 (T : Ty) (dst src : Nat) (a b : Slots) : Slots :=
  let tmp := spliceU8 T (dst <<< 1) (src <<< 1) a b
  spliceU8 T ((dst <<< 1) + 1) ((src <<< 1) + 1) tmp b

/-- first half of `sext(byte)`: the sign bit of byte `byte` isolated (rotate + full trace) and replicated
over the 8 slots of byte 0 (three doubling steps `rotate((1 << LOG_BYTES) << i)` + add) -/
def sextFill (T : Ty) (byte : Nat) (p : Slots) : Slots :=
  let s0 := getBit T ((byte <<< 3) + 7) p          -- rotate by -(bit_index(8·byte+7) << log_gap), full trace
  (List.range 3).foldl (fun s i => add s (rot T.bits ((((1 <<< T.logBytes) <<< i : Nat) : Int)) s)) s0

/-- `sext(byte)`: every byte above `byte` is spliced with the fill byte -/
def sext (T : Ty) (byte : Nat) (p : Slots) : Slots :=
  (List.range (2 ^ T.logBytes - (byte + 1))).foldl (fun self k => spliceU8 T (byte + 1 + k) 0 self (sextFill T byte p)) p

/-- `cswap` under a GGSW encrypting `bit` (contract of C04) -/
def cswap (bit : Nat) (a b : Slots) : Slots × Slots := if bit = 1 then (b, a) else (a, b)

/-- the word a partially prepared integer stands for: bits outside `[start, start+count)` are zero GGSWs -/
def prepareCustomWord (T : Ty) (w start count : Nat) : Nat :=
  (List.range T.bits).foldl (fun acc i => if start ≤ i ∧ i < start + count ∧ (w >>> i) % 2 = 1 then acc + 2 ^ i else acc) 0

end FheUint
