import Poulpy.Model.Basic
/-
Model of the lookup-table code of poulpy-bin-fhe (C14)

  poulpy-bin-fhe/src/blind_rotation/lut.rs           LookupTable::alloc, lookup_table_set,
                                                       lookup_table_rotate, DivRound, max_bit_size
  poulpy-bin-fhe/src/blind_rotation/algorithms/mod.rs mod_switch_2n, div_round_by_pow2
  poulpy-bin-fhe/src/blind_rotation/utils.rs          set_xai_plus_y

and of the HAL pieces these call (local copies under the namespace `Lut`, because the ring and
normalisation models of C08/C09 live in other slices):

  poulpy-cpu-ref/src/reference/znx/rotate.rs          znx_rotate            → `Lut.rotate`
  poulpy-cpu-ref/src/reference/znx/switch_ring.rs     znx_switch_ring (down) → `Lut.switchDown`
  poulpy-cpu-ref/src/reference/vec_znx/normalize.rs   vec_znx_normalize_assign (first / middle /
                                                       final step, lsh = 0)  → `Lut.normVec`

Representation.  A polynomial with several limbs is kept **coefficient-major**: `List Vec`, one
`Vec = List Int` (limb 0 first) per coefficient.  The Rust loops are limb-major, but every
operation used here either permutes / negates whole coefficients identically on each limb
(rotate, switch_ring, copy) or works on one coefficient's limb vector at a time (normalisation),
so the two layouts describe the same function; `toCol` converts to the shared `Col` layout that the
harness prints.  All integers are `i64` values: every Rust operator is followed by its wrap.
-/

namespace Lut

abbrev Vec := List Int

/-- limb-wise `znx_negate` (wrapping) -/
def negV (v : Vec) : Vec := v.map (fun x => w64 (-x))

/-- `znx_rotate(p, res, src)`: `res = X^p · src` in `Z[X]/(X^n+1)`, `n = src.len()` a power of two
(`p & (2n-1)` is then `p mod 2n`, `& (n-1)` is `mod n`). -/
def rotate (p : Int) (a : List Vec) : List Vec :=
  let n := a.length
  if n = 0 then a
  else
    let mp2n := (p % (2 * (n : Int))).toNat      -- p & (2n-1)
    let mp1n := mp2n % n                          -- & (n-1)
    let src1 := a.take (n - mp1n)
    let src2 := a.drop (n - mp1n)
    if mp2n < n then src2.map negV ++ src1        -- neg_first
    else src2 ++ src1.map negV

/-- `a.iter().step_by(gap)` (fuel = length) -/
def stepBy {α : Type} (gap : Nat) : Nat → List α → List α
  | 0, _ => []
  | _ + 1, [] => []
  | fuel + 1, x :: xs => x :: stepBy gap fuel (xs.drop (gap - 1))

/-- `znx_switch_ring` from degree `nOut * gap` down to `nOut`:
`res.iter_mut().zip(a.iter().step_by(gap))` -/
def switchDown {α : Type} (gap nOut : Nat) (a : List α) : List α := (stepBy gap a.length a).take nOut

/-- `get_digit_i64(base2k, x) = (x << (64-base2k)) >> (64-base2k)`: the balanced residue -/
def getDigit (b : Nat) (x : Int) : Int := (x + 2 ^ (b - 1)) % 2 ^ b - 2 ^ (b - 1)

/-- `get_carry_i64(base2k, x, digit) = x.wrapping_sub(digit) >> base2k` -/
def getCarry (b : Nat) (x d : Int) : Int := w64 (x - d) / 2 ^ b

/-- the three step kernels of `vec_znx_normalize_assign` on one coefficient, least significant
limb first; `first` = this is limb `size-1` (first step), a last element that is not first = limb 0
(final step), everything between = middle step. -/
def normRev (b : Nat) : Bool → Int → List Int → List Int
  | _, _, [] => []
  | true, _, [x] => [getDigit b x]
  | false, c, [x] => [getDigit b (w64 (getDigit b x + c))]
  | true, _, x :: rest =>
    let d := getDigit b x
    d :: normRev b false (getCarry b x d) rest
  | false, c, x :: rest =>
    let d := getDigit b x
    let cr := getCarry b x d
    let dpc := w64 (d + c)
    let x' := getDigit b dpc
    x' :: normRev b false (w64 (cr + getCarry b dpc x')) rest

/-- `vec_znx_normalize_assign` on the limb vector of one coefficient -/
def normVec (b : Nat) (v : Vec) : Vec := (normRev b true 0 v.reverse).reverse

structure Table where
  /-- `extension_factor` polynomials of degree `n`, coefficient-major -/
  data : List (List Vec)
  drift : Nat
deriving Repr

/-- `(usize::BITS - x.leading_zeros())` -/
def bitLen (x : Nat) : Nat := if x = 0 then 0 else Nat.log2 x + 1

def isPow2 (x : Nat) : Bool := x != 0 && 2 ^ Nat.log2 x == x

/-- `max_bit_size` -/
def maxBitSize (f : List Int) : Nat := f.foldl (fun m v => max m (if v = 0 then 0 else Nat.log2 v.natAbs + 1)) 0

/-- `Vec::rotate_right(k)` for `k ≤ len` -/
def rotateRight {α : Type} (k : Nat) (l : List α) : List α := l.drop (l.length - k) ++ l.take (l.length - k)

/-- `lookup_table_rotate(k, res)`; `n` = degree of each polynomial, `k` an `i64`. -/
def lutRotate (n : Nat) (k : Int) (data : List (List Vec)) : List (List Vec) :=
  let ext := data.length
  let twoNExt : Int := ((2 * n * ext : Nat) : Int)
  -- `((k + two_n_ext as i64) % two_n_ext as i64) as usize`
  let kPos : Nat := (Int.tmod (w64 (k + twoNExt)) twoNExt % 2 ^ 64).toNat
  let kHi := kPos / ext
  let kLo := kPos % ext
  let r0 : Int := w64 (kHi : Int)            -- `k_hi as i64`
  let r1 : Int := w64 (r0 + 1)               -- `k_hi as i64 + 1`
  let rotated := data.mapIdx fun i p => if i < ext - kLo then rotate r0 p else rotate r1 p
  rotateRight kLo rotated

/-- `lookup_table_set(res, f, k)` on a freshly allocated table (`LookupTable::alloc`) of
`ext` polynomials of degree `n`, radix `b`, precision `kLut` (`size = ⌈kLut / b⌉` limbs). -/
def lutSet (n ext b kLut : Nat) (f : List Int) (k : Nat) : Outcome Table :=
  if !(isPow2 ext) then .panic "assert"                           -- LookupTable::alloc
  else if b = 0 then .panic "overflow"                             -- div_ceil(0)
  else
    let size := (kLut + b - 1) / b
    if f.length > n then .panic "assert"
    else
      let limbs := (k + b - 1) / b
      if !(maxBitSize f + k % b < 64) then .panic "assert"         -- debug assertion
      else if !(limbs ≤ size) then .panic "assert"                 -- debug assertion
      else if limbs = 0 then .panic "assert"                       -- `at_mut(0, usize::MAX)`
      else
        let scale : Int := if k % b ≠ 0 then 2 ^ (b - k % b) else 1
        let fLen := f.length
        let domain := n * ext
        if fLen = 0 then .panic "overflow"                         -- div_round by zero
        else
          let step := (domain + fLen / 2) / fLen
          if fLen * step > domain then .panic "bounds"             -- `lut_at[start..end]`
          else
            let unit (v : Int) : Vec := (List.range size).map fun j => if j = limbs - 1 then v else 0
            let filled : List Vec := f.flatMap fun fi => List.replicate step (unit (w64 (fi * scale)))
            let lutFull : List Vec := filled ++ List.replicate (domain - fLen * step) (unit 0)
            let drift := step / 2
            let polys : List (List Vec) :=
              if ext > 1 then
                (List.range ext).map fun i =>
                  switchDown ext n ((List.range i).foldl (fun p _ => rotate (-1) p) lutFull)
              else [lutFull]
            let normed := polys.map fun p => p.map (normVec b)
            .ok { data := lutRotate n (-(drift : Int)) normed, drift := drift }

/-! ### The accumulator loops of `cggi/algorithm.rs` at plaintext level

The three loops (`execute_standard`, `execute_block_binary`, `execute_block_binary_extended`) are
modelled on *plaintext* accumulators: the external product `acc ⊡ BRK_i` by the GGSW encryption of
the key bit `s_i` is replaced by its contract `s_i · acc` (C04; noise dropped), everything else —
index arithmetic, which accumulator polynomial feeds which, which terms are **skipped** — is the
code's.  `x_pow_a[k]` is `X^k` (`set_xai_plus_y(k, 0)`), `0 ≤ k < 2N`. -/

def addP (x y : List Vec) : List Vec := List.zipWith (List.zipWith (· + ·)) x y
def subP (x y : List Vec) : List Vec := List.zipWith (List.zipWith (· - ·)) x y
def scaleP (s : Int) (x : List Vec) : List Vec := x.map (·.map (s * ·))
def zeroP (n size : Nat) : List Vec := List.replicate n (List.replicate size 0)

/-- `(x + two_n_ext as i64) & (two_n_ext - 1) as i64) as usize` for a power of two -/
def posMod (x : Int) (m : Nat) : Nat := (w64 (x + (m : Int)) % (m : Int)).toNat

/-- initial accumulator of the extended loop: `acc[i] = X^{b_hi (+1)} · lut.data[j]` -/
def extInit (ext : Nat) (bPos : Nat) (data : List (List Vec)) : List (List Vec) :=
  let bHi := bPos / ext
  let bLo := bPos % ext
  (List.range ext).map fun i =>
    if i < bLo then rotate ((bHi : Int) + 1) (data.getD (ext - bLo + i) [])
    else rotate (bHi : Int) (data.getD (i - bLo) [])

/-- contribution of one LWE coefficient `(a, s)` to `acc_add_dft` in the extended loop, from the
accumulators `acc` of the block start; mirrors the three loops (`x_pow_a[(ai_hi + 1) & (two_n - 1)]`
for the wrapped polynomials; only the `ai_lo = 0` case may skip the identity monomial). -/
def extTerm (n ext : Nat) (acc : List (List Vec)) (a s : Int) (add : List (List Vec)) : List (List Vec) :=
  let twoN := 2 * n
  let aiPos := posMod a (twoN * ext)
  let aiHi := aiPos / ext
  let aiLo := aiPos % ext
  let vmp : List (List Vec) := acc.map (scaleP s)
  add.mapIdx fun i addi =>
    let vi := vmp.getD i []
    if aiLo = 0 then
      if aiHi ≠ 0 then addP addi (subP (rotate (aiHi : Int) vi) vi) else addi
    else if i < aiLo then
      addP addi (subP (rotate (((aiHi + 1) % twoN : Nat) : Int) (vmp.getD (ext - aiLo + i) [])) vi)
    else
      addP addi (subP (rotate (aiHi : Int) (vmp.getD (i - aiLo) [])) vi)

/-- `a.chunks_exact(block)` -/
def chunksExact {α : Type} (block : Nat) : Nat → List α → List (List α)
  | 0, _ => []
  | fuel + 1, l => if block = 0 ∨ l.length < block then [] else l.take block :: chunksExact block fuel (l.drop block)

/-- one block of the extended loop: `acc_add_dft` collects the terms of the block's coefficients (all computed
from the accumulators of the block start), then `acc[j] ← normalize(acc[j] + acc_add[j])` -/
def extBlock (n ext b size : Nat) (acc : List (List Vec)) (blk : List (Int × Int)) : List (List Vec) :=
  let add := blk.foldl (fun add (as : Int × Int) => extTerm n ext acc as.1 as.2 add) (List.replicate ext (zeroP n size))
  List.zipWith (fun x y => (addP x y).map (normVec b)) acc add

/-- all accumulators of `execute_block_binary_extended` after the last block -/
def blindExtAcc (n ext b size block : Nat) (data : List (List Vec)) (lwe2n : List Int) (sk : List Int) : List (List Vec) :=
  match lwe2n with
  | [] => []
  | b0 :: a =>
    let pairs := List.zip a sk
    (chunksExact block pairs.length pairs).foldl (extBlock n ext b size) (extInit ext (posMod b0 (2 * n * ext)) data)

/-- `execute_block_binary_extended` at plaintext level: polynomial 0 of the final accumulators
(`res ← acc[0]`).  `lwe2n = b :: a` is the mod-switched ciphertext, `sk` the key bits. -/
def blindExt (n ext b size block : Nat) (data : List (List Vec)) (lwe2n : List Int) (sk : List Int) : List Vec :=
  (blindExtAcc n ext b size block data lwe2n sk).getD 0 []

/-- `execute_standard` / `execute_block_binary` (`ext = 1`) at plaintext level:
`acc ← acc + Σ_{block} s_i · (X^{a_i} − 1) · acc`, normalised. -/
def blindPlain (b block : Nat) (lut0 : List Vec) (lwe2n : List Int) (sk : List Int) : List Vec :=
  match lwe2n with
  | [] => []
  | b0 :: a =>
    let pairs := List.zip a sk
    (chunksExact block pairs.length pairs).foldl (fun acc blk =>
      let add := blk.foldl (fun add (as : Int × Int) =>
        addP add (scaleP as.2 (subP (rotate as.1 acc) acc))) (acc.map (·.map fun _ => 0))
      (addP acc add).map (normVec b)) (rotate b0 lut0)

/-- limb-major view of one polynomial (`Col`: limb → coefficients) -/
def toCol (size : Nat) (p : List Vec) : Col := (List.range size).map fun j => p.map fun v => v.getD j 0

/-- `div_round_by_pow2(x, k) = (x + (1 << (k-1))) >> k` -/
def divRoundByPow2 (x : Int) (k : Nat) : Int := w64 (x + 2 ^ (k - 1)) / 2 ^ k

/-- `mod_switch_2n(n, res, lwe, rot_dir)`; `limbs` = the rows `lwe.data().at(0, i)` (each of
length `n_lwe + 1`), `b = lwe.base2k()`, `left` = `rot_dir == Left`. -/
def modSwitch2n (n b : Nat) (limbs : List (List Int)) (left : Bool) : Outcome (List Int) :=
  match limbs with
  | [] => .panic "assert"
  | l0 :: _ =>
    if n = 0 then .panic "overflow"
    else
      let log2n := bitLen (n - 1) + 1
      let bits := log2n - 1                                   -- the values are taken modulo n
      let sgn (x : Int) : Int := if left then w64 (-x) else x
      let res0 := l0.map sgn
      if b > bits then
        let diff := b - bits
        .ok (res0.map fun x => divRoundByPow2 x diff)
      else if b = 0 then .panic "overflow"                  -- `bits % base2k`
      else
        let rem := b - bits % b
        let size := (bits + b - 1) / b
        if size > limbs.length then .panic "assert"         -- `at(0, i)` past the last limb
        else
          .ok ((List.range (size - 1)).foldl (fun y i' =>
            let i := i' + 1
            let xi := (limbs.getD i []).map sgn
            if i = size - 1 ∧ rem ≠ b then
              let kRem := b - rem
              List.zipWith (fun x y => w64 (w64 (y * 2 ^ kRem) + divRoundByPow2 x rem)) xi y
            else
              List.zipWith (fun x y => w64 (w64 (y * 2 ^ b) + x)) xi y) res0)

/-- `set_xai_plus_y(module, ai, y, res, buf)` on a zeroed `buf`: the polynomial handed to
`svp_prepare` (`n` a power of two, `ai < 2n`). -/
def setXaiPlusY (n ai : Nat) (y : Int) : Poly :=
  let idx := if ai < n then ai else (ai - n) % n
  let v : Int := if ai < n then 1 else -1
  let raw := (List.range n).map fun j => if j = idx then v else 0
  raw.mapIdx fun j x => if j = 0 then w64 (x + y) else x

end Lut
