import Poulpy.Model.ScratchOps2
/-
C12, third batch: the remaining `*_tmp_bytes` queries of poulpy-core (prepare wrappers, compressed key
wrappers, `glwe_mul_plain`, `glwe_tensor_apply`, `glwe_tensor_square_apply`), poulpy-bin-fhe (blind
rotation and its keys, circuit bootstrapping and its keys, BDD keys, `fhe_uint_prepare`, the BDD blind
rotations / selection / retrieval, the two-word circuits, `FheUint` encrypt/decrypt) and poulpy-ckks
(multiplications, composites, `ckks_all_ops*`).  Same conventions as Model/ScratchOps.lean.
-/

namespace Scratch

/-! ### prepare wrappers (poulpy-core/src/layouts/prepared) -/

/-- gglwe_prepare_tmp_bytes = ggsw_prepare_tmp_bytes = vmp_prepare_tmp_bytes(..): shape-independent; every
key wrapper (`glwe_switching_key_prepare`, `glwe_automorphism_key_prepare`, `prepare_tensor_key`,
`gglwe_to_ggsw_key_prepare`, `lwe_switching_key_prepare`, `lwe_to_glwe_key_prepare`, `glwe_to_lwe_key_prepare`)
returns the value of the query it delegates to -/
def tbPrepare (be : BE) (n : Nat) : Nat := vmpPrepTmp be n

/-- `depth` nested entry assertions (wrapper → … → `gglwe_prepare`), then `vmp_prepare` -/
def treePrepare (be : BE) (n : Nat) : Nat → AllocTree
  | 0 => treeVmpPrepare be n
  | d + 1 => .need (tbPrepare be n) (treePrepare be n d)

/-- keys made of `cnt` matrices prepared one after the other on the same scratch
(`gglwe_to_ggsw_key_prepare`: one assertion, then `rank` × `gglwe_prepare`; `blind_rotation_key_prepare`:
`n_lwe` × `ggsw_prepare`) -/
def treePrepareMany (be : BE) (n cnt : Nat) (outer : Bool) : AllocTree :=
  if outer then .need (tbPrepare be n) (loop cnt (treePrepare be n 1)) else loop cnt (treePrepare be n 1)

/-- circuit_bootstrapping_key_prepare_tmp_bytes / prepare_bdd_key_tmp_bytes: a `max` of equal values -/
def treeCbtKeyPrepare (be : BE) (n nLwe rank nAtk : Nat) : AllocTree :=
  altList [treePrepareMany be n nLwe false, treePrepareMany be n rank true, loop nAtk (treePrepare be n 2)]

def treeBddKeyPrepare (be : BE) (n nLwe rank nAtk : Nat) (ksGlwe : Bool) : AllocTree :=
  altList [treeCbtKeyPrepare be n nLwe rank nAtk, if ksGlwe then treePrepare be n 2 else .done, treePrepare be n 3]

/-! ### compressed key wrappers (poulpy-core/src/encryption/compressed): the formulas are those of the
uncompressed wrappers with `gglwe_compressed_encrypt_sk_tmp_bytes` (same value) -/

def treeSwitchingKeyCompressedEncryptSk (be : BE) (n : Nat) (k : K) : AllocTree :=
  .need (tbSwitchingKeyEncryptSk be n k)
    (.take (scalarBytes n k.rankIn)
      (.take (svpBytes be n k.rankOut)
        (.alt (leaf (scalarBytes n 1)) (treeGglweCompressedEncryptSk be n k))))

def treeAutomorphismKeyCompressedEncryptSk (be : BE) (n : Nat) (k : K) : AllocTree :=
  .need (tbAutomorphismKeyEncryptSk be n k)
    (.take (svpBytes be n k.rankOut)
      (.alt (leaf (scalarBytes n k.rankOut)) (treeGglweCompressedEncryptSk be n k)))

def treeTensorKeyCompressedEncryptSk (be : BE) (n : Nat) (k : K) : AllocTree :=
  .need (tbTensorKeyEncryptSk be n k)
    (.take (svpBytes be n k.rankOut)
      (.take (scalarBytes n (pairs k.rankOut))
        (.alt (treeSecretTensorPrepare be n k.rankOut)
          (treeGglweCompressedEncryptSk be n { k with rankIn := pairs k.rankOut }))))

def treeGglweToGgswKeyCompressedEncryptSk (be : BE) (n : Nat) (k : K) : AllocTree :=
  .need (tbGglweToGgswKeyEncryptSk be n k)
    (.take (svpBytes be n k.rankOut)
      (.take (scalarBytes n (pairs k.rankOut))
        (.alt (treeSecretTensorPrepare be n k.rankOut)
          (.take (scalarBytes n k.rankOut)
            (loop k.rankOut (treeGglweCompressedEncryptSk be n { k with rankIn := k.rankOut }))))))

/-! ### convolution-based products: glwe_mul_plain, glwe_tensor_apply, glwe_tensor_square_apply -/

/-- normalize_input_limb_bound(full, res_size, res_base2k, in_base2k, offset_bits) -/
def limbBound (full resSize rb ib off : Nat) : Nat := min full (ceilDiv (resSize * rb + off) ib)
/-- normalize_input_limb_bound_worst_case -/
def limbBoundWorst (full resSize rb ib : Nat) : Nat := limbBound full resSize rb ib (ib - 1)
/-- `cnv_offset_hi` of the `(hi, lo)` split of a bit offset -/
def cnvHi (off ib : Nat) : Nat := if off < ib then 0 else off / ib - 1
/-- `usize` subtraction as compiled in release mode: it wraps (the bodies compute `a_size + b_size - cnv_offset_hi`
without checking that the offset lies inside the product) -/
def wsub (x y : Nat) : Nat := if y ≤ x then x - y else x + 2 ^ 64 - y

/-- the `offset_bits` that `normalize_input_limb_bound_with_offset` derives from `cnv_offset_lo`
(`lo = −(ib − off % ib)` below one limb, `off % ib` otherwise: both give `off % ib`) -/
def cnvLoBits (off ib : Nat) : Nat := off % ib

/-- glwe_mul_plain_tmp_bytes(res, a, b) (docs/fixes/12): `a`, `b` share their radix; the accumulator is sized
for the full product `a.size + b.size` (the body takes `a + b − cnv_offset_hi` limbs whatever `res` is) and the
convolution query receives `(cnv_offset, res_dft_size, a, b)` in the order the HAL declares -/
def tbGlweMulPlain (be : BE) (n : Nat) (res a : G) (bSize : Nat) : Nat :=
  let cols := res.rank + 1
  let lvl0 := cnvBytes be n cols a.size + cnvBytes be n 1 bSize
  let lvl1 := max (cnvPrepLeftTmp be n a.size a.size) (cnvPrepRightTmp be n bSize bSize)
  let rd := a.size + bSize
  let lvl2 := dftBytes be n 1 rd + max (cnvApplyTmp be rd a.size bSize) (bigNormTmp be n)
  lvl0 + max lvl1 lvl2

/-- the formula before docs/fixes/12 (kept for the counterexample): accumulator bounded by what `res` can hold,
result size of the convolution query = `min(a.size, b.size)` (arguments in the wrong order) -/
def tbGlweMulPlainOld (be : BE) (n : Nat) (res a : G) (bSize : Nat) : Nat :=
  let cols := res.rank + 1
  let lvl0 := cnvBytes be n cols a.size + cnvBytes be n 1 bSize
  let lvl1 := max (cnvPrepLeftTmp be n a.size a.size) (cnvPrepRightTmp be n bSize bSize)
  let rd := limbBoundWorst (a.size + bSize) res.size res.b2k a.b2k
  let lvl2 := dftBytes be n 1 rd + max (cnvApplyTmp be (min a.size bSize) a.size bSize) (bigNormTmp be n)
  lvl0 + max lvl1 lvl2

/-- `glwe_mul_plain(cnv_offset, res, a, a_effective_k, b, b_effective_k)`: `ea`, `eb` = the effective limb
counts `ceil(effective_k / base2k)`; the accumulator has `ea + eb − cnv_offset_hi` limbs -/
def treeGlweMulPlain (be : BE) (n off : Nat) (res a : G) (bSize ea eb : Nat) : AllocTree :=
  let cols := res.rank + 1
  let rd := wsub (ea + eb) (cnvHi off a.b2k)
  .need (tbGlweMulPlain be n res a bSize)
    (.take (cnvBytes be n cols ea)
      (.take (cnvBytes be n 1 eb)
        (altList [leaf (cnvPrepLeftTmp be n ea ea), leaf (cnvPrepRightTmp be n eb eb),
          loop cols (.take (dftBytes be n 1 rd) (.alt (leaf (cnvApplyTmp be rd ea eb)) (treeBigNormalize be n)))])))

/-- `glwe_mul_plain_assign(cnv_offset, res, res_effective_k, a, a_effective_k)`: formula
`glwe_mul_plain_tmp_bytes(res, res, a)`; left operand `er = ceil(res_effective_k / base2k)` limbs -/
def treeGlweMulPlainAssign (be : BE) (n off : Nat) (res : G) (aSize er ea : Nat) : AllocTree :=
  let cols := res.rank + 1
  let rd := wsub (ea + er) (cnvHi off res.b2k)
  .need (tbGlweMulPlain be n res res aSize)
    (.take (cnvBytes be n cols er)
      (.take (cnvBytes be n 1 ea)
        (altList [leaf (cnvPrepLeftTmp be n er er), leaf (cnvPrepRightTmp be n ea ea),
          loop cols (.take (dftBytes be n 1 rd) (.alt (leaf (cnvApplyTmp be rd er ea)) (treeBigNormalize be n)))])))

/-- `Module::cnv_pairwise_apply_dft_tmp_bytes(x, y, a, b)` as the delegate of poulpy-hal answers it: it forwards its
first two arguments swapped, so the value passed in the `cnv_offset` slot (`x`) is the result size the back end sees
and `y` is ignored.  (Not repairable without editing the pinned suite, whose own call compensates for the swap.) -/
def cnvPairwiseQuery (be : BE) (x _y a b : Nat) : Nat := cnvPairwiseTmp be x a b

/-- glwe_tensor_apply_tmp_bytes(res, a, b) (docs/fixes/13: `cnv_apply_dft_tmp_bytes` receives the accumulator size as
result size; the pairwise query is still answered for `cnv_offset = min(a.size, b.size)` result limbs, see
`cnvPairwiseQuery`): `res` = the tensor (rank of the inputs, size, radix) -/
def tbGlweTensorApply (be : BE) (n : Nat) (res a : G) (bSize : Nat) : Nat :=
  let cols := res.rank + 1
  let off := min a.size bSize
  let lvl0 := cnvBytes be n cols a.size + cnvBytes be n cols bSize
  let lvl1 := max (cnvPrepLeftTmp be n a.size a.size) (cnvPrepRightTmp be n bSize bSize)
  let dd := limbBoundWorst (a.size + bSize) res.size res.b2k a.b2k
  let tail := vecBytes n 1 res.size + bigNormTmp be n
  let lvl2a := dftBytes be n 1 dd + max (cnvApplyTmp be dd a.size bSize) tail
  let lvl2b := dftBytes be n 1 dd + max (cnvPairwiseQuery be off dd a.size bSize) tail
  lvl0 + max lvl1 (max lvl2a lvl2b)

/-- `glwe_tensor_apply` / `glwe_tensor_apply_add_assign` (same takes): per diagonal term and per pair an
accumulator of `min(ea + eb − hi, ceil((res.size·rb + off % ib) / ib))` limbs, the convolution, then a
one-column temporary and the normalisation on what is left -/
def treeGlweTensorApply (be : BE) (n off : Nat) (res a : G) (bSize ea eb : Nat) : AllocTree :=
  let cols := res.rank + 1
  let dd := limbBound (wsub (ea + eb) (cnvHi off a.b2k)) res.size res.b2k a.b2k (cnvLoBits off a.b2k)
  let tail := AllocTree.take (vecBytes n 1 res.size) (treeBigNormalize be n)
  .need (tbGlweTensorApply be n res a bSize)
    (.take (cnvBytes be n cols ea)
      (.take (cnvBytes be n cols eb)
        (altList [leaf (cnvPrepLeftTmp be n ea ea), leaf (cnvPrepRightTmp be n eb eb),
          loop cols (.take (dftBytes be n 1 dd) (.alt (leaf (cnvApplyTmp be dd ea eb)) tail)),
          loop (cols * (cols - 1) / 2) (.take (dftBytes be n 1 dd) (.alt (leaf (cnvPairwiseTmp be dd ea eb)) tail))])))

/-- glwe_tensor_apply_tmp_bytes before docs/fixes/13: the diagonal query too sees `min(a.size, b.size)` as result size -/
def tbGlweTensorApplyOld (be : BE) (n : Nat) (res a : G) (bSize : Nat) : Nat :=
  let cols := res.rank + 1
  let off := min a.size bSize
  let lvl0 := cnvBytes be n cols a.size + cnvBytes be n cols bSize
  let lvl1 := max (cnvPrepLeftTmp be n a.size a.size) (cnvPrepRightTmp be n bSize bSize)
  let dd := limbBoundWorst (a.size + bSize) res.size res.b2k a.b2k
  let tail := vecBytes n 1 res.size + bigNormTmp be n
  let lvl2a := dftBytes be n 1 dd + max (cnvApplyTmp be off a.size bSize) tail
  let lvl2b := dftBytes be n 1 dd + max (cnvPairwiseTmp be off a.size bSize) tail
  lvl0 + max lvl1 (max lvl2a lvl2b)

/-- glwe_tensor_square_apply_tmp_bytes(res, a) (docs/fixes/13 for the diagonal query; pairwise query as in `cnvPairwiseQuery`,
`cnv_offset = a.size`) -/
def tbGlweTensorSquare (be : BE) (n : Nat) (res a : G) : Nat :=
  let cols := res.rank + 1
  let lvl0 := cnvBytes be n cols a.size + cnvBytes be n cols a.size
  let cache := vecBytes n cols res.size
  let lvl1 := cnvPrepSelfTmp be n a.size a.size
  let dd := limbBoundWorst (2 * a.size) res.size res.b2k a.b2k
  let lvl2a := dftBytes be n 1 dd + max (cnvApplyTmp be dd a.size a.size) (bigNormTmp be n)
  let lvl2b := dftBytes be n 1 dd + max (cnvPairwiseQuery be a.size dd a.size a.size) (bigNormTmp be n)
  lvl0 + cache + max lvl1 (max lvl2a lvl2b)

/-- `glwe_tensor_square_apply`: the self-preparation runs before the diagonal cache is taken -/
def treeGlweTensorSquare (be : BE) (n off : Nat) (res a : G) (ea : Nat) : AllocTree :=
  let cols := res.rank + 1
  let dd := limbBound (wsub (2 * ea) (cnvHi off a.b2k)) res.size res.b2k a.b2k (cnvLoBits off a.b2k)
  .need (tbGlweTensorSquare be n res a)
    (.take (cnvBytes be n cols ea)
      (.take (cnvBytes be n cols ea)
        (.alt (leaf (cnvPrepSelfTmp be n ea ea))
          (.take (vecBytes n cols res.size)
            (.alt
              (loop cols (.take (dftBytes be n 1 dd) (.alt (leaf (cnvApplyTmp be dd ea ea)) (treeBigNormalize be n))))
              (loop (cols * (cols - 1) / 2)
                (.take (dftBytes be n 1 dd) (.alt (leaf (cnvPairwiseTmp be dd ea ea)) (treeBigNormalize be n)))))))))

/-! ### poulpy-bin-fhe: blind rotation (CGGI) -/

/-- what is read from a `BlindRotationKeyInfos` (a GGSW with `dsize = 1`) -/
def brkK (rank size b2k dnum : Nat) : K := ⟨rank, rank, size, b2k, dnum, 1⟩

/-- blind_rotation_execute_tmp_bytes(block_size, extension_factor, glwe, brk) (CGGI); `|` is the bitwise or
of the Rust source; docs/fixes/15: the `vmp` query gets the key's `rank + 1` columns (was a hard-coded 2) -/
def tbBlindRotation (be : BE) (n block ext : Nat) (res : G) (brk : K) : Nat :=
  if block > 1 then
    let cols := brk.rankOut + 1
    let accDft := dftBytes be n cols brk.dnum * ext
    let accBig := bigBytes be n 1 brk.size
    let vmpRes := dftBytes be n cols brk.size * ext
    let vmpXai := dftBytes be n 1 brk.size
    let vmp := vmpTmp brk.dnum brk.dnum cols
    let acc := if ext > 1 then vecBytes n cols res.size * ext else 0
    acc + accDft + vmpRes + vmpRes + vmpXai + (vmp ||| (accBig + max (bigNormTmp be n) (idftTmp be n)))
  else res.bytes n + tbGlweExternalProduct be n res res brk

/-- the block formula before docs/fixes/15 (`vmp` query with 2 columns whatever the rank), `extension_factor = 1` -/
def tbBlindRotationBlockOld (be : BE) (n : Nat) (brk : K) : Nat :=
  let cols := brk.rankOut + 1
  dftBytes be n cols brk.dnum + dftBytes be n cols brk.size + dftBytes be n cols brk.size + dftBytes be n 1 brk.size +
    (vmpTmp brk.dnum brk.dnum 2 ||| (bigBytes be n 1 brk.size + max (bigNormTmp be n) (idftTmp be n)))

/-- `execute_standard` (`block_size = 1`): an accumulator copy, then per LWE coefficient
`glwe_external_product`, `glwe_mul_xp_minus_one_assign`; a final `glwe_normalize_assign` -/
def treeBlindRotationStandard (be : BE) (n nLwe : Nat) (res : G) (brk : K) : AllocTree :=
  .take (res.bytes n)
    (.alt (loop nLwe (.alt (treeGlweExternalProduct be n res res brk) (treeOneLimb n))) (treeGlweNormalize n))

/-- the per-block tail shared by both block variants: `acc_add_big`, then per column
`vec_znx_idft_apply` and `vec_znx_big_normalize` on the rest -/
def treeBlockTail (be : BE) (n cols : Nat) (brk : K) : AllocTree :=
  .take (bigBytes be n 1 brk.size) (loop cols (.alt (treeIdft be n) (treeBigNormalize be n)))

/-- `execute_block_binary` (`block_size > 1`, `extension_factor = 1`) -/
def treeBlindRotationBlock (be : BE) (n blocks block : Nat) (res : G) (brk : K) : AllocTree :=
  let cols := res.rank + 1
  .take (dftBytes be n cols brk.dnum)
    (.take (dftBytes be n cols brk.size)
      (.take (dftBytes be n cols brk.size)
        (.take (dftBytes be n 1 brk.size)
          (loop blocks (.alt (loop block (treeVmp brk.dnum brk.dnum cols)) (treeBlockTail be n cols brk))))))

/-- `execute_block_binary_extended` (`extension_factor > 1`): every buffer `ext` times -/
def treeBlindRotationExt (be : BE) (n blocks block ext : Nat) (res : G) (brk : K) : AllocTree :=
  let cols := res.rank + 1
  takeMany ext (vecBytes n cols res.size)
    (takeMany ext (dftBytes be n cols brk.dnum)
      (takeMany ext (dftBytes be n cols brk.size)
        (takeMany ext (dftBytes be n cols brk.size)
          (.take (dftBytes be n 1 brk.size)
            (loop blocks (.alt (loop (block * ext) (treeVmp brk.dnum brk.dnum cols))
              (.take (bigBytes be n 1 brk.size) (loop (ext * cols) (.alt (treeIdft be n) (treeBigNormalize be n))))))))))

/-- `blind_rotation_execute` dispatch (no entry assertion) -/
def treeBlindRotation (be : BE) (n nLwe block ext : Nat) (res : G) (brk : K) : AllocTree :=
  if ext > 1 then treeBlindRotationExt be n (nLwe / block) block ext res brk
  else if block > 1 then treeBlindRotationBlock be n (nLwe / block) block res brk
  else treeBlindRotationStandard be n nLwe res brk

/-- blind_rotation_key_encrypt_sk_tmp_bytes = ggsw_encrypt_sk_tmp_bytes; `n_lwe` × `ggsw_encrypt_sk` -/
def treeBrkEncryptSk (be : BE) (n nLwe : Nat) (brk : K) : AllocTree := loop nLwe (treeGgswEncryptSk be n brk)
/-- blind_rotation_key_compressed_encrypt_sk_tmp_bytes = ggsw_compressed_encrypt_sk_tmp_bytes (the compressed
GGSW encryption has the take sequence of the plain one) -/
def treeBrkCompressedEncryptSk (be : BE) (n nLwe : Nat) (brk : K) : AllocTree := loop nLwe (treeGgswEncryptSk be n brk)

/-! ### circuit bootstrapping -/

/-- the GGSW produced by the circuit bootstrapping: GLWE part + number of rows -/
structure W where
  g : G
  dnum : Nat
deriving Repr

/-- GGSW::bytes_of -/
def W.bytes (n : Nat) (w : W) : Nat := matBytes n w.dnum (w.g.rank + 1) (w.g.rank + 1) w.g.size

/-- accumulator of the blind rotation in the key's layout, and the same value in the automorphism keys' radix -/
def cbtBrkGlwe (brk : K) : G := ⟨brk.rankOut, brk.size, brk.b2k⟩
def cbtAtkGlwe (brk atk : K) : G := ⟨brk.rankOut, ceilDiv (brk.size * brk.b2k) atk.b2k, atk.b2k⟩

/-- circuit_bootstrapping_execute_tmp_bytes before docs/fixes/17: every phase is queried with the *result's*
layout although the accumulators have the blind-rotation key's precision -/
def tbCbtOld (be : BE) (n block ext : Nat) (res : W) (brk atk tsk : K) : Nat :=
  max (max (tbBlindRotation be n block ext res.g brk) (tbGlweTrace be n res.g res.g atk)) (tbGgswExpandRows be n res.g tsk)
    + res.g.bytes n + matBytes n res.dnum (max res.g.rank 1) (res.g.rank + 1) res.g.size

/-- circuit_bootstrapping_execute_tmp_bytes(block_size, extension_factor, res, key) (docs/fixes/17): the old value,
raised to the three phases of `circuit_bootstrap_core` computed with the layouts it really uses -/
def tbCbt (be : BE) (n block ext : Nat) (res : W) (brk atk tsk : K) : Nat :=
  let gb := cbtBrkGlwe brk
  let ga := cbtAtkGlwe brk atk
  max (tbCbtOld be n block ext res brk atk tsk)
    (max (ga.bytes n + gb.bytes n + max (tbBlindRotation be n block ext gb brk) (tbGlweNormalize n))
      (max (ga.bytes n + max (tbGlweTrace be n res.g ga atk) (tbGlweRotate n)) (tbGgswExpandRows be n res.g tsk)))

/-- `circuit_bootstrap_core(to_exponent = false)` after the entry assertion: two GLWE buffers, the blind rotation
(+ a radix conversion), per output row `glwe_trace` and `glwe_rotate_assign` on the scratch left after the
first buffer, finally `ggsw_expand_row` on the whole scratch -/
def treeCbtConstant (be : BE) (n nLwe block ext iters : Nat) (res : W) (brk atk tsk : K) : AllocTree :=
  let gb := cbtBrkGlwe brk
  let ga := cbtAtkGlwe brk atk
  .need (tbCbt be n block ext res brk atk tsk)
    (.alt
      (.take (ga.bytes n)
        (.alt
          (.take (gb.bytes n)
            (.alt (treeBlindRotation be n nLwe block ext gb brk)
              (if brk.b2k = atk.b2k then .done else treeGlweNormalize n)))
          (loop res.dnum (.alt (treeGlweTrace be n iters res.g ga atk) (treeGlweRotateAssign n)))))
      (treeGgswExpandRows be n res.dnum res.g tsk))

/-- circuit_bootstrapping_key_encrypt_sk_tmp_bytes -/
def tbCbtKeyEncryptSk (be : BE) (n : Nat) (brk atk tsk : K) : Nat :=
  max (max (tbAutomorphismKeyEncryptSk be n atk) (tbGgxEncryptSk be n brk.size)) (tbGglweToGgswKeyEncryptSk be n tsk)

/-- `circuit_bootstrapping_key_encrypt_sk`: every automorphism key, the blind-rotation key, the tensor key -/
def treeCbtKeyEncryptSk (be : BE) (n nLwe nAtk : Nat) (brk atk tsk : K) : AllocTree :=
  altList [loop nAtk (treeAutomorphismKeyEncryptSk be n atk), treeBrkEncryptSk be n nLwe brk,
    treeGglweToGgswKeyEncryptSk be n tsk]

/-- bdd_key_encrypt_sk_tmp_bytes (docs/fixes/16: the optional GLWE→GLWE switching key gets its term) -/
def tbBddKeyEncryptSk (be : BE) (n : Nat) (brk atk tsk ksLwe : K) (ksGlwe : Option K) : Nat :=
  max (max (tbCbtKeyEncryptSk be n brk atk tsk) (tbGlweToLweKeyEncryptSk be n ksLwe))
    (match ksGlwe with | some kg => tbSwitchingKeyEncryptSk be n kg | none => 0)

/-- `bdd_key_encrypt_sk` (`ksGlwe = none`: the BDD ciphertexts are switched to the LWE key directly) -/
def treeBddKeyEncryptSk (be : BE) (n nLwe nAtk : Nat) (brk atk tsk ksLwe : K) (ksGlwe : Option K) : AllocTree :=
  altList [match ksGlwe with | some kg => treeSwitchingKeyEncryptSk be n kg | none => .done,
    treeGlweToLweKeyEncryptSk be n ksLwe, treeCbtKeyEncryptSk be n nLwe nAtk brk atk tsk]

/-- LWE::bytes_of with `n` = the ring degree (the infos passed are the GLWE's) -/
def lweBytesN (n size : Nat) : Nat := (n + 1) * size * 8

/-- the temporary rank-1 GLWE of `get_bit_lwe` when a GLWE→GLWE switching key is present -/
def getBitTmp (bits : G) (ksLwe : K) : G := ⟨1, ceilDiv (min (ksLwe.size * ksLwe.b2k) bits.maxK) ksLwe.b2k, ksLwe.b2k⟩

/-- what `FheUint::get_bit_lwe` needs (it has no query of its own) -/
def tbGetBitLwe (be : BE) (n : Nat) (bits : G) (ksLwe : K) (ksGlwe : Option K) : Nat :=
  let lwe : L := ⟨bits.size, bits.b2k⟩
  match ksGlwe with
  | none => tbLweFromGlwe be n lwe bits ksLwe
  | some kg =>
    let gt := getBitTmp bits ksLwe
    gt.bytes n + max (tbGlweKeyswitch be n gt bits kg) (tbLweFromGlwe be n lwe gt ksLwe)

def treeGetBitLwe (be : BE) (n idx : Nat) (bits : G) (ksLwe : K) (ksGlwe : Option K) : AllocTree :=
  let lwe : L := ⟨bits.size, bits.b2k⟩
  match ksGlwe with
  | none => treeLweFromGlwe be n lwe bits ksLwe idx
  | some kg =>
    let gt := getBitTmp bits ksLwe
    .take (gt.bytes n) (.alt (treeGlweKeyswitch be n gt bits kg) (treeLweFromGlwe be n lwe gt ksLwe idx))

/-- fhe_uint_prepare_tmp_bytes before docs/fixes/18 -/
def tbFheUintPrepareOld (be : BE) (n block : Nat) (res : W) (bits : G) (brk atk tsk : K) : Nat :=
  roundUp (tbCbt be n block 1 res brk atk tsk + res.bytes n + lweBytesN n bits.size)

/-- fhe_uint_prepare_tmp_bytes (per-thread region; docs/fixes/18: the bit extraction and `ggsw_prepare` run on the
same remainder as the circuit bootstrapping and are now part of the maximum) -/
def tbFheUintPrepare (be : BE) (n block : Nat) (res : W) (bits : G) (brk atk tsk ksLwe : K) (ksGlwe : Option K) : Nat :=
  roundUp (max (max (tbCbt be n block 1 res brk atk tsk) (tbGetBitLwe be n bits ksLwe ksGlwe)) (tbPrepare be n)
    + res.bytes n + lweBytesN n bits.size)

/-- one worker of `fhe_uint_prepare_custom_multi_thread`: a GGSW, an LWE (whose byte length is not a multiple
of 64), then per bit `get_bit_lwe`, the circuit bootstrapping, `ggsw_prepare` -/
def treeFheUintPrepareWorker (be : BE) (n nLwe block iters bitsPer idx : Nat) (res : W) (bits : G)
    (brk atk tsk ksLwe : K) (ksGlwe : Option K) : AllocTree :=
  .take (res.bytes n)
    (.take (lweBytesN n bits.size)
      (loop bitsPer
        (altList [treeGetBitLwe be n idx bits ksLwe ksGlwe,
          treeCbtConstant be n nLwe block 1 iters res brk atk tsk, treePrepare be n 1])))

def treeFheUintPrepare (be : BE) (n threads nLwe block iters bitsPer idx : Nat) (res : W) (bits : G)
    (brk atk tsk ksLwe : K) (ksGlwe : Option K) : AllocTree :=
  .need (threads * tbFheUintPrepare be n block res bits brk atk tsk ksLwe ksGlwe)
    (.par threads (tbFheUintPrepare be n block res bits brk atk tsk ksLwe ksGlwe)
      (treeFheUintPrepareWorker be n nLwe block iters bitsPer idx res bits brk atk tsk ksLwe ksGlwe) .done)

/-! ### BDD arithmetic: blind rotations, selection, retrieval, two-word circuits, FheUint -/

/-- glwe_blind_rotation_tmp_bytes = ggsw_to_ggsw_blind_rotation_tmp_bytes = glwe_blind_selection_tmp_bytes -/
def tbGlweBlindRotation (be : BE) (n : Nat) (res : G) (k : K) : Nat := tbCmux be n res k + res.bytes n

/-- `glwe_blind_rotation(_assign)`: a ping-pong buffer, `bit_mask` × `cmux_assign` (same takes as `cmux`) -/
def treeGlweBlindRotation (be : BE) (n bitMask : Nat) (res : G) (k : K) : AllocTree :=
  .take (res.bytes n) (loop bitMask (treeCmux be n res k))

/-- `ggsw_blind_rotation(_assign)`: one `glwe_blind_rotation` per (row, column) -/
def treeGgswBlindRotation (be : BE) (n cells bitMask : Nat) (res : G) (k : K) : AllocTree :=
  loop cells (treeGlweBlindRotation be n bitMask res k)

/-- scalar_to_ggsw_blind_rotation_tmp_bytes -/
def tbScalarToGgswBlindRotation (be : BE) (n : Nat) (res : G) (k : K) : Nat := tbGlweBlindRotation be n res k + res.bytes n

/-- `scalar_to_ggsw_blind_rotation`: a GLWE, per cell `vec_znx_normalize_assign` then `glwe_blind_rotation` -/
def treeScalarToGgswBlindRotation (be : BE) (n cells bitMask : Nat) (res : G) (k : K) : AllocTree :=
  .take (res.bytes n) (loop cells (.alt (treeNormalize n) (treeGlweBlindRotation be n bitMask res k)))

/-- `glwe_blind_selection`: `cmux_assign` either directly or after taking a zero ciphertext -/
def treeGlweBlindSelection (be : BE) (n steps : Nat) (res : G) (k : K) : AllocTree :=
  loop steps (.alt (treeCmux be n res k) (.take (res.bytes n) (treeCmux be n res k)))

/-- `GLWEBlindRetriever::retrieve_tmp_bytes` (docs/fixes/14) = cmux_tmp_bytes(res, res, selector) + the difference
buffer of `cmux_assign_neg` (was missing) -/
def tbRetrieve (be : BE) (n : Nat) (res : G) (k : K) : Nat := tbCmux be n res k + res.bytes n

/-- `cmux_assign_neg(res, a, s)`: a difference buffer with `k = max(res.k, a.k)`, then the takes of `cmux` -/
def treeCmuxAssignNeg (be : BE) (n : Nat) (res : G) (k : K) : AllocTree := .take (res.bytes n) (treeCmux be n res k)

/-- `GLWEBlindRetriever::retrieve` with at least two inputs: `steps` × `cmux_assign_neg` -/
def treeRetrieve (be : BE) (n steps : Nat) (res : G) (k : K) : AllocTree := loop steps (treeCmuxAssignNeg be n res k)

/-- glwe_blind_retrieval_tmp_bytes = cswap_tmp_bytes(res, res, k); `glwe_blind_retrieval_statefull(_rev)`: `steps` × `cswap` -/
def treeGlweBlindRetrieval (be : BE) (n steps : Nat) (res : G) (k : K) : AllocTree := loop steps (treeCswap be n res res k)

/-- execute_bdd_circuit_2w_to_1w_multi_thread_tmp_bytes(threads, circuit, res, ggsw, key) (`threads = 1`: the
single-thread query); `bits` = `T::BITS` -/
def tbBdd2w1w (be : BE) (n threads bits state : Nat) (res : G) (k atk : K) : Nat :=
  bits * res.bytes n + max (threads * tbExecBdd be n state res k) (tbGlwePack be n res atk)

/-- `execute_bdd_circuit_2w_to_1w_multi_thread`: the output bits, the circuit evaluation, the packing -/
def treeBdd2w1w (be : BE) (n threads bits state rounds iters : Nat) (res : G) (k atk : K) : AllocTree :=
  takeMany bits (res.bytes n)
    (.alt (treeExecBdd be n threads state res k) (treeGlwePack be n rounds iters res res atk))

/-- `FheUint::encrypt_sk_tmp_bytes`: a one-limb plaintext + glwe_encrypt_sk_tmp_bytes -/
def tbFheUintEncryptSk (be : BE) (n : Nat) (g : G) : Nat := vecBytes n 1 (ceilDiv 2 g.b2k) + tbGlweEncryptSk be n g.size
def treeFheUintEncryptSk (be : BE) (n : Nat) (g : G) : AllocTree :=
  .take (vecBytes n 1 (ceilDiv 2 g.b2k)) (treeGlweEncryptSk be n g)
/-- `FheUint::decrypt_tmp_bytes` -/
def tbFheUintDecrypt (be : BE) (n : Nat) (g : G) : Nat := vecBytes n 1 (ceilDiv 1 g.b2k) + tbGlweDecrypt be n g.size
def treeFheUintDecrypt (be : BE) (n : Nat) (g : G) : AllocTree :=
  .take (vecBytes n 1 (ceilDiv 1 g.b2k)) (treeGlweDecrypt be n g)

/-! ### poulpy-ckks: multiplications and composites (all operands in the layout `ct`) -/

/-- GLWETensor::bytes_of: `pairs(rank+1)` columns -/
def tensorBytes (n : Nat) (g : G) : Nat := vecBytes n ((g.rank + 1) * (g.rank + 2) / 2) g.size

/-- ckks_mul_tmp_bytes(res, tsk): `t` = the tensor key (`rank_in = pairs(rank)`, `rank_out = rank`) -/
def tbCkksMul (be : BE) (n : Nat) (ct : G) (t : K) : Nat :=
  tensorBytes n ct + max (tbGlweTensorApply be n ct ct ct.size) (tbGlweTensorRelinearize be n ct t)

/-- `ckks_mul_into / _assign`: the tensor, `glwe_tensor_apply`, `glwe_tensor_relinearize(.., tsk.size())` -/
def treeCkksMul (be : BE) (n off ea eb : Nat) (ct : G) (t : K) : AllocTree :=
  .take (tensorBytes n ct)
    (.alt (treeGlweTensorApply be n off ct ct ct.size ea eb) (treeGlweTensorRelinearize be n t.size ct t))

/-- ckks_square_tmp_bytes(res, tsk) -/
def tbCkksSquare (be : BE) (n : Nat) (ct : G) (t : K) : Nat :=
  tensorBytes n ct + max (tbGlweTensorSquare be n ct ct) (tbGlweTensorRelinearize be n ct t)

def treeCkksSquare (be : BE) (n off ea : Nat) (ct : G) (t : K) : AllocTree :=
  .take (tensorBytes n ct)
    (.alt (treeGlweTensorSquare be n off ct ct ea) (treeGlweTensorRelinearize be n t.size ct t))

/-- ckks_mul_pt_vec_znx_tmp_bytes(res, a, prec) = glwe_mul_plain_tmp_bytes(res, a, pt) -/
def tbCkksMulPtVecZnx (be : BE) (n : Nat) (res a : G) (ptSize : Nat) : Nat := tbGlweMulPlain be n res a ptSize
/-- ckks_mul_pt_vec_rnx_tmp_bytes: + the converted plaintext -/
def tbCkksMulPtVecRnx (be : BE) (n : Nat) (res a : G) (ptSize : Nat) : Nat :=
  vecBytes n 1 ptSize + tbGlweMulPlain be n res a ptSize
def treeCkksMulPtVecRnx (be : BE) (n off : Nat) (res a : G) (ptSize ea : Nat) : AllocTree :=
  .take (vecBytes n 1 ptSize) (treeGlweMulPlain be n off res a ptSize ea ptSize)

/-- `ckks_mul_pt_const_znx_into` with both a real and an imaginary constant: a second GLWE, two
`glwe_mul_const`, `glwe_rotate_assign` -/
def treeCkksMulPtConst (be : BE) (n off : Nat) (res a : G) (bSize : Nat) : AllocTree :=
  .take (res.bytes n) (.alt (treeGlweMulConst be n off res a bSize) (treeGlweRotateAssign n))

/-- the composites `ckks_mul_add_*`, `ckks_mul_sub_*`, `ckks_dot_product_pt_*`:
`GLWE::bytes_of(res) + X.max(ckks_add_tmp_bytes)` (`ckks_sub_tmp_bytes` has the same value) -/
def tbCkksComposite (n : Nat) (res : G) (x : Nat) : Nat := res.bytes n + max x (tbCkksShiftNorm n)
/-- a product into `take_mul_tmp(dst)`, then `ckks_add_assign` / `ckks_sub_assign` on the rest -/
def treeCkksComposite (n : Nat) (res : G) (tx : AllocTree) : AllocTree :=
  .take (res.bytes n) (.alt tx (treeCkksShiftNorm n))

/-- ceil_log2 -/
def ceilLog2 (m : Nat) : Nat := if m ≤ 1 then 0 else Nat.log2 (m - 1) + 1

/-- ckks_mul_many_tmp_bytes(n_inputs, res, tsk) -/
def tbCkksMulMany (be : BE) (n cnt : Nat) (ct : G) (t : K) : Nat :=
  if cnt ≤ 2 then tbCkksMul be n ct t else 2 * ceilLog2 cnt * ct.bytes n + tbCkksMul be n ct t

/-- `mul_many_rec` with `levels` levels that take their two halves (then products on what is left) -/
def treeCkksMulMany (be : BE) (n off ea eb : Nat) (ct : G) (t : K) : Nat → AllocTree
  | 0 => treeCkksMul be n off ea eb ct t
  | l + 1 => .take (ct.bytes n) (.take (ct.bytes n)
      (.alt (treeCkksMulMany be n off ea eb ct t l) (treeCkksMul be n off ea eb ct t)))

/-- ckks_dot_product_ct_tmp_bytes(n_terms, res, tsk) -/
def tbCkksDotProductCt (be : BE) (n cnt : Nat) (ct : G) (t : K) : Nat :=
  if cnt ≤ 1 then tbCkksMul be n ct t
  else
    let fallback := ct.bytes n + max (tbCkksMul be n ct t) (tbCkksShiftNorm n)
    let inner := max (max (tbCkksShift n) (tbGlweTensorApply be n ct ct ct.size)) (tbGlweTensorRelinearize be n ct t)
    max fallback (2 * cnt * ct.bytes n + tensorBytes n ct + inner)

/-- the fast path of `ckks_dot_product_ct` when neither side is aligned: `2·cnt` rescaled copies, the tensor
accumulator, rescales / tensor products / relinearisation on the rest -/
def treeCkksDotProductCt (be : BE) (n off ea eb cnt : Nat) (ct : G) (t : K) : AllocTree :=
  if cnt ≤ 1 then treeCkksMul be n off ea eb ct t else
  takeMany (2 * cnt) (ct.bytes n)
    (.alt (treeCkksShift n)
      (.take (tensorBytes n ct)
        (.alt (loop cnt (treeGlweTensorApply be n off ct ct ct.size ea eb)) (treeGlweTensorRelinearize be n t.size ct t))))

/-- ckks_all_ops_tmp_bytes(ct, tsk, prec) -/
def tbCkksAllOps (be : BE) (n : Nat) (ct : G) (t : K) (ptSize : Nat) : Nat :=
  [tbCkksEncryptSk be n ct.size, tbCkksDecrypt be n ct.size, tbCkksShiftNorm n, tbCkksPtVecZnx n,
   tbCkksPtVecRnx n ptSize, tbCkksShift n, tbCkksMul be n ct t, tbCkksSquare be n ct t,
   tbCkksMulPtVecZnx be n ct ct ptSize, tbCkksMulPtVecRnx be n ct ct ptSize, tbCkksMulPtConst be n ct ct ptSize,
   tbPrepare be n, tbTensorKeyEncryptSk be n t].foldl max 0

/-- ckks_all_ops_with_atk_tmp_bytes(ct, tsk, atk, prec) -/
def tbCkksAllOpsAtk (be : BE) (n : Nat) (ct : G) (t atk : K) (ptSize : Nat) : Nat :=
  [tbCkksAllOps be n ct t ptSize, tbCkksRotate be n ct atk, tbAutomorphismKeyEncryptSk be n atk, tbPrepare be n].foldl max 0

end Scratch
