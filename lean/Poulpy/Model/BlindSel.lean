import Poulpy.Model.Basic
/-
Model of blind selection and blind retrieval of poulpy-bin-fhe (C15)

  poulpy-bin-fhe/src/bdd_arithmetic/blind_retrieval.rs   glwe_blind_retrieval_statefull, …_statefull_rev,
                                                          GLWEBlindRetriever::{alloc, retrieve, add, flush}, add_core
  poulpy-bin-fhe/src/bdd_arithmetic/blind_selection.rs   glwe_blind_selection

at plaintext level over an abstract value type `V`: `Cswap`, `cmux_assign`, `cmux_assign_neg` enter as function
parameters (`cs`, `cm`, `cmn`); the theorems assume their contracts (C04), the driver instantiates them with the
plaintext functions.  Index bits are read MSB first: level `i` uses bit `bit_rsh + bit_mask - i - 1` and
stride `t = 1 << (bit_mask - i - 1)`.

`level`: the inner loop `for j in 0..t { if j + t < len { cswap(res[j], res[j+t]) } }` touches the pairwise
disjoint pairs `(j, j+t)`, `j < t`; it is written position-wise (position `p < t` is the first component of
its pair when `p + t < len`, position `t ≤ p < 2t` the second component of the pair `(p - t, p)`).
-/

namespace BlindSel

/-- the index bits of the field `[rsh, rsh+mask)`, most significant first -/
def bitsMSB (idx rsh mask : Nat) : List Bool :=
  (List.range mask).map fun i => idx.testBit (rsh + mask - i - 1)

/-- value of a bit list read MSB first -/
def val : List Bool → Nat
  | [] => 0
  | b :: rest => (if b then 2 ^ rest.length else 0) + val rest

/-- one level of `glwe_blind_retrieval_statefull(_rev)`: stride `t`, selector bit `b` -/
def level {V : Type} (cs : Bool → V → V → V × V) (t : Nat) (b : Bool) (a : List V) : List V :=
  a.mapIdx fun p x =>
    if p < t then
      match a[p + t]? with
      | some y => (cs b x y).1
      | none => x
    else if p < 2 * t then
      match a[p - t]? with
      | some y => (cs b y x).2
      | none => x
    else x

/-- `glwe_blind_retrieval_statefull`: levels from the most significant bit down -/
def fwd {V : Type} (cs : Bool → V → V → V × V) : List Bool → List V → List V
  | [], a => a
  | b :: rest, a => fwd cs rest (level cs (2 ^ rest.length) b a)

/-- `glwe_blind_retrieval_statefull_rev`: the same levels from the least significant bit up -/
def rev {V : Type} (cs : Bool → V → V → V × V) : List Bool → List V → List V
  | [], a => a
  | b :: rest, a => level cs (2 ^ rest.length) b (rev cs rest a)

def retrievalStatefull {V : Type} (cs : Bool → V → V → V × V) (idx rsh mask : Nat) (a : List V) : List V :=
  fwd cs (bitsMSB idx rsh mask) a

def retrievalStatefullRev {V : Type} (cs : Bool → V → V → V × V) (idx rsh mask : Nat) (a : List V) : List V :=
  rev cs (bitsMSB idx rsh mask) a

/-! ### `glwe_blind_selection` -/

/-- one level of `glwe_blind_selection` on the sparse table (`HashMap<usize, _>`): entries `j` ("hi") and
`j + t` ("lo") are removed and, unless both are missing, entry `j` is inserted:
`cmux_assign(lo, hi, bit)` = `lo` if `bit` else `hi`, a missing operand being the zero ciphertext. -/
def selLevel {V : Type} (cm : Bool → V → V → V) (zero : V) (t : Nat) (b : Bool) (a : Nat → Option V) : Nat → Option V :=
  fun j =>
    if j < t then
      match a (j + t), a j with
      | some lo, some hi => some (cm b lo hi)
      | some lo, none => some (cm b lo zero)
      | none, some hi => some (cm b zero hi)
      | none, none => none
    else if j < 2 * t then none
    else a j

/-- `glwe_blind_selection`: the result is entry 0 after the last level, zero if it is missing -/
def select {V : Type} (cm : Bool → V → V → V) (zero : V) : List Bool → (Nat → Option V) → V
  | [], a => (a 0).getD zero
  | b :: rest, a => select cm zero rest (selLevel cm zero (2 ^ rest.length) b a)

def blindSelection {V : Type} (cm : Bool → V → V → V) (zero : V) (idx rsh mask : Nat) (a : Nat → Option V) : V :=
  select cm zero (bitsMSB idx rsh mask) a

/-! ### `GLWEBlindRetriever` (one-shot retrieval with a binary counter of accumulators) -/

structure Acc (V : Type) where
  data : V
  num : Nat

/-- `add_core(a, accumulators, i, selector, offset)`; `bit k` = `selector.get_bit(k + offset)`;
`cmn s res a` = `cmux_assign_neg` = `a` if `s` else `res`.  An empty accumulator slice is
`split_at_mut(1)` out of range. -/
def addCore {V : Type} (cmn : Bool → V → V → V) (bit : Nat → Bool) : V → List (Acc V) → Nat → Outcome (List (Acc V))
  | _, [], _ => .panic "bounds"
  | a, acc :: next, i =>
    match acc.num with
    | 0 => .ok ({ data := a, num := 1 } :: next)
    | 1 =>
      let d := cmn (bit i) acc.data a
      if next.isEmpty then .ok ({ data := d, num := 0 } :: next)
      else
        match addCore cmn bit d next (i + 1) with
        | .ok n' => .ok ({ data := d, num := 0 } :: n')
        | .panic c => .panic c
        | .err e => .err e
    | _ => .panic "other"

/-- `flush`'s loop `for i in 0..len-1 { if acc[i].num != 0 { add_core(acc[i].data, acc[i+1..], i+1); acc[i].num = 0 } }`
over the accumulators from position `i` on (fuel = their number); returns the accumulators after the loop -/
def flushLoop {V : Type} (cmn : Bool → V → V → V) (bit : Nat → Bool) : Nat → List (Acc V) → Nat → Outcome (List (Acc V))
  | 0, _, _ => .panic "bounds"
  | _ + 1, [], _ => .panic "bounds"
  | _ + 1, [last], _ => .ok [last]
  | fuel + 1, acc :: next, i =>
    if acc.num ≠ 0 then
      match addCore cmn bit acc.data next (i + 1) with
      | .ok n' =>
        match flushLoop cmn bit fuel n' (i + 1) with
        | .ok r => .ok ({ acc with num := 0 } :: r)
        | .panic c => .panic c
        | .err e => .err e
      | .panic c => .panic c
      | .err e => .err e
    else
      match flushLoop cmn bit fuel next (i + 1) with
      | .ok r => .ok (acc :: r)
      | .panic c => .panic c
      | .err e => .err e

/-- the retriever object: its accumulators (value + `num` flag each) and the element counter -/
structure Retr (V : Type) where
  accs : List (Acc V)
  counter : Nat

/-- `GLWEBlindRetriever::alloc(infos, size)`: `bit_size = (32 - (size - 1).leading_zeros()).max(1)` accumulators -/
def Retr.alloc {V : Type} (init : V) (size : Nat) : Retr V :=
  let bitSize := max (if size ≤ 1 then 0 else Nat.log2 (size - 1) + 1) 1
  { accs := List.replicate bitSize { data := init, num := 0 }, counter := 0 }

/-- `reset`: every `num := 0`, `counter := 0` (the stored values stay) -/
def Retr.reset {V : Type} (r : Retr V) : Retr V :=
  { accs := r.accs.map fun a => { a with num := 0 }, counter := 0 }

/-- `add(a, selector, offset)`: `assert!(counter < 1 << len)`, `add_core(a, accumulators, 0, …)`, `counter += 1` -/
def Retr.add {V : Type} (cmn : Bool → V → V → V) (bit : Nat → Bool) (r : Retr V) (a : V) : Outcome (Retr V) :=
  if ¬ (r.counter < 2 ^ r.accs.length) then .panic "assert"
  else
    match addCore cmn bit a r.accs 0 with
    | .ok accs' => .ok { accs := accs', counter := r.counter + 1 }
    | .panic c => .panic c
    | .err e => .err e

/-- `flush(res, selector, offset)`: zero result and reset when nothing was added; otherwise the loop, `res ← last.data`,
`reset()` -/
def Retr.flush {V : Type} (cmn : Bool → V → V → V) (bit : Nat → Bool) (zero : V) (r : Retr V) : Outcome (V × Retr V) :=
  if r.counter = 0 then .ok (zero, r.reset)
  else
    match flushLoop cmn bit r.accs.length r.accs 0 with
    | .ok accs' =>
      match accs'.getLast? with
      | some last => .ok (last.data, ({ accs := accs', counter := r.counter } : Retr V).reset)
      | none => .panic "other"
    | .panic c => .panic c
    | .err e => .err e

/-- a stream: `add` every element, then `flush` -/
def Retr.stream {V : Type} (cmn : Bool → V → V → V) (bit : Nat → Bool) (zero : V) (r : Retr V) (data : List V) : Outcome (V × Retr V) :=
  match data.foldl (fun (st : Outcome (Retr V)) a => match st with
      | Outcome.ok r' => Retr.add cmn bit r' a
      | other => other) (Outcome.ok r) with
  | .ok r' => r'.flush cmn bit zero
  | .panic c => .panic c
  | .err e => .err e

/-- `retrieve(res, data, selector, offset)`: `reset()`, then the stream -/
def Retr.retrieve {V : Type} (cmn : Bool → V → V → V) (bit : Nat → Bool) (zero : V) (r : Retr V) (data : List V) : Outcome (V × Retr V) :=
  r.reset.stream cmn bit zero data

/-- a history of streams on one retriever (`oneShot i` = the stream goes through `retrieve`, otherwise through
`add`… `flush`): the results, in order -/
def Retr.history {V : Type} (cmn : Bool → V → V → V) (bit : Nat → Bool) (zero : V) :
    Retr V → List (Bool × List V) → Outcome (List V)
  | _, [] => .ok []
  | r, (oneShot, data) :: rest =>
    match (if oneShot then r.retrieve cmn bit zero data else r.stream cmn bit zero data) with
    | .ok (v, r') =>
      match Retr.history cmn bit zero r' rest with
      | .ok vs => .ok (v :: vs)
      | .panic c => .panic c
      | .err e => .err e
    | .panic c => .panic c
    | .err e => .err e

/-- `GLWEBlindRetriever::alloc(size)` + `retrieve(res, data, selector, offset)` on the fresh object -/
def retrieve {V : Type} (cmn : Bool → V → V → V) (zero init : V) (size : Nat) (idx offset : Nat) (data : List V) : Outcome V :=
  match (Retr.alloc init size).retrieve cmn (fun k => idx.testBit (k + offset)) zero data with
  | .ok (v, _) => .ok v
  | .panic c => .panic c
  | .err e => .err e

/-! ### `glwe_blind_rotation(_assign)` (`bdd_arithmetic/blind_rotation.rs`): the ping-pong loop -/

/-- the two buffers of `glwe_blind_rotation_assign` and which of them currently holds the value
(`a_is_res = true`: the value is in `res`, the next product is written to `tmp_res`) -/
structure PingPong (P : Type) where
  res : P
  tmp : P
  aIsRes : Bool

/-- iteration `i`: `b ← X^{±2^{i+bit_lsh}}·a`, `b ← cmux_assign(b, a, bit_{i+bit_rsh})` (`b` if the bit is 1, else `a`),
then the roles are swapped.  `rot : Int → P → P` is `glwe_rotate`, `cm` is `cmux_assign`. -/
def brStep {P : Type} (rot : Int → P → P) (cm : Bool → P → P → P) (sign : Bool) (bit : Nat → Bool) (rsh lsh : Nat)
    (st : PingPong P) (i : Nat) : PingPong P :=
  let a := if st.aIsRes then st.res else st.tmp
  let k : Int := if sign then 2 ^ (i + lsh) else -(2 ^ (i + lsh))
  let b := cm (bit (i + rsh)) (rot k a) a
  if st.aIsRes then { res := st.res, tmp := b, aIsRes := false }
  else { res := b, tmp := st.tmp, aIsRes := true }

/-- `glwe_blind_rotation_assign(res, value, sign, bit_rsh, bit_mask, bit_lsh)`; `tmp0` = whatever the scratch buffer
holds.  After the loop the value is copied into `res` when it ended in the scratch buffer. -/
def blindRotationAssign {P : Type} (rot : Int → P → P) (cm : Bool → P → P → P) (sign : Bool) (bit : Nat → Bool)
    (rsh mask lsh : Nat) (res tmp0 : P) : P :=
  let st := (List.range mask).foldl (brStep rot cm sign bit rsh lsh) { res := res, tmp := tmp0, aIsRes := true }
  if !st.aIsRes then st.tmp else st.res

/-- `glwe_blind_rotation(res, a, …)`: `res ← a`, then the in-place form -/
def blindRotation {P : Type} (rot : Int → P → P) (cm : Bool → P → P → P) (sign : Bool) (bit : Nat → Bool)
    (rsh mask lsh : Nat) (a tmp0 : P) : P :=
  blindRotationAssign rot cm sign bit rsh mask lsh a tmp0

end BlindSel
