import Poulpy.Model.Basic
/-
Model of blind selection and blind retrieval of poulpy-bin-fhe (C15)

  poulpy-bin-fhe/src/bdd_arithmetic/blind_retrieval.rs   glwe_blind_retrieval_statefull, …_statefull_rev,
                                                          GLWEBlindRetriever::{alloc, retrieve, add, flush}, add_core
  poulpy-bin-fhe/src/bdd_arithmetic/blind_selection.rs   glwe_blind_selection

at plaintext level over an abstract value type `V`: `Cswap`, `cmux_assign`, `cmux_assign_neg` enter as function
parameters (`cs`, `cm`, `cmn`); the theorems assume their contracts (C04), the driver instantiates them with the
plaintext functions.  Index bits are read MSB first: level `i` uses bit `bit_rsh + bit_mask - i - 1` and
stride `t = 1 << (bit_mask - i - 1)`.

`level`: the inner loop `for j in 0..t { if j + t < len { cswap(res[j], res[j+t]) } }` touches the pairwise
disjoint pairs `(j, j+t)`, `j < t`; it is written position-wise (position `p < t` is the first component of
its pair when `p + t < len`, position `t ≤ p < 2t` the second component of the pair `(p - t, p)`).
-/

namespace BlindSel

/-- the index bits of the field `[rsh, rsh+mask)`, most significant first -/
def bitsMSB (idx rsh mask : Nat) : List Bool :=
  (List.range mask).map fun i => idx.testBit (rsh + mask - i - 1)

/-- value of a bit list read MSB first -/
def val : List Bool → Nat
  | [] => 0
  | b :: rest => (if b then 2 ^ rest.length else 0) + val rest

/-- one level of `glwe_blind_retrieval_statefull(_rev)`: stride `t`, selector bit `b` -/
def level {V : Type} (cs : Bool → V → V → V × V) (t : Nat) (b : Bool) (a : List V) : List V :=
  a.mapIdx fun p x =>
    if p < t then
      match a[p + t]? with
      | some y => (cs b x y).1
      | none => x
    else if p < 2 * t then
      match a[p - t]? with
      | some y => (cs b y x).2
      | none => x
    else x

/-- `glwe_blind_retrieval_statefull`: levels from the most significant bit down -/
def fwd {V : Type} (cs : Bool → V → V → V × V) : List Bool → List V → List V
  | [], a => a
  | b :: rest, a => fwd cs rest (level cs (2 ^ rest.length) b a)

/-- `glwe_blind_retrieval_statefull_rev`: the same levels from the least significant bit up -/
def rev {V : Type} (cs : Bool → V → V → V × V) : List Bool → List V → List V
  | [], a => a
  | b :: rest, a => level cs (2 ^ rest.length) b (rev cs rest a)

def retrievalStatefull {V : Type} (cs : Bool → V → V → V × V) (idx rsh mask : Nat) (a : List V) : List V :=
  fwd cs (bitsMSB idx rsh mask) a

def retrievalStatefullRev {V : Type} (cs : Bool → V → V → V × V) (idx rsh mask : Nat) (a : List V) : List V :=
  rev cs (bitsMSB idx rsh mask) a

/-! ### `glwe_blind_selection` -/

/-- one level of `glwe_blind_selection` on the sparse table (`HashMap<usize, _>`): entries `j` ("hi") and
`j + t` ("lo") are removed and, unless both are missing, entry `j` is inserted:
`cmux_assign(lo, hi, bit)` = `lo` if `bit` else `hi`, a missing operand being the zero ciphertext. -/
def selLevel {V : Type} (cm : Bool → V → V → V) (zero : V) (t : Nat) (b : Bool) (a : Nat → Option V) : Nat → Option V :=
  fun j =>
    if j < t then
      match a (j + t), a j with
      | some lo, some hi => some (cm b lo hi)
      | some lo, none => some (cm b lo zero)
      | none, some hi => some (cm b zero hi)
      | none, none => none
    else if j < 2 * t then none
    else a j

/-- `glwe_blind_selection`: the result is entry 0 after the last level, zero if it is missing -/
def select {V : Type} (cm : Bool → V → V → V) (zero : V) : List Bool → (Nat → Option V) → V
  | [], a => (a 0).getD zero
  | b :: rest, a => select cm zero rest (selLevel cm zero (2 ^ rest.length) b a)

def blindSelection {V : Type} (cm : Bool → V → V → V) (zero : V) (idx rsh mask : Nat) (a : Nat → Option V) : V :=
  select cm zero (bitsMSB idx rsh mask) a

/-! ### `GLWEBlindRetriever` (one-shot retrieval with a binary counter of accumulators) -/

structure Acc (V : Type) where
  data : V
  num : Nat

/-- `add_core(a, accumulators, i, selector, offset)`; `bit k` = `selector.get_bit(k + offset)`;
`cmn s res a` = `cmux_assign_neg` = `a` if `s` else `res`.  An empty accumulator slice is
`split_at_mut(1)` out of range. -/
def addCore {V : Type} (cmn : Bool → V → V → V) (bit : Nat → Bool) : V → List (Acc V) → Nat → Outcome (List (Acc V))
  | _, [], _ => .panic "bounds"
  | a, acc :: next, i =>
    match acc.num with
    | 0 => .ok ({ data := a, num := 1 } :: next)
    | 1 =>
      let d := cmn (bit i) acc.data a
      if next.isEmpty then .ok ({ data := d, num := 0 } :: next)
      else
        match addCore cmn bit d next (i + 1) with
        | .ok n' => .ok ({ data := d, num := 0 } :: n')
        | .panic c => .panic c
        | .err e => .err e
    | _ => .panic "other"

/-- `flush`'s loop body for `i = k, k+1, …` over the accumulators from position `k` on (fuel = their number):
`if acc[i].num != 0 { add_core(acc[i].data, acc[i+1..], i+1); acc[i].num = 0 }`; returns the data of the last one -/
def flushFrom {V : Type} (cmn : Bool → V → V → V) (bit : Nat → Bool) : Nat → List (Acc V) → Nat → Outcome V
  | 0, _, _ => .panic "bounds"
  | _ + 1, [], _ => .panic "bounds"
  | _ + 1, [last], _ => .ok last.data
  | fuel + 1, acc :: next, i =>
    if acc.num ≠ 0 then
      match addCore cmn bit acc.data next (i + 1) with
      | .ok n' => flushFrom cmn bit fuel n' (i + 1)
      | .panic c => .panic c
      | .err e => .err e
    else flushFrom cmn bit fuel next (i + 1)

/-- `GLWEBlindRetriever::alloc(size)` + `retrieve(res, data, selector, offset)`:
`bit_size = (32 - (size - 1).leading_zeros()).max(1)` accumulators (initial contents `init`), one `add` per element
(`assert!(counter < 1 << bit_size)`), then `flush` (zero result when nothing was added). -/
def retrieve {V : Type} (cmn : Bool → V → V → V) (zero init : V) (size : Nat) (idx offset : Nat) (data : List V) : Outcome V :=
  let bitSize := max (if size ≤ 1 then 0 else Nat.log2 (size - 1) + 1) 1      -- `.max(1)`: one accumulator even for one element
  let bit := fun k => idx.testBit (k + offset)
  let accs0 : List (Acc V) := List.replicate bitSize { data := init, num := 0 }
  let step : Outcome (List (Acc V) × Nat) → V → Outcome (List (Acc V) × Nat) := fun st a =>
    match st with
    | .ok (accs, counter) =>
      if ¬ (counter < 2 ^ accs.length) then .panic "assert"
      else
        match addCore cmn bit a accs 0 with
        | .ok accs' => .ok (accs', counter + 1)
        | .panic c => .panic c
        | .err e => .err e
    | other => other
  match data.foldl step (.ok (accs0, 0)) with
  | .ok (accs, counter) =>
    if counter = 0 then .ok zero
    else flushFrom cmn bit accs.length accs 0
  | .panic c => .panic c
  | .err e => .err e

end BlindSel
