import Poulpy.Model.Basic
/-
C12 — the scratch arena and the allocation behaviour of scratch-taking operations.

Rust → Lean
* `poulpy-cpu-ref/src/hal_defaults/scratch.rs::take_slice_aligned`        → `Scratch.take`
* `…::scratch_available_default`                                           → `Arena.available`
* `poulpy-hal/src/api/scratch.rs::split_at_mut`                            → `Scratch.take` (same code path)
* `poulpy-hal/src/api/scratch.rs::split_mut`                               → `AllocTree.par` / `runPar`
* every `take_*` of `ScratchTakeBasic` / `ScratchTakeCore`                 → `AllocTree.take (bytes_of …)`
* `assert!(scratch.available() >= self.xxx_tmp_bytes(..))` at entry of an operation → `AllocTree.need`
* an operation's body                                                     → an `AllocTree` built by a function of the shape
  (files `Model/ScratchHal.lean`, `Model/ScratchCore.lean`)

An address is a natural number; a window (`Scratch<B>`, a `[u8]`) is `{addr, len}`.
-/

namespace Scratch

/-- `poulpy_hal::DEFAULTALIGN` -/
def ALIGN : Nat := 64

/-- a `&mut [u8]` window: start address and length -/
structure Arena where
  addr : Nat
  len : Nat
deriving Repr, DecidableEq

/-- `ptr.align_offset(DEFAULTALIGN)` for a byte pointer -/
def alignOff (addr : Nat) : Nat := (64 - addr % 64) % 64

def Arena.misalign (a : Arena) : Nat := a.addr % 64

/-- `scratch_available_default`: `self_len.saturating_sub(aligned_offset)` -/
def Arena.available (a : Arena) : Nat := a.len - alignOff a.addr

/-- `take_slice_aligned(data, take_len)`: `some (start of the taken slice, remainder)`, `none` = the
`panic!("Attempted to take …")`.  (`Nat` subtraction is the Rust `saturating_sub`.) -/
def take (a : Arena) (bytes : Nat) : Option (Nat × Arena) :=
  let ao := alignOff a.addr
  let alen := a.len - ao
  if bytes ≤ alen then some (a.addr + ao, ⟨a.addr + ao + bytes, alen - bytes⟩) else none

/-- What an operation does with its scratch, as a function of nothing but sizes. -/
inductive AllocTree where
  /-- no (further) scratch use -/
  | done
  /-- `let (x, scratch_1) = scratch.take_*(bytes)`; the continuation runs on `scratch_1` -/
  | take (bytes : Nat) (k : AllocTree)
  /-- two uses of the *same* scratch one after the other (the borrow of the first has ended) -/
  | alt (a b : AllocTree)
  /-- `assert!(scratch.available() >= bytes)` and then `k` on the same scratch -/
  | need (bytes : Nat) (k : AllocTree)
  /-- `let (scratches, rem) = scratch.split_mut(n, len)`; `body` runs inside every one of the `n`
  windows, `k` on the remainder -/
  | par (n len : Nat) (body k : AllocTree)
deriving Repr

/-- one observed take, same triple as the `verif-hooks` recorder: window address, window length,
requested length -/
abbrev Ev := Nat × Nat × Nat

inductive Res where
  | ok (evs : List Ev)
  /-- `take_slice_aligned` panicked ("Attempted to take …") -/
  | failTake
  /-- an `assert!(scratch.available() >= …)` failed -/
  | failNeed
deriving Repr, DecidableEq

def Res.isOk : Res → Bool
  | .ok _ => true
  | _ => false

def Res.prepend (l : List Ev) : Res → Res
  | .ok l' => .ok (l ++ l')
  | r => r

/-- sequential composition on results: run `g` only if `r` succeeded -/
def Res.andThen (r : Res) (g : Unit → Res) : Res :=
  match r with
  | .ok l => (g ()).prepend l
  | e => e

/-- padding inserted after a take of `b` bytes that started on an aligned address -/
def pad (b : Nat) : Nat := alignOff b

/-- `b.next_multiple_of(DEFAULTALIGN)` -/
def roundUp (b : Nat) : Nat := b + pad b

/-- the size check of `split_mut(n, len)`: `(n - 1) * len.next_multiple_of(DEFAULTALIGN) + len` for `n > 0` -/
def parNeed (n len : Nat) : Nat := if n = 0 then 0 else (n - 1) * roundUp len + len

/-- the loop of `split_mut`: `n` consecutive `split_at_mut(len)`.  Returns the take events, the `n`
windows and the remainder; `none` = one of the takes panicked. -/
def splitLoop : Nat → Nat → Arena → Option (List Ev × List Arena × Arena)
  | 0, _, a => some ([], [], a)
  | n + 1, len, a =>
    match take a len with
    | none => none
    | some (p, r) =>
      match splitLoop n len r with
      | none => none
      | some (evs, ws, r') => some ((a.addr, a.len, len) :: evs, ⟨p, len⟩ :: ws, r')

/-- run `f` in every window, in order -/
def runAll (f : Arena → Res) : List Arena → Res
  | [] => .ok []
  | w :: ws => (f w).andThen (fun _ => runAll f ws)

/-- Execute an allocation tree on a window. -/
def run : AllocTree → Arena → Res
  | .done, _ => .ok []
  | .take b k, a =>
    match take a b with
    | none => .failTake
    | some (_, r) => (run k r).prepend [(a.addr, a.len, b)]
  | .alt x y, a => (run x a).andThen (fun _ => run y a)
  | .need b k, a => if b ≤ a.available then run k a else .failNeed
  | .par n len body k, a =>
    if parNeed n len ≤ a.available then
      match splitLoop n len a with
      | none => .failTake
      | some (evs, ws, r) => ((runAll (run body) ws).andThen (fun _ => run k r)).prepend evs
    else .failNeed

/-- requirement of `n` consecutive takes of `len` followed by something that needs `rk` -/
def parReq : Nat → Nat → Nat → Nat
  | 0, _, rk => rk
  | n + 1, len, rk => len + (if parReq n len rk = 0 then 0 else pad len + parReq n len rk)

/-- Exact requirement: the least `available()` with which `run` succeeds (theorem `run_ok_iff`).
This is what a correct `*_tmp_bytes` has to return at least. -/
def req : AllocTree → Nat
  | .done => 0
  | .take b k => b + (if req k = 0 then 0 else pad b + req k)
  | .alt x y => max (req x) (req y)
  | .need b k => max b (req k)
  | .par n len _ k => max (parNeed n len) (parReq n len (req k))

/-- The requirement the authors of the `lvl_i` comments compute: plain sums and maxima, no padding. -/
def reqA : AllocTree → Nat
  | .done => 0
  | .take b k => b + reqA k
  | .alt x y => max (reqA x) (reqA y)
  | .need b k => max b (reqA k)
  | .par n len _ k => n * len + reqA k

/-- every `split_mut` body fits its window -/
def fits : AllocTree → Bool
  | .done => true
  | .take _ k => fits k
  | .alt x y => fits x && fits y
  | .need _ k => fits k
  | .par n len body k => (n == 0 || decide (req body ≤ len)) && fits body && fits k

/-- every take that is followed by further scratch use is a multiple of 64 bytes: the hypothesis
under which the unpadded sum is right -/
def aligned : AllocTree → Bool
  | .done => true
  | .take b k => (b % 64 == 0 || reqA k == 0) && aligned k
  | .alt x y => aligned x && aligned y
  | .need _ k => aligned k
  | .par n len body k => (len % 64 == 0 || (n ≤ 1 && reqA k == 0)) && aligned body && aligned k

/-- highest address reached by a take (exclusive end), given the events -/
def peakEnd (evs : List Ev) : Nat :=
  evs.foldl (fun m (e : Ev) => max m (e.1 + alignOff e.1 + e.2.2)) 0

/-! ### helpers used by the per-operation trees -/

/-- a `for` loop whose body uses the scratch identically on every iteration -/
def loop (cnt : Nat) (t : AllocTree) : AllocTree := if cnt = 0 then .done else t

/-- sequential uses of the same scratch -/
def altList : List AllocTree → AllocTree
  | [] => .done
  | [t] => t
  | t :: ts => .alt t (altList ts)

/-- a leaf: one take, nothing after it -/
def leaf (bytes : Nat) : AllocTree := .take bytes .done

end Scratch
