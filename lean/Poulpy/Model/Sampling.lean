/-
Stream consumers of the samplers (import-free apart from `Model.Basic`).

Rust anchors
  poulpy-hal/src/source.rs                          : Source::next_u64n, new_seed, branch
  poulpy-cpu-ref/src/reference/znx/sampling.rs      : znx_fill_uniform_ref, znx_add_normal_f64_ref (placement only)
  poulpy-cpu-ref/src/reference/vec_znx/sampling.rs  : vec_znx_fill_uniform_ref, vec_znx_add_normal_ref
  poulpy-hal/src/layouts/mod.rs                     : NoiseInfos::target_limb_and_scale

`Source` (ChaCha8) is not modelled: a source is the list of the raw `u64` words it will deliver
(`next_u64`), consumed from the head; every consumer returns the unconsumed remainder, so the
*order* of consumption is part of the model.  The rounded Gaussian integers that
`znx_add_normal_f64_ref` adds are inputs (the ziggurat sampler of `rand_distr` and its rejection
loop are outside the model); what is modelled is where they are added.
-/
import Poulpy.Model.Basic

namespace Sampling

/-- `Source::next_u64n(max, mask)`: draw words, mask them, reject while `x ≥ max`.
`none` = the stream ran dry (never happens with a real source). -/
def nextU64n (max mask : Nat) : List Nat → Option (Nat × List Nat)
  | [] => none
  | u :: rest =>
    let x := u &&& mask
    if x < max then some (x, rest) else nextU64n max mask rest

/-- `let pow2k: u64 = 1 << base2k` with overflow checks off: the shift amount is taken modulo 64 -/
def pow2k (b : Nat) : Nat := (1 <<< (b % 64)) % 2 ^ 64

/-- `mask = pow2k - 1` (wrapping `u64` subtraction; `pow2k ≥ 1` always) -/
def maskOf (b : Nat) : Nat := pow2k b - 1

/-- `pow2k_half = (pow2k >> 1) as i64` -/
def halfOf (b : Nat) : Nat := pow2k b >>> 1

/-- the digit `znx_fill_uniform_ref` writes for a masked word `x`: `(x as i64) - pow2k_half` -/
def digitOf (b : Nat) (x : Nat) : Int := w64 (w64 (x : Int) - (halfOf b : Int))

/-- the digit obtained from one raw 64-bit word when no rejection happens (`mask = max - 1`) -/
def digitOfWord (b : Nat) (u : Nat) : Int := digitOf b (u &&& maskOf b)

/-- `znx_fill_uniform_ref(base2k, res, source)` on a slice of `n` coefficients -/
def znxFillUniform (b : Nat) : Nat → List Nat → Option (Poly × List Nat)
  | 0, s => some ([], s)
  | n + 1, s =>
    match nextU64n (pow2k b) (maskOf b) s with
    | none => none
    | some (x, s1) =>
      match znxFillUniform b n s1 with
      | none => none
      | some (p, s2) => some (digitOf b x :: p, s2)

/-- `vec_znx_fill_uniform_ref(base2k, res, col, source)`: limbs `0 … size-1` in this order -/
def vecFillUniform (b n : Nat) : Nat → List Nat → Option (Col × List Nat)
  | 0, s => some ([], s)
  | size + 1, s =>
    match znxFillUniform b n s with
    | none => none
    | some (p, s1) =>
      match vecFillUniform b n size s1 with
      | none => none
      | some (c, s2) => some (p :: c, s2)

/-- `NoiseInfos::target_limb_and_scale(base2k)` as `(limb, log2 scale)`:
`limb = k.div_ceil(base2k) - 1`, `scale = 2^((limb+1)·base2k - k)`.
`none`: `base2k = 0` (division by zero) or `k = 0` (`0 - 1` underflows; the wrapped index then
fails the bounds assertion of `at_mut`). -/
def targetLimbAndScale (k b : Nat) : Option (Nat × Nat) :=
  if b = 0 ∨ k = 0 then none
  else
    let limb := (k + b - 1) / b - 1
    some (limb, (limb + 1) * b - k)

/-- `vec_znx_add_normal_ref` / `vec_znx_big_add_normal_ref` on one column, given the integers
`e` the sampler adds: `res[limb][i] += e[i]` with the wrap `w` of the accumulator type; `none` =
the bounds assertion of `at_mut(col, limb)` (limb beyond the column). -/
def addNormalCol (w : Int → Int) (k b : Nat) (c : Col) (e : Poly) : Option Col :=
  match targetLimbAndScale k b with
  | none => none
  | some (limb, _) =>
    if limb < c.length then
      some (c.mapIdx (fun j l => if j = limb then List.zipWith (fun x y => w (x + y)) l e else l))
    else none

/-- `Source::new_seed` / `branch`: 32 bytes = four little-endian words of the parent stream
(`fill_bytes` of a block RNG consumes whole 32-bit words; a 32-byte request is four `u64`s).
The child stream is a function `expand` of the seed, supplied by the caller (ChaCha8 itself is
outside the model). -/
def newSeed : List Nat → Option (List Nat × List Nat)
  | a :: b :: c :: d :: rest => some ([a, b, c, d], rest)
  | _ => none

end Sampling
