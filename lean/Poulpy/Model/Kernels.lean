import Poulpy.Model.Basic
/-
Footprints of the raw-pointer kernels (C17): for given arguments, the exact list of element ranges a kernel
reads and writes, transcribed from the pointer arithmetic of the AVX variants (`ptr.add(..)`, 4-lane loads and
stores) — the reference variants touch the same ranges through bounds-checked slices.

Rust sources:
  poulpy-cpu-avx/src/fft64/reim4/arithmetic_avx.rs, poulpy-cpu-ref/src/reference/fft64/reim4/arithmetic_ref.rs
  poulpy-cpu-ref/src/reference/fft64/vmp.rs            (vmp_prepare_core, vmp_apply_dft_to_dft_core)
  poulpy-cpu-ref/src/reference/fft64/convolution.rs    (convolution_prepare(_self), convolution_apply_dft,
                                                        convolution_pairwise_apply_dft, convolution_by_const_apply)
  poulpy-cpu-avx/src/fft64/convolution.rs              (i64_* AVX kernels)
  poulpy-cpu-ref/src/hal_defaults/{convolution,vmp_pmat}.rs   (sizes of the temporaries taken from scratch)

An access is a half-open range `[lo, hi)` of ELEMENTS (f64 / i64) of one of the buffers of the call, with a flag
read/write.  A kernel that is handed the suffix `&x[off..]` of a buffer gets `off` as its base offset, so every
range is in the coordinates of the underlying buffer and "in bounds" means `hi ≤ len buf`.
-/
namespace Kern

structure Acc where
  buf : Nat
  lo : Nat
  hi : Nat
  wr : Bool
deriving DecidableEq, Repr

def rd (b lo len : Nat) : Acc := ⟨b, lo, lo + len, false⟩
def wt (b lo len : Nat) : Acc := ⟨b, lo, lo + len, true⟩

/-- every access of `l` lies inside its buffer (`len b` elements) -/
def InBounds (len : Nat → Nat) (l : List Acc) : Prop := ∀ x ∈ l, x.hi ≤ len x.buf

instance (len : Nat → Nat) (l : List Acc) : Decidable (InBounds len l) := by unfold InBounds; exact inferInstance

/-- the write set on buffer `b`, as a list of element indices (for the footprint recorder) -/
def writeIdx (b : Nat) (l : List Acc) : List Nat :=
  (l.filter (fun x => x.wr && x.buf == b)).flatMap (fun x => List.range' x.lo (x.hi - x.lo))

/-! ### reim4 primitives (AVX pointer arithmetic).  `d`/`s`/`u`/`v`/`a`/`b` = (buffer id, base offset) -/

/-- `reim4_extract_1blk_from_reim_contiguous_avx(m, rows, blk, dst, src)`: `2·rows` iterations, each a 4-lane load at
`src + 4·blk + r·4·(m>>2)` and a 4-lane store at `dst + 4·r` -/
def extract1blk (m rows blk : Nat) (d s : Nat × Nat) : List Acc :=
  (List.range (2 * rows)).flatMap (fun r => [rd s.1 (s.2 + 4 * blk + r * (4 * (m / 4))) 4, wt d.1 (d.2 + 4 * r) 4])

/-- `reim4_save_1blk_to_reim_contiguous_avx` -/
def save1blkContig (m rows blk : Nat) (d s : Nat × Nat) : List Acc :=
  (List.range (2 * rows)).flatMap (fun r => [rd s.1 (s.2 + 4 * r) 4, wt d.1 (d.2 + 4 * blk + r * (4 * (m / 4))) 4])

/-- `reim4_save_1blk_to_reim_avx::<OVERWRITE>(m, blk, dst, src)` -/
def save1blk (m blk : Nat) (d s : Nat × Nat) : List Acc :=
  [rd s.1 s.2 4, rd s.1 (s.2 + 4) 4, wt d.1 (d.2 + 4 * blk) 4, wt d.1 (d.2 + 4 * blk + m) 4]

/-- `reim4_save_2blk_to_reim_avx` -/
def save2blk (m blk : Nat) (d s : Nat × Nat) : List Acc :=
  [rd s.1 s.2 16, wt d.1 (d.2 + 4 * blk) 4, wt d.1 (d.2 + 4 * blk + m) 4, wt d.1 (d.2 + 4 * blk + 2 * m) 4,
   wt d.1 (d.2 + 4 * blk + 3 * m) 4]

/-- `reim4_vec_mat1col_product_avx(nrows, dst, u, v)` -/
def mat1col (nrows : Nat) (d u v : Nat × Nat) : List Acc :=
  (List.range nrows).flatMap (fun i => [rd u.1 (u.2 + 8 * i) 8, rd v.1 (v.2 + 8 * i) 8]) ++ [wt d.1 d.2 8]

/-- `reim4_vec_mat2cols_product_avx`: 16 doubles of `v` per row, **16** doubles stored to `dst` -/
def mat2cols (nrows : Nat) (d u v : Nat × Nat) : List Acc :=
  (List.range nrows).flatMap (fun i => [rd u.1 (u.2 + 8 * i) 8, rd v.1 (v.2 + 16 * i) 16]) ++ [wt d.1 d.2 16]

/-- `reim4_vec_mat2cols_2ndcol_product_avx`: `v_ptr = v + 8`, stride 16 -/
def mat2cols2nd (nrows : Nat) (d u v : Nat × Nat) : List Acc :=
  (List.range nrows).flatMap (fun i => [rd u.1 (u.2 + 8 * i) 8, rd v.1 (v.2 + 8 + 16 * i) 8]) ++ [wt d.1 d.2 8]

/-- `reim4_convolution_1coeff_avx(k, dst, a, a_size, b, b_size)`: `j_min = k.saturating_sub(a_size − 1)`,
`j_max = min(k+1, b_size)`; loads `a[8(k−j)..+8)`, `b[8j..+8)` -/
def conv1coeff (k aSize bSize : Nat) (d a b : Nat × Nat) : List Acc :=
  wt d.1 d.2 8 ::
    (if k ≥ aSize + bSize then []
     else
      let jmin := k - (aSize - 1)
      let jmax := min (k + 1) bSize
      (List.range' jmin (jmax - jmin)).flatMap (fun j => [rd a.1 (a.2 + 8 * (k - j)) 8, rd b.1 (b.2 + 8 * j) 8]))

/-- `reim4_convolution_2coeffs_avx`: the three-region loop reads exactly what two 1-coefficient calls read -/
def conv2coeffs (k aSize bSize : Nat) (d a b : Nat × Nat) : List Acc :=
  conv1coeff k aSize bSize d a b ++ conv1coeff (k + 1) aSize bSize (d.1, d.2 + 8) a b

/-- `Reim4Convolution::reim4_convolution(dst, dst_size, offset, a, a_size, b, b_size)` (`assert!(a_size > 0 && b_size > 0)`) -/
def conv (dstSize offset aSize bSize : Nat) (d a b : Nat × Nat) : List Acc :=
  ((List.range (dstSize / 2)).flatMap (fun t => conv2coeffs (2 * t + offset) aSize bSize (d.1, d.2 + 8 * (2 * t)) a b)) ++
  (if dstSize % 2 = 1 then conv1coeff (dstSize - 1 + offset) aSize bSize (d.1, d.2 + 8 * (dstSize - 1)) a b else [])

/-- `i64_extract_1blk_contiguous_avx(n, offset, rows, blk, dst, src)`: two 4-lane moves per row, stride `4·(n>>2)` -/
def i64extract (n offset rows blk : Nat) (d s : Nat × Nat) : List Acc :=
  (List.range rows).flatMap (fun r => [rd s.1 (s.2 + offset + 8 * blk + r * (4 * (n / 4))) 8, wt d.1 (d.2 + 8 * r) 8])

def i64save (n offset rows blk : Nat) (d s : Nat × Nat) : List Acc :=
  (List.range rows).flatMap (fun r => [rd s.1 (s.2 + 8 * r) 8, wt d.1 (d.2 + offset + 8 * blk + r * (4 * (n / 4))) 8])

/-- `i64_convolution_by_const_1coeff_avx` / the 2-coefficient twin: `a` as above, one scalar of `b` per step -/
def convConst1 (k aSize bSize : Nat) (d a b : Nat × Nat) : List Acc :=
  wt d.1 d.2 8 ::
    (if k ≥ aSize + bSize then []
     else
      let jmin := k - (aSize - 1)
      let jmax := min (k + 1) bSize
      (List.range' jmin (jmax - jmin)).flatMap (fun j => [rd a.1 (a.2 + 8 * (k - j)) 8, rd b.1 (b.2 + j) 1]))

def convConst (dstSize offset aSize bSize : Nat) (d a b : Nat × Nat) : List Acc :=
  ((List.range (dstSize / 2)).flatMap (fun t =>
      convConst1 (2 * t + offset) aSize bSize (d.1, d.2 + 8 * (2 * t)) a b ++
      convConst1 (2 * t + 1 + offset) aSize bSize (d.1, d.2 + 8 * (2 * t) + 8) a b)) ++
  (if dstSize % 2 = 1 then convConst1 (dstSize - 1 + offset) aSize bSize (d.1, d.2 + 8 * (dstSize - 1)) a b else [])

/-! ### FFT64 vmp.  Buffers: 0 = `res` / `pmat` (output), 1 = `a` / `mat`, 2 = `pmat` (input), 3 = `tmp` -/

/-- offset of (row, col) inside one 8·nrows·ncols block of the prepared matrix (`vmp_prepare_core`) -/
def pmatOff (nrows ncols row col : Nat) : Nat :=
  if col = ncols - 1 ∧ ncols % 2 = 1 then col * nrows * 8 + row * 8
  else (col / 2) * (nrows * 16) + row * 16 + (col % 2) * 8

/-- `vmp_prepare_core(table, pmat, mat, nrows, ncols, tmp)`, `n = 2m` -/
def vmpPrepare (m nrows ncols : Nat) : List Acc :=
  (List.range nrows).flatMap (fun row => (List.range ncols).flatMap (fun col =>
    [rd 1 (2 * m * (row * ncols + col)) (2 * m), wt 3 0 (2 * m)] ++
    (List.range (m / 4)).flatMap (fun blk =>
      extract1blk m 1 blk (0, pmatOff nrows ncols row col + blk * (nrows * ncols * 8)) (3, 0))))

/-- the `(col_pmat)` values of `(lo..col_max-1).step_by(2)` -/
def pairCols (lo colMax : Nat) : List Nat :=
  (List.range colMax).filter (fun c => decide (lo ≤ c) && decide (c + 2 ≤ colMax) && decide ((c - lo) % 2 = 0))

/-- `vmp_apply_dft_to_dft_core::<OVERWRITE>(n, res, a, pmat, limb_offset, nrows, ncols, tmp)`;
`resSize = res.len()/n`, `aSize = a.len()/n`, `lo` = the (already multiplied) limb offset -/
def vmpApply (m resSize aSize nrows ncols lo : Nat) : List Acc :=
  let n := 2 * m
  let rowMax := min nrows aSize
  let colMax := min ncols (resSize + lo)
  if lo ≥ colMax then [wt 0 0 (n * resSize)]
  else
    ((List.range (m / 4)).flatMap (fun blk =>
      let mb := blk * (8 * nrows * ncols)
      extract1blk m rowMax blk (3, 16) (1, 0) ++
      (if lo % 2 = 0 then
        (pairCols lo colMax).flatMap (fun c =>
          mat2cols rowMax (3, 0) (3, 16) (2, mb + c * (8 * nrows)) ++ save2blk m blk (0, (c - lo) * n) (3, 0))
       else
        mat2cols2nd rowMax (3, 0) (3, 16) (2, mb + (lo - 1) * (8 * nrows)) ++ save1blk m blk (0, 0) (3, 0) ++
        (pairCols (lo + 1) colMax).flatMap (fun c =>
          mat2cols rowMax (3, 0) (3, 16) (2, mb + c * (8 * nrows)) ++ save2blk m blk (0, (c - lo) * n) (3, 0))) ++
      (if colMax % 2 = 1 ∧ colMax - 1 ≥ lo then
        (if ncols = colMax then mat1col rowMax (3, 0) (3, 16) (2, mb + (colMax - 1) * (8 * nrows))
         else mat2cols rowMax (3, 0) (3, 16) (2, mb + (colMax - 1) * (8 * nrows))) ++
        save1blk m blk (0, (colMax - 1 - lo) * n) (3, 0)
       else []))) ++
    [wt 0 ((colMax - lo) * n) (n * resSize - (colMax - lo) * n)]

/-! ### FFT64 convolution.  Buffers: 0 = `res`, 1 = `a`, 2 = `b`, 3 = `tmp` -/

/-- `convolution_prepare(table, res, a, mask, tmp)` for one column `i` of `res` (CnvPVecL/R, `resSize` limbs):
`vec_znx_dft_apply(table, 1, 0, tmp, 0, a, i)` fills the `tmpSize` limbs of column 0 of `tmp` (`tmpCols` columns), the
masked last limb is recomputed, then per block `2·minSize` rows of `tmp.raw()` are gathered.
`copyRows` = the number of limbs the extraction copies (`min_size` in the code). -/
def cnvPrepareCol (m resSize aSize tmpSize tmpCols i copyRows : Nat) : List Acc :=
  let n := 2 * m
  let minSize := min resSize aSize
  -- vec_znx_dft_apply: limb j of tmp column 0 is written (from `a` when j < a.size, zero otherwise)
  (List.range tmpSize).map (fun j => wt 3 (n * (j * tmpCols)) n) ++
  (if minSize > 0 then [wt 3 (n * ((minSize - 1) * tmpCols)) n] else []) ++
  (List.range (m / 4)).flatMap (fun blk =>
    extract1blk m copyRows blk (0, i * n * resSize + blk * resSize * 8) (3, 0) ++
    [wt 0 (i * n * resSize + blk * resSize * 8 + minSize * 8) ((blk + 1) * resSize * 8 - (blk * resSize * 8 + minSize * 8))])

/-- `convolution_apply_dft(cnv_offset, res, res_col, a, a_col, b, b_col, tmp)`; `res` has `resCols` columns -/
def cnvApply (m resSize resCols resCol aSize aCol bSize bCol cnvOffset : Nat) : List Acc :=
  let n := 2 * m
  let bound := aSize + bSize - 1
  let minSize := min resSize bound
  let offset := min cnvOffset bound
  (List.range (m / 4)).flatMap (fun blk =>
    conv minSize offset aSize bSize (3, 0) (1, aCol * n * aSize + blk * (aSize * 8)) (2, bCol * n * bSize + blk * (bSize * 8)) ++
    (List.range minSize).flatMap (fun k => save1blk m blk (0, n * (k * resCols + resCol)) (3, 8 * k))) ++
  (List.range' minSize (resSize - minSize)).map (fun j => wt 0 (n * (j * resCols + resCol)) n)

/-- `convolution_by_const_apply(cnv_offset, res, res_col, a, a_col, b, tmp)` (VecZnxBig `res`, VecZnx `a`, `b: &[i64]`);
`res_blk = tmp[..8·min_size]`, `a_blk = tmp[8·min_size..8·(min_size+a_size)]` -/
def cnvByConst (n resSize resCols resCol aSize aCols aCol bSize cnvOffset : Nat) : List Acc :=
  let bound := aSize + bSize - 1
  let minSize := min resSize bound
  let offset := min cnvOffset bound
  (List.range (n / 8)).flatMap (fun blk =>
    i64extract (n * aCols) (n * aCol) aSize blk (3, 8 * minSize) (1, 0) ++
    convConst minSize offset aSize bSize (3, 0) (3, 8 * minSize) (2, 0) ++
    i64save (n * resCols) (n * resCol) minSize blk (0, 0) (3, 0)) ++
  (List.range' minSize (resSize - minSize)).map (fun j => wt 0 (n * (j * resCols + resCol)) n)

/-! ### the entry points as shipped (repair docs/fixes/24): `assert!(res_col < res.cols())`, `assert!(a_col < a.cols())`,
`assert!(b_col < b.cols())` first, then the bodies `cnvApply` / `cnvByConst` above -/

def cnvApplyChecked (m resSize resCols resCol aSize aCols aCol bSize bCols bCol cnvOffset : Nat) : Outcome (List Acc) :=
  if ¬ (resCol < resCols ∧ aCol < aCols ∧ bCol < bCols) then .panic "assert"
  else if ¬ (1 ≤ aSize ∧ 1 ≤ bSize) then .panic "assert"                       -- reim4_convolution: assert!(a_size > 0), assert!(b_size > 0)
  else .ok (cnvApply m resSize resCols resCol aSize aCol bSize bCol cnvOffset)

def cnvByConstChecked (n resSize resCols resCol aSize aCols aCol bSize cnvOffset : Nat) : Outcome (List Acc) :=
  if ¬ (resCol < resCols ∧ aCol < aCols) then .panic "assert"
  else if ¬ (1 ≤ aSize) then .panic "assert"                                   -- i64_convolution_by_const: assert!(a_size > 0)
  else .ok (cnvByConst n resSize resCols resCol aSize aCols aCol bSize cnvOffset)

/-- `convolution_pairwise_apply_dft`, `col_i ≠ col_j` path.  `tmp = [tmp_a (8·a_size) | tmp_b (8·b_size) | tmp_res (8·min_size)]`
(`assert_eq!(tmp.len(), …)`); the operand rows are read through bounds-checked sub-slices -/
def cnvPairwise (m resSize resCols resCol aSize bSize colI colJ cnvOffset : Nat) : List Acc :=
  let n := 2 * m
  let bound := aSize + bSize - 1
  let minSize := min resSize bound
  let offset := min cnvOffset bound
  (List.range (m / 4)).flatMap (fun blk =>
    [rd 1 (colI * n * aSize + blk * (aSize * 8)) (aSize * 8), rd 1 (colJ * n * aSize + blk * (aSize * 8)) (aSize * 8),
     wt 3 0 (aSize * 8),
     rd 2 (colI * n * bSize + blk * (bSize * 8)) (bSize * 8), rd 2 (colJ * n * bSize + blk * (bSize * 8)) (bSize * 8),
     wt 3 (aSize * 8) (bSize * 8)] ++
    conv minSize offset aSize bSize (3, aSize * 8 + bSize * 8) (3, 0) (3, aSize * 8) ++
    (List.range minSize).flatMap (fun k => save1blk m blk (0, n * (k * resCols + resCol)) (3, aSize * 8 + bSize * 8 + 8 * k))) ++
  (List.range' minSize (resSize - minSize)).map (fun j => wt 0 (n * (j * resCols + resCol)) n)

/-! ### element-wise limb loops (`vec_znx_dft_add_into`, `…_sub`, `…_copy`, `svp_apply_dft_to_dft`, …):
`for j in lo..hi { K(res.at_mut(res_col, j), a.at(a_col, j)) }` where the AVX kernel `K` walks `res_slice.len()` elements
of every operand with raw pointers (its equal-length assertions are `#[cfg(debug_assertions)]`).
`nR`, `nA` = ring degrees of `res` and `a` -/
def limbLoop (nR resCols resCol nA aCols aCol lo hi : Nat) : List Acc :=
  (List.range' lo (hi - lo)).flatMap (fun j =>
    [wt 0 (nR * (j * resCols + resCol)) nR, rd 1 (nA * (j * aCols + aCol)) nR])

/-! ### the `span = n >> 2` loop pattern of znx_avx/*.rs and fft64/reim/*.rs

Every element-wise AVX kernel takes `n` from ONE slice, runs `span = n >> 2` iterations of 4-lane loads / stores on every
operand and then either a scalar tail on `[span << 2, n)` (znx_avx) or, when `n % 4 ≠ 0`, hands the whole call to the
reference kernel (reim) — the same element set. `ops` = the operands as (buffer id, written?) -/

def simdOperand (b : Nat) (wr : Bool) (n : Nat) : List Acc :=
  (List.range (n >>> 2)).map (fun i => ⟨b, 4 * i, 4 * i + 4, wr⟩) ++
  (if n % 4 ≠ 0 then [⟨b, (n >>> 2) <<< 2, n, wr⟩] else [])

def simdKernel (ops : List (Nat × Bool)) (n : Nat) : List Acc := ops.flatMap (fun o => simdOperand o.1 o.2 n)

/-- operand roles of the kernels of poulpy-cpu-avx/src/znx_avx/{add,sub,neg,mul,normalization}.rs and
fft64/reim/{fft_vec_avx2_fma,conversion}.rs (buffer 0 = first slice argument, 1 = second, 2 = third) -/
def avxElementwiseKernels : List (String × List (Nat × Bool)) :=
  [("znx_add_avx", [(0, true), (1, false), (2, false)]), ("znx_add_assign_avx", [(0, true), (0, false), (1, false)]),
   ("znx_sub_avx", [(0, true), (1, false), (2, false)]), ("znx_sub_assign_avx", [(0, true), (0, false), (1, false)]),
   ("znx_sub_negate_assign_avx", [(0, true), (0, false), (1, false)]),
   ("znx_negate_avx", [(0, true), (1, false)]), ("znx_negate_assign_avx", [(0, true), (0, false)]),
   ("znx_mul_power_of_two_avx", [(0, true), (1, false)]), ("znx_mul_power_of_two_assign_avx", [(0, true), (0, false)]),
   ("znx_mul_add_power_of_two_avx", [(0, true), (0, false), (1, false)]),
   ("znx_extract_digit_addmul_avx", [(0, true), (0, false), (1, true), (1, false)]),
   ("znx_normalize_digit_avx", [(0, true), (0, false), (1, true), (1, false)]),
   ("znx_normalize_first_step_carry_only_avx", [(0, false), (1, true)]),
   ("znx_normalize_first_step_assign_avx", [(0, true), (0, false), (1, true)]),
   ("znx_normalize_first_step_avx", [(0, true), (0, false), (1, false), (2, true)]),
   ("znx_normalize_middle_step_assign_avx", [(0, true), (0, false), (1, true), (1, false)]),
   ("znx_normalize_middle_step_carry_only_avx", [(0, false), (1, true), (1, false)]),
   ("znx_normalize_middle_step_avx", [(0, true), (0, false), (1, false), (2, true), (2, false)]),
   ("znx_normalize_middle_step_sub_avx", [(0, true), (0, false), (1, false), (2, true), (2, false)]),
   ("znx_normalize_final_step_assign_avx", [(0, true), (0, false), (1, false)]),
   ("znx_normalize_final_step_avx", [(0, true), (0, false), (1, false), (2, false)]),
   ("znx_normalize_final_step_sub_avx", [(0, true), (0, false), (1, false), (2, false)]),
   ("reim_add_avx2_fma", [(0, true), (1, false), (2, false)]), ("reim_add_assign_avx2_fma", [(0, true), (0, false), (1, false)]),
   ("reim_sub_avx2_fma", [(0, true), (1, false), (2, false)]), ("reim_sub_assign_avx2_fma", [(0, true), (0, false), (1, false)]),
   ("reim_sub_negate_assign_avx2_fma", [(0, true), (0, false), (1, false)]),
   ("reim_negate_avx2_fma", [(0, true), (1, false)]), ("reim_negate_assign_avx2_fma", [(0, true), (0, false)]),
   ("reim_from_znx_i64_bnd50_fma", [(0, true), (1, false)]), ("reim_from_znx_i64_masked_bnd50_fma", [(0, true), (1, false)]),
   ("reim_to_znx_i64_bnd63_avx2_fma", [(0, true), (1, false)]), ("reim_to_znx_i64_assign_bnd63_avx2_fma", [(0, true), (0, false)]),
   ("reim_to_znx_i64_avx2_bnd50_fma", [(0, true), (1, false)])]

/-- `znx_automorphism_avx(p, res, a)` for `n ≥ 4` a power of two: `span` iterations, each a 4-lane gather of
`a[(t + l·inv) & (2n−1) & (n−1)]` (`inv = p⁻¹ mod 2n`, `t = 4i·inv`) and a 4-lane store to `res[4i..4i+4)` -/
def automorphismFoot (n inv : Nat) : List Acc :=
  (List.range (n >>> 2)).flatMap (fun i =>
    (List.range 4).map (fun l => rd 1 (((4 * i + l) * inv) % (2 * n) % n) 1) ++ [wt 0 (4 * i) 4])

/-- `znx_switch_ring_avx(res, a)`, `n_in > n_out ≥ 4` (down-sampling gather, stride `gap = n_in / n_out`) -/
def switchRingDown (nIn nOut : Nat) : List Acc :=
  (List.range (nOut >>> 2)).flatMap (fun i =>
    (List.range 4).map (fun l => rd 1 ((4 * i + l) * (nIn / nOut)) 1) ++ [wt 0 (4 * i) 4])

/-- `n_out > n_in ≥ 4` (up-sampling: 4-lane load of `a[i..i+4)`, four scalar stores `res[(i+l)·gap]`) -/
def switchRingUp (nIn nOut : Nat) : List Acc :=
  (List.range (nIn >>> 2)).flatMap (fun i =>
    rd 1 (4 * i) 4 :: (List.range 4).map (fun l => wt 0 ((4 * i + l) * (nOut / nIn)) 1))

/-! ### NTT120 vmp (poulpy-cpu-ref/src/reference/ntt120/vmp.rs, AVX kernels in poulpy-cpu-avx/src/ntt120/mat_vec_avx.rs)

Same block-interleaved scheme as FFT64 in other units: a limb of a `VecZnxDft` is `4n` u64, a block is one q120x2b
element = 8 u64 at `8·blk` (`n/2` blocks); the prepared matrix is addressed in u32 (q120c: 16 u32 per column and row,
32 per stored pair), block stride `16·nrows·ncols` u32.  Buffers: 0 = `res` (u64), 1 = `a` (u64), 2 = `pmat` (u32),
3 = `tmp` (u64: `mat2cols_output = tmp[..16]`, `extracted_blk = tmp[16..]`, read by the kernels as `2×` as many u32) -/

def nttPmatOff (nrows ncols row col : Nat) : Nat :=
  if col = ncols - 1 ∧ ncols % 2 = 1 then col * nrows * 16 + row * 16
  else (col / 2) * (nrows * 32) + row * 32 + (col % 2) * 16

/-- `ntt120_vmp_prepare`: per (row, col) the `n/2` blocks of 16 u32 scattered into the matrix (checked slices) -/
def nttVmpPrepare (n nrows ncols : Nat) : List Acc :=
  (List.range nrows).flatMap (fun row => (List.range ncols).flatMap (fun col =>
    rd 1 (n * (row * ncols + col)) n ::
    (List.range (n / 2)).map (fun blk => wt 0 (nttPmatOff nrows ncols row col + blk * (nrows * ncols * 16)) 16)))

/-- `extract_1blk_from_contiguous_q120b`: row `r` of `a` contributes `a[4n·r + 8·blk ..+8)` -/
def nttExtract (n rowMax blk : Nat) : List Acc :=
  (List.range rowMax).flatMap (fun r => [rd 1 (4 * n * r + 8 * blk) 8, wt 3 (16 + 8 * r) 8])

/-- `vec_mat2cols_product_x2_bbc`: `ell` rows, 8 u64 (16 u32) of the extracted block and 32 u32 of the matrix per row, 16 u64 out -/
def nttMat2cols (ell vOff : Nat) : List Acc :=
  (List.range ell).flatMap (fun i => [rd 3 (16 + 8 * i) 8, rd 2 (vOff + 32 * i) 32]) ++ [wt 3 0 16]
/-- `vec_mat1col_product_x2_bbc`: 16 u32 of the matrix per row, 8 u64 out -/
def nttMat1col (ell vOff : Nat) : List Acc :=
  (List.range ell).flatMap (fun i => [rd 3 (16 + 8 * i) 8, rd 2 (vOff + 16 * i) 16]) ++ [wt 3 0 8]

/-- `save_blk_overwrite(n, blk, &mut res[base..], &out[o..o+8])` -/
def nttSave (blk base o : Nat) : List Acc := [rd 3 o 8, wt 0 (base + 8 * blk) 8]

/-- `vmp_apply_dft_to_dft_core::<true>` of the NTT120 back ends -/
def nttVmpApply (n resSize aSize nrows ncols lo : Nat) : List Acc :=
  let rowMax := min nrows aSize
  let colMax := min ncols (resSize + lo)
  if lo ≥ colMax then [wt 0 0 (4 * n * resSize)]
  else
    ((List.range (n / 2)).flatMap (fun blk =>
      let mb := blk * (nrows * ncols * 16)
      nttExtract n rowMax blk ++
      (if lo % 2 = 0 then
        (pairCols lo colMax).flatMap (fun c =>
          nttMat2cols rowMax (mb + c * (nrows * 16)) ++ nttSave blk ((c - lo) * (4 * n)) 0 ++ nttSave blk ((c - lo + 1) * (4 * n)) 8)
       else
        nttMat2cols rowMax (mb + (lo - 1) * (nrows * 16)) ++ nttSave blk 0 8 ++
        (pairCols (lo + 1) colMax).flatMap (fun c =>
          nttMat2cols rowMax (mb + c * (nrows * 16)) ++ nttSave blk ((c - lo) * (4 * n)) 0 ++ nttSave blk ((c - lo + 1) * (4 * n)) 8)) ++
      (if colMax % 2 = 1 ∧ colMax - 1 ≥ lo then
        (if ncols = colMax then nttMat1col rowMax (mb + (colMax - 1) * (nrows * 16))
         else nttMat2cols rowMax (mb + (colMax - 1) * (nrows * 16))) ++
        nttSave blk ((colMax - 1 - lo) * (4 * n)) 0
       else []))) ++
    (List.range' (colMax - lo) (resSize - (colMax - lo))).map (fun col => wt 0 (col * (4 * n)) (4 * n))

/-! ### NTT120 `vec_znx_dft_apply` / `idft_apply` / `idft_apply_tmpa` (poulpy-cpu-ref/src/reference/ntt120/vec_znx_dft.rs)

Limb `(col, j)` of a `VecZnxDft` = u64 `[4·nR·(j·cols+col), +4·nR)`; limb `(col, l)` of a `VecZnx` = i64
`[nA·(l·cols+col), +nA)`; limb of a `VecZnxBig` = i128 `[n·(j·cols+col), +n)`.  `ntt_from_znx64` walks `a.len()` coefficients
(`4·a.len()` u64 of the result); the (inverse) NTT walks `4·tn` u64 of the slice it is handed, `tn` = ring degree of the
MODULE's table — independent of the slice. -/

/-- buffers: 0 = `res` (u64), 1 = `a` (i64) -/
def nttDftApply (nR nA tn step offset resCols resCol resSize aCols aCol aSize : Nat) : List Acc :=
  let minSteps := min resSize ((aSize + step - 1) / step)
  (List.range minSteps).flatMap (fun j =>
    if offset + j * step < aSize then
      [rd 1 (nA * ((offset + j * step) * aCols + aCol)) nA, wt 0 (4 * nR * (j * resCols + resCol)) (4 * nA),
       wt 0 (4 * nR * (j * resCols + resCol)) (4 * tn)]
    else [wt 0 (4 * nR * (j * resCols + resCol)) (4 * nR)]) ++
  (List.range' minSteps (resSize - minSteps)).map (fun j => wt 0 (4 * nR * (j * resCols + resCol)) (4 * nR))

/-- `ntt120_vec_znx_idft_apply_tmp_bytes(n)` -/
def nttIdftTmpBytes (n : Nat) : Nat := 4 * n * 8

/-- buffers: 0 = `res` (i128), 1 = `a` (u64), 3 = `tmp` (u64; `&mut tmp[..4n]` is a checked slice, `ntt_copy` is
`copy_from_slice`: a limb of another length panics) -/
def nttIdftApply (n tn resCols resCol resSize aCols aCol aSize : Nat) : List Acc :=
  (List.range (min resSize aSize)).flatMap (fun j =>
    [rd 1 (4 * n * (j * aCols + aCol)) (4 * n), wt 3 0 (4 * n), wt 3 0 (4 * tn), rd 3 0 (4 * n),
     wt 0 (n * (j * resCols + resCol)) n]) ++
  (List.range' (min resSize aSize) (resSize - min resSize aSize)).map (fun j => wt 0 (n * (j * resCols + resCol)) n)

/-- the destructive variant: the inverse NTT runs in place on the limb of `a` -/
def nttIdftApplyTmpA (n tn resCols resCol resSize aCols aCol aSize : Nat) : List Acc :=
  (List.range (min resSize aSize)).flatMap (fun j =>
    [wt 1 (4 * n * (j * aCols + aCol)) (4 * tn), rd 1 (4 * n * (j * aCols + aCol)) (4 * n),
     wt 0 (n * (j * resCols + resCol)) n]) ++
  (List.range' (min resSize aSize) (resSize - min resSize aSize)).map (fun j => wt 0 (n * (j * resCols + resCol)) n)

/-! ### NTT120 convolution: `pack_left/right_1blk_x2`, the pairwise packs, `ntt120_cnv(_pairwise)_apply_dft`
(poulpy-cpu-ref/src/reference/ntt120/convolution.rs, AVX kernels poulpy-cpu-avx/src/ntt120/arithmetic_avx.rs)

Buffers: 0 = `res` (u64), 1 = `a` = CnvPVecL (u64, limb stride `4n·a_cols`), 2 = `b` = CnvPVecR (u32, limb stride
`8n·b_cols`), 3 = `tmp` (u32: `a_tmp = [0, 16·a_size)`, `b_tmp = [16·a_size, …)`).  A row of a pack = 2 × 256 bit. -/

def nttPackLeft (n aCols aCol aSize blk : Nat) : List Acc :=
  (List.range aSize).flatMap (fun row => [rd 1 (4 * n * aCol + row * (4 * n * aCols) + 8 * blk) 8, wt 3 (16 * row) 16])

/-- reversed row order: the pointer starts at row `b_size − 1` and walks down -/
def nttPackRight (n bCols bCol aSize bSize blk : Nat) : List Acc :=
  (List.range bSize).flatMap (fun row =>
    [rd 2 (8 * n * bCol + (bSize - 1 - row) * (8 * n * bCols) + 16 * blk) 16, wt 3 (16 * aSize + 16 * row) 16])

/-- `vec_mat1col_product_x2_bbc` on windows of `a_tmp` / `b_tmp`, 8 u64 out -/
def nttBbcWin (ell xOff yOff d : Nat) : List Acc :=
  (List.range ell).flatMap (fun i => [rd 3 (xOff + 16 * i) 16, rd 3 (yOff + 16 * i) 16]) ++ [wt 0 d 8]

/-- `ca`, `cb` = the columns packed: `[a_col]`, `[b_col]` for `ntt120_cnv_apply_dft`; `[col_i, col_j]` twice for the
pairwise variant (the pairwise packs read both columns and write their sum to the same rows) -/
def nttCnvApply (n resSize resCols resCol aSize aCols bSize bCols cnvOffset : Nat) (ca cb : List Nat) : List Acc :=
  if resSize = 0 ∨ aSize = 0 ∨ bSize = 0 then (List.range resSize).map (fun j => wt 0 (4 * n * (j * resCols + resCol)) (4 * n))
  else
    let bound := aSize + bSize - 1
    let offset := min cnvOffset bound
    let minSize := min resSize (bound + 1 - offset)
    (List.range (n / 2)).flatMap (fun blk =>
      ca.flatMap (fun c => nttPackLeft n aCols c aSize blk) ++ cb.flatMap (fun c => nttPackRight n bCols c aSize bSize blk) ++
      (List.range minSize).flatMap (fun k =>
        let jMin := k + offset - (aSize - 1)
        let jMax := min (k + offset + 1) bSize
        nttBbcWin (jMax - jMin) (16 * (k + offset + 1 - jMax)) (16 * aSize + 16 * (bSize - jMax))
          (4 * n * (k * resCols + resCol) + 8 * blk))) ++
    (List.range' minSize (resSize - minSize)).map (fun j => wt 0 (4 * n * (j * resCols + resCol)) (4 * n))

/-! ### the bbc product kernels on their own slices (poulpy-cpu-avx/src/ntt120/mat_vec_avx.rs): `ell` iterations reading
`wx` u32 of `x` (buffer 1) and `wy` u32 of `y` (buffer 2) through raw pointers, then `wr` u64 stored to `res` (buffer 0):
`vec_mat1col_product_bbc` (8, 8, 4), `…_x2_bbc` (16, 16, 8), `vec_mat2cols_product_x2_bbc` (16, 32, 16) -/
def bbcKernel (wx wy wr ell : Nat) : List Acc :=
  (List.range ell).flatMap (fun i => [rd 1 (wx * i) wx, rd 2 (wy * i) wy]) ++ [wt 0 0 wr]

/-! ### NTT120 `VecZnxBig` i128 kernels (poulpy-cpu-avx/src/ntt120/vec_znx_big_avx.rs): the `chunks = n / 4` + checked tail
pattern; per iteration an i128 operand is two 256-bit vectors (elements `4i, 4i+1` and `4i+2, 4i+3`), an i64 operand one -/
def avxI128Kernels : List (String × List (Nat × Bool)) :=
  [("vi128_add_avx2", [(0, true), (1, false), (2, false)]), ("vi128_add_assign_avx2", [(0, true), (0, false), (1, false)]),
   ("vi128_add_small_avx2", [(0, true), (1, false), (2, false)]), ("vi128_add_small_assign_avx2", [(0, true), (0, false), (1, false)]),
   ("vi128_sub_avx2", [(0, true), (1, false), (2, false)]), ("vi128_sub_assign_avx2", [(0, true), (0, false), (1, false)]),
   ("vi128_sub_negate_assign_avx2", [(0, true), (0, false), (1, false)]),
   ("vi128_sub_small_a_avx2", [(0, true), (1, false), (2, false)]), ("vi128_sub_small_b_avx2", [(0, true), (1, false), (2, false)]),
   ("vi128_sub_small_assign_avx2", [(0, true), (0, false), (1, false)]),
   ("vi128_sub_small_negate_assign_avx2", [(0, true), (0, false), (1, false)]),
   ("vi128_negate_avx2", [(0, true), (1, false)]), ("vi128_negate_assign_avx2", [(0, true), (0, false)]),
   ("vi128_from_small_avx2", [(0, true), (1, false)]), ("vi128_neg_from_small_avx2", [(0, true), (1, false)]),
   ("nfc_middle_step_avx2", [(0, true), (1, false), (2, true), (2, false)]),
   ("nfc_middle_step_into_avx2", [(0, true), (0, false), (1, false), (2, true), (2, false)]),
   ("nfc_middle_step_assign_avx2", [(0, true), (0, false), (1, true), (1, false)]),
   ("nfc_final_step_assign_avx2", [(0, true), (0, false), (1, false)]),
   ("nfc_final_step_into_avx2", [(0, true), (0, false), (1, false)])]

/-- the 256-bit loads / stores of main-loop iteration `i` on an operand of `es`-byte elements, as BYTE ranges
(`es = 8`: f64 / i64 / u64, one vector; `es = 16`: i128, two vectors; `es = 4`: u32 is never walked 4 at a time) -/
def vec256 (es i : Nat) : List (Nat × Nat) :=
  (List.range (es / 8)).map (fun t => (32 * (es / 8 * i + t), 32 * (es / 8 * i + t) + 32))

end Kern
