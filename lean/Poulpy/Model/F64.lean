import Poulpy.Model.Basic

/-!
# Exact executable model of IEEE-754 binary64 arithmetic (`f64`)

A double is represented by its **64-bit pattern** (`Nat < 2^64`), so equality in the model is bit equality
(signed zeros included).  A finite pattern decodes to an exact dyadic number `(-1)^neg · m · 2^e`
(`Dy`); every operation computes the exact result over integers and rounds once with
round-to-nearest-even (`round`), which is what IEEE-754 prescribes for `+ - *` and for the integer →
float conversion `as f64`.  Subnormals and signed zeros are modelled exactly; overflow produces the
infinity pattern.  Operations on a non-finite *input* return the canonical quiet NaN pattern
(`nanBits`) as a poison value: the theorems (`Lemmas/F64*.lean`) show that inside the magnitude domain
no operation of the FFT64 pipeline overflows, so the poison is never produced there, and the tie
(`pvh fft64` vs `pdriver fft64`) prints `err:nonfinite` on both sides whenever a non-finite value shows
up instead of comparing its bits.

Rust operations modelled (poulpy-cpu-ref/src/reference/fft64/reim/*.rs performs only these on `f64`):
`a + b`, `a - b`, `a * b`, `-a`, `x as f64` (i64 → f64), `(a * inv).round() as i64` with `inv = 1. / m`
for a power of two `m` (`reim_to_znx_i64_ref`).  The reference code is generic over `num_traits::Float`
and never calls `mul_add`; rustc does not contract `a * b + c` into an FMA, so no fused operation is
modelled.
-/

namespace F64

/-- an exact dyadic number with a sign bit: `(-1)^neg · m · 2^e` -/
structure Dy where
  neg : Bool
  m : Nat
  e : Int
deriving Repr, DecidableEq

def infBits : Nat := 0x7FF0000000000000
def nanBits : Nat := 0x7FF8000000000000

/-- bit pattern → exact value; `none` for infinities and NaNs -/
def decode (b : Nat) : Option Dy :=
  let s := decide ((b / 2 ^ 63) % 2 = 1)
  let ef : Nat := (b / 2 ^ 52) % 2048
  let mf : Nat := b % 2 ^ 52
  if ef = 2047 then none
  else if ef = 0 then some ⟨s, mf, -1074⟩
  else some ⟨s, mf + 2 ^ 52, (ef : Int) - 1075⟩

def isFinite (b : Nat) : Bool := (b / 2 ^ 52) % 2048 != 2047

/-- `m / 2^sh` rounded to nearest, ties to even (`sh ≥ 1`) -/
def rneShift (m sh : Nat) : Nat :=
  let fl := m / 2 ^ sh
  let rem := m % 2 ^ sh
  let half := 2 ^ (sh - 1)
  if half < rem ∨ (rem = half ∧ fl % 2 = 1) then fl + 1 else fl

/-- exponent of the unit in the last place of the rounded result of `m · 2^e` (`m ≠ 0`): 53 significant
bits, but never below the subnormal quantum `2^-1074` -/
def quantum (m : Nat) (e : Int) : Int := max (((Nat.log2 m + 1 : Nat) : Int) + e - 53) (-1074)

/-- the integer significand of the rounded result: `m · 2^e ≈ roundSig m e · 2^(quantum m e)` -/
def roundSig (m : Nat) (e : Int) : Nat :=
  let q := quantum m e
  if q ≤ e then m * 2 ^ (e - q).toNat else rneShift m (q - e).toNat

/-- the uniform encoding `(q + 1074) · 2^52 + m'` covers subnormals (`q = -1074`, `m' < 2^52`), normals
(`2^52 ≤ m' < 2^53`: the implicit bit adds one to the exponent field) and the carry `m' = 2^53` into the
next binade; `infBits` on overflow -/
def encode (q : Int) (m' : Nat) : Nat :=
  let bits := (q + 1074).toNat * 2 ^ 52 + m'
  if infBits ≤ bits then infBits else bits

/-- round-to-nearest-even of the magnitude `m · 2^e` to the binary64 grid; the result is the 63-bit
magnitude pattern -/
def roundMag (m : Nat) (e : Int) : Nat :=
  if m = 0 then 0 else encode (quantum m e) (roundSig m e)

def pack (neg : Bool) (mag : Nat) : Nat := if neg then mag + 2 ^ 63 else mag

/-- RNE rounding of an exact dyadic value to a bit pattern -/
def round (d : Dy) : Nat := pack d.neg (roundMag d.m d.e)

def Dy.toInt (d : Dy) : Int := if d.neg then -(d.m : Int) else (d.m : Int)

/-- `-a`: flips the sign bit of any pattern -/
def neg (a : Nat) : Nat := if 2 ^ 63 ≤ a then a - 2 ^ 63 else a + 2 ^ 63

/-- `a + b`.  An exact zero sum is `+0` unless both operands are `-0` (IEEE-754 §6.3, RNE). -/
def add (a b : Nat) : Nat :=
  match decode a, decode b with
  | some x, some y =>
    if x.m = 0 ∧ y.m = 0 then pack (x.neg && y.neg) 0
    else if x.m = 0 then b
    else if y.m = 0 then a
    else
      let e0 := min x.e y.e
      let s : Int := x.toInt * 2 ^ (x.e - e0).toNat + y.toInt * 2 ^ (y.e - e0).toNat
      if s = 0 then 0 else round ⟨decide (s < 0), s.natAbs, e0⟩
  | _, _ => nanBits

/-- `a - b = a + (-b)` (exactly so in IEEE-754, signed zeros included) -/
def sub (a b : Nat) : Nat := add a (neg b)

/-- `a * b`: the sign is the xor of the signs, also for zero results -/
def mul (a b : Nat) : Nat :=
  match decode a, decode b with
  | some x, some y => round ⟨x.neg != y.neg, x.m * y.m, x.e + y.e⟩
  | _, _ => nanBits

/-- fused multiply-add `fl(a·b + c)`: ONE rounding of the exact `a·b + c` (`_mm256_fmadd_pd`, `vfmadd231pd`).
Exact zero result: the common sign if product and addend have the same sign, else `+0` (IEEE-754 §6.3, RNE).
`fmsub(a,b,c) = fma a b (neg c)`, `fnmadd(a,b,c) = fma (neg a) b c` (negation is exact). -/
def fma (a b c : Nat) : Nat :=
  match decode a, decode b, decode c with
  | some x, some y, some z =>
    let pn := x.neg != y.neg
    let pm := x.m * y.m
    let pe := x.e + y.e
    if pm = 0 ∧ z.m = 0 then pack (pn && z.neg) 0
    else if pm = 0 then c
    else if z.m = 0 then round ⟨pn, pm, pe⟩
    else
      let e0 := min pe z.e
      let s : Int := (if pn then -(pm : Int) else (pm : Int)) * 2 ^ (pe - e0).toNat + z.toInt * 2 ^ (z.e - e0).toNat
      if s = 0 then 0 else round ⟨decide (s < 0), s.natAbs, e0⟩
  | _, _, _ => nanBits

/-- `x as f64` for an `i64` (any integer: RNE beyond 2^53) -/
def ofInt (x : Int) : Nat := round ⟨decide (x < 0), x.natAbs, 0⟩

/-- the double `2^(-k)`, i.e. `1. / (2^k as f64)` (exact: a power of two), `k ≤ 1022` -/
def pow2Neg (k : Nat) : Nat := (1023 - k) * 2 ^ 52

/-- `a.round() as i64`: round half away from zero to an integer, then the saturating cast
(NaN → 0, ±inf and out-of-range → `i64::MIN` / `i64::MAX`) -/
def roundToI64 (a : Nat) : Int :=
  match decode a with
  | none =>
    if a % 2 ^ 52 ≠ 0 then 0
    else if 2 ^ 63 ≤ a then -(2 ^ 63) else 2 ^ 63 - 1
  | some d =>
    let r : Nat :=
      if 0 ≤ d.e then d.m * 2 ^ d.e.toNat
      else (d.m + 2 ^ ((-d.e).toNat - 1)) / 2 ^ (-d.e).toNat
    let v : Int := if d.neg then -(r : Int) else (r : Int)
    if v < -(2 ^ 63) then -(2 ^ 63) else if 2 ^ 63 - 1 < v then 2 ^ 63 - 1 else v

/-- one element of `reim_to_znx_i64_ref(res, divisor = 2^k, a)`: `(a * (1. / divisor)).round() as i64` -/
def toI64 (k : Nat) (a : Nat) : Int := roundToI64 (mul a (pow2Neg k))

end F64
