import Poulpy.Model.ScratchOps
/-
C12, second batch of operations (poulpy-core): secret-key helpers, key-encryption wrappers,
compressed encryptions, LWE<->GLWE conversions and the LWE key switch.  Same conventions as
Model/ScratchOps.lean (`tb…` = the Rust `*_tmp_bytes`, `tree…` = the take sequence).
-/

namespace Scratch

/-- `GLWESecretTensor::pairs(rank)` = `max(1, rank·(rank+1)/2)` -/
def pairs (rank : Nat) : Nat := max ((rank + 1) * rank / 2) 1

/-- glwe_secret_tensor_prepare_tmp_bytes(rank) -/
def tbSecretTensorPrepare (be : BE) (n rank : Nat) : Nat :=
  svpBytes be n rank + dftBytes be n rank 1 + bigBytes be n 1 1 + dftBytes be n 1 1 + bigNormTmp be n

/-- `glwe_secret_tensor_prepare`: prepared copy of the key, its DFT, one big + one DFT accumulator,
then `vec_znx_big_normalize` per pair on `scratch_4` -/
def treeSecretTensorPrepare (be : BE) (n rank : Nat) : AllocTree :=
  .need (tbSecretTensorPrepare be n rank)
    (.take (svpBytes be n rank)
      (.take (dftBytes be n rank 1)
        (.take (bigBytes be n 1 1)
          (.take (dftBytes be n 1 1) (loop rank (treeBigNormalize be n))))))

/-- glwe_switching_key_encrypt_sk_tmp_bytes -/
def tbSwitchingKeyEncryptSk (be : BE) (n : Nat) (k : K) : Nat :=
  scalarBytes n k.rankIn + svpBytes be n k.rankOut + max (scalarBytes n 1) (tbGgxEncryptSk be n k.size)

/-- `glwe_switching_key_encrypt_sk`: `sk_in` copy, prepared `sk_out`, a one-column temporary while
preparing, then `gglwe_encrypt_sk` (public API) on `scratch_2` -/
def treeSwitchingKeyEncryptSk (be : BE) (n : Nat) (k : K) : AllocTree :=
  .need (tbSwitchingKeyEncryptSk be n k)
    (.take (scalarBytes n k.rankIn)
      (.take (svpBytes be n k.rankOut)
        (.alt (leaf (scalarBytes n 1)) (treeGglweEncryptSk be n k))))

/-- glwe_automorphism_key_encrypt_sk_tmp_bytes (rank_in = rank_out = rank) -/
def tbAutomorphismKeyEncryptSk (be : BE) (n : Nat) (k : K) : Nat :=
  svpBytes be n k.rankOut + max (tbGgxEncryptSk be n k.size) (scalarBytes n k.rankOut)

def treeAutomorphismKeyEncryptSk (be : BE) (n : Nat) (k : K) : AllocTree :=
  .need (tbAutomorphismKeyEncryptSk be n k)
    (.take (svpBytes be n k.rankOut)
      (.alt (leaf (scalarBytes n k.rankOut)) (treeGglweEncryptSk be n k)))

/-- glwe_tensor_key_encrypt_sk_tmp_bytes: `GLWESecretTensor::bytes_of_from_infos` applies `pairs` twice -/
def tbTensorKeyEncryptSk (be : BE) (n : Nat) (k : K) : Nat :=
  svpBytes be n k.rankOut + scalarBytes n (pairs (pairs k.rankOut)) +
    max (tbGgxEncryptSk be n k.size) (tbSecretTensorPrepare be n k.rankOut)

/-- `glwe_tensor_key_encrypt_sk`: the GGLWE that is encrypted has `rank_in = pairs(rank)` -/
def treeTensorKeyEncryptSk (be : BE) (n : Nat) (k : K) : AllocTree :=
  .need (tbTensorKeyEncryptSk be n k)
    (.take (svpBytes be n k.rankOut)
      (.take (scalarBytes n (pairs k.rankOut))
        (.alt (treeSecretTensorPrepare be n k.rankOut)
          (treeGglweEncryptSk be n { k with rankIn := pairs k.rankOut }))))

/-- gglwe_to_ggsw_key_encrypt_sk_tmp_bytes -/
def tbGglweToGgswKeyEncryptSk (be : BE) (n : Nat) (k : K) : Nat :=
  svpBytes be n k.rankOut + scalarBytes n (pairs (pairs k.rankOut)) + scalarBytes n k.rankOut +
    max (tbGgxEncryptSk be n k.size) (tbSecretTensorPrepare be n k.rankOut)

/-- `gglwe_to_ggsw_key_encrypt_sk`: one `gglwe_encrypt_sk` per row `i`, on `scratch_3` -/
def treeGglweToGgswKeyEncryptSk (be : BE) (n : Nat) (k : K) : AllocTree :=
  .need (tbGglweToGgswKeyEncryptSk be n k)
    (.take (svpBytes be n k.rankOut)
      (.take (scalarBytes n (pairs k.rankOut))
        (.alt (treeSecretTensorPrepare be n k.rankOut)
          (.take (scalarBytes n k.rankOut)
            (loop k.rankOut (treeGglweEncryptSk be n { k with rankIn := k.rankOut }))))))

/-- lwe_switching_key_encrypt_sk_tmp_bytes (ranks 1, dsize 1) -/
def tbLweSwitchingKeyEncryptSk (be : BE) (n : Nat) (k : K) : Nat :=
  scalarBytes n 1 + scalarBytes n 1 + max (oneLimbTmp n) (tbSwitchingKeyEncryptSk be n k)

def treeLweSwitchingKeyEncryptSk (be : BE) (n : Nat) (k : K) : AllocTree :=
  .need (tbLweSwitchingKeyEncryptSk be n k)
    (.take (scalarBytes n 1)
      (.take (scalarBytes n 1)
        (.alt (treeOneLimb n) (treeSwitchingKeyEncryptSk be n k))))

/-- lwe_to_glwe_key_encrypt_sk_tmp_bytes -/
def tbLweToGlweKeyEncryptSk (be : BE) (n : Nat) (k : K) : Nat :=
  scalarBytes n k.rankIn + max (tbGgxEncryptSk be n k.size) (oneLimbTmp n)

def treeLweToGlweKeyEncryptSk (be : BE) (n : Nat) (k : K) : AllocTree :=
  .need (tbLweToGlweKeyEncryptSk be n k)
    (.take (scalarBytes n 1) (.alt (treeOneLimb n) (treeGglweEncryptSk be n k)))

/-- glwe_to_lwe_key_encrypt_sk_tmp_bytes -/
def tbGlweToLweKeyEncryptSk (be : BE) (n : Nat) (k : K) : Nat :=
  svpBytes be n k.rankIn + max (scalarBytes n k.rankIn + oneLimbTmp n) (tbGgxEncryptSk be n k.size)

/-- the prepared LWE key and its coefficient copy are taken with rank 1 -/
def treeGlweToLweKeyEncryptSk (be : BE) (n : Nat) (k : K) : AllocTree :=
  .need (tbGlweToLweKeyEncryptSk be n k)
    (.take (svpBytes be n 1)
      (.alt (.take (scalarBytes n 1) (treeOneLimb n)) (treeGglweEncryptSk be n k)))

/-- gglwe_compressed_encrypt_sk_tmp_bytes (= the uncompressed formula); the body calls
`glwe_encrypt_sk_internal` directly (no inner assertion) -/
def treeGglweCompressedEncryptSk (be : BE) (n : Nat) (k : K) : AllocTree :=
  .need (tbGgxEncryptSk be n k.size)
    (.take (vecBytes n 1 k.size)
      (loop (k.rankIn * k.dnum)
        (.alt (treeNormalize n) (treeEncSkInternal be n k.size (k.rankOut + 1) false))))

/-! ### LWE <-> GLWE -/

/-- what is read from an `LWEInfos` -/
structure L where
  size : Nat
  b2k : Nat
deriving Repr

def L.maxK (l : L) : Nat := l.size * l.b2k

/-- glwe_from_lwe_tmp_bytes(glwe, lwe, key) -/
def tbGlweFromLwe (be : BE) (n : Nat) (res : G) (lwe : L) (k : K) : Nat :=
  let lvl0 := vecBytes n 2 (ceilDiv (max lwe.maxK res.maxK) k.b2k)
  let lvl1ks := tbGlweKeyswitch be n res ⟨1, ceilDiv lwe.maxK k.b2k, k.b2k⟩ k
  let lvl1conv := if lwe.b2k = k.b2k then 0 else vecBytes n 1 lwe.size + normTmp n
  lvl0 + max lvl1ks lvl1conv

/-- the rank-1 GLWE the LWE is embedded in: key radix, `k = lwe.max_k` -/
def lweAsGlwe (lwe : L) (k : K) : G := ⟨1, ceilDiv lwe.maxK k.b2k, k.b2k⟩

/-- `glwe_from_lwe`: embed (with a radix conversion through `a_conv` if needed), then `glwe_keyswitch` -/
def treeGlweFromLwe (be : BE) (n : Nat) (res : G) (lwe : L) (k : K) : AllocTree :=
  .need (tbGlweFromLwe be n res lwe k)
    (.take ((lweAsGlwe lwe k).bytes n)
      (.alt (if lwe.b2k = k.b2k then .done else .take (vecBytes n 1 lwe.size) (treeNormalize n))
        (treeGlweKeyswitch be n res (lweAsGlwe lwe k) k)))

/-- lwe_from_glwe_tmp_bytes(lwe, glwe, key) -/
def tbLweFromGlwe (be : BE) (n : Nat) (lwe : L) (a : G) (k : K) : Nat :=
  vecBytes n 2 lwe.size + tbGlweKeyswitch be n ⟨1, lwe.size, lwe.b2k⟩ a k + a.bytes n

/-- `lwe_from_glwe(res, a, a_idx, key)`: a rank-1 GLWE, for `a_idx ≠ 0` a rotated copy of `a`, key switch -/
def treeLweFromGlwe (be : BE) (n : Nat) (lwe : L) (a : G) (k : K) (idx : Nat) : AllocTree :=
  .need (tbLweFromGlwe be n lwe a k)
    (.take (vecBytes n 2 lwe.size)
      (if idx = 0 then treeGlweKeyswitch be n ⟨1, lwe.size, lwe.b2k⟩ a k
       else .take (a.bytes n) (treeGlweKeyswitch be n ⟨1, lwe.size, lwe.b2k⟩ a k)))

/-- lwe_keyswitch_tmp_bytes(res, a, key) -/
def tbLweKeyswitch (be : BE) (n : Nat) (res a : L) (k : K) : Nat :=
  let mk := max a.maxK res.maxK
  let ga : G := ⟨1, ceilDiv mk a.b2k, a.b2k⟩
  let gr : G := ⟨1, ceilDiv mk res.b2k, res.b2k⟩
  ga.bytes n + gr.bytes n + tbGlweKeyswitch be n gr ga k

def treeLweKeyswitch (be : BE) (n : Nat) (res a : L) (k : K) : AllocTree :=
  .need (tbLweKeyswitch be n res a k)
    (.take (vecBytes n 2 a.size)
      (.take (vecBytes n 2 res.size)
        (treeGlweKeyswitch be n ⟨1, res.size, res.b2k⟩ ⟨1, a.size, a.b2k⟩ k)))

/-! ### matrix forms: GGLWE / GGSW key switch, external product, automorphism, row expansion -/

/-- `gglwe_keyswitch(_assign)`, `gglwe_external_product(_assign)`, `ggsw_external_product(_assign)`:
the GLWE query, asserted at entry, then one GLWE operation (which asserts again) per (row, column) -/
def treeRows (tb cnt : Nat) (t : AllocTree) : AllocTree := .need tb (loop cnt t)

/-- ggsw_expand_rows_tmp_bytes(res, tsk) (= ggsw_from_gglwe_tmp_bytes); the Rust `cols - 1` is `rank` -/
def tbGgswExpandRows (be : BE) (n : Nat) (res : G) (t : K) : Nat :=
  let cols := res.rank + 1
  let aSize := ceilDiv res.maxK t.b2k
  let lvl0 := dftBytes be n res.rank aSize + vecBytes n 1 aSize
  let lvl1 := dftBytes be n cols t.size + max (tbGglweProduct be n aSize t) (bigNormTmp be n)
  let lvl2 := if res.b2k = t.b2k then 0 else normTmp n
  lvl0 + max lvl1 lvl2

/-- `ggsw_expand_row(res, tsk)`: `a_dft`, `a_0`; per row a conversion (cross radix) and, per column
`1..cols`, `res_dft` of the **key's** size, the GGLWE product and the normalisation loop -/
def treeGgswExpandRows (be : BE) (n dnum : Nat) (res : G) (t : K) : AllocTree :=
  let cols := res.rank + 1
  let aSize := ceilDiv res.maxK t.b2k
  .need (tbGgswExpandRows be n res t)
    (.take (dftBytes be n res.rank aSize)
      (.take (vecBytes n 1 aSize)
        (loop dnum
          (.alt (if res.b2k = t.b2k then .done else treeNormalize n)
            (loop res.rank
              (.take (dftBytes be n cols t.size)
                (.alt (treeGglweProduct be n res.rank aSize cols t) (loop cols (treeBigNormalize be n)))))))))

/-- ggsw_keyswitch_tmp_bytes(res, a, key, tsk) -/
def tbGgswKeyswitch (be : BE) (n : Nat) (res a : G) (k t : K) : Nat :=
  max (tbGlweKeyswitch be n res a k) (tbGgswExpandRows be n res t)

def treeGgswKeyswitch (be : BE) (n dnum : Nat) (res a : G) (k t : K) : AllocTree :=
  .need (tbGgswKeyswitch be n res a k t)
    (.alt (loop dnum (treeGlweKeyswitch be n res a k)) (treeGgswExpandRows be n dnum res t))

/-- ggsw_automorphism_tmp_bytes(res, a, key, tsk) -/
def tbGgswAutomorphism (be : BE) (n : Nat) (res a : G) (k t : K) : Nat :=
  max (tbGlweAutomorphism be n res a k) (tbGgswExpandRows be n res t)

def treeGgswAutomorphism (be : BE) (n dnum : Nat) (res a : G) (k t : K) : AllocTree :=
  .need (tbGgswAutomorphism be n res a k t)
    (.alt (loop dnum (treeGlweAutomorphism be n res a k)) (treeGgswExpandRows be n dnum res t))

/-- glwe_automorphism_key_automorphism_tmp_bytes(res, a, key); `same` = `res.glwe_layout() == a.glwe_layout()` -/
def tbAtkAutomorphism (be : BE) (n : Nat) (res a : G) (k : K) (same : Bool) : Nat :=
  let lvl0 := if same then tbGlweKeyswitch be n res a k else tbGlweKeyswitch be n res a k + a.bytes n
  max lvl0 (oneLimbTmp n)

/-- `glwe_automorphism_key_automorphism(res, a, key)` -/
def treeAtkAutomorphism (be : BE) (n cnt : Nat) (res a : G) (k : K) (same : Bool) : AllocTree :=
  .need (tbAtkAutomorphism be n res a k same)
    (loop cnt
      (.alt (if same then treeGlweKeyswitch be n res res k
             else .take (a.bytes n) (treeGlweKeyswitch be n res a k))
        (treeOneLimb n)))

/-- `glwe_automorphism_key_automorphism_assign(res, key)` -/
def treeAtkAutomorphismAssign (be : BE) (n cnt : Nat) (res : G) (k : K) : AllocTree :=
  .need (tbAtkAutomorphism be n res res k true)
    (loop cnt (.alt (treeOneLimb n) (treeGlweKeyswitch be n res res k)))

/-! ### glwe_mul_const -/

/-- glwe_mul_const_tmp_bytes(res, a, b_size): the accumulator is sized for the full product -/
def tbGlweMulConst (be : BE) (n : Nat) (res a : G) (bSize : Nat) : Nat :=
  let rs := max (ceilDiv (res.size * res.b2k) a.b2k) (a.size + bSize)
  bigBytes be n 1 rs + max (cnvByConstTmp be rs a.size bSize) (bigNormTmp be n)

/-- `glwe_mul_const(cnv_offset, res, a, b)`: the accumulator has `a.size + b.len − cnv_offset_hi` limbs -/
def treeGlweMulConst (be : BE) (n off : Nat) (res a : G) (bSize : Nat) : AllocTree :=
  let hi := if off < a.b2k then 0 else off / a.b2k - 1
  let rs := a.size + bSize - hi
  .need (tbGlweMulConst be n res a bSize)
    (.take (bigBytes be n 1 rs)
      (loop (res.rank + 1) (.alt (leaf (cnvByConstTmp be rs a.size bSize)) (treeBigNormalize be n))))

/-- `glwe_mul_const_assign(cnv_offset, res, b)`: the accumulator has `res.size` limbs -/
def treeGlweMulConstAssign (be : BE) (n : Nat) (res : G) (bSize : Nat) : AllocTree :=
  .need (tbGlweMulConst be n res res bSize)
    (.take (bigBytes be n 1 res.size)
      (loop (res.rank + 1) (.alt (leaf (cnvByConstTmp be res.size res.size bSize)) (treeBigNormalize be n))))

/-! ### noise helpers, tensor decryption, packing -/

/-- glwe_noise_tmp_bytes -/
def tbGlweNoise (be : BE) (n size : Nat) : Nat :=
  vecBytes n 1 size + max (tbGlweNormalize n) (tbGlweDecrypt be n size)

/-- `glwe_noise`: a plaintext, `glwe_decrypt` and `glwe_normalize_assign` on `scratch_1` -/
def treeGlweNoise (be : BE) (n : Nat) (g : G) : AllocTree :=
  .need (tbGlweNoise be n g.size)
    (.take (vecBytes n 1 g.size) (.alt (treeGlweDecrypt be n g) (treeGlweNormalize n)))

/-- gglwe_noise_tmp_bytes -/
def tbGglweNoise (be : BE) (n size : Nat) : Nat := vecBytes n 1 size + tbGlweNoise be n size

def treeGglweNoise (be : BE) (n : Nat) (g : G) : AllocTree :=
  .need (tbGglweNoise be n g.size) (.take (vecBytes n 1 g.size) (treeGlweNoise be n g))

/-- ggsw_noise_tmp_bytes -/
def tbGgswNoise (be : BE) (n size : Nat) : Nat :=
  vecBytes n 1 size + max (tbGlweNoise be n size) (dftBytes be n 1 size + bigNormTmp be n)

/-- `ggsw_noise(res, row, col, ..)`: for `col > 0` the plaintext is multiplied by `s[col-1]` first -/
def treeGgswNoise (be : BE) (n : Nat) (g : G) (col : Nat) : AllocTree :=
  .need (tbGgswNoise be n g.size)
    (.take (vecBytes n 1 g.size)
      (.alt (if col = 0 then .done else .take (dftBytes be n 1 g.size) (treeBigNormalize be n))
        (treeGlweNoise be n g)))

/-- glwe_tensor_decrypt_tmp_bytes (`res` = the tensor: rank, size) -/
def tbGlweTensorDecrypt (be : BE) (n : Nat) (g : G) : Nat :=
  svpBytes be n (pairs g.rank + g.rank) + tbGlweDecrypt be n g.size

/-- `glwe_tensor_decrypt`: the grouped secret, then `glwe_decrypt` with it -/
def treeGlweTensorDecrypt (be : BE) (n : Nat) (g : G) : AllocTree :=
  .need (tbGlweTensorDecrypt be n g)
    (.take (svpBytes be n (pairs g.rank + g.rank)) (treeGlweDecrypt be n ⟨pairs g.rank + g.rank, g.size, g.b2k⟩))

/-- the three cases of `pack_internal` / `combine` (both inputs, only `a`, only `b`) -/
def treePackStep (be : BE) (n : Nat) (a : G) (k : K) : AllocTree :=
  altList [
    .take (a.bytes n)
      (altList [treeGlweRotateAssign n, treeGlweRsh n, treeGlweNormalize n, treeGlweAutomorphism be n a a k]),
    altList [treeGlweRsh n, treeGlweAutomorphismAdd be n a a k],
    .take (a.bytes n) (.alt (treeGlweRsh n) (treeGlweAutomorphismAdd be n a a k))]

/-- glwe_pack_tmp_bytes(res, key) -/
def tbGlwePack (be : BE) (n : Nat) (res : G) (k : K) : Nat :=
  max (res.bytes n + max (max (max (tbGlweRotate n) (tbGlweShift n)) (tbGlweNormalize n)) (tbGlweAutomorphism be n res res k))
    (tbGlweTrace be n res res k)

/-- `glwe_pack(res, cts, log_gap_out, keys)`: `log_n − log_gap_out` rounds of `pack_internal`, then `glwe_trace` -/
def treeGlwePack (be : BE) (n rounds iters : Nat) (res a : G) (k : K) : AllocTree :=
  .need (tbGlwePack be n res k)
    (.alt (loop rounds (treePackStep be n a k)) (treeGlweTrace be n iters res a k))

/-- glwe_packer_tmp_bytes(res, key) -/
def tbGlwePacker (be : BE) (n : Nat) (res : G) (k : K) : Nat :=
  res.bytes n + max (tbGlweShift n) (tbGlweAutomorphism be n res res k)

/-- `glwe_packer_add`: a copy/normalisation into the first accumulator or a chain of `combine` steps -/
def treeGlwePackerAdd (be : BE) (n : Nat) (res : G) (k : K) : AllocTree :=
  .need (tbGlwePacker be n res k) (.alt (treeGlweNormalize n) (treePackStep be n res k))

/-! ### relinearisation, cswap -/

/-- glwe_tensor_relinearize_tmp_bytes(res, a, tsk): `a` = the tensor (size, radix), `t` = the tensor key
(`rank_in = pairs`, `rank_out = rank`) -/
def tbGlweTensorRelinearize (be : BE) (n : Nat) (a : G) (t : K) : Nat :=
  let cols := t.rankOut + 1
  let aD := ceilDiv (a.size * a.b2k) t.b2k
  let conv := if a.b2k ≠ t.b2k then vecBytes n 1 aD + normTmp n else 0
  let lvl0 := dftBytes be n t.rankIn aD
  let main := dftBytes be n cols t.size + max (max (tbGglweProduct be n aD t) conv) (bigNormTmp be n)
  lvl0 + max conv main

/-- `glwe_tensor_relinearize(res, a, tsk, tsk_size)`: `tskSize` is the caller-chosen number of key limbs used -/
def treeGlweTensorRelinearize (be : BE) (n tskSize : Nat) (a : G) (t : K) : AllocTree :=
  let cols := t.rankOut + 1
  let aD := ceilDiv (a.size * a.b2k) t.b2k
  let conv : AllocTree := if a.b2k ≠ t.b2k then .take (vecBytes n 1 aD) (treeNormalize n) else .done
  .need (tbGlweTensorRelinearize be n a t)
    (.take (dftBytes be n t.rankIn aD)
      (.alt conv
        (.take (dftBytes be n cols tskSize)
          (altList [treeGglweProduct be n t.rankIn aD cols t, conv, loop cols (treeBigNormalize be n)]))))

/-- cswap_tmp_bytes(res_a, res_b, selector) -/
def tbCswap (be : BE) (n : Nat) (ra rb : G) (k : K) : Nat :=
  let tmpC : G := ⟨k.rankOut, ceilDiv (max ra.maxK rb.maxK) k.b2k, k.b2k⟩
  dftBytes be n (k.rankOut + 1) k.size + max (tbExtInternal be n tmpC k + tmpC.bytes n) (bigNormTmp be n) +
    (if ra.b2k ≠ k.b2k then (ra.conv k.b2k).bytes n + (rb.conv k.b2k).bytes n else 0) + bigBytes be n 1 k.size

/-- the common part of `cswap` once both operands are in the selector's radix -/
def treeCswapCore (be : BE) (n : Nat) (ra rb : G) (k : K) : AllocTree :=
  let tmpC : G := ⟨k.rankOut, ceilDiv (max ra.maxK rb.maxK) k.b2k, k.b2k⟩
  .take (dftBytes be n (k.rankOut + 1) k.size)
    (.alt (.take (tmpC.bytes n) (treeExtInternal be n (k.rankOut + 1) tmpC k))
      (.take (bigBytes be n 1 k.size) (loop (ra.rank + 1) (treeBigNormalize be n))))

/-- `cswap(res_a, res_b, s)` (no entry assertion) -/
def treeCswap (be : BE) (n : Nat) (ra rb : G) (k : K) : AllocTree :=
  if ra.b2k = k.b2k then treeCswapCore be n ra rb k
  else .take ((ra.conv k.b2k).bytes n) (.take ((rb.conv k.b2k).bytes n) (.alt (treeGlweNormalize n) (treeCswapCore be n ra rb k)))

/-! ### poulpy-ckks, operations built from modelled core operations -/

/-- ckks_rotate_tmp_bytes / ckks_conjugate_tmp_bytes = glwe_automorphism_tmp_bytes(ct, ct, key) -/
def tbCkksRotate (be : BE) (n : Nat) (ct : G) (k : K) : Nat := tbGlweAutomorphism be n ct ct k
/-- `ckks_rotate_into/_assign`, `ckks_conjugate_into/_assign`: optionally a left shift, then `glwe_automorphism(_assign)` -/
def treeCkksRotate (be : BE) (n : Nat) (ct : G) (k : K) : AllocTree := .alt (treeGlweLsh n) (treeGlweAutomorphism be n ct ct k)

/-- ckks_add_pt_vec_znx_tmp_bytes / ckks_sub_pt_vec_znx_tmp_bytes / ckks_sub_tmp_bytes -/
def tbCkksPtVecZnx (n : Nat) : Nat := max (max (tbGlweShift n) (rshTmp n)) (tbGlweNormalize n)
def treeCkksPtVecZnx (n : Nat) : AllocTree := altList [treeGlweLsh n, treeRsh n, treeGlweNormalize n]

/-- ckks_add_pt_vec_rnx_tmp_bytes / ckks_sub_pt_vec_rnx_tmp_bytes: a plaintext of `ptSize` limbs + the znx form -/
def tbCkksPtVecRnx (n ptSize : Nat) : Nat := vecBytes n 1 ptSize + tbCkksPtVecZnx n

/-- ckks_extract_pt_znx_tmp_bytes -/
def tbCkksExtractPt (n : Nat) : Nat := max (rshTmp n) (lshTmp n)

/-- ckks_encrypt_sk_tmp_bytes -/
def tbCkksEncryptSk (be : BE) (n size : Nat) : Nat := max (tbGlweEncryptSk be n size) (tbCkksPtVecZnx n)
/-- ckks_decrypt_tmp_bytes -/
def tbCkksDecrypt (be : BE) (n size : Nat) : Nat := vecBytes n 1 size + max (tbGlweDecrypt be n size) (tbCkksExtractPt n)

/-- `ckks_encrypt_sk`: `glwe_encrypt_sk`, then the plaintext is added (`ckks_add_pt_vec_znx` form) -/
def treeCkksEncryptSk (be : BE) (n : Nat) (ct : G) : AllocTree := .alt (treeGlweEncryptSk be n ct) (treeCkksPtVecZnx n)
/-- `ckks_decrypt`: a plaintext, `glwe_decrypt`, then `ckks_extract_pt_znx` (a shift) on the remainder -/
def treeCkksDecrypt (be : BE) (n : Nat) (ct : G) : AllocTree :=
  .take (vecBytes n 1 ct.size) (.alt (treeGlweDecrypt be n ct) (altList [treeRsh n, treeLsh n]))

/-- ckks_mul_pt_const_tmp_bytes(res, a, b): `bSize = ceil(b.min_k(res.base2k) / res.base2k)` -/
def tbCkksMulPtConst (be : BE) (n : Nat) (res a : G) (bSize : Nat) : Nat :=
  res.bytes n + max (tbGlweMulConst be n res a bSize) (tbGlweRotate n)

end Scratch
