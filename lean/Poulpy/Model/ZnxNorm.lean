/-
L1a — the normalisation step kernels (import-free).

Rust anchors: poulpy-cpu-ref/src/reference/znx/normalization.rs (the 14 `znx_normalize_*_ref`,
`znx_extract_digit_addmul_ref`, `znx_normalize_digit_ref`) and the `nfc_*` `i128` twins in
poulpy-cpu-ref/src/reference/ntt120/vec_znx_big.rs.

Every Rust kernel is a `zip` over coefficients of one *scalar* computation; there are only three
scalar computations (first / middle / final step), each in an `lsh == 0` and an `lsh != 0` branch.
They are modelled once, generically in the machine width `bits` (`*S` functions); the slice kernels
are maps of them (`znx*` functions, `bits = 64`).  `assert!(lsh < base2k)` is a debug assertion of
every kernel: callers in this model only produce `lsh < b`.
-/
import Poulpy.Model.Digit

/-- first step on one coefficient: returns `(digit placed in the limb, carry)`.
`znx_normalize_first_step{,_assign,_carry_only}_ref`, `nfc_first_carry_only`. -/
def firstStepS (bits b lsh : Nat) (a : Int) : Int × Int :=
  if lsh = 0 then
    let d := getDigitW bits b a
    (d, getCarryW bits b a d)
  else
    let bl := b - lsh
    let d := getDigitW bits bl a
    (shlW bits d lsh, getCarryW bits bl a d)

/-- middle step on one coefficient: input limb `a`, carry-in `c`; returns `(output digit, carry-out)`.
`znx_normalize_middle_step{,_assign,_carry_only,_sub}_ref`, `nfc_middle_step{,_assign,_into,_i128}`,
`nfc_middle_carry_only`. -/
def middleStepS (bits b lsh : Nat) (a c : Int) : Int × Int :=
  if lsh = 0 then
    let d := getDigitW bits b a
    let co := getCarryW bits b a d
    let dpc := wrapN bits (d + c)
    let x1 := getDigitW bits b dpc
    (x1, wrapN bits (co + getCarryW bits b dpc x1))
  else
    let bl := b - lsh
    let d := getDigitW bits bl a
    let co := getCarryW bits bl a d
    let dpc := wrapN bits (shlW bits d lsh + c)
    let x1 := getDigitW bits b dpc
    (x1, wrapN bits (co + getCarryW bits b dpc x1))

/-- final step on one coefficient (the carry-out is dropped: the torus is `R/Z`).
`znx_normalize_final_step{,_assign,_sub}_ref`, `nfc_final_step_assign`. -/
def finalStepS (bits b lsh : Nat) (a c : Int) : Int :=
  if lsh = 0 then
    getDigitW bits b (wrapN bits (getDigitW bits b a + c))
  else
    getDigitW bits b (wrapN bits (shlW bits (getDigitW bits (b - lsh) a) lsh + c))

/-- `znx_extract_digit_addmul_ref` / `nfc_extract_digit_addmul` on one coefficient:
`digit = get_digit(b, s); s = carry; r += digit << lsh` — returns `(r', s')`.  The accumulator `r`
is always an `i64`; for `bits = 128` the digit is truncated (`as i64`) before the `wrapping_shl`. -/
def extractDigitAddMulS (bits b lsh : Nat) (r s : Int) : Int × Int :=
  let d := getDigitW bits b s
  (w64 (r + shlW 64 (w64 d) lsh), getCarryW bits b s d)

/-- `znx_normalize_digit_ref` on one coefficient: `(r', s') = (digit r, s + carry r)`. -/
def normalizeDigitS (b : Nat) (r s : Int) : Int × Int :=
  let d := getDigitW 64 b r
  (d, w64 (s + getCarryW 64 b r d))

/-! ### slice kernels (`i64`), as used by C10's lane-equivalence statements -/

def znxNormalizeFirstStepCarryOnly (b lsh : Nat) (x : Poly) : Poly :=
  x.map (fun a => (firstStepS 64 b lsh a).2)

/-- returns `(x', carry)` -/
def znxNormalizeFirstStepAssign (b lsh : Nat) (x : Poly) : Poly × Poly :=
  (x.map (fun a => (firstStepS 64 b lsh a).1), x.map (fun a => (firstStepS 64 b lsh a).2))

/-- `znx_normalize_first_step_ref::<OVERWRITE>`: returns `(x', carry)` -/
def znxNormalizeFirstStep (overwrite : Bool) (b lsh : Nat) (x a : Poly) : Poly × Poly :=
  (List.zipWith (fun xi ai => let d := (firstStepS 64 b lsh ai).1; if overwrite then d else w64 (xi + d)) x a,
   (a.take x.length).map (fun ai => (firstStepS 64 b lsh ai).2))

def znxNormalizeMiddleStepCarryOnly (b lsh : Nat) (x carry : Poly) : Poly :=
  List.zipWith (fun a c => (middleStepS 64 b lsh a c).2) x carry

/-- returns `(x', carry')` -/
def znxNormalizeMiddleStepAssign (b lsh : Nat) (x carry : Poly) : Poly × Poly :=
  (List.zipWith (fun a c => (middleStepS 64 b lsh a c).1) x carry,
   List.zipWith (fun a c => (middleStepS 64 b lsh a c).2) x carry)

/-- `znx_normalize_middle_step_ref::<OVERWRITE>`: returns `(x', carry')` -/
def znxNormalizeMiddleStep (overwrite : Bool) (b lsh : Nat) (x a carry : Poly) : Poly × Poly :=
  (List.zipWith (fun xi (ac : Int × Int) => let d := (middleStepS 64 b lsh ac.1 ac.2).1
      if overwrite then d else w64 (xi + d)) x (a.zip carry),
   List.zipWith (fun ai c => (middleStepS 64 b lsh ai c).2) (a.take x.length) carry)

def znxNormalizeMiddleStepSub (b lsh : Nat) (x a carry : Poly) : Poly × Poly :=
  (List.zipWith (fun xi (ac : Int × Int) => w64 (xi - (middleStepS 64 b lsh ac.1 ac.2).1)) x (a.zip carry),
   List.zipWith (fun ai c => (middleStepS 64 b lsh ai c).2) (a.take x.length) carry)

def znxNormalizeFinalStepAssign (b lsh : Nat) (x carry : Poly) : Poly :=
  List.zipWith (fun a c => finalStepS 64 b lsh a c) x carry

def znxNormalizeFinalStep (overwrite : Bool) (b lsh : Nat) (x a carry : Poly) : Poly :=
  List.zipWith (fun xi (ac : Int × Int) => let d := finalStepS 64 b lsh ac.1 ac.2
      if overwrite then d else w64 (xi + d)) x (a.zip carry)

def znxNormalizeFinalStepSub (b lsh : Nat) (x a carry : Poly) : Poly :=
  List.zipWith (fun xi (ac : Int × Int) => w64 (xi - finalStepS 64 b lsh ac.1 ac.2)) x (a.zip carry)

/-- returns `(res', src')` -/
def znxExtractDigitAddMul (b lsh : Nat) (res src : Poly) : Poly × Poly :=
  (List.zipWith (fun r s => (extractDigitAddMulS 64 b lsh r s).1) res src,
   List.zipWith (fun r s => (extractDigitAddMulS 64 b lsh r s).2) res src)

/-- returns `(res', src')` -/
def znxNormalizeDigit (b : Nat) (res src : Poly) : Poly × Poly :=
  (List.zipWith (fun r s => (normalizeDigitS b r s).1) res src,
   List.zipWith (fun r s => (normalizeDigitS b r s).2) res src)
