import Poulpy.Model.Basic
/-
C12, second half ("the result is independent of the bytes the scratch held beforehand").

The numeric models of the operations (Model/Norm…, Model/HalSpec…, Model/Core…) are pure functions:
they have no scratch argument at all.  What justifies dropping it is the refinement stated here:

* a `ScratchProgram` (`Prog`) is what an operation does with the *cells* of its scratch window —
  cell = one unit the operation reads or writes as a whole (a limb of a temporary, a column of a
  `VecZnxDft` taken from scratch, a carry buffer): `read c`, `write c v`, return;
  values written may depend on everything read so far and on the operation's real inputs
  (which are parameters of the Lean definition of the program, not memory);
* `run p mem` executes it on an initial scratch content `mem : Nat → Val` (arbitrary: a take returns
  whatever bytes were there);
* `WBR W p` ("write before read"): every `read c` is preceded by a `write c` (or `c ∈ W`, cells
  known to be initialised).

`Lemmas/ScratchProg.lean` proves once that `WBR [] p` makes the result of `run p` independent of
`mem`; the per-operation programs below are the take sequences of Model/ScratchOps.lean with the
kernel calls of the Rust bodies written as reads/writes of the taken buffers (the kernels' own
read/write footprints are those of their numeric models: a `*_dft_apply`, `zero`, `copy`,
`normalize` writes every limb of its destination column without reading it).
-/

namespace ScratchProg

/-- a scratch program returning `α`; `Val` = content of one cell -/
inductive Prog (Val : Type) (α : Type) where
  | ret (a : α)
  | read (c : Nat) (k : Val → Prog Val α)
  | write (c : Nat) (v : Val) (k : Prog Val α)

variable {Val α β : Type}

/-- execute on an initial scratch content; returns the result and the final content -/
def run : Prog Val α → (Nat → Val) → α × (Nat → Val)
  | .ret a, m => (a, m)
  | .read c k, m => run (k (m c)) m
  | .write c v k, m => run k (fun x => if x = c then v else m x)

/-- sequencing -/
def Prog.bind : Prog Val α → (α → Prog Val β) → Prog Val β
  | .ret a, f => f a
  | .read c k, f => .read c (fun v => (k v).bind f)
  | .write c v k, f => .write c v (k.bind f)

/-- write before read, relative to the cells `W` already initialised -/
def WBR : List Nat → Prog Val α → Prop
  | _, .ret _ => True
  | W, .read c k => c ∈ W ∧ ∀ v, WBR W (k v)
  | W, .write c _ k => WBR (c :: W) k

/-! ### building blocks: whole-buffer kernels -/

/-- read the cells `cs` (in order) and continue with their values -/
def readAll : List Nat → (List Val → Prog Val α) → Prog Val α
  | [], k => k []
  | c :: cs, k => .read c (fun v => readAll cs (fun vs => k (v :: vs)))

/-- write `vs` to the cells `cs` -/
def writeAll : List Nat → List Val → Prog Val α → Prog Val α
  | c :: cs, v :: vs, k => .write c v (writeAll cs vs k)
  | _, _, k => k

/-- a kernel call `dst := f(src)` where `src`, `dst` are scratch buffers (lists of cells) and `f`
already has the operation's real inputs folded in; `f` must return one value per destination cell -/
def kernel (src dst : List Nat) (f : List Val → List Val) (k : Prog Val α) : Prog Val α :=
  readAll src (fun vs => writeAll dst (f vs) k)

/-- `n` iterations of a body that uses the scratch the same way every time -/
def loopN : Nat → (Nat → Prog Val Unit) → Prog Val Unit
  | 0, _ => .ret ()
  | n + 1, body => (body n).bind (fun _ => loopN n body)

/-! ### operations (cells are numbered per operation; `f…` are the kernels with the real inputs folded in) -/

/-- `vec_znx_rotate_assign` / `automorphism_assign` / `mul_xp_minus_one_assign` on one column of `size`
limbs: per limb `tmp := copy(limb)` (cell 0 written from the real input, nothing read), then the limb is
recomputed from `tmp`.  Result = the list of new limbs. -/
def progAssignViaTmp (size : Nat) (limb : Nat → Val) (g : Val → Val) : Prog Val (List Val) :=
  let rec go : Nat → List Val → Prog Val (List Val)
    | 0, acc => .ret acc.reverse
    | j + 1, acc => .write 0 (limb (size - 1 - j)) (.read 0 (fun t => go j (g t :: acc)))
  go size []

/-- `vec_znx_normalize_assign` on one column: the carry buffer (cell 0) is written by the first step
(least significant limb) and read/updated by every later step.  `step` = (limb, carry) ↦ (new limb, new carry),
`first` = limb ↦ (new limb, carry). -/
def progNormalizeAssign (limbs : List Val) (first : Val → Val × Val) (step : Val → Val → Val × Val) : Prog Val (List Val) :=
  match limbs.reverse with
  | [] => .ret []
  | l0 :: rest =>
    let (o0, c0) := first l0
    let rec go : List Val → List Val → Prog Val (List Val)
      | [], acc => .ret acc
      | l :: ls, acc => .read 0 (fun c => let (o, c') := step l c; .write 0 c' (go ls (o :: acc)))
    .write 0 c0 (go rest [o0])

/-- `glwe_decrypt`: cell 0 = `c0_big` (filled with 0), cell 1 = `ci_dft` (written by `vec_znx_dft_apply` from
the ciphertext column, updated in place by the `svp` product, consumed by the inverse DFT), final
`vec_znx_big_normalize` reads `c0_big` and uses the carry buffer (cell 2, written by its first step). -/
def progGlweDecrypt (rank : Nat) (zero : Val) (dftCol : Nat → Val) (svp : Nat → Val → Val) (acc : Val → Val → Val)
    (addSmall : Val → Val) (normFirst : Val → Val × Val) (normRest : Val → Val → Val) : Prog Val Val :=
  .write 0 zero
    ((loopN rank (fun i =>
        .write 1 (dftCol i)                                   -- ci_dft := dft(ct[i+1])
          (.read 1 (fun d => .write 1 (svp i d)               -- ci_dft *= s[i]
            (.read 1 (fun d' => .read 0 (fun c => .write 0 (acc c d') (.ret ())))))))).bind   -- c0_big += idft(ci_dft)
      (fun _ => .read 0 (fun c => .write 0 (addSmall c)       -- c0_big += ct[0]
        (.read 0 (fun c' =>
          let (o, cr) := normFirst c'
          .write 2 cr (.read 2 (fun cr' => .ret (normRest o cr'))))))))

/-- `glwe_encrypt_sk_internal`: cell 0 = `c0` (zeroed), cell 1 = `ci` (written by `vec_znx_sub` or by
`vec_znx_big_normalize` before it is read), cell 2 = `ci_dft` (written by `vec_znx_dft_apply`), cell 3 = the
normalisation carry buffer (written by the first step of every normalisation). -/
def progEncSkInternal (cols : Nat) (zero : Val) (dftCol : Nat → Val) (svp : Nat → Val → Val) (bigNorm : Val → Val × Val)
    (fin : Val → Val → Val) (sub : Val → Val → Val) (addNoise : Val → Val) (normFirst : Val → Val × Val)
    (normRest : Val → Val → Val) : Prog Val Val :=
  .write 0 zero
    ((loopN (cols - 1) (fun i =>
        .write 2 (dftCol i)
          (.read 2 (fun d => .write 2 (svp i d)
            (.read 2 (fun d' =>
              let (o, cr) := bigNorm d'
              .write 3 cr (.read 3 (fun cr' => .write 1 (fin o cr')          -- ci := big_normalize(idft(ci_dft))
                (.read 1 (fun ci => .read 0 (fun c0 => .write 0 (sub c0 ci) (.ret ())))))))))))).bind
      (fun _ => .read 0 (fun c0 => .write 0 (addNoise c0)
        (.read 0 (fun c0' =>
          let (o, cr) := normFirst c0'
          .write 3 cr (.read 3 (fun cr' => .ret (normRest o cr'))))))))

/-- `glwe_keyswitch` (same radix, `dsize = 1`): cell 0 = `res_dft` (zeroed, then written by the vmp product),
cell 1 = `a_dft` (written by `vec_znx_dft_apply`), cell 2 = the vmp scratch (written by the product before it
reads it), cell 3 = the big-normalisation carry buffer. -/
def progKeyswitch (cols : Nat) (zero : Val) (aDft : Val) (vmpTmp : Val → Val) (vmp : Val → Val → Val) (addSmall : Val → Val)
    (normFirst : Nat → Val → Val × Val) (normRest : Val → Val → Val) : Prog Val (List Val) :=
  .write 0 zero
    (.write 1 aDft
      (.read 1 (fun a => .write 2 (vmpTmp a) (.read 2 (fun t => .write 0 (vmp a t)
        (.read 0 (fun r => .write 0 (addSmall r)
          (.read 0 (fun r' =>
            let rec outs : Nat → List Val → Prog Val (List Val)
              | 0, acc => .ret acc
              | j + 1, acc =>
                let (o, cr) := normFirst j r'
                .write 3 cr (.read 3 (fun cr' => outs j (normRest o cr' :: acc)))
            outs cols [])))))))))

/-- `glwe_mul_plain` / `glwe_tensor_apply` column loop: cell 0 = `a_prep`, cell 1 = `b_prep` (each written by its
`cnv_prepare_*`, whose own temporary — cell 2 — is written from the real operand before it is read), per column cell 3 =
the accumulator `res_dft` (written by `cnv_apply_dft` from `a_prep`, `b_prep` through its buffer, cell 4), cell 5 = the
normalisation carry (written by the first step). -/
def progCnvProduct (cols : Nat) (tmpA tmpB : Val) (prepL prepR : Val → Val) (cnvTmp : Val → Val → Val)
    (cnv : Nat → Val → Val → Val → Val) (normFirst : Val → Val × Val) (normRest : Val → Val → Val) : Prog Val (List Val) :=
  .write 2 tmpA (.read 2 (fun ta => .write 0 (prepL ta)
    (.write 2 tmpB (.read 2 (fun tb => .write 1 (prepR tb)
      (let rec cols_ : Nat → List Val → Prog Val (List Val)
        | 0, acc => .ret acc
        | j + 1, acc =>
          .read 0 (fun a => .read 1 (fun b => .write 4 (cnvTmp a b) (.read 4 (fun t => .write 3 (cnv j a b t)
            (.read 3 (fun r =>
              let (o, cr) := normFirst r
              .write 5 cr (.read 5 (fun cr' => cols_ j (normRest o cr' :: acc)))))))))
      cols_ cols []))))))

/-- block-binary blind rotation, one block: cell 0 = `acc_dft` (written by `vec_znx_dft_apply` from the accumulator, a real
operand), cell 1 = `acc_add_dft` (zeroed), per key of the block cell 2 = `vmp_res` (written by the product through its buffer,
cell 3), cell 4 = `vmp_xai` (written by `svp_apply_dft_to_dft`), then cell 5 = `acc_add_big` (written by the inverse DFT) and the
carry, cell 6. -/
def progBlindRotationBlock (block : Nat) (accDft zero : Val) (vmpTmp : Nat → Val → Val) (vmp : Nat → Val → Val → Val)
    (svp : Nat → Val → Val) (upd : Val → Val → Val → Val) (idft : Val → Val) (addSmall : Val → Val)
    (normFirst : Val → Val × Val) (normRest : Val → Val → Val) : Prog Val Val :=
  let body : Nat → Prog Val Unit := fun i =>
    .read 0 (fun a => .write 3 (vmpTmp i a) (.read 3 (fun t => .write 2 (vmp i a t)
      (.read 2 (fun r => .write 4 (svp i r)
        (.read 4 (fun x => .read 1 (fun s => .write 1 (upd s x r) (.ret ())))))))))
  let tail : Prog Val Val :=
    .read 1 (fun s => .write 5 (idft s) (.read 5 (fun b => .write 5 (addSmall b)
      (.read 5 (fun b' =>
        let (o, cr) := normFirst b'
        .write 6 cr (.read 6 (fun cr' => .ret (normRest o cr'))))))))
  .write 0 accDft (.write 1 zero ((loopN block body).bind (fun _ => tail)))

/-! ### the shift / normalise family (poulpy-cpu-ref/src/reference/vec_znx/shift.rs, normalize.rs, reference/ntt120/vec_znx_big.rs)

Scratch cells: 0 = the carry buffer, 1 = the spare limb (`zero` / `tmp`) of the right shifts and the normalisations.
The carry is initialised on two different paths: by `znx_normalize_first_step_carry_only` when at least one limb of the
operand is discarded (`nOut > 0`: it writes the carry without reading it), by `znx_zero(carry)` otherwise.  The
programs take a flag for each zero fill so that the theorems can say which fill is needed on which path. -/

/-- carry phase shared by the whole family: `nOut` discarded limbs of the operand (most significant last) -/
def carryPhase (zeroCarry : Bool) (zero : Val) (firstCO : Nat → Val) (midCO : Nat → Val → Val) (k : Prog Val α) : Nat → Prog Val α
  | 0 => if zeroCarry then .write 0 zero k else k
  | m + 1 => .write 0 (firstCO m) ((loopN m (fun j => .read 0 (fun c => .write 0 (midCO j c) (.ret ())))).bind (fun _ => k))

/-- the limbs that read and update the carry (`znx_normalize_middle_step*` / `final_step*`): `work` of them, newest first -/
def carrySteps (step : Nat → Val → Val × Val) : Nat → List Val → Prog Val (List Val)
  | 0, acc => .ret acc
  | j + 1, acc => .read 0 (fun c => let (o, c') := step j c; .write 0 c' (carrySteps step j (o :: acc)))

/-- `vec_znx_lsh`, `vec_znx_lsh_add_into`, `vec_znx_lsh_sub` (and `glwe_lsh`, `glwe_lsh_add`, `glwe_lsh_sub` per column):
`nOut = a_size − carry_only_start` limbs only contribute their carry, `minSize` limbs are written through the carry.
`zeroCarry = true` is the library; the seeded change is `zeroCarry = !(a_size > res_size)`. -/
def progLsh (zeroCarry : Bool) (nOut minSize : Nat) (zero : Val) (firstCO : Nat → Val) (midCO : Nat → Val → Val)
    (step : Nat → Val → Val × Val) : Prog Val (List Val) :=
  carryPhase zeroCarry zero firstCO midCO (carrySteps step minSize []) nOut

/-- `vec_znx_rsh`, `vec_znx_rsh_add_into`, `vec_znx_rsh_sub`, `vec_znx_rsh_assign`, `vec_znx_normalize` and
`vec_znx_big_normalize*` with equal radices: after the carry phase, when the operand lies entirely below the
destination (`gap > 0`) the carry is brought up through `gap` virtual zero limbs read from the spare limb (cell 1),
which must be zero-filled first; then `work` limbs go through the carry (for `rsh_sub` one of the steps is the negation) -/
def progRsh (zeroCarry zeroSpare : Bool) (nOut gap work : Nat) (zero : Val) (firstCO : Nat → Val) (midCO : Nat → Val → Val)
    (gapStep : Val → Val → Val) (step : Nat → Val → Val × Val) : Prog Val (List Val) :=
  let rest : Prog Val (List Val) := carrySteps step work []
  let gapPhase : Prog Val (List Val) :=
    if gap = 0 then rest
    else
      let body : Prog Val (List Val) := (loopN gap (fun _ => .read 1 (fun z => .read 0 (fun c => .write 0 (gapStep z c) (.ret ()))))).bind (fun _ => rest)
      if zeroSpare then .write 1 zero body else body
  carryPhase zeroCarry zero firstCO midCO gapPhase nOut

/-! ### the poulpy-ckks product path (poulpy-ckks/src/leveled/default/mul.rs, delegates/composite.rs)

The evaluator's products take a buffer from the scratch, have one operation fill it while using the rest of the scratch,
and have a second operation consume it while using the same rest again.  `Prog.shift` places a sub-operation's program on
the rest (its cells renumbered after the buffers taken before it). -/

/-- the same program on cells moved up by `k` (the operation runs on what is left after `k` buffers were taken) -/
def Prog.shift (k : Nat) : Prog Val α → Prog Val α
  | .ret a => .ret a
  | .read c f => .read (c + k) (fun v => (f v).shift k)
  | .write c v p => .write (c + k) v (p.shift k)

/-- `let (tmp, rest) = scratch.take(..); producer(&mut tmp, .., rest); consumer(dst, &tmp, .., rest)`: cell 0 = `tmp`.
* `ckks_mul_into / _assign`, `ckks_square_into / _assign`: `tmp` = the tensor (`take_glwe_tensor`), producer =
  `glwe_tensor_apply` / `glwe_tensor_square_apply` (`progCnvProduct`), consumer = `glwe_tensor_relinearize` (`progKeyswitch`);
* `ckks_mul_add_*`, `ckks_mul_sub_*`: `tmp` = `take_mul_tmp(dst)`, producer = the product into `tmp`, consumer =
  `ckks_add_assign` / `ckks_sub_assign(dst, tmp)` (a `glwe_lsh_add` / `glwe_lsh_sub` and a normalisation: `progLsh`);
* `ckks_mul_pt_const_znx_*` with a real and an imaginary part: `tmp` = `take_glwe(dst)`, producer = `glwe_mul_const` and
  `glwe_rotate_assign`, consumer = `glwe_add_assign` (no scratch);
* `ckks_*_pt_vec_rnx_*`: `tmp` = the converted plaintext (`take_glwe_plaintext`), producer = `to_znx` (no scratch), consumer =
  the `_znx` operation.
`pack` = the buffer's content as a function of what the producer computed. -/
def progViaTmp (producer : Prog Val β) (pack : β → Val) (consumer : Val → Prog Val α) : Prog Val α :=
  (producer.shift 1).bind (fun r => .write 0 (pack r) (.read 0 (fun t => (consumer t).shift 1)))

/-- `m` buffers (cells `m − 1 … 0`) each written with the result of a sub-operation that runs on the rest (`K` cells further):
the rescaled copies of `ckks_dot_product_ct` (`ckks_rescale_into(&mut buf[i], shift, x[i], rest)`), the two halves of a
`mul_many_rec` level -/
def fillBufs (K : Nat) (fill : Nat → Prog Val Val) (k : Prog Val α) : Nat → Prog Val α
  | 0 => k
  | i + 1 => ((fill i).shift K).bind (fun v => .write i v (fillBufs K fill k i))

/-- terms `1 … cnt − 1` of the fast path of `ckks_dot_product_ct`: `glwe_tensor_apply_add_assign(acc, a_buf[i], b_buf[i], rest)` reads
the two copies (cells `i`, `cnt + i`) and the accumulator (cell `T`) and writes the accumulator -/
def accumulateTerms (K T cnt : Nat) (accum : Nat → Val → Val → Val → Prog Val Val) (k : Prog Val α) : Nat → Prog Val α
  | 0 => k
  | j + 1 =>
    let i := cnt - (j + 1)
    .read i (fun a => .read (cnt + i) (fun b => .read T (fun t =>
      ((accum i a b t).shift K).bind (fun t' => .write T t' (accumulateTerms K T cnt accum k j)))))

/-- `ckks_dot_product_ct`, fast path with neither side aligned: cells `0 … cnt − 1` = the rescaled copies of `a`, `cnt … 2·cnt − 1` those
of `b`, cell `2·cnt` = the tensor accumulator, the rest = scratch of the rescales, the tensor products and the relinearisation -/
def progCkksDotProductCt (cnt : Nat) (rescale : Nat → Prog Val Val) (first : Val → Val → Prog Val Val)
    (accum : Nat → Val → Val → Val → Prog Val Val) (relin : Val → Prog Val α) : Prog Val α :=
  let T := 2 * cnt
  let K := 2 * cnt + 1
  fillBufs K rescale
    (.read 0 (fun a0 => .read cnt (fun b0 => ((first a0 b0).shift K).bind (fun t => .write T t
      (accumulateTerms K T cnt accum (.read T (fun t' => (relin t').shift K)) (cnt - 1))))))
    (2 * cnt)

/-- one level of `mul_many_rec`: the products of the two halves go to two buffers taken from the scratch (cells 0, 1; each half
computed on the rest), then their product goes to the destination on the rest -/
def progMulManyLevel (left right : Prog Val Val) (product : Val → Val → Prog Val α) : Prog Val α :=
  (left.shift 2).bind (fun l => .write 0 l ((right.shift 2).bind (fun r => .write 1 r
    (.read 0 (fun x => .read 1 (fun y => (product x y).shift 2))))))

/-- the kernels of one `glwe_tensor_apply` / `glwe_tensor_square_apply` / `glwe_mul_plain` call with its real operands folded in
(the parameters of `progCnvProduct`) -/
structure ProductKernels (Val : Type) where
  cols : Nat
  tmpA : Val
  tmpB : Val
  prepL : Val → Val
  prepR : Val → Val
  cnvTmp : Val → Val → Val
  cnv : Nat → Val → Val → Val → Val
  normFirst : Val → Val × Val
  normRest : Val → Val → Val
  /-- the buffer's content from the columns computed -/
  pack : List Val → Val

def ProductKernels.prog (P : ProductKernels Val) : Prog Val Val :=
  (progCnvProduct P.cols P.tmpA P.tmpB P.prepL P.prepR P.cnvTmp P.cnv P.normFirst P.normRest).bind (fun cs => .ret (P.pack cs))

/-- the kernels of `glwe_tensor_relinearize` (a key-switch of the tensor's last columns: the parameters of `progKeyswitch`,
`aDft` = the DFT of the tensor read from its buffer) -/
structure RelinKernels (Val : Type) where
  cols : Nat
  zero : Val
  aDft : Val → Val
  vmpTmp : Val → Val
  vmp : Val → Val → Val
  addSmall : Val → Val
  normFirst : Nat → Val → Val × Val
  normRest : Val → Val → Val

def RelinKernels.prog (R : RelinKernels Val) (tensor : Val) : Prog Val (List Val) :=
  progKeyswitch R.cols R.zero (R.aDft tensor) R.vmpTmp R.vmp R.addSmall R.normFirst R.normRest

/-- the kernels of a `glwe_lsh` / `glwe_lsh_add` / `glwe_lsh_sub` of an operand `x` into a destination (the parameters of
`progLsh`, with the library's unconditional zero fill of the carry) -/
structure ShiftKernels (Val : Type) where
  nOut : Nat
  minSize : Nat
  zero : Val
  firstCO : Val → Nat → Val
  midCO : Val → Nat → Val → Val
  step : Val → Nat → Val → Val × Val

def ShiftKernels.prog (S : ShiftKernels Val) (x : Val) : Prog Val (List Val) :=
  progLsh true S.nOut S.minSize S.zero (S.firstCO x) (S.midCO x) (S.step x)

/-- `ckks_mul_into / _assign`, `ckks_square_into / _assign`: the tensor (cell 0, `take_glwe_tensor`) is written by the tensor
product and read by the relinearisation; both use the rest of the scratch -/
def progCkksMul (P : ProductKernels Val) (R : RelinKernels Val) : Prog Val (List Val) :=
  progViaTmp P.prog id R.prog

/-- `ckks_mul_add_ct_into` / `ckks_mul_sub_ct_into`: `take_mul_tmp(dst)` (cell 0) receives the product (`ckks_mul_into(tmp, a, b)`
on the rest), `ckks_add_assign / ckks_sub_assign(dst, tmp)` shifts it into the destination through the carry on the rest -/
def progCkksMulAddCt (P : ProductKernels Val) (R : RelinKernels Val) (packCt : List Val → Val) (S : ShiftKernels Val) :
    Prog Val (List Val) :=
  progViaTmp (progCkksMul P R) packCt S.prog

/-- `ckks_mul_add_pt_vec_znx_into`, `ckks_mul_sub_pt_vec_znx_into` and one term of `ckks_dot_product_pt_*` (`accumulate_unnormalized`):
the product is a `glwe_mul_plain` / `glwe_mul_const` into `take_mul_tmp(dst)` -/
def progCkksMulAddPt (P : ProductKernels Val) (S : ShiftKernels Val) : Prog Val (List Val) :=
  progViaTmp P.prog id S.prog

/-- `ckks_dot_product_ct`, fast path: rescaled copies (each a shift of an input into its buffer), the first tensor product into
the accumulator, `cnt − 1` accumulating products, the relinearisation -/
def progCkksDotProduct (cnt : Nat) (S : ShiftKernels Val) (input : Nat → Val) (packCt : List Val → Val)
    (first : Val → Val → ProductKernels Val) (accum : Nat → Val → Val → Val → ProductKernels Val) (R : RelinKernels Val) :
    Prog Val (List Val) :=
  progCkksDotProductCt cnt (fun i => (S.prog (input i)).bind (fun ls => .ret (packCt ls)))
    (fun a b => (first a b).prog) (fun i a b t => (accum i a b t).prog) R.prog

/-- `ckks_mul_many` on four inputs: two products into the two halves' buffers, then their product -/
def progCkksMulMany4 (PL PR : ProductKernels Val) (RL RR : RelinKernels Val) (packCt : List Val → Val)
    (P : Val → Val → ProductKernels Val) (R : RelinKernels Val) : Prog Val (List Val) :=
  progMulManyLevel ((progCkksMul PL RL).bind (fun ls => .ret (packCt ls))) ((progCkksMul PR RR).bind (fun ls => .ret (packCt ls)))
    (fun x y => progCkksMul (P x y) R)

end ScratchProg
