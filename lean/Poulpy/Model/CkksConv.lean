/-
C16 — the float → integer conversion of `CKKSPlaintextVecRnx::to_znx` and
`CKKSPlaintextCstRnx::to_znx_at_k` as an outcome.

Rust anchors: poulpy-ckks/src/layouts/plaintext/vec.rs (`to_znx`), cst.rs (`to_znx_at_k`,
`encode_const_coeff_i64/i128`); `num_traits::ToPrimitive for f64` (`to_i64`: `Some` iff
`-2^63 ≤ x < 2^63`, `to_i128`: `Some` iff `-2^127 ≤ x < 2^127`, `None` for NaN);
`f128::f128` (crate f128_internal 0.2.2, `f128_impl.rs`): `to_i64` / `to_i128` are
`Some(unsafe { f128_to_i64(*self) })`, a C cast of `__float128` — never `None`.  The value of that
cast outside the target range is not defined by the C standard; on the platform of this tree
(x86-64, libgcc `__fixtfdi` / `__fixtfti`) it saturates and maps NaN to 0, which is what `toIntW`
records and the `toznx` tie compares.

A float is given exactly: `fin m e` is the number `m·2^e`.  Multiplying by `scale = 2^log_delta`
(`log_delta ≥ 0`) is exact in binary floating point unless it overflows to an infinity, and an infinity
is converted like any other out-of-range value, so the exact product is the model of `x * scale` for every
finite input.  `F::round` rounds half away from zero.
-/
import Poulpy.Model.Ckks
import Poulpy.Model.Encoding

namespace Ckks

/-- element type of an RNX plaintext -/
inductive FloatTy where
  | f64
  | f128
deriving Repr, DecidableEq

/-- `max_log_delta_prec()`: `-log2(epsilon) + 1` -/
def FloatTy.maxPrec : FloatTy → Nat
  | .f64 => 53
  | .f128 => 113

/-- a floating-point coefficient: exactly `m·2^e`, or not finite -/
inductive FVal where
  | nan
  | inf (neg : Bool)
  | fin (m e : Int)
deriving Repr, DecidableEq

/-- `round(m·2^s)`, halves away from zero (`f64::round`, `roundq`) -/
def roundHalfAway (m s : Int) : Int :=
  if 0 ≤ s then m * 2 ^ s.toNat
  else
    let d : Nat := 2 ^ (-s).toNat
    let q := m.natAbs / d
    let r := m.natAbs % d
    let a : Int := if d ≤ 2 * r then (q : Int) + 1 else q
    if m < 0 then -a else a

/-- saturation of the C cast -/
def satW (W : Nat) (neg : Bool) : Int := if neg then -(2 : Int) ^ W else 2 ^ W - 1

/-- `(x * 2^ld).round().to_i64().unwrap()` (`W = 63`) / `.to_i128().unwrap()` (`W = 127`) -/
def toIntW (ty : FloatTy) (W ld : Nat) : FVal → Outcome Int
  | .fin m e =>
    let v := roundHalfAway m (e + ld)
    if -(2 : Int) ^ W ≤ v ∧ v < 2 ^ W then .ok v
    else
      match ty with
      | .f64 => .panic "unwrap-none"
      | .f128 => .ok (satW W (decide (v < 0)))
  | .nan =>
    match ty with
    | .f64 => .panic "unwrap-none"
    | .f128 => .ok 0
  | .inf neg =>
    match ty with
    | .f64 => .panic "unwrap-none"
    | .f128 => .ok (satW W neg)

/-- the integer path `to_znx` selects from the declared metadata: `i64` when
`log_delta + log_budget ≤ 63`, `i128` otherwise -/
def intPathW (ld lb : Nat) : Nat := if ld + lb ≤ 63 then 63 else 127

/-- digits of one converted coefficient: `encode_vec_i64` / `encode_vec_i128` at `k` into `size` limbs -/
def encodeW (W b k size : Nat) (v : Int) : List Int :=
  if W = 63 then encodeCoefI64 b k size v else encodeCoefI128 b k size v

/-- `CKKSPlaintextVecRnx::<F>::to_znx(other)` with `other = CKKSPlaintextVecZnx::alloc(n, b, md)`
(`b ≥ 1`): the limbs of every coefficient (most significant first).
The three `ensure!`s come first, so a refused destination never reaches the conversion. -/
def toZnxVec (ty : FloatTy) (b : Nat) (md : Meta) (n : Nat) (vals : List FVal) : Outcome (List (List Int)) :=
  let size := divCeil md.effK b
  if md.logDelta > ty.maxPrec then .err "other"
  else if vals.length ≠ n then .err "other"
  else if size = 0 then .err "other"
  else
    let W := intPathW md.logDelta md.logBudget
    match sequenceOutcome (vals.map (toIntW ty W md.logDelta)) with
    | .ok data => .ok (data.map (encodeW W b (size * b) size))
    | .err e => .err e
    | .panic p => .panic p

/-- `CKKSPlaintextCstRnx::<F>::to_znx_at_k(base2k, k, log_delta)`: digits of the parts that are
present and the metadata of the constant -/
def toZnxCst (ty : FloatTy) (b k ld : Nat) (re im : Option FVal) :
    Outcome (Option (List Int) × Option (List Int) × Meta) :=
  let lb := k - ld
  if ld > ty.maxPrec then .err "other"
  else if k = 0 ∧ (re.isSome ∨ im.isSome) then .err "other"
  else
    let W := intPathW ld lb
    let part : Option FVal → Outcome (Option (List Int)) := fun
      | none => .ok none
      | some x =>
        match toIntW ty W ld x with
        | .ok v => .ok (some (encodeW W b k (encSize b k) v))
        | .err e => .err e
        | .panic p => .panic p
    match part re, part im with
    | .ok r, .ok i => .ok (r, i, ⟨ld, lb⟩)
    | .panic p, _ => .panic p
    | _, .panic p => .panic p
    | .err e, _ => .err e
    | _, .err e => .err e

/-- the magnitude limit the metadata declare: `|x| < 2^(log_budget - 1)` in slot units, i.e. the
scaled value fits the `log_delta + log_budget` bits of the plaintext with its sign -/
def FVal.inRange (md : Meta) : FVal → Prop
  | .fin m e => (roundHalfAway m (e + md.logDelta)).natAbs < 2 ^ (md.effK - 1)
  | _ => False

/-- the exact precondition of the conversion of one coefficient -/
def FVal.convertible (W ld : Nat) : FVal → Prop
  | .fin m e => -(2 : Int) ^ W ≤ roundHalfAway m (e + ld) ∧ roundHalfAway m (e + ld) < 2 ^ W
  | _ => False

instance (W ld : Nat) (x : FVal) : Decidable (x.convertible W ld) := by
  cases x <;> unfold FVal.convertible <;> infer_instance

instance (md : Meta) (x : FVal) : Decidable (x.inRange md) := by
  cases x <;> unfold FVal.inRange <;> infer_instance

end Ckks
