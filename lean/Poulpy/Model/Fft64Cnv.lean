import Poulpy.Model.Fft64Avx
import Poulpy.Model.HalSpec

/-!
# Model of the bivariate convolution path of the FFT64 back ends

`poulpy-cpu-ref/src/reference/fft64/convolution.rs` (generic over the back end: FFT64Ref and FFT64Avx differ only in the
kernels they plug in) and the `i64` by-constant kernels (`convolution.rs` of both crates).  One column.

* `convolution_prepare(res, a, mask)`: `vec_znx_dft_apply` of the `min(res.size, a.size)` common limbs (unmasked), then the
  last common limb again through `reim_from_znx_masked` + FFT, block re-layout (pure data movement, not modelled),
  zero fill (`reim_zero`: `+0.0`) up to the prepared size → `cnvPrepare`.  On FFT64Avx the *unmasked* pass already runs the
  range assertion of `reim_from_znx_i64_bnd50_fma` on the last limb.
* `convolution_apply_dft(cnv_offset, res, a, b)`: output limb `k < min(res.size, a+b−1)` is, slot by slot,
  `Σ_{j = j_min}^{j_max − 1} a[k' − j]·b[j]`, `k' = k + min(cnv_offset, a+b−1)`, accumulated from `+0` in increasing `j` by
  `reim4_add_mul` (reference: `Fft64.caddmul`) resp. the fused `reim4_convolution_{1,2}coeffs_avx`
  (`Fft64Avx.caddmulLaneAvx`) → `cnvLimb`, `cnvApply`.  `n < 8` (`m/4 = 0` blocks) writes nothing: not modelled (`err`).
* `convolution_pairwise_apply_dft(i ≠ j)`: `reim_add` of the two prepared columns on both sides (one `f64` addition per
  component; the sums double the magnitude), then the same convolution → `cnvPairwise`.
* `convolution_by_const_apply`: exact `i64` wrapping arithmetic (`wrapping_mul`, `wrapping_add`) on FFT64Ref and — since
  patch 34 (`mul_i64_wrapping_avx2`: three `_mm256_mul_epu32`, proved lane-wise equal to `wrapping_mul` in C10,
  `mul64_lanes_eq_wrapping_mul`) — on FFT64Avx → `byConstTerm`, `cnvByConst`.  The pinned tree used `_mm256_mul_epi32`, which
  multiplies the sign-extended low 32 bits of both operands: kept as `byConstTermOldLane` (documentation of the repaired defect).
-/

namespace Fft64Cnv
open F64 Fft64 Fft64Avx

/-- the kernels a back end plugs into the generic convolution code -/
structure Ops where
  dft : Nat → Array Nat → List Int → Outcome (List C64)
  step : C64 → C64 → C64 → C64
  idft : Nat → Array Nat → List C64 → List Int

def refOps : Ops := ⟨fun K omg a => .ok (dftOf K omg a), caddmul, idftOf⟩
def avxOps : Ops := ⟨dftOfAvx, caddmulLaneAvx, idftOfAvx⟩

def zeroVec (K : Nat) : List C64 := List.replicate (2 ^ K) (0, 0)

/-- `convolution_prepare` for one column: prepared size `resSize`, top-limb `mask` -/
def cnvPrepare (o : Ops) (K : Nat) (omg : Array Nat) (resSize : Nat) (mask : Int) (a : Col) : Outcome (List (List C64)) :=
  let minSize := min resSize a.length
  let n := 2 * 2 ^ K
  -- unmasked pass over the common limbs (its results for `j < minSize − 1` are kept)
  match allOk ((List.range minSize).map (fun j => o.dft K omg (Hal.limbOr0 n a j))) with
  | .panic c => .panic c
  | .err e => .err e
  | .ok un =>
    if minSize = 0 then .ok (List.replicate resSize (zeroVec K))
    else
      match o.dft K omg ((Hal.limbOr0 n a (minSize - 1)).map (Hal.maskCoeff mask)) with
      | .panic c => .panic c
      | .err e => .err e
      | .ok last =>
        .ok ((List.range resSize).map (fun j =>
          if j + 1 = minSize then last else if j < minSize then un.getD j (zeroVec K) else zeroVec K))

/-- one output limb in the DFT domain: `Σ_j a[kk−j]·b[j]` accumulated from `+0` in increasing `j` -/
def cnvLimb (o : Ops) (K : Nat) (a b : List (List C64)) (kk : Nat) : List C64 :=
  if a.length + b.length ≤ kk then zeroVec K
  else
    let jMin := kk - (a.length - 1)
    let jMax := min (kk + 1) b.length
    (List.range (jMax - jMin)).foldl (fun acc t =>
      let j := jMin + t
      List.zipWith (fun s uv => o.step s uv.1 uv.2) acc ((a.getD (kk - j) (zeroVec K)).zip (b.getD j (zeroVec K)))) (zeroVec K)

/-- `convolution_apply_dft` + `vec_znx_idft_apply` of every limb of the result column -/
def cnvApply (o : Ops) (K : Nat) (iomg : Array Nat) (resSize cnvOffset : Nat) (a b : List (List C64)) : Outcome (List (List Int)) :=
  if 2 * 2 ^ K < 8 then .err "n<8"
  else if a.length = 0 ∨ b.length = 0 then .panic "assert"
  else
    let bound := a.length + b.length - 1
    let minSize := min resSize bound
    let off := min cnvOffset bound
    .ok ((List.range resSize).map (fun k =>
      if k < minSize then o.idft K iomg (cnvLimb o K a b (k + off)) else List.replicate (2 * 2 ^ K) 0))

/-- prepare both operands, apply, inverse transform: one column of `cnv_apply_dft` -/
def cnvPipeline (o : Ops) (K : Nat) (omg iomg : Array Nat) (resSize cnvOffset sizeL sizeR : Nat) (maskL maskR : Int)
    (a b : Col) : Outcome (List (List Int)) :=
  match cnvPrepare o K omg sizeL maskL a, cnvPrepare o K omg sizeR maskR b with
  | .ok pa, .ok pb => cnvApply o K iomg resSize cnvOffset pa pb
  | .panic c, _ => .panic c
  | _, .panic c => .panic c
  | .err e, _ => .err e
  | _, .err e => .err e

/-- `reim_add` of two prepared columns (limb by limb, component by component) -/
def prepAdd (x y : List (List C64)) : List (List C64) :=
  List.zipWith (fun l1 l2 => List.zipWith (fun p q => (add p.1 q.1, add p.2 q.2)) l1 l2) x y

/-- `cnv_pairwise_apply_dft(i ≠ j)`: `(a_i + a_j)·(b_i + b_j)` -/
def cnvPairwise (o : Ops) (K : Nat) (omg iomg : Array Nat) (resSize cnvOffset sizeL sizeR : Nat) (maskL maskR : Int)
    (a0 a1 b0 b1 : Col) : Outcome (List (List Int)) :=
  match cnvPrepare o K omg sizeL maskL a0, cnvPrepare o K omg sizeL maskL a1,
        cnvPrepare o K omg sizeR maskR b0, cnvPrepare o K omg sizeR maskR b1 with
  | .ok p0, .ok p1, .ok q0, .ok q1 => cnvApply o K iomg resSize cnvOffset (prepAdd p0 p1) (prepAdd q0 q1)
  | .panic c, _, _, _ => .panic c
  | _, .panic c, _, _ => .panic c
  | _, _, .panic c, _ => .panic c
  | _, _, _, .panic c => .panic c
  | _, _, _, _ => .err "internal"

/-! ## by-constant convolution in the coefficient domain (`i64`) -/

/-- sign-extended low 32 bits of an `i64` (`_mm256_mul_epi32` operand; `*b_ptr as i32`) -/
def lo32 (x : Int) : Int := (x + 2 ^ 31) % 2 ^ 32 - 2 ^ 31

/-- the lane product of the FFT64Avx kernels BEFORE patch 34: `i32 × i32 → i64` of the low halves -/
def byConstTermOldLane (a b : Int) : Int := lo32 a * lo32 b

/-- one product of the accumulation: `wrapping_mul` on both back ends (FFT64Avx: `mul_i64_wrapping_avx2`, the low 64 bits of
the 64×64 product; the `avx` flag is kept for the driver's interface) -/
def byConstTerm (_avx : Bool) (a b : Int) : Int := w64 (a * b)

/-- `convolution_by_const_apply` on one column: `a` limbs, constants `b`; every addition wraps to `i64` -/
def cnvByConst (avx : Bool) (K : Nat) (resSize cnvOffset : Nat) (a : Col) (b : List Int) : Outcome (List (List Int)) :=
  let n := 2 * 2 ^ K
  if n < 8 then .err "n<8"
  else if a.length = 0 then .panic "assert"
  else
    let bound := a.length + b.length - 1
    let minSize := min resSize bound
    let off := min cnvOffset bound
    .ok ((List.range resSize).map (fun k =>
      if k < minSize then
        let kk := k + off
        if a.length + b.length ≤ kk then List.replicate n 0
        else
          let jMin := kk - (a.length - 1)
          let jMax := min (kk + 1) b.length
          (List.range n).map (fun i =>
            (List.range (jMax - jMin)).foldl (fun acc t =>
              let j := jMin + t
              w64 (acc + byConstTerm avx ((Hal.limbOr0 n a (kk - j)).getD i 0) (b.getD j 0))) 0)
      else List.replicate n 0))

end Fft64Cnv
