import Poulpy.Model.Lut
/-
Model of the constant mode of circuit bootstrapping (C15)

  poulpy-bin-fhe/src/circuit_bootstrapping/circuit.rs   circuit_bootstrap_core(to_exponent = false, …):
      the table `f`, `gap`, and the row loop `row_i ← trace(res); res ← X^{-gap}·res`

at plaintext level.  The blind rotation itself is `Lut.blindPlain` / `Lut.blindExt`; the trace keeps the constant
coefficient (C03), `ggsw_expand_row` turns the `dnum` rows into a GGSW (C04) — both enter the theorems as contracts.
-/

namespace Cbt
open Lut

/-- `dnum_res.next_power_of_two()` -/
def nextPow2 (x : Nat) : Nat := if x ≤ 1 then 1 else 2 ^ (Nat.log2 (x - 1) + 1)

/-- the table of the constant mode: `f[j*alpha + i] = j * (1 << (res_base2k * (dnum_res - 1 - i)))` for
`j < 2^log_domain`, `i < dnum_res`, zero elsewhere (`alpha = dnum_res.next_power_of_two()`) -/
def cbtTable (logDomain dnum resB : Nat) : List Int :=
  let alpha := nextPow2 dnum
  (List.range (2 ^ logDomain * alpha)).map fun x =>
    if x % alpha < dnum then ((x / alpha : Nat) : Int) * 2 ^ (resB * (dnum - 1 - x % alpha)) else 0

/-- `gap = 2 * lut.drift / lut.extension_factor()` -/
def cbtGap (drift ext : Nat) : Nat := 2 * drift / ext

/-- the row loop: the constant coefficient (limb vector) that the full trace of iteration `i` keeps; between
iterations the blind-rotation output is rotated by `-gap` -/
def cbtRows (dnum gap : Nat) (P : List Vec) : List Vec :=
  (List.range dnum).map fun i =>
    (((List.range i).foldl (fun p _ => rotate (-(gap : Int)) p) P)[0]?).getD []

end Cbt
