import Poulpy.Model.Lut
/-
Model of the constant mode of circuit bootstrapping (C15)

  poulpy-bin-fhe/src/circuit_bootstrapping/circuit.rs   circuit_bootstrap_core(to_exponent = false, …):
      the table `f`, `gap`, and the row loop `row_i ← trace(res); res ← X^{-gap}·res`

and of the exponent mode (`to_exponent = true`): the table, the right rotation, `post_process` (partial trace, the
`2^log_domain` rotated copies, `glwe_pack`; or the partial trace alone when `log_gap_in = log_gap_out`)

at plaintext level.  The blind rotation itself is `Lut.blindPlain` / `Lut.blindExt`; the trace keeps the constant
coefficient (C03), `ggsw_expand_row` turns the `dnum` rows into a GGSW (C04) — both enter the theorems as contracts.
-/

namespace Cbt
open Lut

/-- `dnum_res.next_power_of_two()` -/
def nextPow2 (x : Nat) : Nat := if x ≤ 1 then 1 else 2 ^ (Nat.log2 (x - 1) + 1)

/-- the table of the constant mode: `f[j*alpha + i] = j * (1 << (res_base2k * (dnum_res - 1 - i)))` for
`j < 2^log_domain`, `i < dnum_res`, zero elsewhere (`alpha = dnum_res.next_power_of_two()`) -/
def cbtTable (logDomain dnum resB : Nat) : List Int :=
  let alpha := nextPow2 dnum
  (List.range (2 ^ logDomain * alpha)).map fun x =>
    if x % alpha < dnum then ((x / alpha : Nat) : Int) * 2 ^ (resB * (dnum - 1 - x % alpha)) else 0

/-- `gap = 2 * lut.drift / lut.extension_factor()` -/
def cbtGap (drift ext : Nat) : Nat := 2 * drift / ext

/-- the row loop: the constant coefficient (limb vector) that the full trace of iteration `i` keeps; between
iterations the blind-rotation output is rotated by `-gap` -/
def cbtRows (dnum gap : Nat) (P : List Vec) : List Vec :=
  (List.range dnum).map fun i =>
    (((List.range i).foldl (fun p _ => rotate (-(gap : Int)) p) P)[0]?).getD []

/-! ### exponent mode -/

/-- the table of the exponent mode: `f[i] = 1 << (res_base2k * (dnum_res - 1 - i))` for `i < dnum_res`, zero elsewhere,
length `(1 << log_domain) * alpha` -/
def expTable (logDomain dnum resB : Nat) : List Int :=
  let alpha := nextPow2 dnum
  (List.range (2 ^ logDomain * alpha)).map fun x => if x < dnum then 2 ^ (resB * (dnum - 1 - x)) else 0

/-- `glwe_trace(skip, ·)` at plaintext level: keeps the coefficients that are multiples of `N >> skip` (C03), zero elsewhere -/
def traceP (n skip : Nat) (p : List Vec) : List Vec :=
  p.mapIdx fun j v => if j % (n >>> skip) = 0 then v else v.map fun _ => 0

/-- `glwe_pack(res, cts, log_gap_out)` at plaintext level (C03): the constant coefficient of `cts[k]` goes to coefficient
`k`; coefficients without a ciphertext are zero; the final `glwe_trace(log_n - log_gap_out)` -/
def packP (n logn size lgo : Nat) (cts : List (Nat × List Vec)) : List Vec :=
  traceP n (logn - lgo) ((List.range n).map fun j =>
    match cts.find? (fun c => c.1 == j) with
    | some c => (c.2[0]?).getD (List.replicate size 0)
    | none => List.replicate size 0)

/-- `log_gap_in = usize::BITS - (gap * alpha - 1).leading_zeros()` -/
def logGapIn (gap alpha : Nat) : Nat := bitLen (gap * alpha - 1)

/-- `post_process(res, a, log_gap_in, log_gap_out, log_domain)` (after repair 25: the partial trace keeps the multiples of
`2^log_gap_in`, `skip = log_n - log_gap_in`); `old = true` is the code before the repair (`skip = log_n - log_gap_in + 1`:
multiples of `2^log_gap_in / 2`) -/
def postProcess (old : Bool) (n logn size lgi lgo logDomain : Nat) (a : List Vec) : List Vec :=
  let skip := if old then logn - lgi + 1 else logn - lgi
  if lgi ≠ lgo then
    let aTrace := traceP n skip a
    let cts := (List.range (2 ^ logDomain)).map fun i =>
      (i * 2 ^ lgo, (List.range i).foldl (fun p _ => rotate (-((2 ^ lgi : Nat) : Int)) p) aTrace)
    packP n logn size lgo cts
  else traceP n skip a

/-- the row loop of the exponent mode: `row_i ← post_process(res); res ← X^{-gap}·res` -/
def expRows (old : Bool) (n logn size dnum gap lgo logDomain : Nat) (P : List Vec) : List (List Vec) :=
  (List.range dnum).map fun i =>
    postProcess old n logn size (logGapIn gap (nextPow2 dnum)) lgo logDomain
      ((List.range i).foldl (fun p _ => rotate (-(gap : Int)) p) P)

end Cbt
