import Poulpy.Model.F64

/-!
# Model of the reference FFT64 transform (`poulpy-cpu-ref/src/reference/fft64/reim`)

Data: a vector of `m = 2^K` complex numbers in the crate's *reim* layout `[re_0 … re_{m-1} | im_0 … im_{m-1}]`
is a `List (Nat × Nat)` of (re, im) bit patterns inside the model and a flat list of `2m` patterns at
the protocol boundary.  The twiddle table `omg` (what `ReimFFTTable::new(m)` / `ReimIFFTTable::new(m)` compute
with libm's `sin`/`cos`) is an **input** of the model: the harness dumps it, the gate checks it numerically.

`fft_ref` / `ifft_ref` are radix-2 butterfly networks executed in fused radix-4 / radix-16 passes
(`fft16_ref`, `bitwiddle_fft_ref`, `twiddle_fft_ref`, breadth-first below `m = 2048`, depth-first above).
Every butterfly's operands come from the level above only, so the floating-point operations — and
therefore every bit of the result — do not depend on the order in which independent butterflies are
executed.  The model runs the network depth first (`fwd`, `inv`): level `lvl` (0 = blocks of size `m`)
consists of `2^lvl` blocks; block `blk` is split into halves which are combined by `cplx_twiddle` or
`cplx_i_twiddle` (forward) / `inv_twiddle` or `inv_itwiddle` (inverse) with ONE twiddle per block.  What
is specific to the Rust is *where in `omg` the twiddle of block `(lvl, blk)` lives and whether the `i`-variant
is used*: `fwdIdx` / `invIdx` transcribe the read positions of `fft_ref.rs` / `ifft_ref.rs`
(`fft2/4/8/16_ref`, `fft_bfs_16_ref`, `fft_rec_16_ref` and the inverse twins).  The tie compares whole
transforms bit for bit, so a wrong position, a wrong variant or a wrong operand order shows up for the
first `n` that exercises it.
-/

namespace Fft64
open F64

abbrev C64 := Nat × Nat

/-- a twiddle as read from the table, plus the butterfly variant (`cplx_i_twiddle` / `inv_itwiddle`) -/
structure Tw where
  re : Nat
  im : Nat
  imode : Bool
deriving Repr

/-- `cplx_twiddle` (`imode = false`) and `cplx_i_twiddle` (`imode = true`) of fft_ref.rs -/
def bflyFwd (t : Tw) (a b : C64) : C64 × C64 :=
  if t.imode then
    let dr := add (mul b.1 t.im) (mul b.2 t.re)
    let di := sub (mul b.1 t.re) (mul b.2 t.im)
    ((sub a.1 dr, add a.2 di), (add a.1 dr, sub a.2 di))
  else
    let dr := sub (mul b.1 t.re) (mul b.2 t.im)
    let di := add (mul b.1 t.im) (mul b.2 t.re)
    ((add a.1 dr, add a.2 di), (sub a.1 dr, sub a.2 di))

/-- `inv_twiddle` (`imode = false`) and `inv_itwiddle` (`imode = true`) of ifft_ref.rs -/
def bflyInv (t : Tw) (a b : C64) : C64 × C64 :=
  let rd := sub a.1 b.1
  let id := sub a.2 b.2
  let s : C64 := (add a.1 b.1, add a.2 b.2)
  if t.imode then
    (s, (add (mul rd t.im) (mul id t.re), add (mul (neg rd) t.re) (mul id t.im)))
  else
    (s, (sub (mul rd t.re) (mul id t.im), add (mul rd t.im) (mul id t.re)))

/-- the butterflies of one block: element `i` of the low half with element `i` of the high half -/
def bflyBlock (f : C64 → C64 → C64 × C64) (lo hi : List C64) : List C64 × List C64 :=
  ((List.zipWith f lo hi).map Prod.fst, (List.zipWith f lo hi).map Prod.snd)

/-- forward network on a block of `2^k` points which is block `blk` of level `lvl` -/
def fwd (tw : Nat → Nat → Tw) : (k : Nat) → (lvl blk : Nat) → List C64 → List C64
  | 0, _, _, z => z
  | k + 1, lvl, blk, z =>
    let r := bflyBlock (bflyFwd (tw lvl blk)) (z.take (2 ^ k)) (z.drop (2 ^ k))
    fwd tw k (lvl + 1) (2 * blk) r.1 ++ fwd tw k (lvl + 1) (2 * blk + 1) r.2

/-- inverse network: sub-blocks first, then the block's own butterflies -/
def inv (tw : Nat → Nat → Tw) : (k : Nat) → (lvl blk : Nat) → List C64 → List C64
  | 0, _, _, z => z
  | k + 1, lvl, blk, z =>
    let lo := inv tw k (lvl + 1) (2 * blk) (z.take (2 ^ k))
    let hi := inv tw k (lvl + 1) (2 * blk + 1) (z.drop (2 ^ k))
    let r := bflyBlock (bflyInv (tw lvl blk)) lo hi
    r.1 ++ r.2

/-! ## Table positions -/

/-- number of fused radix-4 passes of `fft_bfs_16_ref` for `m = 2^K`, `K ≥ 4` -/
def bfsStages (K : Nat) : Nat := (K - 4 - K % 2) / 2

/-- table entries of the radix-4 passes `0 … s-1` of the forward bfs (4 per block; pass `s'` has
`2^(K%2 + 2s')` blocks) -/
def fwdStagePos (K s : Nat) : Nat :=
  2 * (K % 2) + ((List.range s).map (fun s' => 4 * 2 ^ (K % 2 + 2 * s'))).sum

/-- entries used by the bfs layout of size `2^K` (`4 ≤ K`): optional first twiddle, radix-4 passes, 16-blocks -/
def bfsSize (K : Nat) : Nat := fwdStagePos K (bfsStages K) + 2 ^ K

/-- entries used by `fill_fft_rec_16_omegas` / `fft_rec_16_ref` for size `2^K` -/
def tabSize : Nat → Nat
  | 0 => 0
  | K + 1 => if 11 < K + 1 then 2 + 2 * tabSize K else bfsSize (K + 1)

/-- position inside one `fft16_ref` call (`lam` = local level 0..3, `c` = local block) -/
def fwdIdx16 (base lam c : Nat) : Nat × Nat × Bool :=
  match lam with
  | 0 => (base, base + 1, false)
  | 1 => (base + 2, base + 3, c % 2 = 1)
  | 2 => (base + 4 + 2 * (c / 2), base + 5 + 2 * (c / 2), c % 2 = 1)
  | _ => (base + 8 + c / 2, base + 12 + c / 2, c % 2 = 1)

/-- `fft_bfs_16_ref` (and `fft16_ref` for `K = 4`), table starting at `pos` -/
def fwdIdxBfs (K pos lvl blk : Nat) : Nat × Nat × Bool :=
  let odd := K % 2
  if lvl < odd then (pos, pos + 1, false)
  else if lvl < K - 4 then
    let l' := lvl - odd
    let s := l' / 2
    let p := pos + fwdStagePos K s
    if l' % 2 = 0 then (p + 4 * blk, p + 4 * blk + 1, false)
    else (p + 4 * (blk / 2) + 2, p + 4 * (blk / 2) + 3, blk % 2 = 1)
  else
    let lam := lvl - (K - 4)
    fwdIdx16 (pos + fwdStagePos K (bfsStages K) + 16 * (blk / 2 ^ lam)) lam (blk % 2 ^ lam)

/-- `fft_rec_16_ref`: one twiddle, then the table of the first half, then of the second half -/
def fwdIdxAt : (K : Nat) → (pos lvl blk : Nat) → Nat × Nat × Bool
  | 0, pos, _, _ => (pos, pos + 1, false)
  | K + 1, pos, lvl, blk =>
    if 11 < K + 1 then
      if lvl = 0 then (pos, pos + 1, false)
      else
        let half := blk / 2 ^ (lvl - 1)
        fwdIdxAt K (pos + 2 + half * tabSize K) (lvl - 1) (blk % 2 ^ (lvl - 1))
    else fwdIdxBfs (K + 1) pos lvl blk

/-- (index of re, index of im, `cplx_i_twiddle`?) for block `blk` of level `lvl` in `fft_ref(m = 2^K)` -/
def fwdIdx (K lvl blk : Nat) : Nat × Nat × Bool :=
  match K with
  | 0 => (0, 0, false)
  | 1 => (0, 1, false)
  | 2 => if lvl = 0 then (0, 1, false) else (2, 3, blk % 2 = 1)
  | 3 =>
    if lvl = 0 then (0, 1, false)
    else if lvl = 1 then (2, 3, blk % 2 = 1)
    else (4 + blk / 2, 6 + blk / 2, blk % 2 = 1)
  | _ => fwdIdxAt K 0 lvl blk

/-- position inside one `ifft16_ref` call -/
def invIdx16 (base lam c : Nat) : Nat × Nat × Bool :=
  match lam with
  | 0 => (base + 14, base + 15, false)
  | 1 => (base + 12, base + 13, c % 2 = 1)
  | 2 => (base + 8 + 2 * (c / 2), base + 9 + 2 * (c / 2), c % 2 = 1)
  | _ => (base + c / 2, base + 4 + c / 2, c % 2 = 1)

/-- entries of the inverse radix-4 passes `0 … r-1` (pass `r'` works on blocks of `64·4^r'` points) -/
def invStagePos (K r : Nat) : Nat :=
  2 ^ K + ((List.range r).map (fun r' => 4 * 2 ^ (K - 6 - 2 * r'))).sum

/-- `ifft_bfs_16_ref` (and `ifft16_ref` for `K = 4`): 16-blocks, radix-4 passes bottom up, optional last twiddle -/
def invIdxBfs (K pos lvl blk : Nat) : Nat × Nat × Bool :=
  let odd := K % 2
  if lvl < odd then
    let p := pos + invStagePos K (bfsStages K)
    (p, p + 1, false)
  else if lvl < K - 4 then
    let l' := lvl - odd
    if l' % 2 = 0 then
      -- upper level of its pass: blocks of size `2^(K-lvl) = 64·4^r`
      let r := (K - 6 - lvl) / 2
      let p := pos + invStagePos K r
      (p + 4 * blk + 2, p + 4 * blk + 3, false)
    else
      let r := (K - 6 - (lvl - 1)) / 2
      let p := pos + invStagePos K r
      (p + 4 * (blk / 2), p + 4 * (blk / 2) + 1, blk % 2 = 1)
  else
    let lam := lvl - (K - 4)
    invIdx16 (pos + 16 * (blk / 2 ^ lam)) lam (blk % 2 ^ lam)

/-- `ifft_rec_16_ref`: table of the first half, of the second half, then the block's own twiddle -/
def invIdxAt : (K : Nat) → (pos lvl blk : Nat) → Nat × Nat × Bool
  | 0, pos, _, _ => (pos, pos + 1, false)
  | K + 1, pos, lvl, blk =>
    if 11 < K + 1 then
      if lvl = 0 then (pos + 2 * tabSize K, pos + 2 * tabSize K + 1, false)
      else
        let half := blk / 2 ^ (lvl - 1)
        invIdxAt K (pos + half * tabSize K) (lvl - 1) (blk % 2 ^ (lvl - 1))
    else invIdxBfs (K + 1) pos lvl blk

def invIdx (K lvl blk : Nat) : Nat × Nat × Bool :=
  match K with
  | 0 => (0, 0, false)
  | 1 => (0, 1, false)
  | 2 => if lvl = 0 then (2, 3, false) else (0, 1, blk % 2 = 1)
  | 3 =>
    if lvl = 0 then (6, 7, false)
    else if lvl = 1 then (4, 5, blk % 2 = 1)
    else (blk / 2, 2 + blk / 2, blk % 2 = 1)
  | _ => invIdxAt K 0 lvl blk

/-- the twiddle of block `(lvl, blk)` read from the table through an index map; a position outside the
table reads the NaN poison (the entry points below check the table length first, and every position is
`< 2m`: `tabSize K ≤ 2^(K+1)`) -/
def twOf (idx : Nat → Nat → Nat × Nat × Bool) (omg : Array Nat) (lvl blk : Nat) : Tw :=
  let p := idx lvl blk
  ⟨omg.getD p.1 nanBits, omg.getD p.2.1 nanBits, p.2.2⟩

/-! ## reim layout, entry points -/

/-- flat `[re… | im…]` → list of points; `none` unless the length is `2·2^K` -/
def unflat (K : Nat) (d : List Nat) : Option (List C64) :=
  if d.length = 2 * 2 ^ K then some ((d.take (2 ^ K)).zip (d.drop (2 ^ K))) else none

def flat (z : List C64) : List Nat := z.map Prod.fst ++ z.map Prod.snd

/-- length of `ReimFFTTable::omg`: `alloc_aligned::<f64>(2m)` pads to a multiple of 64 bytes -/
def tabAlloc (K : Nat) : Nat := (2 * 2 ^ K + 7) / 8 * 8

/-- `fft_ref(m = 2^K, omg, data)`; `assert!(data.len() == 2 * m)`; the table is the whole allocation -/
def fftRef (K : Nat) (omg : Array Nat) (d : List Nat) : Outcome (List Nat) :=
  if omg.size ≠ tabAlloc K then .err "table"
  else match unflat K d with
    | none => .panic "assert"
    | some z => .ok (flat (fwd (twOf (fwdIdx K) omg) K 0 0 z))

def ifftRef (K : Nat) (omg : Array Nat) (d : List Nat) : Outcome (List Nat) :=
  if omg.size ≠ tabAlloc K then .err "table"
  else match unflat K d with
    | none => .panic "assert"
    | some z => .ok (flat (inv (twOf (invIdx K) omg) K 0 0 z))

/-- `reim_from_znx_i64_ref`: element-wise `as f64` (the reim layout is the coefficient order itself:
`re_j = a_j`, `im_j = a_{j+m}`) -/
def fromZnx (a : List Int) : List Nat := a.map ofInt

/-- `reim_to_znx_i64_ref(res, divisor = m = 2^K, a)` -/
def toZnx (K : Nat) (d : List Nat) : List Int := d.map (toI64 K)

/-- one slot of `reim_mul_ref(res, a, b)` / `reim_mul_assign_ref(res = b, a)`: `a` is the prepared operand -/
def cmul (a b : C64) : C64 :=
  (sub (mul a.1 b.1) (mul a.2 b.2), add (mul a.1 b.2) (mul a.2 b.1))

/-- one slot of `reim_addmul_ref` / `reim4_add_mul`: `acc += a * b` -/
def caddmul (acc a b : C64) : C64 :=
  let p := cmul a b
  (add acc.1 p.1, add acc.2 p.2)

def pointwise (f : C64 → C64 → C64) (a b : List C64) : List C64 := List.zipWith f a b

/-- a coefficient vector through `reim_from_znx_i64` and `fft_ref` (what `svp_prepare`, `vec_znx_dft_apply`,
`vmp_prepare` do with every limb) -/
def dftOf (K : Nat) (omg : Array Nat) (a : List Int) : List C64 :=
  let d := fromZnx a
  fwd (twOf (fwdIdx K) omg) K 0 0 ((d.take (2 ^ K)).zip (d.drop (2 ^ K)))

/-- `vec_znx_idft_apply` on one limb: `ifft_ref`, then `reim_to_znx_i64_assign(divisor = m)` -/
def idftOf (K : Nat) (iomg : Array Nat) (z : List C64) : List Int :=
  toZnx K (flat (inv (twOf (invIdx K) iomg) K 0 0 z))

/-- `svp_prepare(p)`; `svp_apply_dft(res, p, x)` (= `dft_apply` + `reim_mul_assign`); `vec_znx_idft_apply`:
one limb, `n = 2·2^K` coefficients -/
def svpPipeline (K : Nat) (omg iomg : Array Nat) (p x : List Int) : List Int :=
  idftOf K iomg (pointwise cmul (dftOf K omg p) (dftOf K omg x))

/-- `vmp_prepare(mat)`; `vmp_apply_dft(res, a, pmat)`; `vec_znx_idft_apply`, one output column:
`reim4_vec_mat*_product_ref` accumulates `acc += a_j * mat_j` row by row starting from `+0` -/
def vmpPipeline (K : Nat) (omg iomg : Array Nat) (rows : List (List Int × List Int)) : List Int :=
  let zero : List C64 := List.replicate (2 ^ K) (0, 0)
  let acc := rows.foldl (fun acc r => List.zipWith (fun s uv => caddmul s uv.1 uv.2) acc
      ((dftOf K omg r.1).zip (dftOf K omg r.2))) zero
  idftOf K iomg acc

/-- `vmp_prepare` / `vmp_apply_dft` entry: `vmp_prepare_core` has `assert!(n >= 8)` (live: the harness is built
with debug assertions) -/
def vmpApply (K : Nat) (omg iomg : Array Nat) (rows : List (List Int × List Int)) : Outcome (List Int) :=
  if 2 * 2 ^ K < 8 then .panic "assert" else .ok (vmpPipeline K omg iomg rows)

/-! ## Intended angles (what `table_fft.rs` / `table_ifft.rs` put at those positions)

Block `(lvl, blk)` reduces modulo `X^(2^(K-lvl)) − e^{2πi·j}`; `jpar` is `j` as a dyadic rational
`num / 2^den` (exact in the Rust: `j/2`, `j/2 + 1/2` are exact `f64` operations on dyadic fractions).
The forward twiddle of the block is `e^{2πi·j/2}` (stored rotated by `−1/4` turn when `imode`), the
inverse twiddle its conjugate. -/

/-- `j(lvl, blk)` as (numerator, log2 of denominator): `j(0,0) = 1/4`, children `j/2`, `j/2 + 1/2` -/
def jpar : (lvl blk : Nat) → Nat × Nat
  | 0, _ => (1, 2)
  | lvl + 1, blk =>
    let p := jpar lvl (blk / 2)
    -- p.1 / 2^p.2 / 2 (+ 1/2)
    (p.1 + (blk % 2) * 2 ^ p.2, p.2 + 1)

end Fft64
