import Poulpy.Model.HalSpec
import Poulpy.Model.Ntt120

/-!
The NTT120 back end at HAL level, per prime lane: what `ntt120_cnv_prepare_left/right/self`,
`ntt120_cnv_apply_dft`, `ntt120_cnv_pairwise_apply_dft` (poulpy-cpu-ref/src/reference/ntt120/convolution.rs)
store in / read from the DFT-domain buffers, composed from the tied kernels of `Model/Ntt120.lean`
(`b_from_znx64[_masked]`, `ntt_ref`, `c_from_b`, the pack kernels, `bbc`, `intt_ref`, `b_to_znx128`).
A DFT-domain limb is four lanes (one per prime) of `n` `u64` values; the x2-block / column-stride
layout of the flat buffers only decides *where* a lane element lives, not its value, and is not
modelled here (it is covered by the `hal` correspondence on the real buffers).
-/

namespace Ntt120
open Hal (limbOr0)

/-- lanes stored by `cnv_prepare_left` for one column: limb `l < min_size − 1` unmasked, limb
`min_size − 1` masked, the rest zero-filled (`n` zero words, *not* the transform of zero) -/
def cnvPrepareLaneK (q n : Nat) (ntt : List Nat → List Nat) (resSize : Nat) (mask : Int) (a : Col) : List (List Nat) :=
  let minSize := min resSize a.length
  (List.range resSize).map (fun l =>
    if l + 1 = minSize then ntt ((limbOr0 n a l).map (fun x => bFromU64K q (asU64 x &&& asU64 mask)))
    else if l < minSize then ntt ((limbOr0 n a l).map (fun x => bFromU64K q (asU64 x)))
    else List.replicate n 0)

/-- the prepared pair of one lazy residue: `c_from_b` -/
def cPairK (q b : Nat) : Nat × Nat := ((cFromBK q b).getD 0 0, (cFromBK q b).getD 1 0)

/-- lanes stored by `cnv_prepare_right` (q120c): `c_from_b` of the same transforms (zero fill: zero words) -/
def cnvPrepareRightLaneK (q n : Nat) (ntt : List Nat → List Nat) (resSize : Nat) (mask : Int) (a : Col) : List (List (Nat × Nat)) :=
  (cnvPrepareLaneK q n ntt resSize mask a).map (fun lane => lane.map (cPairK q))

/-- the rows one output limb of `cnv_apply_dft` feeds to `bbc_1col_x2`, in the kernel's order: row `i`
pairs left limb `k_abs + 1 − j_max + i` (packed by `pack_left`) with right limb `j_max − 1 − i`
(`pack_right` stores the rows reversed) -/
def cnvRows (q : Nat) (FA : List (List Nat)) (FB : List (List (Nat × Nat))) (kAbs : Nat) : List (List (Nat × Nat) × List (Nat × Nat)) :=
  let jMin := kAbs - (FA.length - 1)
  let jMax := min (kAbs + 1) FB.length
  (List.range (jMax - jMin)).map (fun i => ((FA.getD (kAbs + 1 - jMax + i) []).map (packLeftK q), FB.getD (jMax - 1 - i) []))

/-- all slots of one `bbc` product (rows = `(left halves, prepared right)` lanes) -/
def bbcSlotsK (q h n : Nat) (rows : List (List (Nat × Nat) × List (Nat × Nat))) : List Nat :=
  (List.range n).map (fun s => bbcK h (pow2Mod 32 q) (pow2Mod (32 + h) q)
    (rows.map (fun r => ((r.1.getD s (0, 0)).1, (r.1.getD s (0, 0)).2, (r.2.getD s (0, 0)).1, (r.2.getD s (0, 0)).2))))

/-- `cnv_apply_dft`, one prime lane of the result column: `res_size` DFT-domain limbs -/
def cnvApplyLaneK (q h n resSize cnvOffset : Nat) (FA : List (List Nat)) (FB : List (List (Nat × Nat))) : List (List Nat) :=
  if resSize = 0 ∨ FA.length = 0 ∨ FB.length = 0 then List.replicate resSize (List.replicate n 0)
  else
    let bound := FA.length + FB.length - 1
    let offset := min cnvOffset bound
    let minSize := min resSize (bound + 1 - offset)
    (List.range resSize).map (fun k =>
      if k < minSize then bbcSlotsK q h n (cnvRows q FA FB (k + offset)) else List.replicate n 0)

/-- the pairwise packs of two columns: left `(a_i % q + a_j % q) mod q`, right entry-wise `u32` sums -/
def pairLeftLanes (q : Nat) (FAi FAj : List (List Nat)) : List (List (Nat × Nat)) :=
  List.zipWith (fun u v => List.zipWith (pairwisePackLeftK q) u v) FAi FAj
def pairRightLanes (FBi FBj : List (List (Nat × Nat))) : List (List (Nat × Nat)) :=
  List.zipWith (fun u v => List.zipWith (fun c d => (pairwisePackRightK c.1 d.1, pairwisePackRightK c.2 d.2)) u v) FBi FBj

def cnvRowsPacked (LA : List (List (Nat × Nat))) (FB : List (List (Nat × Nat))) (kAbs : Nat) : List (List (Nat × Nat) × List (Nat × Nat)) :=
  let jMin := kAbs - (LA.length - 1)
  let jMax := min (kAbs + 1) FB.length
  (List.range (jMax - jMin)).map (fun i => (LA.getD (kAbs + 1 - jMax + i) [], FB.getD (jMax - 1 - i) []))

/-- `cnv_pairwise_apply_dft` with `col_i ≠ col_j`, one prime lane -/
def cnvPairwiseLaneK (q h n resSize cnvOffset : Nat) (FAi FAj : List (List Nat)) (FBi FBj : List (List (Nat × Nat))) : List (List Nat) :=
  if resSize = 0 ∨ FAi.length = 0 ∨ FBi.length = 0 then List.replicate resSize (List.replicate n 0)
  else
    let bound := FAi.length + FBi.length - 1
    let offset := min cnvOffset bound
    let minSize := min resSize (bound + 1 - offset)
    (List.range resSize).map (fun k =>
      if k < minSize then bbcSlotsK q h n (cnvRowsPacked (pairLeftLanes q FAi FAj) (pairRightLanes FBi FBj) (k + offset))
      else List.replicate n 0)

/-- `vec_znx_idft_apply` on one limb given its four lanes -/
def idftLimb (P : PrimeSet) (n : Nat) (l0 l1 l2 l3 : List Nat) : Poly :=
  (List.range n).map (fun i => bToZnx128Core P ((realIntt P n 0 l0).getD i 0) ((realIntt P n 1 l1).getD i 0)
    ((realIntt P n 2 l2).getD i 0) ((realIntt P n 3 l3).getD i 0))

/-- `cnv_prepare_left(a, mask_a)`, `cnv_prepare_right(b, mask_b)`, `cnv_apply_dft(cnv_offset)`,
`vec_znx_idft_apply` for one column pair, NTT120 back end: the `res_size` coefficient-domain limbs -/
def cnvPipeline (P : PrimeSet) (n resSize cnvOffset la lb : Nat) (maskA maskB : Int) (a b : Col) : Col :=
  let lane := fun k =>
    let q := P.qs.getD k 1
    cnvApplyLaneK q (bbcH P) n resSize cnvOffset (cnvPrepareLaneK q n (realNtt P n k) la maskA a)
      (cnvPrepareRightLaneK q n (realNtt P n k) lb maskB b)
  (List.range resSize).map (fun l => idftLimb P n ((lane 0).getD l []) ((lane 1).getD l []) ((lane 2).getD l []) ((lane 3).getD l []))

/-- the same for `cnv_pairwise_apply_dft(i ≠ j)`: prepared columns `ai, aj` (left) and `bi, bj` (right) -/
def cnvPairwisePipeline (P : PrimeSet) (n resSize cnvOffset la lb : Nat) (maskA maskB : Int) (ai aj bi bj : Col) : Col :=
  let lane := fun k =>
    let q := P.qs.getD k 1
    cnvPairwiseLaneK q (bbcH P) n resSize cnvOffset
      (cnvPrepareLaneK q n (realNtt P n k) la maskA ai) (cnvPrepareLaneK q n (realNtt P n k) la maskA aj)
      (cnvPrepareRightLaneK q n (realNtt P n k) lb maskB bi) (cnvPrepareRightLaneK q n (realNtt P n k) lb maskB bj)
  (List.range resSize).map (fun l => idftLimb P n ((lane 0).getD l []) ((lane 1).getD l []) ((lane 2).getD l []) ((lane 3).getD l []))

/-! ### `vec_znx_dft_apply(step, offset)` -/

/-- one prime lane of `ntt120_vec_znx_dft_apply`: result limb `j < min(res_size, ⌈a_size/step⌉)` is the
forward transform of input limb `offset + j·step` when that limb exists, `ntt_zero` otherwise -/
def dftApplyLaneK (q n : Nat) (ntt : List Nat → List Nat) (step offset resSize : Nat) (a : Col) : List (List Nat) :=
  let steps := (a.length + step - 1) / step
  let minSteps := min resSize steps
  (List.range resSize).map (fun j =>
    if j < minSteps then
      let limb := offset + j * step
      if limb < a.length then ntt ((a.getD limb []).map (fun x => bFromU64K q (asU64 x))) else List.replicate n 0
    else List.replicate n 0)

/-! ### `vmp_prepare` / `vmp_apply_dft_to_dft`: layout of the prepared matrix, kernel calls, values -/

/-- `u32` index at which `ntt120_vmp_prepare` stores the 16-word x2-block `blk` of entry `(row, col)` of an
`nrows × ncols` matrix (`dst_base + blk_j·offset`): paired columns interleaved two by two, a last odd
column on its own -/
def vmpSlotAddr (nrows ncols row col blk : Nat) : Nat :=
  (if col = ncols - 1 ∧ ncols % 2 ≠ 0 then col * nrows * 16 + row * 16
   else (col / 2) * (nrows * 32) + row * 32 + (col % 2) * 16) + blk * (nrows * ncols * 16)

/-- one `save_blk_*` of the apply core: result column `colRes` receives half `half` of the output of a
kernel call (`ntt_mul_bbc_2cols_x2` when `twoCols`, `ntt_mul_bbc_1col_x2` otherwise) made with
`col_offset = colPmat·nrows·16` -/
structure VmpWrite where
  colRes : Nat
  twoCols : Bool
  colPmat : Nat
  half : Nat
deriving DecidableEq, Repr

/-- the paired-column loop `for (col_res, col_pmat) in (r0..).step_by(2).zip((c0..hi).step_by(2))`, `cnt` iterations -/
def vmpPairWrites : Nat → Nat → Nat → List VmpWrite
  | 0, _, _ => []
  | cnt + 1, colPmat, colRes =>
    ⟨colRes, true, colPmat, 0⟩ :: ⟨colRes + 1, true, colPmat, 1⟩ :: vmpPairWrites cnt (colPmat + 2) (colRes + 2)

/-- number of items of `(lo..hi).step_by(2)` -/
def stepBy2Count (lo hi : Nat) : Nat := (hi - lo + 1) / 2

/-- all `save_blk_*` calls of one block iteration of `vmp_apply_dft_to_dft_core`, in program order, for
`limb_offset < col_max` -/
def vmpWrites (limbOffset colMax ncols : Nat) : List VmpWrite :=
  (if limbOffset % 2 = 0 then vmpPairWrites (stepBy2Count limbOffset (colMax - 1)) limbOffset 0
   else ⟨0, true, limbOffset - 1, 1⟩ :: vmpPairWrites (stepBy2Count (limbOffset + 1) (colMax - 1)) (limbOffset + 1) 1)
  ++ (if colMax % 2 ≠ 0 ∧ colMax - 1 ≥ limbOffset then [⟨colMax - 1 - limbOffset, decide (ncols ≠ colMax), colMax - 1, 0⟩] else [])

/-- `u32` index of the 16-word block the kernel reads for row `i` on behalf of write `w`
(`mat_blk_u32[col_offset..]`, row stride 32 for the 2-column kernel, 16 for the 1-column kernel) -/
def vmpReadAddr (nrows ncols : Nat) (w : VmpWrite) (blk i : Nat) : Nat :=
  blk * (nrows * ncols * 16) + w.colPmat * (nrows * 16) + (if w.twoCols then 32 * i + 16 * w.half else 16 * i)

/-- the q120c lane `vmp_prepare` stores for one matrix entry: `b_from_znx64`, forward transform, `c_from_b` -/
def vmpPrepareLaneK (q : Nat) (ntt : List Nat → List Nat) (e : Poly) : List (Nat × Nat) :=
  (ntt (e.map (fun x => bFromU64K q (asU64 x)))).map (cPairK q)

/-- one prime lane of `vmp_apply_dft_to_dft_core::<true>`: `A` = the flat input limbs (q120b lanes), `M i c` =
the prepared lane of matrix entry `(i, c)`; `off = limb_offset·cols_out`, result of `resLen` flat limbs.
Every active output column `r` is the `bbc` product over the first `row_max` rows against matrix column `r + off`
(which kernel call produces it and where it reads is `vmpWrites` / `vmpReadAddr`) -/
def vmpApplyLaneK (q h n : Nat) (A : List (List Nat)) (M : Nat → Nat → List (Nat × Nat)) (nrows ncols off resLen : Nat) :
    List (List Nat) :=
  let rowMax := min nrows A.length
  let colMax := min ncols (resLen + off)
  (List.range resLen).map (fun r =>
    if off < colMax ∧ r < colMax - off then
      bbcSlotsK q h n ((List.range rowMax).map (fun i => ((A.getD i []).map u32Pair, M i (r + off))))
    else List.replicate n 0)

/-- `vec_znx_dft_apply` on the input limbs, `vmp_prepare` on the matrix, `vmp_apply_dft_to_dft(limb_offset)`,
`vec_znx_idft_apply`: the `resLen` flat coefficient-domain limbs of the result -/
def vmpFullPipeline (P : PrimeSet) (n : Nat) (aFlat : List Poly) (m : Hal.PMat) (limbOffset resLen : Nat) : List Poly :=
  let lane := fun k =>
    let q := P.qs.getD k 1
    vmpApplyLaneK q (bbcH P) n (aFlat.map (fun a => realNtt P n k (a.map (fun x => bFromU64K q (asU64 x)))))
      (fun i c => vmpPrepareLaneK q (realNtt P n k) (m.entry i c)) (m.colsIn * m.rows) (m.colsOut * m.size)
      (limbOffset * m.colsOut) resLen
  (List.range resLen).map (fun r => idftLimb P n ((lane 0).getD r []) ((lane 1).getD r []) ((lane 2).getD r []) ((lane 3).getD r []))

/-! ### compositions of DFT-domain operations -/

open Hal (zeroP negMul sumPolys polyAdd polySub) in
/-- how a DFT-domain limb was produced: zero fill, `vec_znx_dft_apply` of a coefficient limb, a one-row `bbc` product with a
prepared polynomial (`svp_apply_dft_to_dft`), lazy add / sub / negate — nested to any depth -/
inductive DExpr where
  | zero : DExpr
  | dft (a : Poly) : DExpr
  | svp (p : Poly) (e : DExpr) : DExpr
  | add (x y : DExpr) : DExpr
  | sub (x y : DExpr) : DExpr
  | neg (x : DExpr) : DExpr

open Hal (zeroP negMul sumPolys polyAdd polySub) in
/-- the polynomial the HAL specification assigns -/
def DExpr.spec (n : Nat) : DExpr → Poly
  | .zero => zeroP n
  | .dft a => a
  | .svp p e => sumPolys n [negMul (e.spec n) p]
  | .add x y => polyAdd (x.spec n) (y.spec n)
  | .sub x y => polySub (x.spec n) (y.spec n)
  | .neg x => polySub (zeroP n) (x.spec n)

/-- the `u64` lane of prime `k` the back end stores -/
def DExpr.lane (P : PrimeSet) (k n : Nat) (avx : Bool) : DExpr → List Nat
  | .zero => List.replicate n 0
  | .dft a => realNtt P n k (a.map (fun x => bFromU64K (P.qs.getD k 1) (asU64 x)))
  | .svp p e => bbcSlotsK (P.qs.getD k 1) (bbcH P) n
      [((e.lane P k n avx).map u32Pair, vmpPrepareLaneK (P.qs.getD k 1) (realNtt P n k) p)]
  | .add x y => List.zipWith (if avx then addBbbAvxK (P.qs.getD k 1) else addBbbK (P.qs.getD k 1)) (x.lane P k n avx) (y.lane P k n avx)
  | .sub x y => List.zipWith (if avx then subBbbAvxK (P.qs.getD k 1) else subBbbK (P.qs.getD k 1)) (x.lane P k n avx) (y.lane P k n avx)
  | .neg x => (x.lane P k n avx).map (if avx then negBAvxK (P.qs.getD k 1) else negBK (P.qs.getD k 1))


end Ntt120
