import Poulpy.Model.HalSpec
import Poulpy.Model.Ntt120

/-!
The NTT120 back end at HAL level, per prime lane: what `ntt120_cnv_prepare_left/right/self`,
`ntt120_cnv_apply_dft`, `ntt120_cnv_pairwise_apply_dft` (poulpy-cpu-ref/src/reference/ntt120/convolution.rs)
store in / read from the DFT-domain buffers, composed from the tied kernels of `Model/Ntt120.lean`
(`b_from_znx64[_masked]`, `ntt_ref`, `c_from_b`, the pack kernels, `bbc`, `intt_ref`, `b_to_znx128`).
A DFT-domain limb is four lanes (one per prime) of `n` `u64` values; the x2-block / column-stride
layout of the flat buffers only decides *where* a lane element lives, not its value, and is not
modelled here (it is covered by the `hal` correspondence on the real buffers).
-/

namespace Ntt120
open Hal (limbOr0)

/-- lanes stored by `cnv_prepare_left` for one column: limb `l < min_size − 1` unmasked, limb
`min_size − 1` masked, the rest zero-filled (`n` zero words, *not* the transform of zero) -/
def cnvPrepareLaneK (q n : Nat) (ntt : List Nat → List Nat) (resSize : Nat) (mask : Int) (a : Col) : List (List Nat) :=
  let minSize := min resSize a.length
  (List.range resSize).map (fun l =>
    if l + 1 = minSize then ntt ((limbOr0 n a l).map (fun x => bFromU64K q (asU64 x &&& asU64 mask)))
    else if l < minSize then ntt ((limbOr0 n a l).map (fun x => bFromU64K q (asU64 x)))
    else List.replicate n 0)

/-- the prepared pair of one lazy residue: `c_from_b` -/
def cPairK (q b : Nat) : Nat × Nat := ((cFromBK q b).getD 0 0, (cFromBK q b).getD 1 0)

/-- lanes stored by `cnv_prepare_right` (q120c): `c_from_b` of the same transforms (zero fill: zero words) -/
def cnvPrepareRightLaneK (q n : Nat) (ntt : List Nat → List Nat) (resSize : Nat) (mask : Int) (a : Col) : List (List (Nat × Nat)) :=
  (cnvPrepareLaneK q n ntt resSize mask a).map (fun lane => lane.map (cPairK q))

/-- the rows one output limb of `cnv_apply_dft` feeds to `bbc_1col_x2`, in the kernel's order: row `i`
pairs left limb `k_abs + 1 − j_max + i` (packed by `pack_left`) with right limb `j_max − 1 − i`
(`pack_right` stores the rows reversed) -/
def cnvRows (q : Nat) (FA : List (List Nat)) (FB : List (List (Nat × Nat))) (kAbs : Nat) : List (List (Nat × Nat) × List (Nat × Nat)) :=
  let jMin := kAbs - (FA.length - 1)
  let jMax := min (kAbs + 1) FB.length
  (List.range (jMax - jMin)).map (fun i => ((FA.getD (kAbs + 1 - jMax + i) []).map (packLeftK q), FB.getD (jMax - 1 - i) []))

/-- all slots of one `bbc` product (rows = `(left halves, prepared right)` lanes) -/
def bbcSlotsK (q h n : Nat) (rows : List (List (Nat × Nat) × List (Nat × Nat))) : List Nat :=
  (List.range n).map (fun s => bbcK h (pow2Mod 32 q) (pow2Mod (32 + h) q)
    (rows.map (fun r => ((r.1.getD s (0, 0)).1, (r.1.getD s (0, 0)).2, (r.2.getD s (0, 0)).1, (r.2.getD s (0, 0)).2))))

/-- `cnv_apply_dft`, one prime lane of the result column: `res_size` DFT-domain limbs -/
def cnvApplyLaneK (q h n resSize cnvOffset : Nat) (FA : List (List Nat)) (FB : List (List (Nat × Nat))) : List (List Nat) :=
  if resSize = 0 ∨ FA.length = 0 ∨ FB.length = 0 then List.replicate resSize (List.replicate n 0)
  else
    let bound := FA.length + FB.length - 1
    let offset := min cnvOffset bound
    let minSize := min resSize (bound + 1 - offset)
    (List.range resSize).map (fun k =>
      if k < minSize then bbcSlotsK q h n (cnvRows q FA FB (k + offset)) else List.replicate n 0)

/-- the pairwise packs of two columns: left `(a_i % q + a_j % q) mod q`, right entry-wise `u32` sums -/
def pairLeftLanes (q : Nat) (FAi FAj : List (List Nat)) : List (List (Nat × Nat)) :=
  List.zipWith (fun u v => List.zipWith (pairwisePackLeftK q) u v) FAi FAj
def pairRightLanes (FBi FBj : List (List (Nat × Nat))) : List (List (Nat × Nat)) :=
  List.zipWith (fun u v => List.zipWith (fun c d => (pairwisePackRightK c.1 d.1, pairwisePackRightK c.2 d.2)) u v) FBi FBj

def cnvRowsPacked (LA : List (List (Nat × Nat))) (FB : List (List (Nat × Nat))) (kAbs : Nat) : List (List (Nat × Nat) × List (Nat × Nat)) :=
  let jMin := kAbs - (LA.length - 1)
  let jMax := min (kAbs + 1) FB.length
  (List.range (jMax - jMin)).map (fun i => (LA.getD (kAbs + 1 - jMax + i) [], FB.getD (jMax - 1 - i) []))

/-- `cnv_pairwise_apply_dft` with `col_i ≠ col_j`, one prime lane -/
def cnvPairwiseLaneK (q h n resSize cnvOffset : Nat) (FAi FAj : List (List Nat)) (FBi FBj : List (List (Nat × Nat))) : List (List Nat) :=
  if resSize = 0 ∨ FAi.length = 0 ∨ FBi.length = 0 then List.replicate resSize (List.replicate n 0)
  else
    let bound := FAi.length + FBi.length - 1
    let offset := min cnvOffset bound
    let minSize := min resSize (bound + 1 - offset)
    (List.range resSize).map (fun k =>
      if k < minSize then bbcSlotsK q h n (cnvRowsPacked (pairLeftLanes q FAi FAj) (pairRightLanes FBi FBj) (k + offset))
      else List.replicate n 0)

/-- `vec_znx_idft_apply` on one limb given its four lanes -/
def idftLimb (P : PrimeSet) (n : Nat) (l0 l1 l2 l3 : List Nat) : Poly :=
  (List.range n).map (fun i => bToZnx128Core P ((realIntt P n 0 l0).getD i 0) ((realIntt P n 1 l1).getD i 0)
    ((realIntt P n 2 l2).getD i 0) ((realIntt P n 3 l3).getD i 0))

/-- `cnv_prepare_left(a, mask_a)`, `cnv_prepare_right(b, mask_b)`, `cnv_apply_dft(cnv_offset)`,
`vec_znx_idft_apply` for one column pair, NTT120 back end: the `res_size` coefficient-domain limbs -/
def cnvPipeline (P : PrimeSet) (n resSize cnvOffset la lb : Nat) (maskA maskB : Int) (a b : Col) : Col :=
  let lane := fun k =>
    let q := P.qs.getD k 1
    cnvApplyLaneK q (bbcH P) n resSize cnvOffset (cnvPrepareLaneK q n (realNtt P n k) la maskA a)
      (cnvPrepareRightLaneK q n (realNtt P n k) lb maskB b)
  (List.range resSize).map (fun l => idftLimb P n ((lane 0).getD l []) ((lane 1).getD l []) ((lane 2).getD l []) ((lane 3).getD l []))

/-- the same for `cnv_pairwise_apply_dft(i ≠ j)`: prepared columns `ai, aj` (left) and `bi, bj` (right) -/
def cnvPairwisePipeline (P : PrimeSet) (n resSize cnvOffset la lb : Nat) (maskA maskB : Int) (ai aj bi bj : Col) : Col :=
  let lane := fun k =>
    let q := P.qs.getD k 1
    cnvPairwiseLaneK q (bbcH P) n resSize cnvOffset
      (cnvPrepareLaneK q n (realNtt P n k) la maskA ai) (cnvPrepareLaneK q n (realNtt P n k) la maskA aj)
      (cnvPrepareRightLaneK q n (realNtt P n k) lb maskB bi) (cnvPrepareRightLaneK q n (realNtt P n k) lb maskB bj)
  (List.range resSize).map (fun l => idftLimb P n ((lane 0).getD l []) ((lane 1).getD l []) ((lane 2).getD l []) ((lane 3).getD l []))

end Ntt120
