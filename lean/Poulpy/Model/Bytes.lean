import Poulpy.Model.Basic
/-
Byte-level serialisation model (C18, shared with C17/C19).

Rust sources mirrored here (current tree, i.e. after commit 0c7f5af):
  poulpy-hal/src/layouts/{vec_znx,scalar_znx,mat_znx}.rs   `ReaderFrom` / `WriterTo`
  poulpy-core/src/dist.rs                                   `Distribution::{read_from,write_to}`
  poulpy-core/src/layouts/*.rs, layouts/compressed/*.rs     wrapper readers / writers
  poulpy-bin-fhe/src/blind_rotation/layouts/{key,key_compressed}.rs

Conventions
* a byte stream is `List UInt8`; multi-byte integers little-endian (`byteorder::LittleEndian`).
* `usize` is 64 bit.  `checked_mul` = `checkedMul` (an `Option`).  A bare `*` is `mulU prof`:
  `Profile.release` wraps mod 2^64, `Profile.ovf` (overflow-checks = true) is `panic "overflow"`.
* a reader runs on the receiver `σ` *in place*: `Rd σ α = σ → Bytes → Res σ α`; every outcome carries
  the receiver as it is at that moment, so "what does an error leave behind" is part of the model.
* the reader object is a slice / `Cursor` (what the harness uses and what the crate's tests use):
  a failing `read_exact` leaves the destination untouched.  (A generic `R: Read` whose
  `read_exact` is the default loop may overwrite a prefix of the *data* bytes before failing; no
  metadata is involved and the statement of C18 constrains metadata only.)
* slicing `buf[..len]` is a guarded operation: `len > buf.len()` is `panic "bounds"`.
* error kinds: `eof` = `io::ErrorKind::UnexpectedEof`, `invalid` = `InvalidData`; `shape` is
  model-internal (the flat state does not have the shape the reader of that type expects).
-/

namespace Ser

abbrev Bytes := List UInt8

/-- `k` little-endian bytes of `v` (the value is truncated to `k` bytes, like an `as u32` cast) -/
def leBytes : Nat → Nat → Bytes
  | 0, _ => []
  | k + 1, v => UInt8.ofNat (v % 256) :: leBytes k (v / 256)

def leVal : Bytes → Nat
  | [] => 0
  | b :: bs => b.toNat + 256 * leVal bs

def U64 : Nat := 2 ^ 64

inductive Profile where
  | release
  | ovf
deriving DecidableEq, Repr

def checkedMul (a b : Nat) : Option Nat := if a * b < 2 ^ 64 then some (a * b) else none

/-- a bare Rust `a * b` on `usize` -/
def mulU (p : Profile) (a b : Nat) : Outcome Nat :=
  if a * b < 2 ^ 64 then .ok (a * b)
  else match p with
    | .release => .ok (a * b % 2 ^ 64)
    | .ovf => .panic "overflow"

def Outcome.bind {α β : Type} (x : Outcome α) (f : α → Outcome β) : Outcome β :=
  match x with
  | .ok v => f v
  | .err k => .err k
  | .panic c => .panic c

instance instMonadOutcome : Monad Outcome where
  pure := .ok
  bind := Outcome.bind

/-! ### the in-place reader monad -/

inductive Res (σ α : Type) where
  | ok (a : α) (s : σ) (rest : Bytes)
  | err (kind : String) (s : σ)
  | panic (cls : String) (s : σ)
deriving DecidableEq, Repr

/-- the receiver as the call leaves it, whatever the outcome -/
def Res.state {σ α : Type} : Res σ α → σ
  | .ok _ s _ => s
  | .err _ s => s
  | .panic _ s => s

def Res.isPanic {σ α : Type} : Res σ α → Bool
  | .panic _ _ => true
  | _ => false

def Res.isOk {σ α : Type} : Res σ α → Bool
  | .ok _ _ _ => true
  | _ => false

def Res.isErr {σ α : Type} : Res σ α → Bool
  | .err _ _ => true
  | _ => false

abbrev Rd (σ α : Type) := σ → Bytes → Res σ α

def Rd.pure {σ α : Type} (a : α) : Rd σ α := fun s bs => .ok a s bs

def Rd.bind {σ α β : Type} (m : Rd σ α) (f : α → Rd σ β) : Rd σ β := fun s bs =>
  match m s bs with
  | .ok a s' r => f a s' r
  | .err k s' => .err k s'
  | .panic c s' => .panic c s'

instance instMonadRd {σ : Type} : Monad (Rd σ) where
  pure := Rd.pure
  bind := Rd.bind

/-- `reader.read_exact(&mut [0u8; n])` into a temporary -/
def readN {σ : Type} (n : Nat) : Rd σ Bytes := fun s bs =>
  if bs.length < n then .err "eof" s else .ok (bs.take n) s (bs.drop n)

def readU8 {σ : Type} : Rd σ Nat := Rd.bind (readN 1) (fun b => Rd.pure (leVal b))
def readU32 {σ : Type} : Rd σ Nat := Rd.bind (readN 4) (fun b => Rd.pure (leVal b))
def readU64 {σ : Type} : Rd σ Nat := Rd.bind (readN 8) (fun b => Rd.pure (leVal b))

def failWith {σ α : Type} (k : String) : Rd σ α := fun s _ => .err k s
def panicWith {σ α : Type} (c : String) : Rd σ α := fun s _ => .panic c s
def getS {σ : Type} : Rd σ σ := fun s bs => .ok s s bs
def modifyS {σ : Type} (f : σ → σ) : Rd σ Unit := fun s bs => .ok () (f s) bs

/-- `reader.read_exact(&mut buf[..len])` where `buf` is the field of `self` selected by `get`/`set`.
`buf[..len]` panics when `len > buf.len()`. -/
def readExactInto {σ : Type} (len : Nat) (get : σ → Bytes) (set : σ → Bytes → σ) : Rd σ Unit := fun s bs =>
  if len > (get s).length then .panic "bounds" s
  else if bs.length < len then .err "eof" s
  else .ok () (set s (bs.take len ++ (get s).drop len)) (bs.drop len)

/-! ### the three HAL layouts -/

structure VecZnx where
  n : Nat
  cols : Nat
  size : Nat
  maxSize : Nat
  data : Bytes
deriving DecidableEq, Repr

structure ScalarZnx where
  n : Nat
  cols : Nat
  data : Bytes
deriving DecidableEq, Repr

structure MatZnx where
  n : Nat
  size : Nat
  rows : Nat
  colsIn : Nat
  colsOut : Nat
  data : Bytes
deriving DecidableEq, Repr

/-- `a.checked_mul(b).and_then(|x| x.checked_mul(c)).and_then(|x| x.checked_mul(8))` -/
def cm3x8 (a b c : Nat) : Option Nat :=
  ((checkedMul a b).bind (fun x => checkedMul x c)).bind (fun x => checkedMul x 8)

/-- `impl ReaderFrom for VecZnx` (vec_znx.rs:339) -/
def VecZnx.readFrom : Rd VecZnx Unit := do
  let newN ← readU64
  let newCols ← readU64
  let newSize ← readU64
  let newMaxSize ← readU64
  let len ← readU64
  match cm3x8 newN newCols newSize with
  | none => failWith "invalid"                                   -- metadata overflow
  | some expectedLen =>
    if expectedLen ≠ len then failWith "invalid" else do         -- metadata inconsistent
    let self ← getS
    let bufLen := self.data.length
    if bufLen < len then failWith "invalid" else do              -- buffer too small
    let capacityFits : Bool := (cm3x8 newN newCols newMaxSize).any (fun cap => decide (cap ≤ bufLen))   -- .is_some_and(|cap| cap <= buf.len())
    if newSize > newMaxSize || !capacityFits then failWith "invalid" else do
    readExactInto len VecZnx.data (fun s d => { s with data := d })
    modifyS (fun s => { s with n := newN, cols := newCols, size := newSize, maxSize := newMaxSize })

/-- the reader **before** commit 0c7f5af (kept for C17: shows what the repair bought).
`new_n * new_cols * new_size * 8` unchecked, `max_size` committed unvalidated. -/
def VecZnx.readFromOld (p : Profile) : Rd VecZnx Unit := do
  let newN ← readU64
  let newCols ← readU64
  let newSize ← readU64
  let newMaxSize ← readU64
  let len ← readU64
  match (do let x ← mulU p newN newCols; let y ← mulU p x newSize; mulU p y 8 : Outcome Nat) with
  | .panic c => panicWith c
  | .err k => failWith k
  | .ok expectedLen =>
    if expectedLen ≠ len then failWith "invalid" else do
    let self ← getS
    if self.data.length < len then failWith "invalid" else do
    readExactInto len VecZnx.data (fun s d => { s with data := d })
    modifyS (fun s => { s with n := newN, cols := newCols, size := newSize, maxSize := newMaxSize })

/-- `impl WriterTo for VecZnx` (vec_znx.rs:403) -/
def VecZnx.writeTo (p : Profile) (v : VecZnx) : Outcome Bytes := do
  let hdr := leBytes 8 v.n ++ leBytes 8 v.cols ++ leBytes 8 v.size ++ leBytes 8 v.maxSize
  let x ← mulU p v.n v.cols
  let y ← mulU p x v.size
  let coeffBytes ← mulU p y 8
  if v.data.length < coeffBytes then .err "invalid"
  else .ok (hdr ++ leBytes 8 coeffBytes ++ v.data.take coeffBytes)

/-- `impl ReaderFrom for ScalarZnx` (scalar_znx.rs:289) -/
def ScalarZnx.readFrom : Rd ScalarZnx Unit := do
  let newN ← readU64
  let newCols ← readU64
  let len ← readU64
  match (checkedMul newN newCols).bind (fun x => checkedMul x 8) with
  | none => failWith "invalid"
  | some expectedLen =>
    if expectedLen ≠ len then failWith "invalid" else do
    let self ← getS
    if self.data.length < len then failWith "invalid" else do
    readExactInto len ScalarZnx.data (fun s d => { s with data := d })
    modifyS (fun s => { s with n := newN, cols := newCols })

/-- `impl WriterTo for ScalarZnx` (scalar_znx.rs:326) -/
def ScalarZnx.writeTo (p : Profile) (v : ScalarZnx) : Outcome Bytes := do
  let hdr := leBytes 8 v.n ++ leBytes 8 v.cols
  let x ← mulU p v.n v.cols
  let coeffBytes ← mulU p x 8
  if v.data.length < coeffBytes then .err "invalid"
  else .ok (hdr ++ leBytes 8 coeffBytes ++ v.data.take coeffBytes)

/-- rows.checked_mul(cols_in)…(n)…(cols_out)…(size)…(8) -/
def cmMat (rows colsIn n colsOut size : Nat) : Option Nat :=
  ((((checkedMul rows colsIn).bind (fun x => checkedMul x n)).bind (fun x => checkedMul x colsOut)).bind
    (fun x => checkedMul x size)).bind (fun x => checkedMul x 8)

/-- `impl ReaderFrom for MatZnx` (mat_znx.rs:288) -/
def MatZnx.readFrom : Rd MatZnx Unit := do
  let newN ← readU64
  let newSize ← readU64
  let newRows ← readU64
  let newColsIn ← readU64
  let newColsOut ← readU64
  let len ← readU64
  match cmMat newRows newColsIn newN newColsOut newSize with
  | none => failWith "invalid"
  | some expectedLen =>
    if expectedLen ≠ len then failWith "invalid" else do
    let self ← getS
    if self.data.length < len then failWith "invalid" else do
    readExactInto len MatZnx.data (fun s d => { s with data := d })
    modifyS (fun s => { s with n := newN, size := newSize, rows := newRows, colsIn := newColsIn, colsOut := newColsOut })

/-- `MatZnx::bytes_of` = `rows * cols_in * VecZnx::bytes_of(n, cols_out, size)`,
`VecZnx::bytes_of = n * cols * size * 8` (all bare `*`) -/
def MatZnx.bytesOf (p : Profile) (n rows colsIn colsOut size : Nat) : Outcome Nat := do
  let a ← mulU p n colsOut
  let b ← mulU p a size
  let v ← mulU p b 8
  let r ← mulU p rows colsIn
  mulU p r v

/-- `impl WriterTo for MatZnx` (mat_znx.rs:338) -/
def MatZnx.writeTo (p : Profile) (m : MatZnx) : Outcome Bytes := do
  let hdr := leBytes 8 m.n ++ leBytes 8 m.size ++ leBytes 8 m.rows ++ leBytes 8 m.colsIn ++ leBytes 8 m.colsOut
  let logicalLen ← MatZnx.bytesOf p m.n m.rows m.colsIn m.colsOut m.size
  if m.data.length < logicalLen then .err "invalid"
  else .ok (hdr ++ leBytes 8 logicalLen ++ m.data.take logicalLen)

/-! ### capacity and acceptance

The **capacity** of a receiver is the length of its byte buffer — not its current logical shape
(`n·cols·size·8` …), which every successful read changes.  `vecAccept` / `scalarAccept` / `matAccept`
decide acceptance of a stream from the stream and the capacity alone; `Props/C18` proves that the readers
accept exactly these streams, hence that acceptance never depends on what was read before. -/

def VecZnx.capacity (v : VecZnx) : Nat := v.data.length
def ScalarZnx.capacity (v : ScalarZnx) : Nat := v.data.length
def MatZnx.capacity (v : MatZnx) : Nat := v.data.length

def hdrWord (bs : Bytes) (i : Nat) : Nat := leVal ((bs.drop (8 * i)).take 8)

def vecAccept (cap : Nat) (bs : Bytes) : Bool :=
  decide (40 ≤ bs.length) &&
  (cm3x8 (hdrWord bs 0) (hdrWord bs 1) (hdrWord bs 2) == some (hdrWord bs 4)) &&
  decide (hdrWord bs 4 ≤ cap) && decide (hdrWord bs 2 ≤ hdrWord bs 3) &&
  (cm3x8 (hdrWord bs 0) (hdrWord bs 1) (hdrWord bs 3)).any (fun c => decide (c ≤ cap)) &&
  decide (hdrWord bs 4 ≤ (bs.drop 40).length)

def scalarAccept (cap : Nat) (bs : Bytes) : Bool :=
  decide (24 ≤ bs.length) &&
  (((checkedMul (hdrWord bs 0) (hdrWord bs 1)).bind (fun x => checkedMul x 8)) == some (hdrWord bs 2)) &&
  decide (hdrWord bs 2 ≤ cap) && decide (hdrWord bs 2 ≤ (bs.drop 24).length)

def matAccept (cap : Nat) (bs : Bytes) : Bool :=
  decide (48 ≤ bs.length) &&
  (cmMat (hdrWord bs 2) (hdrWord bs 3) (hdrWord bs 0) (hdrWord bs 4) (hdrWord bs 1) == some (hdrWord bs 5)) &&
  decide (hdrWord bs 5 ≤ cap) && decide (hdrWord bs 5 ≤ (bs.drop 48).length)

/-- successive reads into one receiver (the receiver lives on after an `Err`) -/
def VecZnx.readSeq (r : VecZnx) : List Bytes → VecZnx
  | [] => r
  | bs :: rest => VecZnx.readSeq (VecZnx.readFrom r bs).state rest
def ScalarZnx.readSeq (r : ScalarZnx) : List Bytes → ScalarZnx
  | [] => r
  | bs :: rest => ScalarZnx.readSeq (ScalarZnx.readFrom r bs).state rest
def MatZnx.readSeq (r : MatZnx) : List Bytes → MatZnx
  | [] => r
  | bs :: rest => MatZnx.readSeq (MatZnx.readFrom r bs).state rest

/-- successive reads of a wrapper reader into one flat state -/
def readSeqSt (rd : Rd St Unit) (s : St) : List Bytes → St
  | [] => s
  | bs :: rest => readSeqSt rd (rd s bs).state rest

/-! ### invariants (the post-state clause of C18, and C17's `Inv`) -/

def VecZnx.Inv (v : VecZnx) : Prop := v.size ≤ v.maxSize ∧ v.n * v.cols * v.maxSize * 8 ≤ v.data.length
def ScalarZnx.Inv (v : ScalarZnx) : Prop := v.n * v.cols * 8 ≤ v.data.length
def MatZnx.Inv (m : MatZnx) : Prop := m.rows * m.colsIn * m.n * m.colsOut * m.size * 8 ≤ m.data.length

instance (v : VecZnx) : Decidable v.Inv := by unfold VecZnx.Inv; exact inferInstance
instance (v : ScalarZnx) : Decidable v.Inv := by unfold ScalarZnx.Inv; exact inferInstance
instance (v : MatZnx) : Decidable v.Inv := by unfold MatZnx.Inv; exact inferInstance

/-! ### flat state of a wrapper object

Every serialisable wrapper of poulpy-core / poulpy-bin-fhe is, as far as its reader and writer are
concerned, a list of scalar fields, a list of seed groups and a list of HAL leaves.  The order is
the declaration order of the wrapper's reader, depth first; counts of `Vec<…>` containers
(`keys.len()`) are stored as fields too (the readers only compare them).  A reader of a nested
object is given a cursor (first field / seed group / leaf it owns). -/

inductive Leaf where
  | vec (v : VecZnx)
  | scalar (s : ScalarZnx)
  | mat (m : MatZnx)
deriving DecidableEq, Repr

/-- `count` 32-byte seeds; `filled` = the bytes of the leading seeds, the remaining seeds are zero
(so that `vec![[0u8; 32]; 2^32-1]` does not have to be materialised) -/
structure SeedGroup where
  count : Nat
  filled : Bytes
deriving DecidableEq, Repr

structure St where
  fields : List Nat
  seeds : List SeedGroup
  leaves : List Leaf
  /-- largest single allocation the environment grants (bytes); only `vec![[0u8;32]; seed_len]`
  of the compressed matrix readers looks at it -/
  mem : Nat
deriving DecidableEq, Repr

structure Cur where
  f : Nat
  s : Nat
  l : Nat
deriving DecidableEq, Repr

def Leaf.Inv : Leaf → Prop
  | .vec v => v.Inv
  | .scalar s => s.Inv
  | .mat m => m.Inv

instance (l : Leaf) : Decidable l.Inv := by cases l <;> (unfold Leaf.Inv; exact inferInstance)

def Leaf.bufLen : Leaf → Nat
  | .vec v => v.data.length
  | .scalar s => s.data.length
  | .mat m => m.data.length

/-- dimension fields of a leaf (everything but the buffer content) -/
def Leaf.meta : Leaf → List Nat
  | .vec v => [0, v.n, v.cols, v.size, v.maxSize, v.data.length]
  | .scalar s => [1, s.n, s.cols, s.data.length]
  | .mat m => [2, m.n, m.size, m.rows, m.colsIn, m.colsOut, m.data.length]

def St.Inv (s : St) : Prop := ∀ l ∈ s.leaves, l.Inv

instance (s : St) : Decidable s.Inv := by unfold St.Inv; exact inferInstance

/-- all metadata of a flat state: wrapper fields, seed counts + seeds, leaf dimensions -/
def St.meta (s : St) : List Nat × List SeedGroup × List (List Nat) :=
  (s.fields, s.seeds, s.leaves.map Leaf.meta)

/-- `self.<field i> = v` -/
def setF (i : Nat) (v : Nat) : Rd St Unit := fun s bs =>
  if i < s.fields.length then .ok () { s with fields := s.fields.set i v } bs else .err "shape" s

def getF (i : Nat) : Rd St Nat := fun s bs =>
  match s.fields[i]? with
  | some v => .ok v s bs
  | none => .err "shape" s

/-- run a leaf reader on leaf `i` of the flat state (`self.data.read_from(reader)`) -/
def onLeaf {α : Type} (i : Nat) (m : Leaf → Bytes → Option (Res Leaf α)) : Rd St α := fun s bs =>
  match s.leaves[i]? with
  | none => .err "shape" s
  | some l =>
    match m l bs with
    | none => .err "shape" s
    | some (.ok a l' r) => .ok a { s with leaves := s.leaves.set i l' } r
    | some (.err k l') => .err k { s with leaves := s.leaves.set i l' }
    | some (.panic c l') => .panic c { s with leaves := s.leaves.set i l' }

def liftVec {α : Type} (m : Rd VecZnx α) : Leaf → Bytes → Option (Res Leaf α)
  | .vec v, bs => some (match m v bs with
      | .ok a v' r => .ok a (.vec v') r
      | .err k v' => .err k (.vec v')
      | .panic c v' => .panic c (.vec v'))
  | _, _ => none

def liftMat {α : Type} (m : Rd MatZnx α) : Leaf → Bytes → Option (Res Leaf α)
  | .mat v, bs => some (match m v bs with
      | .ok a v' r => .ok a (.mat v') r
      | .err k v' => .err k (.mat v')
      | .panic c v' => .panic c (.mat v'))
  | _, _ => none

def liftScalar {α : Type} (m : Rd ScalarZnx α) : Leaf → Bytes → Option (Res Leaf α)
  | .scalar v, bs => some (match m v bs with
      | .ok a v' r => .ok a (.scalar v') r
      | .err k v' => .err k (.scalar v')
      | .panic c v' => .panic c (.scalar v'))
  | _, _ => none

def readVecAt (i : Nat) : Rd St Unit := onLeaf i (liftVec VecZnx.readFrom)
def readMatAt (i : Nat) : Rd St Unit := onLeaf i (liftMat MatZnx.readFrom)
def readScalarAt (i : Nat) : Rd St Unit := onLeaf i (liftScalar ScalarZnx.readFrom)

/-- `reader.read_exact(&mut self.seed)` for a `[u8; 32]` field (seed group `i`, one seed) -/
def readSeedAt (i : Nat) : Rd St Unit := fun s bs =>
  match s.seeds[i]? with
  | none => .err "shape" s
  | some _ =>
    if bs.length < 32 then .err "eof" s
    else .ok () { s with seeds := s.seeds.set i ⟨1, bs.take 32⟩ } (bs.drop 32)

/-- the loop `for s in &mut self.seed { reader.read_exact(s)?; }` over the `k` seeds still to read;
`done` = bytes of the seeds already read -/
def readSeedsLoop (i total : Nat) : Nat → Bytes → Rd St Unit
  | 0, _ => Rd.pure ()
  | k + 1, done => fun s bs =>
    if bs.length < 32 then .err "eof" s
    else
      let done' := done ++ bs.take 32
      readSeedsLoop i total k done' { s with seeds := s.seeds.set i ⟨total, done'⟩ } (bs.drop 32)

/-- `let seed_len = reader.read_u32()?; self.seed = vec![[0u8; 32]; seed_len]; for s in … read_exact(s)?`
The allocation is made before any seed is read; a request larger than `mem` is an allocation
failure (`handle_alloc_error` → process abort, class `alloc`). -/
def readSeedVecAt (i : Nat) : Rd St Unit := do
  let seedLen ← readU32
  let s ← getS
  if i ≥ s.seeds.length then failWith "shape" else
  if seedLen * 32 > s.mem then panicWith "alloc" else do
  modifyS (fun s => { s with seeds := s.seeds.set i ⟨seedLen, []⟩ })
  readSeedsLoop i seedLen seedLen []

/-! ### `Distribution` (poulpy-core/src/dist.rs): two fields `tag`, `payload`
(`payload` = the `usize` of the fixed variants, the `f64` bit pattern of the probabilistic ones,
0 for `ZERO`/`NONE`) -/

def distWord (tag payload : Nat) : Nat :=
  if tag = 0 ∨ tag = 2 ∨ tag = 4 then (tag * 2 ^ 56 ||| payload) % 2 ^ 64      -- (TAG << 56) | (v as u64)
  else if tag = 1 ∨ tag = 3 then tag * 2 ^ 56 ||| (payload / 256)               -- pack_f64: bits >> 8
  else tag * 2 ^ 56

/-- `self.dist = Distribution::read_from(reader)?` into fields `i`, `i+1` -/
def readDistAt (i : Nat) : Rd St Unit := do
  let word ← readU64
  let tag := word / 2 ^ 56
  let payload := word % 2 ^ 56
  if tag = 0 ∨ tag = 2 ∨ tag = 4 then do setF i tag; setF (i + 1) payload
  else if tag = 1 ∨ tag = 3 then do setF i tag; setF (i + 1) (payload * 256 % 2 ^ 64)   -- unpack_f64: payload << 8
  else if tag = 5 ∨ tag = 6 then do setF i tag; setF (i + 1) 0
  else failWith "invalid"

/-! ### wrapper readers (each line = one line of the Rust `read_from`) -/

/-- GLWE (glwe.rs:203), LWE (lwe.rs:212): fields `[base2k]`, leaf `vec` -/
def rGLWE (c : Cur) : Rd St Unit := do
  setF c.f (← readU32)          -- self.base2k = Base2K(reader.read_u32()?)
  readVecAt c.l                 -- self.data.read_from(reader)
def aGLWE (c : Cur) : Cur := ⟨c.f + 1, c.s, c.l + 1⟩

/-- GGLWE (gglwe.rs:306), GGSW (ggsw.rs:254): fields `[base2k, dsize]`, leaf `mat` -/
def rGGLWE (c : Cur) : Rd St Unit := do
  setF c.f (← readU32)          -- self.base2k
  setF (c.f + 1) (← readU32)    -- self.dsize
  readMatAt c.l                 -- self.data.read_from(reader)
def aGGLWE (c : Cur) : Cur := ⟨c.f + 2, c.s, c.l + 1⟩

/-- GLWESwitchingKey (glwe_switching_key.rs:276) and its newtypes LWESwitchingKey, LWEToGLWEKey,
GLWEToLWEKey: fields `[input_degree, output_degree]` then the GGLWE -/
def rGLWESwitchingKey (c : Cur) : Rd St Unit := do
  setF c.f (← readU32)          -- self.input_degree
  setF (c.f + 1) (← readU32)    -- self.output_degree
  rGGLWE ⟨c.f + 2, c.s, c.l⟩    -- self.key.read_from(reader)
def aGLWESwitchingKey (c : Cur) : Cur := ⟨c.f + 4, c.s, c.l + 1⟩

/-- GLWEAutomorphismKey (glwe_automorphism_key.rs:266): field `[p]` (as u64) then the GGLWE -/
def rGLWEAutomorphismKey (c : Cur) : Rd St Unit := do
  setF c.f (← readU64)          -- self.p = reader.read_u64()? as i64
  rGGLWE ⟨c.f + 1, c.s, c.l⟩
def aGLWEAutomorphismKey (c : Cur) : Cur := ⟨c.f + 3, c.s, c.l + 1⟩

/-- GLWEPublicKey (glwe_public_key.rs:103): fields `[dist.tag, dist.payload]` then the GLWE -/
def rGLWEPublicKey (c : Cur) : Rd St Unit := do
  readDistAt c.f                -- self.dist = Distribution::read_from(reader)?
  rGLWE ⟨c.f + 2, c.s, c.l⟩     -- self.key.read_from(reader)

/-- `for key in &mut self.keys { key.read_from(reader)?; }` -/
def rRep (r : Cur → Rd St Unit) (adv : Cur → Cur) : Nat → Cur → Rd St Unit
  | 0, _ => Rd.pure ()
  | k + 1, c => do r c; rRep r adv k (adv c)

/-- the common container shape: `let len = read_u64()?; if self.keys.len() != len { Err }; for key …`;
field `c.f` holds `self.keys.len()` -/
def rKeys (r : Cur → Rd St Unit) (adv : Cur → Cur) (c : Cur) : Rd St Unit := do
  let len ← readU64
  let n ← getF c.f
  if n ≠ len then failWith "invalid" else
  rRep r adv n ⟨c.f + 1, c.s, c.l⟩

/-- GGLWEToGGSWKey (gglwe_to_ggsw_key.rs:206): fields `[keys.len()]` then the GGLWEs -/
def rGGLWEToGGSWKey (c : Cur) : Rd St Unit := rKeys rGGLWE aGGLWE c

/-- GLWECompressed (compressed/glwe.rs:134): fields `[base2k, rank]`, one seed, leaf `vec` -/
def rGLWECompressed (c : Cur) : Rd St Unit := do
  setF c.f (← readU32)          -- self.base2k
  setF (c.f + 1) (← readU32)    -- self.rank
  readSeedAt c.s                -- reader.read_exact(&mut self.seed)?
  readVecAt c.l                 -- self.data.read_from(reader)

/-- LWECompressed (compressed/lwe.rs:103): fields `[k, base2k]`, one seed, leaf `vec` -/
def rLWECompressed (c : Cur) : Rd St Unit := rGLWECompressed c

/-- GGLWECompressed (compressed/gglwe.rs:216) `[k, base2k, dsize, rank_out]`, GGSWCompressed
(compressed/ggsw.rs:209) `[k, base2k, dsize, rank]`: seed vector, leaf `mat` -/
def rGGLWECompressed (c : Cur) : Rd St Unit := do
  setF c.f (← readU32)          -- self.k
  setF (c.f + 1) (← readU32)    -- self.base2k
  setF (c.f + 2) (← readU32)    -- self.dsize
  setF (c.f + 3) (← readU32)    -- self.rank_out
  readSeedVecAt c.s             -- seed_len, self.seed = vec![..; seed_len], read each
  readMatAt c.l                 -- self.data.read_from(reader)
def aGGLWECompressed (c : Cur) : Cur := ⟨c.f + 4, c.s + 1, c.l + 1⟩

/-- GLWESwitchingKeyCompressed (compressed/glwe_switching_key.rs:152) and its newtypes -/
def rGLWESwitchingKeyCompressed (c : Cur) : Rd St Unit := do
  setF c.f (← readU32)          -- self.input_degree
  setF (c.f + 1) (← readU32)    -- self.output_degree
  rGGLWECompressed ⟨c.f + 2, c.s, c.l⟩

/-- GLWEAutomorphismKeyCompressed (compressed/glwe_automorphism_key.rs:128) -/
def rGLWEAutomorphismKeyCompressed (c : Cur) : Rd St Unit := do
  setF c.f (← readU64)          -- self.p
  rGGLWECompressed ⟨c.f + 1, c.s, c.l⟩

/-- GGLWEToGGSWKeyCompressed (compressed/gglwe_to_ggsw_key.rs:159) -/
def rGGLWEToGGSWKeyCompressed (c : Cur) : Rd St Unit := rKeys rGGLWECompressed aGGLWECompressed c

/-- BlindRotationKey (blind_rotation/layouts/key.rs:200): `[dist.tag, dist.payload, keys.len()]`, GGSWs -/
def rBlindRotationKey (c : Cur) : Rd St Unit := do
  readDistAt c.f                -- self.dist = Distribution::read_from(reader)?
  rKeys rGGLWE aGGLWE ⟨c.f + 2, c.s, c.l⟩

/-- BlindRotationKeyCompressed (key_compressed.rs:103) -/
def rBlindRotationKeyCompressed (c : Cur) : Rd St Unit := do
  readDistAt c.f
  rKeys rGGLWECompressed aGGLWECompressed ⟨c.f + 2, c.s, c.l⟩

/-! ### wrapper writers -/

def wLeaf (p : Profile) (s : St) (i : Nat) : Outcome Bytes :=
  match s.leaves[i]? with
  | some (.vec v) => v.writeTo p
  | some (.scalar v) => v.writeTo p
  | some (.mat v) => v.writeTo p
  | none => .err "shape"

def wF (s : St) (width i : Nat) : Outcome Bytes :=
  match s.fields[i]? with
  | some v => .ok (leBytes width v)
  | none => .err "shape"

/-- total byte length a seed group serialises to -/
def SeedGroup.bytes (g : SeedGroup) : Bytes := g.filled ++ List.replicate (32 * g.count - g.filled.length) 0

/-- `writer.write_all(&self.seed)` -/
def wSeed (s : St) (i : Nat) : Outcome Bytes :=
  match s.seeds[i]? with
  | some g => .ok g.bytes
  | none => .err "shape"

/-- `write_u32(self.seed.len() as u32); for s in &self.seed { write_all(s) }` -/
def wSeedVec (s : St) (i : Nat) : Outcome Bytes :=
  match s.seeds[i]? with
  | some g => .ok (leBytes 4 g.count ++ g.bytes)
  | none => .err "shape"

def wDist (s : St) (i : Nat) : Outcome Bytes :=
  match s.fields[i]?, s.fields[i + 1]? with
  | some t, some pl => .ok (leBytes 8 (distWord t pl))
  | _, _ => .err "shape"

def wGLWE (p : Profile) (s : St) (c : Cur) : Outcome Bytes := do
  let a ← wF s 4 c.f
  let d ← wLeaf p s c.l
  pure (a ++ d)

def wGGLWE (p : Profile) (s : St) (c : Cur) : Outcome Bytes := do
  let a ← wF s 4 c.f
  let b ← wF s 4 (c.f + 1)
  let d ← wLeaf p s c.l
  pure (a ++ b ++ d)

def wGLWESwitchingKey (p : Profile) (s : St) (c : Cur) : Outcome Bytes := do
  let a ← wF s 4 c.f
  let b ← wF s 4 (c.f + 1)
  let d ← wGGLWE p s ⟨c.f + 2, c.s, c.l⟩
  pure (a ++ b ++ d)

def wGLWEAutomorphismKey (p : Profile) (s : St) (c : Cur) : Outcome Bytes := do
  let a ← wF s 8 c.f
  let d ← wGGLWE p s ⟨c.f + 1, c.s, c.l⟩
  pure (a ++ d)

def wGLWEPublicKey (p : Profile) (s : St) (c : Cur) : Outcome Bytes := do
  let a ← wDist s c.f
  let d ← wGLWE p s ⟨c.f + 2, c.s, c.l⟩
  pure (a ++ d)

def wRep (w : St → Cur → Outcome Bytes) (adv : Cur → Cur) (s : St) : Nat → Cur → Outcome Bytes
  | 0, _ => .ok []
  | k + 1, c => do
    let a ← w s c
    let b ← wRep w adv s k (adv c)
    pure (a ++ b)

def wKeys (w : St → Cur → Outcome Bytes) (adv : Cur → Cur) (s : St) (c : Cur) : Outcome Bytes := do
  let a ← wF s 8 c.f
  match s.fields[c.f]? with
  | none => .err "shape"
  | some n =>
    let b ← wRep w adv s n ⟨c.f + 1, c.s, c.l⟩
    pure (a ++ b)

def wGLWECompressed (p : Profile) (s : St) (c : Cur) : Outcome Bytes := do
  let a ← wF s 4 c.f
  let b ← wF s 4 (c.f + 1)
  let sd ← wSeed s c.s
  let d ← wLeaf p s c.l
  pure (a ++ b ++ sd ++ d)

def wGGLWECompressed (p : Profile) (s : St) (c : Cur) : Outcome Bytes := do
  let a ← wF s 4 c.f
  let b ← wF s 4 (c.f + 1)
  let c2 ← wF s 4 (c.f + 2)
  let d2 ← wF s 4 (c.f + 3)
  let sd ← wSeedVec s c.s
  let d ← wLeaf p s c.l
  pure (a ++ b ++ c2 ++ d2 ++ sd ++ d)

def wGLWESwitchingKeyCompressed (p : Profile) (s : St) (c : Cur) : Outcome Bytes := do
  let a ← wF s 4 c.f
  let b ← wF s 4 (c.f + 1)
  let d ← wGGLWECompressed p s ⟨c.f + 2, c.s, c.l⟩
  pure (a ++ b ++ d)

def wGLWEAutomorphismKeyCompressed (p : Profile) (s : St) (c : Cur) : Outcome Bytes := do
  let a ← wF s 8 c.f
  let d ← wGGLWECompressed p s ⟨c.f + 1, c.s, c.l⟩
  pure (a ++ d)

def wBlindRotationKey (p : Profile) (s : St) (c : Cur) : Outcome Bytes := do
  let a ← wDist s c.f
  let d ← wKeys (wGGLWE p) aGGLWE s ⟨c.f + 2, c.s, c.l⟩
  pure (a ++ d)

def wBlindRotationKeyCompressed (p : Profile) (s : St) (c : Cur) : Outcome Bytes := do
  let a ← wDist s c.f
  let d ← wKeys (wGGLWECompressed p) aGGLWECompressed s ⟨c.f + 2, c.s, c.l⟩
  pure (a ++ d)

/-! ### CircuitBootstrappingKey and BDDKey (poulpy-bin-fhe)

Flat layout of a `CircuitBootstrappingKey`:
  fields  `[dist.tag, dist.payload, brk.keys.len(), (base2k, dsize)·nb,
            atk.len(), (gal_el, p, base2k, dsize)·na        -- HashMap entries in the writer's (sorted) order
            tsk.keys.len(), (base2k, dsize)·nt]`
  leaves  `nb` GGSW matrices, `na` automorphism-key matrices, `nt` GGLWE matrices.
A `BDDKey` appends `[ks_glwe.is_some() as 0/1, (in, out, base2k, dsize) if some, (in, out, base2k, dsize)]`
and the corresponding one or two matrices. -/

/-- `self.atk.get_mut(&gal_el)`: index of the entry whose key is `gal` -/
def findAtk (s : St) (base na gal : Nat) : Option Nat :=
  (List.range na).find? (fun j => s.fields[base + 4 * j]? == some gal)

/-- `for _ in 0..n { let gal_el = read_i64()?; let atk = self.atk.get_mut(&gal_el).ok_or(InvalidData)?; atk.read_from(reader)?; }`
`ca` = cursor of the atk section (`ca.f` = field holding `atk.len()`) -/
def rAtkLoop (ca : Cur) (na : Nat) : Nat → Rd St Unit
  | 0 => Rd.pure ()
  | k + 1 => do
    let gal ← readU64
    let s ← getS
    match findAtk s (ca.f + 1) na gal with
    | none => failWith "invalid"
    | some j => do
      rGLWEAutomorphismKey ⟨ca.f + 1 + 4 * j + 1, ca.s, ca.l + j⟩
      rAtkLoop ca na k

/-- cursor of the atk section / the tsk section / the end of a CircuitBootstrappingKey starting at `c` -/
def cbtAtkCur (c : Cur) (nb : Nat) : Cur := ⟨c.f + 3 + 2 * nb, c.s, c.l + nb⟩
def cbtTskCur (c : Cur) (nb na : Nat) : Cur := ⟨c.f + 3 + 2 * nb + 1 + 4 * na, c.s, c.l + nb + na⟩
def cbtEndCur (c : Cur) (nb na nt : Nat) : Cur := ⟨c.f + 3 + 2 * nb + 1 + 4 * na + 1 + 2 * nt, c.s, c.l + nb + na + nt⟩

/-- CircuitBootstrappingKey (circuit_bootstrapping/key.rs:314) -/
def rCircuitBootstrappingKey (c : Cur) : Rd St Unit := do
  rBlindRotationKey c                                   -- self.brk.read_from(reader)?
  let nb ← getF (c.f + 2)
  let n ← readU64                                       -- let n = reader.read_u64()? as usize
  let na ← getF (cbtAtkCur c nb).f
  if n ≠ na then failWith "invalid" else do             -- if n != self.atk.len()
  rAtkLoop (cbtAtkCur c nb) na n
  rGGLWEToGGSWKey (cbtTskCur c nb na)                   -- self.tsk.read_from(reader)

/-- BDDKey (bdd_arithmetic/key.rs:269) -/
def rBDDKey (c : Cur) : Rd St Unit := do
  rCircuitBootstrappingKey c                            -- self.cbt.read_from(reader)?
  let nb ← getF (c.f + 2)
  let na ← getF (cbtAtkCur c nb).f
  let nt ← getF (cbtTskCur c nb na).f
  let e := cbtEndCur c nb na nt
  let tag ← readU8                                      -- match reader.read_u8()?
  let has ← getF e.f                                    -- self.ks_glwe.is_some()
  if tag = 0 then
    if has ≠ 0 then failWith "invalid"
    else rGLWESwitchingKey ⟨e.f + 1, e.s, e.l⟩          -- self.ks_lwe.read_from(reader)
  else if tag = 1 then
    if has = 0 then failWith "invalid" else do
    rGLWESwitchingKey ⟨e.f + 1, e.s, e.l⟩               -- ks_glwe.read_from(reader)?
    rGLWESwitchingKey ⟨e.f + 5, e.s, e.l + 1⟩           -- self.ks_lwe.read_from(reader)
  else failWith "invalid"

def wAtk (p : Profile) (s : St) (c : Cur) : Outcome Bytes := do       -- write_i64(k); self.atk[&k].write_to(writer)
  let g ← wF s 8 c.f
  let d ← wGLWEAutomorphismKey p s ⟨c.f + 1, c.s, c.l⟩
  pure (g ++ d)
def aAtk (c : Cur) : Cur := ⟨c.f + 4, c.s, c.l + 1⟩

def wCircuitBootstrappingKey (p : Profile) (s : St) (c : Cur) : Outcome Bytes := do
  let a ← wBlindRotationKey p s c
  match s.fields[c.f + 2]? with
  | none => .err "shape"
  | some nb =>
    let ca := cbtAtkCur c nb
    let n ← wF s 8 ca.f
    match s.fields[ca.f]? with
    | none => .err "shape"
    | some na =>
      let b ← wRep (wAtk p) aAtk s na ⟨ca.f + 1, ca.s, ca.l⟩
      let t ← wKeys (wGGLWE p) aGGLWE s (cbtTskCur c nb na)
      pure (a ++ n ++ b ++ t)

def wBDDKey (p : Profile) (s : St) (c : Cur) : Outcome Bytes := do
  let a ← wCircuitBootstrappingKey p s c
  match s.fields[c.f + 2]? with
  | none => .err "shape"
  | some nb =>
    match s.fields[(cbtAtkCur c nb).f]? with
    | none => .err "shape"
    | some na =>
      match s.fields[(cbtTskCur c nb na).f]? with
      | none => .err "shape"
      | some nt =>
        let e := cbtEndCur c nb na nt
        match s.fields[e.f]? with
        | none => .err "shape"
        | some has =>
          if has = 0 then do
            let k ← wGLWESwitchingKey p s ⟨e.f + 1, e.s, e.l⟩
            pure (a ++ [0] ++ k)
          else do
            let g ← wGLWESwitchingKey p s ⟨e.f + 1, e.s, e.l⟩
            let k ← wGLWESwitchingKey p s ⟨e.f + 5, e.s, e.l + 1⟩
            pure (a ++ [1] ++ g ++ k)

/-! ### dispatch by type name (the names the harness and the orchestrator use) -/

def origin : Cur := ⟨0, 0, 0⟩

def readerOf : String → Option (Rd St Unit)
  | "vec" => some (readVecAt 0)
  | "scalar" => some (readScalarAt 0)
  | "mat" => some (readMatAt 0)
  | "glwe" | "lwe" => some (rGLWE origin)
  | "gglwe" | "ggsw" | "glwe_tensor_key" => some (rGGLWE origin)
  | "glwe_switching_key" | "lwe_switching_key" | "lwe_to_glwe_key" | "glwe_to_lwe_key" => some (rGLWESwitchingKey origin)
  | "glwe_automorphism_key" => some (rGLWEAutomorphismKey origin)
  | "glwe_public_key" => some (rGLWEPublicKey origin)
  | "gglwe_to_ggsw_key" => some (rGGLWEToGGSWKey origin)
  | "glwe_compressed" | "lwe_compressed" => some (rGLWECompressed origin)
  | "gglwe_compressed" | "ggsw_compressed" | "glwe_tensor_key_compressed" => some (rGGLWECompressed origin)
  | "glwe_switching_key_compressed" | "lwe_switching_key_compressed" | "lwe_to_glwe_key_compressed"
  | "glwe_to_lwe_key_compressed" => some (rGLWESwitchingKeyCompressed origin)
  | "glwe_automorphism_key_compressed" => some (rGLWEAutomorphismKeyCompressed origin)
  | "gglwe_to_ggsw_key_compressed" => some (rGGLWEToGGSWKeyCompressed origin)
  | "blind_rotation_key" => some (rBlindRotationKey origin)
  | "blind_rotation_key_compressed" => some (rBlindRotationKeyCompressed origin)
  | "circuit_bootstrapping_key" => some (rCircuitBootstrappingKey origin)
  | "bdd_key" => some (rBDDKey origin)
  | _ => none

def writerOf (p : Profile) : String → Option (St → Outcome Bytes)
  | "vec" | "scalar" | "mat" => some (fun s => wLeaf p s 0)
  | "glwe" | "lwe" => some (fun s => wGLWE p s origin)
  | "gglwe" | "ggsw" | "glwe_tensor_key" => some (fun s => wGGLWE p s origin)
  | "glwe_switching_key" | "lwe_switching_key" | "lwe_to_glwe_key" | "glwe_to_lwe_key" => some (fun s => wGLWESwitchingKey p s origin)
  | "glwe_automorphism_key" => some (fun s => wGLWEAutomorphismKey p s origin)
  | "glwe_public_key" => some (fun s => wGLWEPublicKey p s origin)
  | "gglwe_to_ggsw_key" => some (fun s => wKeys (wGGLWE p) aGGLWE s origin)
  | "glwe_compressed" | "lwe_compressed" => some (fun s => wGLWECompressed p s origin)
  | "gglwe_compressed" | "ggsw_compressed" | "glwe_tensor_key_compressed" => some (fun s => wGGLWECompressed p s origin)
  | "glwe_switching_key_compressed" | "lwe_switching_key_compressed" | "lwe_to_glwe_key_compressed"
  | "glwe_to_lwe_key_compressed" => some (fun s => wGLWESwitchingKeyCompressed p s origin)
  | "glwe_automorphism_key_compressed" => some (fun s => wGLWEAutomorphismKeyCompressed p s origin)
  | "gglwe_to_ggsw_key_compressed" => some (fun s => wKeys (wGGLWECompressed p) aGGLWECompressed s origin)
  | "blind_rotation_key" => some (fun s => wBlindRotationKey p s origin)
  | "blind_rotation_key_compressed" => some (fun s => wBlindRotationKeyCompressed p s origin)
  | "circuit_bootstrapping_key" => some (fun s => wCircuitBootstrappingKey p s origin)
  | "bdd_key" => some (fun s => wBDDKey p s origin)
  | _ => none

end Ser
