import Poulpy.Model.CkksData
import Poulpy.Model.Core.Mul
import Poulpy.Model.Core.Ks
/-!
# CKKS evaluator: data path of the multiplications and of the composites (C16)

Every operation is the sequence of core calls the Rust makes (`leveled/default/mul.rs`,
`leveled/delegates/composite.rs`), on the executable core models that C05 ties to the library
(`Core.tensorApply`, `Core.tensorSquare`, `Core.relinearize`, `Core.mulPlain`) and C02 / C08 tie
(`Core.Ops`), with the parameters (`cnv_offset`, `effective_k`, buffer layouts) of `Model/Ckks.lean`.
The metadata model decides the outcome (`Ok` / `Err` / panic class); the data path runs on `Ok`.
`big` = the accumulator type of the back end (`i128`: NTT120, `i64`: FFT64); `tsk` = the raw tensor key
(prepared keys hold the same limbs in the DFT domain).
-/

namespace Ckks
open Core Core.Ops

structure MulKey where
  big : Bool
  tsk : Core.GGLWE

def zeroC (n cols size : Nat) : List Col := List.replicate cols (List.replicate size (List.replicate n 0))

/-- `effective_limbs(data, k, base2k)`: the leading `⌈k / base2k⌉` limbs of every column -/
def effCols (b K : Nat) (g : GLWE) : List Col := g.cols.map (fun c => c.take (divCeil K b))

def ofOpt (o : Option (List Col)) (k : List Col → Outcome DCt) : Outcome DCt :=
  match o with
  | some c => k c
  | none => .panic "fuel"

/-- `glwe_tensor_relinearize(dst, tensor, tsk, tsk.size())`; with `dsize = 1` keys the `res_dft` buffer is overwritten -/
def relinData (mk : MulKey) (N b dstSize : Nat) (t : List Col) : Option (List Col) :=
  Core.relinearize mk.big N b dstSize t b mk.tsk mk.tsk.size (zeroC N mk.tsk.colsOut mk.tsk.size)

def tensorCols (g : GLWE) : Nat := g.cols.length * (g.cols.length + 1) / 2

/-- the limbs of `ckks_mul_into(dst, a, b)` for the accepted parameters `q` -/
def mulCols (env : Env) (N : Nat) (mk : MulKey) (dstSize : Nat) (q : MulP) (a b : DCt) : Option (List Col) :=
  let ts := max a.g.size b.g.size
  (Core.tensorApply false mk.big N env.base2k ts q.cnv env.base2k (effCols env.base2k a.md.effK a.g) a.md.effK
    (effCols env.base2k b.md.effK b.g) b.md.effK (zeroC N (tensorCols a.g) ts)).bind (relinData mk N env.base2k dstSize)

/-- `ckks_mul_into(dst, a, b, tsk)` (`ckks_mul_assign(dst, a)` is `dMulInto dst dst a`) -/
def dMulInto (env : Env) (N : Nat) (mk : MulKey) (dst a b : DCt) : Outcome DCt :=
  withMeta (mulInto env dst.ct a.ct b.ct) fun m =>
    match mulCtParams env dst.ct a.ct b.ct with
    | .error _ => .panic "model"
    | .ok q => ofOpt (mulCols env N mk dst.g.size q a b) fun cols => .ok ⟨{ dst.g with cols := cols }, m⟩

/-- `ckks_square_into(dst, a, tsk)`: `glwe_tensor_square_apply` -/
def dSquareInto (env : Env) (N : Nat) (mk : MulKey) (dst a : DCt) : Outcome DCt :=
  withMeta (squareInto env dst.ct a.ct) fun m =>
    match mulCtParams env dst.ct a.ct a.ct with
    | .error _ => .panic "model"
    | .ok q =>
      let ts := a.g.size
      ofOpt ((Core.tensorSquare mk.big N env.base2k ts q.cnv env.base2k (effCols env.base2k a.md.effK a.g) a.md.effK
          (zeroC N (tensorCols a.g) ts)).bind (relinData mk N env.base2k dst.g.size))
        fun cols => .ok ⟨{ dst.g with cols := cols }, m⟩

/-- `ckks_mul_pt_vec_znx_into(dst, a, pt)`: `glwe_mul_plain(cnv_offset, dst, a, a.effective_k, pt, pt.max_k)` -/
def dMulPtInto (env : Env) (N : Nat) (big : Bool) (dst a : DCt) (pt : Pt) (pg : Col) : Outcome DCt :=
  withMeta (withPt env pt dst.ct (mulPtZnxInto env dst.ct a.ct pt)) fun m =>
    match mulPtParams env dst.ct a.ct pt.md pt.maxK with
    | .error _ => .panic "model"
    | .ok q =>
      ofOpt (Core.mulPlain big N env.base2k dst.g.size q.cnv env.base2k (effCols env.base2k a.md.effK a.g) a.md.effK
          (pg.take (divCeil pt.maxK env.base2k)) pt.maxK)
        fun cols => .ok ⟨{ dst.g with cols := cols }, m⟩

/-! ## composites -/

/-- `ckks_add_many(dst, inputs)`: one aligned copy, or `add_into_unsafe` of the first two then
`add_assign_unsafe` of the others, one normalisation at the end -/
def dAddMany (env : Env) (N : Nat) (dst : DCt) (ins : List DCt) : Outcome DCt :=
  withMeta (addMany env dst.ct (ins.map DCt.ct)) fun m =>
    match ins with
    | [] => .panic "model"
    | [a] => bind (glweLsh N dst.g a.g (unaryShift env dst.ct a.ct 0)) fun g' => .ok ⟨g', m⟩
    | a :: b :: rest =>
      bind (addIntoData env N false dst a b) fun g1 =>
      match addCtInto env dst.ct a.ct b.ct with
      | .ok m1 =>
        let r := rest.foldl (fun (acc : Outcome DCt) c =>
          bind acc fun d =>
            bind (addAssignData N false d c) fun g2 =>
            match addCtAssign env d.ct c.ct with
            | .ok m2 => .ok ⟨g2, m2.md⟩
            | _ => .panic "model") (.ok ⟨g1, m1.md⟩)
        bind r fun d => bind (glweNormalizeAssign N d.g) fun g' => .ok ⟨g', m⟩
      | _ => .panic "model"

/-- a scratch ciphertext with `dst`'s layout (`take_mul_tmp`); its limbs are overwritten before they are read -/
def tmpLike (N : Nat) (dst : DCt) : DCt :=
  ⟨{ dst.g with cols := zeroC N dst.g.cols.length dst.g.size }, ⟨0, 0⟩⟩

/-- a scratch ciphertext of `k` bits (`take_glwe_slice`) -/
def bufOfK (env : Env) (N : Nat) (like : DCt) (k : Nat) : DCt :=
  ⟨{ like.g with k := k, cols := zeroC N like.g.cols.length (divCeil k env.base2k) }, ⟨0, 0⟩⟩

/-- `ckks_mul_{add,sub}_*_into`: the product into `take_mul_tmp(dst)`, then `ckks_{add,sub}_assign(dst, tmp)` -/
def dMulAddWith (env : Env) (N : Nat) (sub : Bool) (dst : DCt) (prod : DCt → Outcome DCt) : Outcome DCt :=
  bind (prod (tmpLike N dst)) fun tmp => dAddAssign env N sub dst tmp

/-- `accumulate_unnormalized`: every further product goes into a temporary and is added without normalisation -/
def dAccumulate (env : Env) (N : Nat) (first : Outcome DCt) (terms : List (DCt → Outcome DCt)) : Outcome DCt :=
  let r := terms.foldl (fun (acc : Outcome DCt) t =>
    bind acc fun d =>
      bind (t (tmpLike N d)) fun tmp =>
      bind (addAssignData N false d tmp) fun g2 =>
      match addCtAssign env d.ct tmp.ct with
      | .ok m2 => .ok ⟨g2, m2.md⟩
      | _ => .panic "model") first
  if terms.isEmpty then first
  else bind r fun d => bind (glweNormalizeAssign N d.g) fun g' => .ok ⟨g', d.md⟩

/-- the operand of the fused path of `ckks_dot_product_ct`: the input when its side is aligned, else its
`ckks_rescale_into` copy in a buffer of `target` bits -/
def dotOperandData (env : Env) (N : Nat) (aligned : Bool) (target minB : Nat) (c : DCt) : Outcome DCt :=
  if aligned then .ok c else dRescaleInto env N (bufOfK env N c target) (c.md.logBudget - minB) c

def mapMO {α β : Type} (f : α → Outcome β) : List α → Outcome (List β)
  | [] => .ok []
  | x :: xs => bind (f x) fun y => bind (mapMO f xs) fun ys => .ok (y :: ys)

/-- `ckks_dot_product_ct(dst, a, b, tsk)` -/
def dDotCt (env : Env) (N : Nat) (mk : MulKey) (dst : DCt) (as bs : List DCt) : Outcome DCt :=
  withMeta (dotCt env dst.ct (as.map DCt.ct) (bs.map DCt.ct)) fun m =>
    match as, bs with
    | a0 :: ta, b0 :: tb =>
      if ta.isEmpty then dMulInto env N mk dst a0 b0 else
      let acs := as.map DCt.ct
      let bcs := bs.map DCt.ct
      let aMin := minBudget acs
      let bMin := minBudget bcs
      let aAligned := acs.all (fun c => c.md.logBudget == aMin && c.md.logDelta == a0.md.logDelta)
      let bAligned := bcs.all (fun c => c.md.logBudget == bMin && c.md.logDelta == b0.md.logDelta)
      let uniform := acs.all (fun c => c.md.logDelta == a0.md.logDelta) && bcs.all (fun c => c.md.logDelta == b0.md.logDelta)
      if !uniform then
        dAccumulate env N (dMulInto env N mk dst a0 b0) ((ta.zip tb).map (fun (ab : DCt × DCt) => fun t => dMulInto env N mk t ab.1 ab.2))
      else
        let aT := aMin + a0.md.logDelta
        let bT := bMin + b0.md.logDelta
        bind (mapMO (dotOperandData env N aAligned aT aMin) as) fun as' =>
        bind (mapMO (dotOperandData env N bAligned bT bMin) bs) fun bs' =>
        let ts := divCeil (max aT bT) env.base2k
        let lhr0 := min aMin bMin - max a0.md.logDelta b0.md.logDelta
        let ro := (lhr0 + min a0.md.logDelta b0.md.logDelta) - dst.ct.maxK env
        let cnv := max aMin bMin + max a0.md.logDelta b0.md.logDelta + ro
        let tens : Option (List Col) := (as'.zip bs').foldl (fun (acc : Option (List Col) × Bool) (ab : DCt × DCt) =>
          (acc.1.bind (fun t => Core.tensorApply acc.2 mk.big N env.base2k ts cnv env.base2k (effCols env.base2k aT ab.1.g) aT
            (effCols env.base2k bT ab.2.g) bT t), true)) (some (zeroC N (tensorCols a0.g) ts), false) |>.1
        ofOpt (tens.bind (relinData mk N env.base2k dst.g.size)) fun cols => .ok ⟨{ dst.g with cols := cols }, m⟩
    | _, _ => .panic "model"

/-- `mul_many_rec`: one input is an aligned copy, two a product, more a balanced tree whose halves go to scratch ciphertexts of
`min effective_k − ⌈log₂ len⌉·log_delta` bits (`take_glwe`); `fuel` ≥ number of inputs -/
def dMulManyRec (env : Env) (N : Nat) (mk : MulKey) : Nat → DCt → List DCt → Outcome DCt
  | 0, _, _ => .panic "model"
  | fuel + 1, dst, ins =>
    match ins with
    | [] => .panic "model"
    | [x] => dMulPow2Into env N dst x 0
    | [x, y] => dMulInto env N mk dst x y
    | a :: b :: c :: rest =>
      let all := a :: b :: c :: rest
      let mid := all.length / 2
      let left := all.take mid
      let right := all.drop mid
      let δ := a.md.logDelta
      let lk := minEff (left.map DCt.ct) - ceilLog2 left.length * δ
      let rk := minEff (right.map DCt.ct) - ceilLog2 right.length * δ
      bind (dMulManyRec env N mk fuel (bufOfK env N dst lk) left) fun l =>
      bind (dMulManyRec env N mk fuel (bufOfK env N dst rk) right) fun r =>
      dMulInto env N mk dst l r

/-- `ckks_mul_many(dst, inputs, tsk)` -/
def dMulMany (env : Env) (N : Nat) (mk : MulKey) (dst : DCt) (ins : List DCt) : Outcome DCt :=
  withMeta (mulMany env dst.ct (ins.map DCt.ct)) fun m =>
    bind (dMulManyRec env N mk (ins.length + 1) dst ins) fun c => .ok ⟨c.g, m⟩

/-- `ckks_dot_product_pt_vec_znx(dst, a, pt)` -/
def dDotPt (env : Env) (N : Nat) (big : Bool) (dst : DCt) (as : List DCt) (pt : Pt) (pgs : List Col) : Outcome DCt :=
  withMeta (withPt env pt dst.ct (dotPtZnx env dst.ct (as.map DCt.ct) pt)) fun _ =>
    match as.zip pgs with
    | [] => .panic "model"
    | (a0, p0) :: rest =>
      dAccumulate env N (dMulPtInto env N big dst a0 pt p0)
        (rest.map (fun (ap : DCt × Col) => fun t => dMulPtInto env N big t ap.1 pt ap.2))

/-! ## rotation and conjugation (`leveled/default/{rotate,conjugate}.rs`) -/

/-- the automorphism keys of a run: rotation index `k` ↦ key of `galois_element(k)`; `conj` the key of `-1` -/
structure AutKeys where
  rot : List (Int × Ks.Key)
  conj : Option Ks.Key

def AutKeys.get (ks : AutKeys) (k : Int) : Option Ks.Key := (ks.rot.find? (fun p => p.1 == k)).map (·.2)

/-- `glwe_automorphism(dst, a, key)` resp. `glwe_lsh(dst, a, offset)` + `glwe_automorphism_assign(dst, key)`, on C03's executable
model `Ks.automorphism` (key switch including the radix conversions, then `vec_znx_automorphism_assign(key.p)` on every column) -/
def autData (env : Env) (N : Nat) (big : Bool) (key : Ks.Key) (dst a : DCt) : Outcome GLWE :=
  if offsetUnary env dst.ct a.ct ≠ 0 then
    bind (glweLsh N dst.g a.g (unaryShift env dst.ct a.ct 0)) fun g1 =>
      Ks.automorphism big g1.base2k g1.size g1.rank g1 key
  else Ks.automorphism big dst.g.base2k dst.g.size dst.g.rank a.g key

/-- `ckks_rotate_into(dst, src, k, keys)` -/
def dRotateInto (env : Env) (N : Nat) (big : Bool) (ks : AutKeys) (dst a : DCt) (k : Int) : Outcome DCt :=
  withMeta (rotateInto env dst.ct a.ct k) fun m =>
    match ks.get k with
    | none => .panic "model"
    | some key => bind (autData env N big key dst a) fun g' => .ok ⟨g', m⟩

/-- `ckks_rotate_assign(dst, k, keys)`: `glwe_automorphism_assign` -/
def dRotateAssign (env : Env) (_N : Nat) (big : Bool) (ks : AutKeys) (c : DCt) (k : Int) : Outcome DCt :=
  withMeta (rotateAssign env c.ct k) fun m =>
    match ks.get k with
    | none => .panic "model"
    | some key => bind (Ks.automorphism big c.g.base2k c.g.size c.g.rank c.g key) fun g' => .ok ⟨g', m⟩

/-- `ckks_conjugate_into(dst, src, key)` (metadata of `mul_pow2_into` with `bits = 0`) -/
def dConjInto (env : Env) (N : Nat) (big : Bool) (ks : AutKeys) (dst a : DCt) : Outcome DCt :=
  withMeta (mulPow2Into env dst.ct a.ct 0) fun m =>
    match ks.conj with
    | none => .panic "model"
    | some key => bind (autData env N big key dst a) fun g' => .ok ⟨g', m⟩

/-- `ckks_conjugate_assign(dst, key)` -/
def dConjAssign (_env : Env) (_N : Nat) (big : Bool) (ks : AutKeys) (c : DCt) : Outcome DCt :=
  match ks.conj with
  | none => .panic "model"
  | some key => bind (Ks.automorphism big c.g.base2k c.g.size c.g.rank c.g key) fun g' => .ok ⟨g', c.md⟩

/-! ## programs with multiplications and composites (executed and tied; the linear calls are `dstep`) -/

inductive XOp where
  | lin (op : LOp)
  | mul (d a b : Nat)
  | mulAssign (d a : Nat)
  | square (d a : Nat)
  | squareAssign (d : Nat)
  | mulPt (d a : Nat) (pt : Pt) (pg : Col)
  | mulPtAssign (d : Nat) (pt : Pt) (pg : Col)
  | mulAdd (sub : Bool) (d a b : Nat)
  | mulAddPt (sub : Bool) (d a : Nat) (pt : Pt) (pg : Col)
  | addMany (d : Nat) (as : List Nat)
  | mulMany (d : Nat) (as : List Nat)
  | dotCt (d : Nat) (as bs : List Nat)
  | dotPt (d : Nat) (as : List Nat) (pt : Pt) (pgs : List Col)
  | rot (d a : Nat) (k : Int)
  | rotAssign (d : Nat) (k : Int)
  | conj (d a : Nat)
  | conjAssign (d : Nat)
deriving Repr

/-- all source slots exist and none is the destination -/
def dgetAll (pool : DPool) (d : Nat) : List Nat → Option (List DCt)
  | [] => some []
  | a :: as =>
    if a = d then none
    else
      match pool[a]?, dgetAll pool d as with
      | some c, some cs => some (c :: cs)
      | _, _ => none

def dopN (pool : DPool) (d : Nat) (as : List Nat) (f : DCt → List DCt → Outcome DCt) : Outcome DPool :=
  match pool[d]?, dgetAll pool d as with
  | some cd, some cs => dput pool d (f cd cs)
  | _, _ => .err Err.badSlot.toString

def xstep (env : Env) (N : Nat) (mk : MulKey) (ak : AutKeys) (pool : DPool) : XOp → Outcome DPool
  | .lin op => dstep env N pool op
  | .mul d a b => dop3 pool d a b (dMulInto env N mk)
  | .mulAssign d a => dop2 pool d a (fun cd ca => dMulInto env N mk cd cd ca)
  | .square d a => dop2 pool d a (dSquareInto env N mk)
  | .squareAssign d => dop1 pool d (fun cd => dSquareInto env N mk cd cd)
  | .mulPt d a pt pg => dop2 pool d a (fun cd ca => dMulPtInto env N mk.big cd ca pt pg)
  | .mulPtAssign d pt pg => dop1 pool d (fun cd => dMulPtInto env N mk.big cd cd pt pg)
  | .mulAdd sub d a b => dop3 pool d a b (fun cd ca cb => dMulAddWith env N sub cd (fun t => dMulInto env N mk t ca cb))
  | .mulAddPt sub d a pt pg => dop2 pool d a (fun cd ca => dMulAddWith env N sub cd (fun t => dMulPtInto env N mk.big t ca pt pg))
  | .addMany d as => dopN pool d as (dAddMany env N)
  | .mulMany d as => dopN pool d as (dMulMany env N mk)
  | .dotCt d as bs =>
    match pool[d]?, dgetAll pool d as, dgetAll pool d bs with
    | some cd, some xs, some ys => dput pool d (dDotCt env N mk cd xs ys)
    | _, _, _ => .err Err.badSlot.toString
  | .dotPt d as pt pgs => dopN pool d as (fun cd cs => dDotPt env N mk.big cd cs pt pgs)
  | .rot d a k => dop2 pool d a (fun cd ca => dRotateInto env N mk.big ak cd ca k)
  | .rotAssign d k => dop1 pool d (fun cd => dRotateAssign env N mk.big ak cd k)
  | .conj d a => dop2 pool d a (dConjInto env N mk.big ak)
  | .conjAssign d => dop1 pool d (dConjAssign env N mk.big ak)

end Ckks
