import Poulpy.Model.Basic
/-
Lane-level model of the AVX2 slice kernels of `poulpy-cpu-avx` and of the reference kernels they
must agree with (C10).  Import-free apart from `Model.Basic`; everything is executable and is what
`Driver/Avx.lean` runs.

Conventions
* `W = BitVec 64` is one 64-bit lane of a `__m256i` and also a Rust `i64`/`u64`/`usize`; Rust
  arithmetic in the harness profile (`overflow-checks = false`) is wrapping, i.e. `BitVec`
  arithmetic.  A Rust shift `x << s` / `x >> s` on a 64-bit integer uses `s mod 64` in that profile
  (`rshl` / `rsar`); on a 128-bit integer `s mod 128`.
* An AVX2 intrinsic on 64-bit lanes is the function below with the same name (Intel pseudo-code,
  one lane).  Cross-lane intrinsics (`unpacklo/hi_epi64`, `permute4x64_epi64`) act on `V4`.
* A slice kernel is a lane function `Lane` applied by `runRef` (the `zip`/index loops of the
  reference) or by `runAvx` (main loop over `span = n >> 2` vectors of four lanes, then the
  *reference* kernel on the tail `[span << 2 ..]` when `n` is not a multiple of 4 — every AVX kernel
  of `znx_avx/{normalization,add,sub,neg,mul}.rs` handles its tail that way).
* Lane = `(x, a, c) ↦ (x', c')`: `x` the first mutable slice, `a` the read-only operand, `c` the
  second mutable slice (carry / `src`).  Unused components are passed through unchanged.
-/

namespace Avx

scoped notation "W" => BitVec 64
scoped notation "W128" => BitVec 128

/-! ## Intrinsics (one 64-bit lane) -/

def allOnes : W := BitVec.allOnes 64
def setzero_si256 : W := 0#64
def add_epi64 (a b : W) : W := a + b
def sub_epi64 (a b : W) : W := a - b
def and_si256 (a b : W) : W := a &&& b
def or_si256 (a b : W) : W := a ||| b
def xor_si256 (a b : W) : W := a ^^^ b
def andnot_si256 (a b : W) : W := ~~~a &&& b
/-- `_mm256_cmpgt_epi64(a, b)`: all-ones where `a > b` signed -/
def cmpgt_epi64 (a b : W) : W := if BitVec.slt b a then allOnes else 0#64
def cmpeq_epi64 (a b : W) : W := if a = b then allOnes else 0#64
/-- `_mm256_srlv_epi64`: per-lane logical right shift, counts ≥ 64 give 0 -/
def srlv_epi64 (a cnt : W) : W := if cnt < 64#64 then a >>> cnt else 0#64
/-- `_mm256_sllv_epi64`: per-lane left shift, counts ≥ 64 give 0 -/
def sllv_epi64 (a cnt : W) : W := if cnt < 64#64 then a <<< cnt else 0#64
/-- `_mm256_sll_epi64(a, count)`: `count` = low 64 bits of the `__m128i`; > 63 gives 0 -/
def sll_epi64 (a cnt : W) : W := if cnt < 64#64 then a <<< cnt else 0#64
def srl_epi64 (a cnt : W) : W := if cnt < 64#64 then a >>> cnt else 0#64
/-- `_mm256_srli_epi64(a, imm8)` -/
def srli_epi64 (a : W) (imm : Nat) : W := if imm < 64 then a >>> imm else 0#64
/-- `_mm256_blendv_epi8(a, b, mask)` on one 64-bit lane whose mask bytes all carry the same top bit -/
def blendv_epi8 (a b mask : W) : W := if mask.msb then b else a
/-- low 64 bits of `_mm_cvtsi32_si128(k as i32)` for a 64-bit `k`: the low 32 bits, zero-extended -/
def cvtsi32_si128 (k : W) : W := (k.truncate 32).zeroExtend 64
/-- low 64 bits of `_mm_cvtsi64_si128(v as i64)` for a `u32` value -/
def cvtsi64_si128 (v : BitVec 32) : W := v.zeroExtend 64
/-- `_mm256_shuffle_epi32(v, 0xF5)` on one 64-bit lane: the high dword copied to both dwords -/
def shuffle_epi32_F5 (v : W) : W := (v.extractLsb' 32 32) ++ (v.extractLsb' 32 32)
/-- `_mm256_srai_epi32(v, 31)` on the two dwords of one 64-bit lane -/
def srai_epi32_31 (v : W) : W :=
  ((v.extractLsb' 32 32).sshiftRight 31) ++ ((v.extractLsb' 0 32).sshiftRight 31)

/-! ## Rust scalar operators (harness profile) -/

def rshl (x s : W) : W := x <<< (s &&& 63#64)
def rsar (x s : W) : W := x.sshiftRight' (s &&& 63#64)
def rshl128 (x : W128) (s : W) : W128 := x <<< ((s &&& 127#64).zeroExtend 128)
def rsar128 (x : W128) (s : W) : W128 := x.sshiftRight' ((s &&& 127#64).zeroExtend 128)

/-- `get_digit_i64(base2k, x) = (x << (64 - base2k as u32)) >> (64 - base2k as u32)`; the `u32`
subtraction and the masking of the shift amount only see `base2k mod 64`. -/
def getDigit (b x : W) : W := rsar (rshl x (64#64 - b)) (64#64 - b)
/-- `get_carry_i64(base2k, x, digit) = x.wrapping_sub(digit) >> base2k` -/
def getCarry (b x d : W) : W := rsar (x - d) b
def getDigit128 (b : W) (x : W128) : W128 := rsar128 (rshl128 x (128#64 - b)) (128#64 - b)
def getCarry128 (b : W) (x d : W128) : W128 := rsar128 (x - d) b

/-- `o = Outcome.ok v`, decidably (used by the non-vacuity examples and the driver) -/
def isOkWith {α : Type} [DecidableEq α] (o : Outcome α) (v : α) : Bool :=
  match o with
  | .ok r => decide (r = v)
  | _ => false

/-! ## Lanes -/

abbrev Lane := W → W → W → W × W

/-- the radix the first digit extraction uses: `base2k` when `lsh == 0`, else `base2k - lsh` -/
def bLsh (b lsh : W) : W := if lsh = 0#64 then b else b - lsh
/-- `digit` when `lsh == 0`, else `digit << lsh` -/
def shlIf (lsh d : W) : W := if lsh = 0#64 then d else rshl d lsh

/-! ### reference kernels (`poulpy-cpu-ref/src/reference/znx/normalization.rs`), one element -/
namespace Ref

def firstCarryOnly (b lsh : W) : Lane := fun x _ _ =>
  (x, getCarry (bLsh b lsh) x (getDigit (bLsh b lsh) x))

def firstAssign (b lsh : W) : Lane := fun x _ _ =>
  let d := getDigit (bLsh b lsh) x
  (shlIf lsh d, getCarry (bLsh b lsh) x d)

def first (ow : Bool) (b lsh : W) : Lane := fun x a _ =>
  let d := getDigit (bLsh b lsh) a
  let c := getCarry (bLsh b lsh) a d
  (if ow then shlIf lsh d else x + shlIf lsh d, c)

/-- shared body of the middle steps on the operand `v`: `(x1, carry_out)` -/
def middleCore (b lsh v c : W) : W × W :=
  let d := getDigit (bLsh b lsh) v
  let cr := getCarry (bLsh b lsh) v d
  let dpc := shlIf lsh d + c
  let x1 := getDigit b dpc
  (x1, cr + getCarry b dpc x1)

def middleCarryOnly (b lsh : W) : Lane := fun x _ c => (x, (middleCore b lsh x c).2)
def middleAssign (b lsh : W) : Lane := fun x _ c => middleCore b lsh x c
def middle (ow : Bool) (b lsh : W) : Lane := fun x a c =>
  let r := middleCore b lsh a c
  (if ow then r.1 else x + r.1, r.2)
def middleSub (b lsh : W) : Lane := fun x a c =>
  let r := middleCore b lsh a c
  (x - r.1, r.2)

def finalCore (b lsh v c : W) : W := getDigit b (shlIf lsh (getDigit (bLsh b lsh) v) + c)
def finalAssign (b lsh : W) : Lane := fun x _ c => (finalCore b lsh x c, c)
def final (ow : Bool) (b lsh : W) : Lane := fun x a c =>
  (if ow then finalCore b lsh a c else x + finalCore b lsh a c, c)
def finalSub (b lsh : W) : Lane := fun x a c => (x - finalCore b lsh a c, c)

/-- `znx_extract_digit_addmul_ref(base2k, lsh, res = x, src = c)` -/
def extractDigitAddmul (b lsh : W) : Lane := fun r _ s =>
  let d := getDigit b s
  (r + rshl d lsh, getCarry b s d)

/-- `znx_normalize_digit_ref(base2k, res = x, src = c)` -/
def normalizeDigit (b : W) : Lane := fun r _ s =>
  let d := getDigit b r
  (d, s + getCarry b r d)

/-- `add.rs`, `sub.rs`, `neg.rs`; the three-address forms read `a` and `c` (as `b`) -/
def add : Lane := fun _ a c => (a + c, c)
def addAssign : Lane := fun x a c => (x + a, c)
def sub : Lane := fun _ a c => (a - c, c)
def subAssign : Lane := fun x a c => (x - a, c)
def subNegateAssign : Lane := fun x a c => (a - x, c)
def negate : Lane := fun _ a c => (-a, c)
def negateAssign : Lane := fun x _ c => (-x, c)

/-- `mul.rs`: value of one element for `k ≠ 0` (the `k == 0` copy is decided at slice level) -/
def mulPow2Val (k v : W) : W :=
  if BitVec.slt 0#64 k then rshl v k
  else
    let k' := -k
    let signBit := rsar v 63#64 &&& 1#64
    let bias := rshl 1#64 (k' - 1#64) - signBit
    rsar (v + bias) k'

def mulPow2 (k : W) : Lane := fun _ a c => (if k = 0#64 then a else mulPow2Val k a, c)
def mulPow2Assign (k : W) : Lane := fun x _ c => (if k = 0#64 then x else mulPow2Val k x, c)
def mulAddPow2 (k : W) : Lane := fun x a c => (if k = 0#64 then x + a else x + mulPow2Val k a, c)

end Ref

/-! ### AVX kernels (`poulpy-cpu-avx/src/znx_avx/normalization.rs` …), one lane of the main loop -/
namespace Vec

structure Consts where
  mask : W
  sign : W
  sh : W
  top : W

/-- `normalize_consts_avx(base2k)` (its `assert!((1..=63).contains(&base2k))` is `constsOk`) -/
def mkConsts (b : W) : Consts :=
  { mask := (1#64 <<< b) - 1#64, sign := 1#64 <<< (b - 1#64), sh := b, top := (~~~ 0#64) <<< (64#64 - b) }
def constsOk (b : W) : Bool := decide (1#64 ≤ b) && decide (b ≤ 63#64)

def getDigitAvx (x : W) (k : Consts) : W :=
  let low := and_si256 x k.mask
  let t := xor_si256 low k.sign
  sub_epi64 t k.sign

def getCarryAvx (x digit : W) (k : Consts) : W :=
  let diff := sub_epi64 x digit
  let lsr := srlv_epi64 diff k.sh
  let neg := cmpgt_epi64 setzero_si256 diff
  let fill := and_si256 neg k.top
  or_si256 lsr fill

/-- the constants of the first digit extraction: `base2k` if `lsh == 0` else `base2k - lsh` -/
def kLsh (b lsh : W) : Consts := if lsh = 0#64 then mkConsts b else mkConsts (b - lsh)
/-- `digit` if `lsh == 0` else `_mm256_sllv_epi64(digit, set1(lsh))` -/
def sllIf (lsh d : W) : W := if lsh = 0#64 then d else sllv_epi64 d lsh

def firstCarryOnly (b lsh : W) : Lane := fun x _ _ =>
  let k := kLsh b lsh
  let d := getDigitAvx x k
  (x, getCarryAvx x d k)

def firstAssign (b lsh : W) : Lane := fun x _ _ =>
  let k := kLsh b lsh
  let d := getDigitAvx x k
  (sllIf lsh d, getCarryAvx x d k)

def first (ow : Bool) (b lsh : W) : Lane := fun x a _ =>
  let k := kLsh b lsh
  let d := getDigitAvx a k
  let c := getCarryAvx a d k
  (if ow then sllIf lsh d else add_epi64 x (sllIf lsh d), c)

def middleCore (b lsh v cv : W) : W × W :=
  let k := mkConsts b
  let kl := kLsh b lsh
  let d0 := getDigitAvx v kl
  let c0 := getCarryAvx v d0 kl
  let s := add_epi64 (sllIf lsh d0) cv
  let x1 := getDigitAvx s k
  let c1 := getCarryAvx s x1 k
  (x1, add_epi64 c0 c1)

def middleCarryOnly (b lsh : W) : Lane := fun x _ c => (x, (middleCore b lsh x c).2)
def middleAssign (b lsh : W) : Lane := fun x _ c => middleCore b lsh x c
def middle (ow : Bool) (b lsh : W) : Lane := fun x a c =>
  let r := middleCore b lsh a c
  (if ow then r.1 else add_epi64 x r.1, r.2)
def middleSub (b lsh : W) : Lane := fun x a c =>
  let r := middleCore b lsh a c
  (sub_epi64 x r.1, r.2)

def finalCore (b lsh v cv : W) : W :=
  let k := mkConsts b
  let d0 := getDigitAvx v (kLsh b lsh)
  let s := add_epi64 (sllIf lsh d0) cv
  getDigitAvx s k
def finalAssign (b lsh : W) : Lane := fun x _ c => (finalCore b lsh x c, c)
def final (ow : Bool) (b lsh : W) : Lane := fun x a c =>
  (if ow then finalCore b lsh a c else add_epi64 x (finalCore b lsh a c), c)
def finalSub (b lsh : W) : Lane := fun x a c => (sub_epi64 x (finalCore b lsh a c), c)

/-- `znx_extract_digit_addmul_avx`: always `sllv` by `lsh` (no `lsh == 0` branch) -/
def extractDigitAddmul (b lsh : W) : Lane := fun r _ s =>
  let k := mkConsts b
  let d := getDigitAvx s k
  let c := getCarryAvx s d k
  (add_epi64 r (sllv_epi64 d lsh), c)

def normalizeDigit (b : W) : Lane := fun r _ s =>
  let k := mkConsts b
  let d := getDigitAvx r k
  let c := getCarryAvx r d k
  (d, add_epi64 s c)

def add : Lane := fun _ a c => (add_epi64 a c, c)
def addAssign : Lane := fun x a c => (add_epi64 x a, c)
def sub : Lane := fun _ a c => (sub_epi64 a c, c)
def subAssign : Lane := fun x a c => (sub_epi64 x a, c)
def subNegateAssign : Lane := fun x a c => (sub_epi64 a x, c)
def negate : Lane := fun _ a c => (sub_epi64 setzero_si256 a, c)
def negateAssign : Lane := fun x _ c => (sub_epi64 setzero_si256 x, c)

/-- `mul.rs`, `k ≠ 0`: left shift through `_mm256_sll_epi64(x, _mm_cvtsi32_si128(k as i32))`, or the
rounding right shift emulated with `srl` + sign fill -/
def mulPow2Val (k v : W) : W :=
  if BitVec.slt 0#64 k then sll_epi64 v (cvtsi32_si128 k)
  else
    let kp := -k
    let cntRight := cvtsi32_si128 kp
    let biasBase := rshl 1#64 (kp - 1#64)
    let topMask := rshl (-1#64) (64#64 - kp)
    let signBit := srli_epi64 v 63
    let bias := sub_epi64 biasBase signBit
    let t := add_epi64 v bias
    let lsr := srl_epi64 t cntRight
    let neg := cmpgt_epi64 setzero_si256 t
    let fill := and_si256 neg topMask
    or_si256 lsr fill

def mulPow2 (k : W) : Lane := fun _ a c => (if k = 0#64 then a else mulPow2Val k a, c)
def mulPow2Assign (k : W) : Lane := fun x _ c => (if k = 0#64 then x else mulPow2Val k x, c)
def mulAddPow2 (k : W) : Lane := fun x a c =>
  (if k = 0#64 then add_epi64 x a else add_epi64 x (mulPow2Val k a), c)
/-- `debug_assert!(k <= 63)` for `k > 0`, `assert!((1..=63).contains(&kp))` for `k < 0` -/
def pow2Ok (k : W) : Bool := BitVec.sle (-63#64) k && BitVec.sle k 63#64

end Vec

/-! ## Loop structure -/

/-- indices handled by the main loop: vector `i < n >> 2` covers `4i, 4i+1, 4i+2, 4i+3` -/
def mainIdx (n : Nat) : List Nat := (List.range (n >>> 2)).flatMap (fun i => [4 * i, 4 * i + 1, 4 * i + 2, 4 * i + 3])
/-- indices handled by the scalar tail `[span << 2 ..]`, entered only if `!n.is_multiple_of(4)` -/
def tailIdx (n : Nat) : List Nat :=
  if n % 4 ≠ 0 then List.range' ((n >>> 2) <<< 2) (n - ((n >>> 2) <<< 2)) else []

/-- reference slice kernel: element-wise over the zipped operands -/
def runRef (f : Lane) (l : List (W × W × W)) : List (W × W) := l.map (fun t => f t.1 t.2.1 t.2.2)

/-- AVX slice kernel: `span` vectors of four lanes through `fv`, then the reference kernel `fr` on
the tail slice when the length is not a multiple of four -/
def runAvx (fv fr : Lane) (l : List (W × W × W)) : List (W × W) :=
  let n := l.length
  let span := n >>> 2
  (List.range span).flatMap (fun i => ((l.drop (4 * i)).take 4).map (fun t => fv t.1 t.2.1 t.2.2))
    ++ (if n % 4 ≠ 0 then runRef fr (l.drop (span <<< 2)) else [])

/-! ## Slice kernels with their entry assertions

`op` names are the harness/driver wire names.  `params` = `(b, lsh, k, ow)`. -/

structure Params where
  b : W := 0
  lsh : W := 0
  k : W := 0
  ow : Bool := false

def refLane (op : String) (p : Params) : Option Lane :=
  match op with
  | "first_carry_only" => some (Ref.firstCarryOnly p.b p.lsh)
  | "first_assign" => some (Ref.firstAssign p.b p.lsh)
  | "first" => some (Ref.first p.ow p.b p.lsh)
  | "middle_carry_only" => some (Ref.middleCarryOnly p.b p.lsh)
  | "middle_assign" => some (Ref.middleAssign p.b p.lsh)
  | "middle" => some (Ref.middle p.ow p.b p.lsh)
  | "middle_sub" => some (Ref.middleSub p.b p.lsh)
  | "final_assign" => some (Ref.finalAssign p.b p.lsh)
  | "final" => some (Ref.final p.ow p.b p.lsh)
  | "final_sub" => some (Ref.finalSub p.b p.lsh)
  | "extract_digit_addmul" => some (Ref.extractDigitAddmul p.b p.lsh)
  | "normalize_digit" => some (Ref.normalizeDigit p.b)
  | "add" => some Ref.add
  | "add_assign" => some Ref.addAssign
  | "sub" => some Ref.sub
  | "sub_assign" => some Ref.subAssign
  | "sub_negate_assign" => some Ref.subNegateAssign
  | "negate" => some Ref.negate
  | "negate_assign" => some Ref.negateAssign
  | "mul_pow2" => some (Ref.mulPow2 p.k)
  | "mul_pow2_assign" => some (Ref.mulPow2Assign p.k)
  | "muladd_pow2" => some (Ref.mulAddPow2 p.k)
  | _ => none

def vecLane (op : String) (p : Params) : Option Lane :=
  match op with
  | "first_carry_only" => some (Vec.firstCarryOnly p.b p.lsh)
  | "first_assign" => some (Vec.firstAssign p.b p.lsh)
  | "first" => some (Vec.first p.ow p.b p.lsh)
  | "middle_carry_only" => some (Vec.middleCarryOnly p.b p.lsh)
  | "middle_assign" => some (Vec.middleAssign p.b p.lsh)
  | "middle" => some (Vec.middle p.ow p.b p.lsh)
  | "middle_sub" => some (Vec.middleSub p.b p.lsh)
  | "final_assign" => some (Vec.finalAssign p.b p.lsh)
  | "final" => some (Vec.final p.ow p.b p.lsh)
  | "final_sub" => some (Vec.finalSub p.b p.lsh)
  | "extract_digit_addmul" => some (Vec.extractDigitAddmul p.b p.lsh)
  | "normalize_digit" => some (Vec.normalizeDigit p.b)
  | "add" => some Vec.add
  | "add_assign" => some Vec.addAssign
  | "sub" => some Vec.sub
  | "sub_assign" => some Vec.subAssign
  | "sub_negate_assign" => some Vec.subNegateAssign
  | "negate" => some Vec.negate
  | "negate_assign" => some Vec.negateAssign
  | "mul_pow2" => some (Vec.mulPow2 p.k)
  | "mul_pow2_assign" => some (Vec.mulPow2Assign p.k)
  | "muladd_pow2" => some (Vec.mulAddPow2 p.k)
  | _ => none

/-- the step kernels (`first*`, `middle*`, `final*`) carry `assert!(lsh < base2k)` under
`debug_assertions` in both implementations -/
def isFirst (op : String) : Bool := ["first_carry_only", "first_assign", "first"].contains op
def isMidFin (op : String) : Bool :=
  ["middle_carry_only", "middle_assign", "middle", "middle_sub", "final_assign", "final", "final_sub"].contains op
def isStep (op : String) : Bool := isFirst op || isMidFin op
def isNorm (op : String) : Bool := isStep op || op == "extract_digit_addmul" || op == "normalize_digit"
def isMul (op : String) : Bool := ["mul_pow2", "mul_pow2_assign", "muladd_pow2"].contains op

/-- which radices `normalize_consts_avx` is called with by the AVX kernel `op` -/
def constsCalls (op : String) (p : Params) : List W :=
  if isFirst op then [if p.lsh = 0#64 then p.b else p.b - p.lsh]
  else if isMidFin op then
    if p.lsh = 0#64 then [p.b] else [p.b, p.b - p.lsh]
  else if op == "extract_digit_addmul" || op == "normalize_digit" then [p.b]
  else []

/-- reference slice kernel as called by the harness (release profile + debug assertions) -/
def sliceRef (op : String) (p : Params) (l : List (W × W × W)) : Outcome (List (W × W)) :=
  match refLane op p with
  | none => .err "bad-op"
  | some f =>
    if isStep op && !(decide (p.lsh < p.b)) then .panic "assert"
    else .ok (runRef f l)

/-- AVX slice kernel as called by the harness.  Order of checks as in the Rust: the
`debug_assertions` block, then (for `mul`) the early returns on `n == 0` / `k == 0`, the
`debug_assert!(k <= 63)` / `assert!((1..=63).contains(&kp))`, and `normalize_consts_avx`'s assert
(evaluated before the loops, whatever the length). -/
def sliceAvx (op : String) (p : Params) (l : List (W × W × W)) : Outcome (List (W × W)) :=
  match vecLane op p, refLane op p with
  | some fv, some fr =>
    if isStep op && !(decide (p.lsh < p.b)) then .panic "assert"
    else if isNorm op && !((constsCalls op p).all Vec.constsOk) then .panic "assert"
    else if isMul op && !l.isEmpty && p.k != 0#64 && !(Vec.pow2Ok p.k) then .panic "assert"
    else .ok (runAvx fv fr l)
  | _, _ => .err "bad-op"

/-! ## Index kernels: `switch_ring.rs`, `automorphism.rs`

Slices are `List W`; reads/writes outside a slice are `Outcome.panic "bounds"` in the reference
(checked indexing); the AVX gathers/stores are raw pointer accesses, their in-range-ness is part of
the theorems. -/

def isPow2 (n : Nat) : Bool := n != 0 && (n &&& (n - 1)) == 0

/-- `a.iter().step_by(g)` -/
def stepBy (g : Nat) (a : List W) : List W :=
  (List.range ((a.length + g - 1) / g)).filterMap (fun i => a[i * g]?)

/-- write `vs[i]` at `res[i * g]` for `i < vs.length` while in range (`res.iter_mut().step_by(g).zip(vs)`) -/
def scatterStep (g : Nat) (res vs : List W) : List W :=
  (List.range vs.length).foldl (fun r i => match vs[i]? with
    | some v => if i * g < r.length then r.set (i * g) v else r
    | none => r) res

/-- `znx_switch_ring_ref(res, a)`; `res` only matters through its length and, on the down path,
through the elements the zip does not reach -/
def switchRingRef (res a : List W) : Outcome (List W) :=
  let nIn := a.length
  let nOut := res.length
  if !(isPow2 nIn) then .panic "assert"
  else if nIn.min nOut == 0 then .panic "assert"     -- `x.is_multiple_of(0)` is false for x ≠ 0
  else if (nIn.max nOut) % (nIn.min nOut) != 0 then .panic "assert"
  else if nIn == nOut then .ok a
  else if nIn > nOut then
    let vs := stepBy (nIn / nOut) a
    .ok ((vs.take nOut) ++ res.drop (vs.take nOut).length)
  else
    .ok (scatterStep (nOut / nIn) (List.replicate nOut 0#64) a)

/-- one strided store of the up path: `*p = x_i` at `res[i * gap_out]` -/
def upStore (a : List W) (gap : Nat) (r : List W) (i : Nat) : List W :=
  match a[i]? with
  | some v => r.set (i * gap) v
  | none => r

/-- `znx_switch_ring_avx(res, a)` -/
def switchRingAvx (res a : List W) : Outcome (List W) :=
  let nIn := a.length
  let nOut := res.length
  if !(isPow2 nIn) then .panic "assert"
  else if nIn.min nOut == 0 then .panic "assert"
  else if (nIn.max nOut) % (nIn.min nOut) != 0 then .panic "assert"
  else if nIn == nOut then .ok a
  else if nIn.min nOut < 4 then switchRingRef res a
  else if nIn > nOut then
    -- span = n_out >> 2 gathers of `a[base + step]`, base += 4·gap; no tail loop
    let gap := nIn / nOut
    let main := (List.range (nOut >>> 2)).flatMap (fun j =>
      [a[(4 * j) * gap]?, a[(4 * j + 1) * gap]?, a[(4 * j + 2) * gap]?, a[(4 * j + 3) * gap]?])
    if main.any Option.isNone then .panic "bounds"     -- a gather outside `a` (undefined behaviour)
    else .ok (main.filterMap id ++ res.drop (4 * (nOut >>> 2)))
  else
    -- zero, then for i in (0..n_in).step_by(4): four strided stores at (i + l)·gap
    let gap := nOut / nIn
    let idx := (List.range ((nIn + 3) / 4)).flatMap (fun j => [4 * j, 4 * j + 1, 4 * j + 2, 4 * j + 3])
    if idx.any (fun i => i ≥ nIn || i * gap ≥ nOut) then .panic "bounds"
    else .ok (idx.foldl (upStore a gap) (List.replicate nOut 0#64))

/-- loop body of `znx_automorphism_ref`: `k = (k + p_2n) & mask; if k < n { res[k] = a_i } else { res[k-n] = -a_i }` -/
def autoRefStep (n pp mask : Nat) (s : Nat × List W) (ai : W) : Nat × List W :=
  let k := (s.1 + pp) &&& mask
  (k, if k < n then s.2.set k ai else s.2.set (k - n) (-ai))

/-- `znx_automorphism_ref(p, res, a)`: scatter with a running index `k += p_2n (mod 2n)` -/
def automorphismRef (p : Int) (res a : List W) : Outcome (List W) :=
  let n := res.length
  if a.length != n then .panic "assert"
  else if n == 0 then .panic "bounds"                 -- `res[0] = a[0]`
  else
    let mask := 2 * n - 1
    let pp := ((BitVec.ofInt 64 p) &&& (BitVec.ofNat 64 mask)).toNat
    let r0 := res.set 0 (a.getD 0 0#64)
    let st := (a.drop 1).foldl (autoRefStep n pp mask) (0, r0)
    .ok st.2

/-- `inv_mod_pow2(p, bits)`: Hensel lifting, `i = 1, 2, 4, … < bits`, wrapping `usize` arithmetic -/
def invModPow2 (p : W) (bits : Nat) : W :=
  let rec go (fuel i : Nat) (x : W) : W :=
    match fuel with
    | 0 => x
    | fuel + 1 => if i < bits then go fuel (i <<< 1) (x * (2#64 - p * x)) else x
  (go 7 1 1#64) &&& ((1#64 <<< bits) - 1#64)

/-- one lane of the gather: `idx = t & (n−1)`, `sign_mask = cmpgt(t, n−1)`, `vals = a[idx]`,
`out = (vals ^ sign_mask) − sign_mask`; `none` = a gather outside `a` -/
def autoLane (a : List W) (n t : Nat) : Option W :=
  let idx := t &&& (n - 1)
  let signMask := cmpgt_epi64 (BitVec.ofNat 64 t) (BitVec.ofNat 64 (n - 1))
  (a[idx]?).map (fun v => sub_epi64 (xor_si256 v signMask) signMask)

/-- one iteration of the vector loop: four lanes `t = (t_base + lane_offset) & mask_2n`, then
`t_base = (t_base + step) & mask_2n`; state = `(t_base, lanes stored so far)` -/
def autoStep (a : List W) (n mask2n step : Nat) (off : List Nat) (s : Nat × List (Option W)) (_ : Nat) :
    Nat × List (Option W) :=
  ((s.1 + step) &&& mask2n, s.2 ++ off.map (fun o => autoLane a n ((s.1 + o) &&& mask2n)))

/-- `znx_automorphism_avx(p, res, a)`: gather with the inverse exponent -/
def automorphismAvx (p : Int) (res a : List W) : Outcome (List W) :=
  let n := res.length
  if a.length != n then .panic "assert"
  else if n == 0 then .ok res
  else if !(isPow2 n) then .panic "assert"
  else if p % 2 == 0 then .panic "assert"
  else if n < 4 then automorphismRef p res a
  else
    let twoN := n <<< 1
    let span := n >>> 2
    let bits := Nat.log2 twoN                          -- trailing_zeros of a power of two
    let mask2n := twoN - 1
    let pw : W := BitVec.ofInt 64 p
    let p2 : W := ((pw &&& BitVec.ofNat 64 mask2n) + BitVec.ofNat 64 twoN) &&& BitVec.ofNat 64 mask2n
    let inv := (invModPow2 p2 bits).toNat
    let off : List Nat := [0, inv, (inv * 2) &&& mask2n, (inv * 3) &&& mask2n]
    let step := (inv <<< 2) &&& mask2n
    let st := (List.range span).foldl (autoStep a n mask2n step off) (0, [])
    let out := st.2
    if out.any Option.isNone then .panic "bounds" else .ok (out.filterMap id)

/-! ## NTT120: `i128` kernels of `ntt120/vec_znx_big_avx.rs`

An `i128` is `hi ++ lo`; a vector register holds four lanes (`V4`). -/

def lo (x : W128) : W := x.truncate 64
def hi (x : W128) : W := x.extractLsb' 64 64
def join (l h : W) : W128 := h ++ l

namespace Ref128

/-- body shared by `nfc_middle_step{,_assign,_into}` on operand `v`: `(out as i64, carry')` -/
def middleCore (b lsh : W) (v c : W128) : W × W128 :=
  let bl := bLsh b lsh
  let d := getDigit128 bl v
  let co := getCarry128 bl v d
  let dpc := (if lsh = 0#64 then d else rshl128 d lsh) + c
  let out := getDigit128 b dpc
  (lo out, co + getCarry128 b dpc out)

/-- `nfc_mul_pow2_assign(power, x)` of `reference/ntt120/vec_znx_big.rs` (after fix eb1c1ea: rounding right
shift, as `znx_mul_power_of_two_assign_ref` = `Ref.mulPow2Assign` does for `i64` limbs) -/
def mulPow2Assign (power : W) (x : W128) : W128 :=
  if BitVec.slt 0#64 power then rshl128 x (power &&& 0xFFFFFFFF#64)
  else if BitVec.slt power 0#64 then
    let k := (-power) &&& 0xFFFFFFFF#64
    let signBit := rsar128 x 127#64 &&& 1#128
    let bias := rshl128 1#128 (k - 1#64) - signBit
    rsar128 (x + bias) k
  else x

def finalCore (b lsh : W) (r : W) (c : W128) : W :=
  let ri : W128 := r.signExtend 128
  let d := getDigit128 (bLsh b lsh) ri
  lo (getDigit128 b ((if lsh = 0#64 then d else rshl128 d lsh) + c))

end Ref128

namespace Vec128

/-- `sra_epi64(v, imm)` -/
def sra_epi64 (v : W) (imm : BitVec 32) : W :=
  let sign := srai_epi32_31 (shuffle_epi32_F5 v)
  let shifted := srl_epi64 v (cvtsi64_si128 imm)
  let ones := cmpeq_epi64 v v
  let mask := sll_epi64 ones (cvtsi64_si128 (64#32 - imm))
  or_si256 shifted (and_si256 sign mask)

def msb : W := 0x8000000000000000#64

/-- `NfcShifts::new(base2k as u32, lsh as u32)` -/
structure Shifts where
  b2klsh : BitVec 32
  lsh : BitVec 32
  b2k : BitVec 32

def mkShifts (b lsh : W) : Shifts :=
  { b2klsh := b.truncate 32 - lsh.truncate 32, lsh := lsh.truncate 32, b2k := b.truncate 32 }

/-- `sra_epi64(_mm256_sll_epi64(x, cvtsi64(64 - k)), 64 - k)`: the low `k` bits of `x`, sign-extended
(the digit extraction of every `nfc_*` chunk; `k` = `b2klsh` or `b2k`) -/
def digExtract (k : BitVec 32) (x : W) : W := sra_epi64 (sll_epi64 x (cvtsi64_si128 (64#32 - k))) (64#32 - k)

/-- unsigned "a > b" mask via the sign-flip trick, turned into 0/1 -/
def ugtOne (a b : W) : W := sub_epi64 setzero_si256 (cmpgt_epi64 (xor_si256 a msb) (xor_si256 b msb))

/-- `nfc_middle_chunk`, one lane: `(lo_out, new_lo_c, new_hi_c)` -/
def middleChunk (s : Shifts) (lo_a hi_a lo_c hi_c : W) : W × W × W :=
  let sll_b2klsh := cvtsi64_si128 (64#32 - s.b2klsh)
  let srl_b2klsh := cvtsi64_si128 s.b2klsh
  let sll_lsh := cvtsi64_si128 s.lsh
  let sll_b2k := cvtsi64_si128 (64#32 - s.b2k)
  let srl_b2k := cvtsi64_si128 s.b2k
  let lo_dig := digExtract s.b2klsh lo_a
  let hi_dig := sra_epi64 lo_dig 63#32
  let diff_lo := sub_epi64 lo_a lo_dig
  let borrow := ugtOne lo_dig lo_a
  let diff_hi := sub_epi64 (sub_epi64 hi_a hi_dig) borrow
  let co_lo := or_si256 (srl_epi64 diff_lo srl_b2klsh) (sll_epi64 diff_hi sll_b2klsh)
  let co_hi := sra_epi64 diff_hi s.b2klsh
  let lo_dig_sh := sll_epi64 lo_dig sll_lsh
  let hi_dig_sh := sra_epi64 lo_dig_sh 63#32
  let lo_dpc := add_epi64 lo_dig_sh lo_c
  let carry1 := ugtOne lo_dig_sh lo_dpc
  let hi_dpc := add_epi64 (add_epi64 hi_dig_sh hi_c) carry1
  let lo_out := digExtract s.b2k lo_dpc
  let hi_out := sra_epi64 lo_out 63#32
  let diff2_lo := sub_epi64 lo_dpc lo_out
  let borrow2 := ugtOne lo_out lo_dpc
  let diff2_hi := sub_epi64 (sub_epi64 hi_dpc hi_out) borrow2
  let carry2_lo := or_si256 (srl_epi64 diff2_lo srl_b2k) (sll_epi64 diff2_hi sll_b2k)
  let carry2_hi := sra_epi64 diff2_hi s.b2k
  let new_lo_c := add_epi64 co_lo carry2_lo
  let carry2 := ugtOne co_lo new_lo_c
  let new_hi_c := add_epi64 (add_epi64 co_hi carry2_hi) carry2
  (lo_out, new_lo_c, new_hi_c)

/-- `nfc_final_chunk`, one lane -/
def finalChunk (s : Shifts) (lo_a lo_c : W) : W :=
  let lo_dig := digExtract s.b2klsh lo_a
  let lo_dpc := add_epi64 (sll_epi64 lo_dig (cvtsi64_si128 s.lsh)) lo_c
  digExtract s.b2k lo_dpc

/-- `add4_i128`, `sub4_i128`, `neg4_i128`, one lane -/
def add4 (lo_a hi_a lo_b hi_b : W) : W × W :=
  let lo_r := add_epi64 lo_a lo_b
  let carryOne := ugtOne lo_a lo_r
  (lo_r, add_epi64 (add_epi64 hi_a hi_b) carryOne)
def sub4 (lo_a hi_a lo_b hi_b : W) : W × W :=
  let lo_r := sub_epi64 lo_a lo_b
  let borrowOne := ugtOne lo_b lo_a
  (lo_r, sub_epi64 (sub_epi64 hi_a hi_b) borrowOne)
def neg4 (lo_a hi_a : W) : W × W :=
  let ones := cmpeq_epi64 setzero_si256 setzero_si256
  let lo_r := sub_epi64 setzero_si256 lo_a
  let carryOne := sub_epi64 setzero_si256 (cmpeq_epi64 lo_a setzero_si256)
  (lo_r, add_epi64 (xor_si256 hi_a ones) carryOne)
/-- `load4_i64_as_i128`, one lane: `(lo, hi) = (a, sra(a, 63))` -/
def ext4 (a : W) : W × W := (a, sra_epi64 a 63#32)

/-- the AVX middle step on one `i128` element given as a whole -/
def middleCore (b lsh : W) (v c : W128) : W × W128 :=
  let r := middleChunk (mkShifts b lsh) (lo v) (hi v) (lo c) (hi c)
  (r.1, join r.2.1 r.2.2)

end Vec128

/-! ### cross-lane shuffles of the `i128` loads/stores -/

structure V4 where
  l0 : W
  l1 : W
  l2 : W
  l3 : W
deriving DecidableEq, Repr

/-- `_mm256_unpacklo_epi64(a, b) = [a0, b0, a2, b2]`, `unpackhi = [a1, b1, a3, b3]` -/
def unpacklo_epi64 (a b : V4) : V4 := ⟨a.l0, b.l0, a.l2, b.l2⟩
def unpackhi_epi64 (a b : V4) : V4 := ⟨a.l1, b.l1, a.l3, b.l3⟩
/-- `_mm256_permute4x64_epi64(v, 0xD8) = [v0, v2, v1, v3]` -/
def permute4x64_D8 (v : V4) : V4 := ⟨v.l0, v.l2, v.l1, v.l3⟩

/-- `load4_i128`: memory `[x0.lo, x0.hi, x1.lo, x1.hi | x2.lo, x2.hi, x3.lo, x3.hi]` → `(lo, hi)` -/
def load4 (x0 x1 x2 x3 : W128) : V4 × V4 :=
  let a01 : V4 := ⟨lo x0, hi x0, lo x1, hi x1⟩
  let a23 : V4 := ⟨lo x2, hi x2, lo x3, hi x3⟩
  (unpacklo_epi64 a01 a23, unpackhi_epi64 a01 a23)

/-- `store4_i128`: the four `i128` written back, in memory order -/
def store4 (lo_r hi_r : V4) : W128 × W128 × W128 × W128 :=
  let s01 := unpacklo_epi64 lo_r hi_r
  let s23 := unpackhi_epi64 lo_r hi_r
  (join s01.l0 s01.l1, join s01.l2 s01.l3, join s23.l0 s23.l1, join s23.l2 s23.l3)

/-- one chunk of `vi128_add_avx2` on four consecutive elements -/
def addChunk (a0 a1 a2 a3 b0 b1 b2 b3 : W128) : W128 × W128 × W128 × W128 :=
  let (la, ha) := load4 a0 a1 a2 a3
  let (lb, hb) := load4 b0 b1 b2 b3
  let f := fun (i : V4 → W) => Vec128.add4 (i la) (i ha) (i lb) (i hb)
  store4 ⟨(f V4.l0).1, (f V4.l1).1, (f V4.l2).1, (f V4.l3).1⟩ ⟨(f V4.l0).2, (f V4.l1).2, (f V4.l2).2, (f V4.l3).2⟩

/-! ### slice level of the `i128` kernels (`ntt120/vec_znx_big.rs` dispatch + `vec_znx_big_avx.rs`) -/

/-- lane of a normalisation kernel: `(res element, a element, carry element) ↦ (res', carry')` -/
abbrev Lane128 := W → W128 → W128 → W × W128

def sext (x : W) : W128 := x.signExtend 128

def refLane128 (op : String) (b lsh : W) : Option Lane128 :=
  match op with
  | "nfc_middle" => some (fun _ a c => Ref128.middleCore b lsh a c)
  | "nfc_middle_assign" => some (fun x _ c => Ref128.middleCore b lsh (sext x) c)
  | "nfc_middle_add" => some (fun x a c => let r := Ref128.middleCore b lsh a c; (x + r.1, r.2))
  | "nfc_middle_sub" => some (fun x a c => let r := Ref128.middleCore b lsh a c; (x - r.1, r.2))
  | "nfc_final_assign" => some (fun x _ c => (Ref128.finalCore b lsh x c, c))
  | "nfc_final_add" => some (fun x _ c => (x + Ref128.finalCore b lsh x c, c))
  | "nfc_final_sub" => some (fun x _ c => (x - Ref128.finalCore b lsh x c, c))
  | _ => none

def vecLane128 (op : String) (b lsh : W) : Option Lane128 :=
  let s := Vec128.mkShifts b lsh
  match op with
  | "nfc_middle" => some (fun _ a c => Vec128.middleCore b lsh a c)
  | "nfc_middle_assign" => some (fun x _ c =>
      let r := Vec128.middleChunk s x (Vec128.sra_epi64 x 63#32) (lo c) (hi c); (r.1, join r.2.1 r.2.2))
  | "nfc_middle_add" => some (fun x a c => let r := Vec128.middleCore b lsh a c; (add_epi64 x r.1, r.2))
  | "nfc_middle_sub" => some (fun x a c => let r := Vec128.middleCore b lsh a c; (sub_epi64 x r.1, r.2))
  | "nfc_final_assign" => some (fun x _ c => (Vec128.finalChunk s x (lo c), c))
  | "nfc_final_add" => some (fun x _ c => (add_epi64 x (Vec128.finalChunk s x (lo c)), c))
  | "nfc_final_sub" => some (fun x _ c => (sub_epi64 x (Vec128.finalChunk s x (lo c)), c))
  | _ => none

def run128 (f : Lane128) (l : List (W × W128 × W128)) : List (W × W128) := l.map (fun t => f t.1 t.2.1 t.2.2)

/-- `impl I128NormalizeOps for NTT120Avx`: AVX2 path iff `base2k <= 64 && res.len() >= 4`
(`n / 4` chunks, scalar tail), scalar kernel otherwise -/
def slice128Avx (op : String) (b lsh : W) (l : List (W × W128 × W128)) : Outcome (List (W × W128)) :=
  match vecLane128 op b lsh, refLane128 op b lsh with
  | some fv, some fr =>
    if decide (b ≤ 64#64) && decide (4 ≤ l.length) then
      .ok (run128 fv (l.take (4 * (l.length / 4))) ++ run128 fr (l.drop (4 * (l.length / 4))))
    else .ok (run128 fr l)
  | _, _ => .err "bad-op"

def slice128Ref (op : String) (b lsh : W) (l : List (W × W128 × W128)) : Outcome (List (W × W128)) :=
  match refLane128 op b lsh with
  | some fr => .ok (run128 fr l)
  | none => .err "bad-op"

/-- `I128BigOps`: `(res, a, b) ↦ res'` on whole `i128` values; the `small` operands arrive sign-extended
(`ai as i128`) in the reference and through `load4_i64_as_i128` in the AVX kernels -/
abbrev LaneBig := W128 → W128 → W128 → W128

def refLaneBig (op : String) : Option LaneBig :=
  match op with
  | "i128_add" => some (fun _ a b => a + b)
  | "i128_add_assign" => some (fun r a _ => r + a)
  | "i128_add_small" => some (fun _ a b => a + sext (lo b))
  | "i128_add_small_assign" => some (fun r a _ => r + sext (lo a))
  | "i128_sub" => some (fun _ a b => a - b)
  | "i128_sub_assign" => some (fun r a _ => r - a)
  | "i128_sub_negate_assign" => some (fun r a _ => a - r)
  | "i128_sub_small_a" => some (fun _ a b => sext (lo a) - b)
  | "i128_sub_small_b" => some (fun _ a b => a - sext (lo b))
  | "i128_sub_small_assign" => some (fun r a _ => r - sext (lo a))
  | "i128_sub_small_negate_assign" => some (fun r a _ => sext (lo a) - r)
  | "i128_negate" => some (fun _ a _ => -a)
  | "i128_negate_assign" => some (fun r _ _ => -r)
  | "i128_neg_from_small" => some (fun _ a _ => -(sext (lo a)))
  | "i128_from_small" => some (fun _ a _ => sext (lo a))
  | _ => none

def pairW (p : W × W) : W128 := join p.1 p.2
def extW (a : W128) : W × W := Vec128.ext4 (lo a)

def vecLaneBig (op : String) : Option LaneBig :=
  let add := fun (a b : W × W) => pairW (Vec128.add4 a.1 a.2 b.1 b.2)
  let sub := fun (a b : W × W) => pairW (Vec128.sub4 a.1 a.2 b.1 b.2)
  let neg := fun (a : W × W) => pairW (Vec128.neg4 a.1 a.2)
  let sp := fun (a : W128) => (lo a, hi a)
  match op with
  | "i128_add" => some (fun _ a b => add (sp a) (sp b))
  | "i128_add_assign" => some (fun r a _ => add (sp r) (sp a))
  | "i128_add_small" => some (fun _ a b => add (sp a) (extW b))
  | "i128_add_small_assign" => some (fun r a _ => add (sp r) (extW a))
  | "i128_sub" => some (fun _ a b => sub (sp a) (sp b))
  | "i128_sub_assign" => some (fun r a _ => sub (sp r) (sp a))
  | "i128_sub_negate_assign" => some (fun r a _ => sub (sp a) (sp r))
  | "i128_sub_small_a" => some (fun _ a b => sub (extW a) (sp b))
  | "i128_sub_small_b" => some (fun _ a b => sub (sp a) (extW b))
  | "i128_sub_small_assign" => some (fun r a _ => sub (sp r) (extW a))
  | "i128_sub_small_negate_assign" => some (fun r a _ => sub (extW a) (sp r))
  | "i128_negate" => some (fun _ a _ => neg (sp a))
  | "i128_negate_assign" => some (fun r _ _ => neg (sp r))
  | "i128_neg_from_small" => some (fun _ a _ => neg (extW a))
  | "i128_from_small" => some (fun _ a _ => pairW (extW a))
  | _ => none

def runBig (f : LaneBig) (l : List (W128 × W128 × W128)) : List W128 := l.map (fun t => f t.1 t.2.1 t.2.2)

/-- `vi128_*_avx2(n, …)`: `n / 4` chunks through the split-lane kernels, scalar wrapping tail -/
def sliceBigAvx (op : String) (l : List (W128 × W128 × W128)) : Outcome (List W128) :=
  match vecLaneBig op, refLaneBig op with
  | some fv, some fr => .ok (runBig fv (l.take (4 * (l.length / 4))) ++ runBig fr (l.drop (4 * (l.length / 4))))
  | _, _ => .err "bad-op"
def sliceBigRef (op : String) (l : List (W128 × W128 × W128)) : Outcome (List W128) :=
  match refLaneBig op with
  | some fr => .ok (runBig fr l)
  | none => .err "bad-op"

end Avx
