import Poulpy.Model.Basic

/-!
# L2 — coefficient-domain ring operations (model of poulpy-cpu-ref `reference/znx`, `reference/vec_znx`,
`reference/fft64/vec_znx_big.rs`, `reference/ntt120/vec_znx_big.rs`)

Conventions (see `Model/Basic.lean`): a limb is a `Poly = List Int` (degree 0 first, `n = length`),
a column is a `Col = List Poly` (limb 0 first, `size = length`).  Every kernel takes the wrap
function `w` of the scalar type as first argument (`w64` for `i64` limbs, `w128` for the NTT120
big accumulator, `id` for the exact ring `Z[X]/(X^n+1)`); the un-suffixed names are the `w64`
instances, which is what `VecZnx` and the FFT64 `VecZnxBig` use (the FFT64 big-accumulator
functions reinterpret the buffer as a `VecZnx` and call the very same functions).

The index masks `p & (2n-1)` of the Rust are modelled by `p % (2n)`: the two agree exactly when `n`
is a power of two, which `Module::new` enforces and which is the only case the library supports.

A Rust function `op(res, res_col, a, a_col, …)` becomes `op n resSize a …` returning the new
content of the selected column of `res` (`resSize` limbs); `_assign` forms take the old column.
Functions whose entry assertions depend on more than "all operands have the same `n`" have an
`…O` twin returning `Outcome`.
-/

/-! ## znx kernels (one limb) -/

/-- `znx_add_ref`: `res[i] = a[i] + b[i]` (wrapping) -/
def znxAddW (w : Int → Int) (a b : Poly) : Poly := List.zipWith (fun x y => w (x + y)) a b
/-- `znx_sub_ref`: `res[i] = a[i] - b[i]` (wrapping) -/
def znxSubW (w : Int → Int) (a b : Poly) : Poly := List.zipWith (fun x y => w (x - y)) a b
/-- `znx_negate_ref`: `res[i] = -a[i]` (wrapping: `-i64::MIN = i64::MIN`) -/
def znxNegateW (w : Int → Int) (a : Poly) : Poly := a.map (fun x => w (-x))
/-- `znx_zero_ref` -/
def znxZero (n : Nat) : Poly := List.replicate n 0

/-- `znx_rotate`: multiplication by `X^p` in `Z[X]/(X^n+1)`, any `p : Int`.
Mirrors the Rust: `mp_2n = p & (2n-1)`, `mp_1n = mp_2n & (n-1)`, split `res` at `mp_1n` and `src` at
`n - mp_1n`, copy one half and negate the other according to `mp_2n < n`. -/
def znxRotateW (w : Int → Int) (p : Int) (a : Poly) : Poly :=
  let n := a.length
  let mp2n := (p % (2 * (n : Int))).toNat
  let mp1n := mp2n % n
  let src1 := a.take (n - mp1n)
  let src2 := a.drop (n - mp1n)
  if mp2n < n then znxNegateW w src2 ++ src1 else src2 ++ znxNegateW w src1

/-- loop of `znx_automorphism_ref` after `res[0] = a[0]`: running index `k ← (k + p_2n) & (2n-1)`,
`res[k] = a_i` if `k < n`, else `res[k-n] = -a_i`. -/
def autoLoop (w : Int → Int) (n p2n : Nat) : List Int → Nat → Poly → Poly
  | [], _, res => res
  | ai :: rest, k, res =>
    let k' := (k + p2n) % (2 * n)
    autoLoop w n p2n rest k' (if k' < n then res.set k' ai else res.set (k' - n) (w (-ai)))

/-- `znx_automorphism_ref(p, res, a)` with the previous content `res0` of `res` made explicit: for
odd `p` every coefficient is overwritten; for even `p` (inadmissible, the map is not a permutation)
the positions that are not hit keep `res0`. -/
def znxAutomorphismIntoW (w : Int → Int) (p : Int) (res0 a : Poly) : Poly :=
  let n := res0.length
  match a.take n with
  | [] => res0
  | a0 :: rest => autoLoop w n (p % (2 * (n : Int))).toNat rest 0 (res0.set 0 a0)

/-- Galois automorphism `X ↦ X^g` of `Z[X]/(X^n+1)` (admissible for odd `g`; see
`znxAutomorphismIntoW` for what the code does on even `g`). -/
def znxAutomorphismW (w : Int → Int) (g : Int) (a : Poly) : Poly :=
  znxAutomorphismIntoW w g (znxZero a.length) a

/-- every `gap`-th coefficient starting at index 0, for `cnt` output slots
(`res.iter_mut().zip(a.iter().step_by(gap))`: stops at the shorter side) -/
def znxSubsample (cnt gap : Nat) (a : Poly) : Poly :=
  (List.range cnt).filterMap (fun k => a[k * gap]?)

/-- `X ↦ X^gap`: zero the output, then write `a[k]` at `k·gap` -/
def znxUpsample (gap : Nat) (a : Poly) : Poly :=
  a.flatMap (fun x => x :: List.replicate (gap - 1) 0)

/-- `znx_switch_ring_ref(res, a)` with `nOut = res.len()`: copy if equal degrees, sub-sampling with
stride `n_in / n_out` when going down, `X ↦ X^{n_out / n_in}` when going up.  (Admissible when the
larger degree is a multiple of the smaller one; the Rust asserts it, see `znxSwitchRingO`.) -/
def znxSwitchRing (nOut : Nat) (a : Poly) : Poly :=
  let nIn := a.length
  if nIn = nOut then a
  else if nIn > nOut then znxSubsample nOut (nIn / nOut) a
  else znxUpsample (nOut / nIn) a

def isPow2 (n : Nat) : Bool := n != 0 && (n &&& (n - 1)) == 0

/-- `znx_switch_ring_ref` with its debug assertions (`n_in` power of two, degrees divide) -/
def znxSwitchRingO (nOut : Nat) (a : Poly) : Outcome Poly :=
  let nIn := a.length
  if !isPow2 nIn then .panic "assert"
  else if max nIn nOut % min nIn nOut != 0 then .panic "assert"
  else .ok (znxSwitchRing nOut a)

abbrev znxAdd := znxAddW w64
abbrev znxSub := znxSubW w64
abbrev znxNegate := znxNegateW w64
/-- multiplication by `X^p` on an `i64` limb -/
abbrev znxRotate (p : Int) (a : Poly) : Poly := znxRotateW w64 p a
/-- `X ↦ X^g` on an `i64` limb (odd `g`) -/
abbrev znxAutomorphism (g : Int) (a : Poly) : Poly := znxAutomorphismW w64 g a

/-! ## vec-level operations (one column) -/

/-- `vec_znx_zero`: all limbs of the column zeroed -/
def vecZero (n resSize : Nat) : Col := List.replicate resSize (znxZero n)

/-- `vec_znx_copy`: `min` limbs copied, extra result limbs zero, extra operand limbs ignored -/
def vecCopy (n resSize : Nat) (a : Col) : Col :=
  let m := min resSize a.length
  a.take m ++ List.replicate (resSize - m) (znxZero n)

/-- `vec_znx_add_into`: common limbs summed, then the longer operand copied, then zero fill -/
def vecAddW (w : Int → Int) (n resSize : Nat) (a b : Col) : Col :=
  if a.length ≤ b.length then
    let s := min a.length resSize
    let c := min b.length resSize
    List.zipWith (znxAddW w) (a.take s) (b.take s) ++ (b.take c).drop s ++ List.replicate (resSize - c) (znxZero n)
  else
    let s := min b.length resSize
    let c := min a.length resSize
    List.zipWith (znxAddW w) (a.take s) (b.take s) ++ (a.take c).drop s ++ List.replicate (resSize - c) (znxZero n)

/-- `vec_znx_add_assign`: `res[j] += a[j]` for `j < min(a.size, res.size)`; other limbs untouched -/
def vecAddAssignW (w : Int → Int) (res a : Col) : Col :=
  let s := min a.length res.length
  List.zipWith (znxAddW w) (res.take s) (a.take s) ++ res.drop s

/-- `vec_znx_sub`: `a - b` on common limbs, then `-b` (if `b` longer) or `a` (if `a` longer), then zeros -/
def vecSubW (w : Int → Int) (n resSize : Nat) (a b : Col) : Col :=
  if a.length ≤ b.length then
    let s := min a.length resSize
    let c := min b.length resSize
    List.zipWith (znxSubW w) (a.take s) (b.take s) ++ ((b.take c).drop s).map (znxNegateW w)
      ++ List.replicate (resSize - c) (znxZero n)
  else
    let s := min b.length resSize
    let c := min a.length resSize
    List.zipWith (znxSubW w) (a.take s) (b.take s) ++ (a.take c).drop s ++ List.replicate (resSize - c) (znxZero n)

/-- `vec_znx_sub_assign`: `res[j] -= a[j]` for `j < min`; other limbs untouched -/
def vecSubAssignW (w : Int → Int) (res a : Col) : Col :=
  let s := min a.length res.length
  List.zipWith (znxSubW w) (res.take s) (a.take s) ++ res.drop s

/-- `vec_znx_sub_negate_assign`: `res[j] = a[j] - res[j]` for `j < min`, the remaining limbs of `res`
are negated -/
def vecSubNegateAssignW (w : Int → Int) (res a : Col) : Col :=
  let s := min a.length res.length
  List.zipWith (znxSubW w) (a.take s) (res.take s) ++ (res.drop s).map (znxNegateW w)

/-- `vec_znx_negate` -/
def vecNegateW (w : Int → Int) (n resSize : Nat) (a : Col) : Col :=
  let m := min resSize a.length
  (a.take m).map (znxNegateW w) ++ List.replicate (resSize - m) (znxZero n)

/-- `vec_znx_negate_assign`: every limb negated -/
def vecNegateAssignW (w : Int → Int) (res : Col) : Col := res.map (znxNegateW w)

/-- loop body shared by `vec_znx_add_scalar_into` / `vec_znx_sub_scalar`: limbs `j < m` of `b`, the
limb `bLimb` combined with the scalar polynomial by `f` -/
def scalarLimbs (f : Poly → Poly) (bLimb : Nat) (bs : Col) : Col :=
  bs.zipIdx.map (fun (bj, j) => if j = bLimb then f bj else bj)

/-- `vec_znx_add_scalar_into(res, a: ScalarZnx, b, b_limb)`: `res = b` with `a` added on limb
`b_limb`; asserts `b_limb < min(b.size, res.size)` -/
def vecAddScalarO (w : Int → Int) (n resSize : Nat) (a : Poly) (b : Col) (bLimb : Nat) : Outcome Col :=
  let m := min b.length resSize
  if bLimb < m then
    .ok (scalarLimbs (fun bj => znxAddW w a bj) bLimb (b.take m) ++ List.replicate (resSize - m) (znxZero n))
  else .panic "assert"

/-- `vec_znx_sub_scalar`: `res = b` with `a` subtracted on limb `b_limb` (`b[b_limb] - a`) -/
def vecSubScalarO (w : Int → Int) (n resSize : Nat) (a : Poly) (b : Col) (bLimb : Nat) : Outcome Col :=
  let m := min b.length resSize
  if bLimb < m then
    .ok (scalarLimbs (fun bj => znxSubW w bj a) bLimb (b.take m) ++ List.replicate (resSize - m) (znxZero n))
  else .panic "assert"

/-- `vec_znx_add_scalar_assign`: `res[res_limb] += a`; asserts `res_limb < res.size` -/
def vecAddScalarAssignO (w : Int → Int) (res : Col) (resLimb : Nat) (a : Poly) : Outcome Col :=
  if resLimb < res.length then .ok (scalarLimbs (fun r => znxAddW w r a) resLimb res) else .panic "assert"

/-- `vec_znx_sub_scalar_assign`: `res[res_limb] -= a` -/
def vecSubScalarAssignO (w : Int → Int) (res : Col) (resLimb : Nat) (a : Poly) : Outcome Col :=
  if resLimb < res.length then .ok (scalarLimbs (fun r => znxSubW w r a) resLimb res) else .panic "assert"

/-- `vec_znx_rotate`: limb-wise multiplication by `X^p` -/
def vecRotateW (w : Int → Int) (p : Int) (n resSize : Nat) (a : Col) : Col :=
  let m := min resSize a.length
  (a.take m).map (znxRotateW w p) ++ List.replicate (resSize - m) (znxZero n)

/-- `vec_znx_rotate_assign` -/
def vecRotateAssignW (w : Int → Int) (p : Int) (res : Col) : Col := res.map (znxRotateW w p)

/-- `vec_znx_mul_xp_minus_one`: `vec_znx_rotate` into `res`, then `vec_znx_sub_assign(res, a)` -/
def vecMulXpMinusOneW (w : Int → Int) (p : Int) (n resSize : Nat) (a : Col) : Col :=
  vecSubAssignW w (vecRotateW w p n resSize a) a

/-- `vec_znx_mul_xp_minus_one_assign`: per limb `tmp = X^p·res_j; res_j = tmp - res_j` -/
def vecMulXpMinusOneAssignW (w : Int → Int) (p : Int) (res : Col) : Col :=
  res.map (fun rj => znxSubW w (znxRotateW w p rj) rj)

/-- `vec_znx_automorphism` (odd `g`) -/
def vecAutomorphismW (w : Int → Int) (g : Int) (n resSize : Nat) (a : Col) : Col :=
  let m := min resSize a.length
  (a.take m).map (znxAutomorphismW w g) ++ List.replicate (resSize - m) (znxZero n)

/-- `vec_znx_automorphism` with the previous content of the result column explicit (what the
reference kernels do for an even, inadmissible `g`) -/
def vecAutomorphismIntoW (w : Int → Int) (g : Int) (n : Nat) (res0 a : Col) : Col :=
  let m := min res0.length a.length
  List.zipWith (znxAutomorphismIntoW w g) (res0.take m) (a.take m) ++ List.replicate (res0.length - m) (znxZero n)

/-- `vec_znx_automorphism_assign` (odd `g`; `tmp` is fully overwritten then copied back) -/
def vecAutomorphismAssignW (w : Int → Int) (g : Int) (res : Col) : Col := res.map (znxAutomorphismW w g)

/-- `vec_znx_automorphism_assign(p, res, res_col, scratch)` with the content `tmp0` of the scratch
polynomial made explicit: per limb `znx_automorphism(p, tmp, res_j)` then `res_j ← tmp`; `tmp` is not
re-initialised, so limb `j+1` starts from the output of limb `j`.  For an odd `g` every coefficient
of `tmp` is overwritten and this is `vecAutomorphismAssignW`; for an even (inadmissible) `g` the
coefficients the scatter loop does not hit come from the scratch arena (limb 0) or from the previous
limb's result.  Returns the new column and the final content of `tmp`.  (Also the FFT64
`vec_znx_big_automorphism_assign`, which reinterprets the buffer.) -/
def vecAutomorphismAssignScr (w : Int → Int) (g : Int) (tmp0 : Poly) (res : Col) : Col × Poly :=
  res.foldl (fun (acc : Col × Poly) rj =>
    let t := znxAutomorphismIntoW w g acc.2 rj
    (acc.1 ++ [t], t)) ([], tmp0)

/-- `vec_znx_switch_ring`: `vec_znx_copy` when the degrees agree, else limb-wise `znx_switch_ring` on
`min` limbs and zero fill (`n` = degree of `res`) -/
def vecSwitchRing (n resSize : Nat) (a : Col) : Col :=
  let m := min a.length resSize
  (a.take m).map (znxSwitchRing n) ++ List.replicate (resSize - m) (znxZero n)

def colDegreeOk (n : Nat) (c : Col) : Bool := c.all (fun l => l.length == n)

/-- `vec_znx_switch_ring` with the kernel's assertions; `nIn` is `a.n()` -/
def vecSwitchRingO (nIn n resSize : Nat) (a : Col) : Outcome Col :=
  if nIn = n then .ok (vecCopy n resSize a)
  else if min a.length resSize = 0 then .ok (vecSwitchRing n resSize a)
  else if !isPow2 nIn then .panic "assert"
  else if max nIn n % min nIn n != 0 then .panic "assert"
  else .ok (vecSwitchRing n resSize a)

/-- part `i` of `vec_znx_split_ring`: limb-wise `switch_ring(rotate(-i, a_j))` (no rotation for
`i = 0`) on `min(size_i, a.size)` limbs, zero fill -/
def splitPart (nOut : Nat) (a : Col) (i sizeI : Nat) : Col :=
  let m := min sizeI a.length
  (a.take m).map (fun aj => znxSwitchRing nOut (if i = 0 then aj else znxRotate (-(i : Int)) aj))
    ++ List.replicate (sizeI - m) (znxZero nOut)

/-- `vec_znx_split_ring(res: [R], a)`: `sizes[i]` is the size of `res[i]` -/
def vecSplitRing (nOut : Nat) (sizes : List Nat) (a : Col) : List Col :=
  sizes.zipIdx.map (fun (s, i) => splitPart nOut a i s)

/-- `vec_znx_split_ring` with its assertions (`nIn = a.n()`, `nTmp` = length of the scratch
polynomial = `module.n()`, `nOuts` = degrees of the parts) -/
def vecSplitRingO (nIn nTmp : Nat) (nOuts sizes : List Nat) (a : Col) : Outcome (List Col) :=
  match nOuts with
  | [] => .panic "bounds"
  | nOut :: others =>
    if nTmp != nIn then .panic "assert"
    else if !(nOut < nIn) then .panic "assert"
    else if others.any (· != nOut) then .panic "assert"
    else if nOut = 0 then .panic "other"
    else if nIn % nOut != 0 then .panic "assert"
    else if nOuts.length != nIn / nOut then .panic "assert"
    else .ok (vecSplitRing nOut sizes a)

/-- `m` rounds of "take the head of every part": `q ↦ parts[q % g][q / g]` -/
def interleave : Nat → List Poly → Poly
  | 0, _ => []
  | m + 1, ps => ps.filterMap List.head? ++ interleave m (ps.map List.tail)

/-- `vec_znx_merge_rings`: limb `j` of the result = the limbs `j` of the parts interleaved
(part `i` on the coefficients `≡ i` modulo the number of parts), a missing limb reads as zero -/
def vecMergeRings (nIn resSize : Nat) (parts : List Col) : Col :=
  (List.range resSize).map (fun j => interleave nIn (parts.map (fun p => (p[j]?).getD (znxZero nIn))))

/-- `vec_znx_merge_rings` with its assertions (`nOut = res.n()`, `nTmp = module.n()`, `nIns` the
degrees of the parts) -/
def vecMergeRingsO (nOut nTmp resSize : Nat) (nIns : List Nat) (parts : List Col) : Outcome Col :=
  match nIns with
  | [] => .panic "bounds"
  | nIn :: others =>
    if nTmp != nOut then .panic "assert"
    else if !(nOut > nIn) then .panic "assert"
    else if others.any (· != nIn) then .panic "assert"
    else if nIn = 0 then .panic "other"
    else if nOut % nIn != 0 then .panic "assert"
    else if nIns.length != nOut / nIn then .panic "assert"
    else .ok (vecMergeRings nIn resSize parts)

/-- `i64` instances, the names other model files use -/
abbrev vecAdd := vecAddW w64
abbrev vecSub := vecSubW w64
abbrev vecNegate := vecNegateW w64
abbrev vecRotate (p : Int) (n resSize : Nat) (a : Col) : Col := vecRotateW w64 p n resSize a
abbrev vecMulXpMinusOne (p : Int) (n resSize : Nat) (a : Col) : Col := vecMulXpMinusOneW w64 p n resSize a
abbrev vecAutomorphism (g : Int) (n resSize : Nat) (a : Col) : Col := vecAutomorphismW w64 g n resSize a

/-! ## NTT120 big accumulator (`i128` limbs): `reference/ntt120/vec_znx_big.rs`

These functions do not reuse the `vec_znx_*` code; their control flow is mirrored separately and
proved equal to the generic size rule in `Lemmas/RingSize.lean`.  A small (`i64`) operand is
sign-extended (`as i128`), i.e. used as is. -/

/-- `ntt120_vec_znx_big_add_into` -/
def ntt120BigAdd (n resSize : Nat) (a b : Col) : Col :=
  let s := min (min a.length b.length) resSize
  let head := List.zipWith (znxAddW w128) (a.take s) (b.take s)
  if a.length ≤ b.length then
    let c := min b.length resSize
    head ++ (b.take c).drop s ++ List.replicate (resSize - c) (znxZero n)
  else
    let c := min a.length resSize
    head ++ (a.take c).drop s ++ List.replicate (resSize - c) (znxZero n)

/-- `ntt120_vec_znx_big_add_small_into` (`a` big, `b` small): sum, then copy `a` on `[s, a_cpy)`, then
`b` sign-extended on `[a_cpy, b_cpy)`, then zeros from `max(a_cpy, b_cpy)` -/
def ntt120BigAddSmall (n resSize : Nat) (a b : Col) : Col :=
  let s := min (min a.length b.length) resSize
  let ac := min a.length resSize
  let bc := min b.length resSize
  List.zipWith (znxAddW w128) (a.take s) (b.take s) ++ (a.take ac).drop s ++ (b.take bc).drop ac
    ++ List.replicate (resSize - max ac bc) (znxZero n)

/-- `ntt120_vec_znx_big_sub` -/
def ntt120BigSub (n resSize : Nat) (a b : Col) : Col :=
  let s := min (min a.length b.length) resSize
  let head := List.zipWith (znxSubW w128) (a.take s) (b.take s)
  if a.length ≥ b.length then
    let c := min a.length resSize
    head ++ (a.take c).drop s ++ List.replicate (resSize - c) (znxZero n)
  else
    let c := min b.length resSize
    head ++ ((b.take c).drop s).map (znxNegateW w128) ++ List.replicate (resSize - c) (znxZero n)

/-- `ntt120_vec_znx_big_sub_small_a` (`a` small, `b` big): `[s, a_cpy)` gets `a`, the indices of
`[s, b_cpy)` that are `≥ a_cpy` get `-b` -/
def ntt120BigSubSmallA (n resSize : Nat) (a b : Col) : Col :=
  let s := min (min a.length b.length) resSize
  let ac := min a.length resSize
  let bc := min b.length resSize
  List.zipWith (znxSubW w128) (a.take s) (b.take s) ++ (a.take ac).drop s
    ++ ((b.take bc).drop (max s ac)).map (znxNegateW w128)
    ++ List.replicate (resSize - max ac bc) (znxZero n)

/-- `ntt120_vec_znx_big_sub_small_b` (`a` big, `b` small) -/
def ntt120BigSubSmallB (n resSize : Nat) (a b : Col) : Col :=
  let s := min (min a.length b.length) resSize
  let ac := min a.length resSize
  let bc := min b.length resSize
  List.zipWith (znxSubW w128) (a.take s) (b.take s) ++ (a.take ac).drop s
    ++ ((b.take bc).drop ac).map (znxNegateW w128)
    ++ List.replicate (resSize - max ac bc) (znxZero n)

/-- `ntt120_vec_znx_big_sub_negate_assign` / `…_sub_small_negate_assign`: `res = a - res` on
`min` limbs, limbs `a.size..res.size` of `res` negated -/
def ntt120BigSubNegateAssign (res a : Col) : Col :=
  let s := min res.length a.length
  List.zipWith (znxSubW w128) (a.take s) (res.take s) ++ (res.drop a.length).map (znxNegateW w128)

/-- `ntt120_vec_znx_big_automorphism_assign`: `tmp ← res_j`, then the scatter loop writes into
`res_j` itself, so (for an inadmissible even `p`) positions not hit keep their own old value -/
def ntt120BigAutomorphismAssign (p : Int) (res : Col) : Col :=
  res.map (fun rj => znxAutomorphismIntoW w128 p rj rj)

/-! ## exact negacyclic product (specification level, no wrapping) -/

/-- multiplication by `X` in `Z[X]/(X^n+1)` on a coefficient list -/
def mulX (l : Poly) : Poly :=
  match l.getLast? with
  | none => []
  | some z => (-z) :: l.dropLast

def smulL (c : Int) (l : Poly) : Poly := l.map (c * ·)
def addL (a b : Poly) : Poly := List.zipWith (· + ·) a b

/-- exact product of `a` and `b` in `Z[X]/(X^n+1)`, `n = b.length` (and `a.length = n` for the ring
reading; Horner in `a` with multiplication by `X`) -/
def negMul : Poly → Poly → Poly
  | [], b => b.map (fun _ => 0)
  | a0 :: as, b => addL (smulL a0 b) (mulX (negMul as b))

/-- the `assert_eq!(a.n(), res.n())` entry check shared by the `vec_znx_*` functions: every limb of
every operand has `n` coefficients -/
def sameDegreeO (n : Nat) (operands : List Col) (k : Col) : Outcome Col :=
  if operands.all (colDegreeOk n) then .ok k else .panic "assert"
