/-
Model of the BDD circuit evaluator of poulpy-bin-fhe
(`poulpy-bin-fhe/src/bdd_arithmetic/eval.rs`: `Node`, `eval_level`, the per-bit loop of
`execute_bdd_circuit_multi_thread`, and `FheUintHelper::get_bit` of `bdd_2w_to_1w.rs`).

The homomorphic evaluator keeps `2 * state_size` GLWE ciphertexts; slot 1 of the first level is
the constant 1, every other slot 0.  A level maps
  `Cmux(b, hi, lo)`  to  `(prev[hi] - prev[lo]) * GGSW(input b) + prev[lo]`, i.e. a selection,
  `Copy`             to  `prev[j]`,
  `None`             to  "slot not written" (the Rust leaves stale data there).
The model is over `Option Bool`: `none` = undefined.  It is *stricter* than the Rust: reading a
slot the previous level left undefined, an out-of-range index, a node count that is not a
multiple of the width, or a last level that does not start with a `Cmux` make the result `none`
(the Rust would read stale data or panic).  This file imports nothing, so it can be linked into
the model driver.
-/

inductive Node where
  | cmux (bit hi lo : Nat)
  | copy
  | none
deriving Repr, DecidableEq

def stepNode (inp : Nat → Bool) (prev : List (Option Bool)) (j : Nat) : Node → Option Bool
  | .cmux b hi lo =>
    match prev[hi]?, prev[lo]? with
    | some (some h), some (some l) => some (bif inp b then h else l)
    | _, _ => Option.none
  | .copy => match prev[j]? with | some v => v | Option.none => Option.none
  | .none => Option.none

def stepLevel (inp : Nat → Bool) (prev : List (Option Bool)) (lv : List Node) : List (Option Bool) :=
  lv.mapIdx (fun j nd => stepNode inp prev j nd)

def evalLevels (inp : Nat → Bool) (st : List (Option Bool)) : List (List Node) → List (Option Bool)
  | [] => st
  | lv :: rest => evalLevels inp (stepLevel inp st lv) rest

/-- `level[1] := 1`, every other slot `0` (`eval_level`, before the loop). -/
def initState (w : Nat) : List (Option Bool) :=
  (List.range w).map (fun j => some (j == 1))

def evalCircuit (w : Nat) (levels : List (List Node)) (inp : Nat → Bool) : Option Bool :=
  match (evalLevels inp (initState w) levels)[0]? with
  | some v => v
  | Option.none => Option.none

/-- `nodes.chunks_exact(w)` (fuel = number of nodes). -/
def chunksAux (w : Nat) : Nat → List Node → List (List Node)
  | 0, _ => []
  | fuel + 1, l => if l.isEmpty then [] else l.take w :: chunksAux w fuel (l.drop w)

def chunks (w : Nat) (l : List Node) : List (List Node) := chunksAux w l.length l

def nodeInRange (nIn w : Nat) : Node → Bool
  | .cmux b hi lo => b < nIn && hi < w && lo < w
  | _ => true

/-- The structural side conditions of the property: width positive, node count a multiple of the
width, every index in range, last level of the form `[Cmux, …]`. -/
def wellFormed (nIn w : Nat) (nodes : List Node) : Bool :=
  0 < w && nodes.length % w == 0 && 0 < nodes.length && nodes.all (nodeInRange nIn w) &&
  (match (nodes.drop (nodes.length - w)).head? with
   | some (Node.cmux _ _ _) => true
   | _ => false)

/-- One output bit of `execute_bdd_circuit`: flat node array + declared width, as the Rust stores
them.  `w = 0` is the evaluator's "constant zero" output. -/
def evalFlat (nIn w : Nat) (nodes : List Node) (inp : Nat → Bool) : Option Bool :=
  if w = 0 then some false
  else if wellFormed nIn w nodes then evalCircuit w (chunks w nodes) inp
  else Option.none

/-- Input numbering of the two-word evaluator (`FheUintHelper::get_bit`, `T = u32`):
bit `i` is bit `i % 32` of word `i / 32`. -/
def inp2 (a b : BitVec 32) (i : Nat) : Bool := if i < 32 then a.getLsbD i else b.getLsbD (i - 32)

/-- Input numbering of the one-word evaluator. -/
def inp1 (a : BitVec 32) (i : Nat) : Bool := a.getLsbD i
