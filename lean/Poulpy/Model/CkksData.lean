import Poulpy.Model.Ckks
import Poulpy.Model.Core.Ops
/-!
# CKKS evaluator: data path of the linear ciphertext operations (C16, value semantics)

`Model/Ckks.lean` tracks metadata and outcomes only.  Here a ciphertext carries its limbs
(`Core.GLWE`, the container of the C02 model) next to its metadata, and every linear ciphertext
operation of `leveled/default/{rescale,pow2,neg,add,sub}.rs` is the sequence of core calls the Rust
makes (`Core.Ops.glweLsh`, `glweLshAdd`, `glweLshSub`, `glweLshAssign`, `glweAddInto`, `glweSub`,
`glweAddAssign`, `glweSubAssign`, `glweNegate`, `glweNegateAssign`, `glweNormalizeAssign`), with the
shift amounts of `addShiftAB` / `assignShiftDA` / `unaryShift` / `rescaleIntoShift`, followed by the
metadata transition of `Model/Ckks.lean` (the same functions `pdriver ckks` executes).

The outcome is `Outcome DCt`: `err` and `panic` carry the wire strings of the metadata model
(`Err.toString`, `Panic.cls`); a failing core call (`assert`, `bounds`) is passed through.  The
metadata check comes first whenever the repaired Rust evaluates it first (docs/fixes/08).
Multiplications, rotations and plaintext operands are not given a data path here: their value
theorems cite the C05 / C03 statements through contract hypotheses (`Props/C16.lean` §8).
-/

namespace Ckks
open Core Core.Ops

/-- a CKKS ciphertext with its limbs -/
structure DCt where
  g : GLWE
  md : Meta
deriving Repr

/-- the metadata-level view (`Model/Ckks.lean`) -/
def DCt.ct (c : DCt) : Ct := ⟨c.md, c.g.size⟩

/-- lift a metadata result: `k` builds the data once the metadata call returned `Ok m` -/
def withMeta (r : Res Ct) (k : Meta → Outcome DCt) : Outcome DCt :=
  match r with
  | .ok m => k m.md
  | .err e _ => .err e.toString
  | .panic p => .panic p.cls

/-- `ckks_rescale_assign(ct, k)`: budget, then `glwe_lsh_assign(ct, k)` -/
def dRescaleAssign (env : Env) (N : Nat) (c : DCt) (k : Nat) : Outcome DCt :=
  withMeta (rescaleAssign env c.ct k) fun m =>
    bind (glweLshAssign N c.g k) fun g' => .ok ⟨g', m⟩

/-- `ckks_rescale_into(dst, k, src)`: budget, destination offset, `glwe_lsh(dst, src, k + offset)` -/
def dRescaleInto (env : Env) (N : Nat) (dst : DCt) (k : Nat) (src : DCt) : Outcome DCt :=
  withMeta (rescaleInto env dst.ct k src.ct) fun m =>
    bind (glweLsh N dst.g src.g (rescaleIntoShift env dst.ct k src.ct)) fun g' => .ok ⟨g', m⟩

/-- `ckks_mul_pow2_into(dst, src, bits)`: `glwe_lsh(dst, src, bits + offset)` -/
def dMulPow2Into (env : Env) (N : Nat) (dst src : DCt) (bits : Nat) : Outcome DCt :=
  withMeta (mulPow2Into env dst.ct src.ct bits) fun m =>
    bind (glweLsh N dst.g src.g (unaryShift env dst.ct src.ct bits)) fun g' => .ok ⟨g', m⟩

/-- `ckks_mul_pow2_assign(dst, bits)`: `glwe_lsh_assign(dst, bits)`, metadata unchanged -/
def dMulPow2Assign (_env : Env) (N : Nat) (c : DCt) (bits : Nat) : Outcome DCt :=
  bind (glweLshAssign N c.g bits) fun g' => .ok ⟨g', c.md⟩

/-- `ckks_div_pow2_into(dst, src, bits)`: `glwe_lsh(dst, src, offset)`, the scale is re-interpreted -/
def dDivPow2Into (env : Env) (N : Nat) (dst src : DCt) (bits : Nat) : Outcome DCt :=
  withMeta (divPow2Into env dst.ct src.ct bits) fun m =>
    bind (glweLsh N dst.g src.g (unaryShift env dst.ct src.ct 0)) fun g' => .ok ⟨g', m⟩

/-- `ckks_div_pow2_assign(dst, bits)`: metadata only -/
def dDivPow2Assign (env : Env) (_N : Nat) (c : DCt) (bits : Nat) : Outcome DCt :=
  withMeta (divPow2Assign env c.ct bits) fun m => .ok ⟨c.g, m⟩

/-- `ckks_neg_into(dst, src)`: with an offset `glwe_lsh` then `glwe_negate_assign`, otherwise `glwe_negate` -/
def dNegInto (env : Env) (N : Nat) (dst src : DCt) : Outcome DCt :=
  withMeta (negInto env dst.ct src.ct) fun m =>
    if offsetUnary env dst.ct src.ct ≠ 0 then
      bind (glweLsh N dst.g src.g (unaryShift env dst.ct src.ct 0)) fun g1 =>
      bind (glweNegateAssign N g1) fun g' => .ok ⟨g', m⟩
    else bind (glweNegate N dst.g src.g) fun g' => .ok ⟨g', m⟩

/-- `ckks_neg_assign(dst)` -/
def dNegAssign (_env : Env) (N : Nat) (c : DCt) : Outcome DCt :=
  bind (glweNegateAssign N c.g) fun g' => .ok ⟨g', c.md⟩

/-- data path of `ckks_{add,sub}_into_unsafe_default` (`sub = true`: the `glwe_sub` / `glwe_lsh_sub` twins).
For `sub` the first shifted copy is always `a` (so that `b` is the one subtracted). -/
def addIntoData (env : Env) (N : Nat) (sub : Bool) (dst a b : DCt) : Outcome GLWE :=
  let off := offsetBinary env dst.ct a.ct b.ct
  let sh := addShiftAB env dst.ct a.ct b.ct
  if off = 0 ∧ a.md.logBudget = b.md.logBudget then
    if sub then glweSub N dst.g a.g b.g else glweAddInto N dst.g a.g b.g
  else if sub then
    bind (glweLsh N dst.g a.g sh.1) fun g1 => glweLshSub N g1 b.g sh.2
  else if a.md.logBudget ≤ b.md.logBudget then
    bind (glweLsh N dst.g a.g sh.1) fun g1 => glweLshAdd N g1 b.g sh.2
  else
    bind (glweLsh N dst.g b.g sh.2) fun g1 => glweLshAdd N g1 a.g sh.1

/-- `ckks_add_into` / `ckks_sub_into`: data path (the Rust runs it before the budget check), metadata,
`glwe_normalize_assign` -/
def dAddInto (env : Env) (N : Nat) (sub : Bool) (dst a b : DCt) : Outcome DCt :=
  bind (addIntoData env N sub dst a b) fun g1 =>
  withMeta (addCtInto env dst.ct a.ct b.ct) fun m =>
    bind (glweNormalizeAssign N g1) fun g' => .ok ⟨g', m⟩

/-- data path of `ckks_{add,sub}_assign_unsafe_default` -/
def addAssignData (N : Nat) (sub : Bool) (dst a : DCt) : Outcome GLWE :=
  let sh := assignShiftDA dst.ct a.ct
  if dst.md.logBudget < a.md.logBudget then
    if sub then glweLshSub N dst.g a.g sh.2 else glweLshAdd N dst.g a.g sh.2
  else if dst.md.logBudget > a.md.logBudget then
    bind (glweLshAssign N dst.g sh.1) fun g1 =>
      if sub then glweSubAssign N g1 a.g else glweAddAssign N g1 a.g
  else if sub then glweSubAssign N dst.g a.g else glweAddAssign N dst.g a.g

/-- `ckks_add_assign` / `ckks_sub_assign` -/
def dAddAssign (env : Env) (N : Nat) (sub : Bool) (dst a : DCt) : Outcome DCt :=
  bind (addAssignData N sub dst a) fun g1 =>
  withMeta (addCtAssign env dst.ct a.ct) fun m =>
    bind (glweNormalizeAssign N g1) fun g' => .ok ⟨g', m⟩

/-! ## ZNX plaintext addends (`leveled/default/{add,sub}.rs`, `pt_znx.rs`) -/

/-- `vec_znx_rsh_add_into(base2k, k, res.data, 0, pt.data, 0)` / `vec_znx_rsh_sub`: the body column only -/
def glweRshAcc (N : Nat) (sub : Bool) (k : Nat) (res : GLWE) (pg : Col) : Outcome GLWE :=
  selfCol (fun ri => if sub then rshSubCol res.base2k k ri pg N else rshAddCol res.base2k k ri pg N) 0 res

/-- `ckks_{add,sub}_pt_vec_znx_assign(dst, pt)`; `pg` = the limbs of the ZNX plaintext (one column).
Plaintext construction and the radix / alignment checks come first; then the fused right shift by
`ptShift`, then `glwe_normalize_assign`. -/
def dAddPtAssign (env : Env) (N : Nat) (sub : Bool) (c : DCt) (pt : Pt) (pg : Col) : Outcome DCt :=
  withMeta (withPt env pt c.ct (addPtZnxAssign env c.ct pt)) fun m =>
    bind (glweRshAcc N sub (ptShift c.ct pt) c.g pg) fun g1 =>
    bind (glweNormalizeAssign N g1) fun g' => .ok ⟨g', m⟩

/-- `ckks_{add,sub}_pt_vec_znx_into(dst, a, pt)`: budget check, aligned copy of `a` (`glwe_lsh`), then the
in-place form on the copy -/
def dAddPtInto (env : Env) (N : Nat) (sub : Bool) (dst a : DCt) (pt : Pt) (pg : Col) : Outcome DCt :=
  withMeta (withPt env pt dst.ct (shiftInto env dst.ct a.ct 0)) fun m1 =>
    bind (glweLsh N dst.g a.g (unaryShift env dst.ct a.ct 0)) fun g1 =>
    withMeta (ptAlign env ⟨m1, g1.size⟩ pt) fun m =>
      bind (glweRshAcc N sub (ptShift ⟨m1, g1.size⟩ pt) g1 pg) fun g2 =>
      bind (glweNormalizeAssign N g2) fun g' => .ok ⟨g', m⟩

/-! ## straight-line programs over a pool of ciphertexts with data (linear fragment) -/

/-- the operations that have a data path here; `toOp` is the call of the metadata model -/
inductive LOp where
  | add (sub : Bool) (d a b : Nat)
  | addAssign (sub : Bool) (d a : Nat)
  | neg (d a : Nat)
  | negAssign (d : Nat)
  | mulPow2 (d a bits : Nat)
  | mulPow2Assign (d bits : Nat)
  | divPow2 (d a bits : Nat)
  | divPow2Assign (d bits : Nat)
  | rescale (d k a : Nat)
  | rescaleAssign (d k : Nat)
  | align (a b : Nat)
  | addPt (sub : Bool) (d a : Nat) (pt : Pt) (pg : Col)
  | addPtAssign (sub : Bool) (d : Nat) (pt : Pt) (pg : Col)
deriving Repr, DecidableEq

/-- the API call as the metadata model sees it (`add` and `sub` have one metadata behaviour) -/
def LOp.toOp : LOp → Op
  | .add _ d a b => .addCt d a b
  | .addAssign _ d a => .addCtAssign d a
  | .neg d a => .neg d a
  | .negAssign d => .negAssign d
  | .mulPow2 d a bits => .mulPow2 d a bits
  | .mulPow2Assign d bits => .mulPow2Assign d bits
  | .divPow2 d a bits => .divPow2 d a bits
  | .divPow2Assign d bits => .divPow2Assign d bits
  | .rescale d k a => .rescale d k a
  | .rescaleAssign d k => .rescaleAssign d k
  | .align a b => .align a b
  | .addPt _ d a pt _ => .addPtZnx d a pt
  | .addPtAssign _ d pt _ => .addPtZnxAssign d pt

abbrev DPool := List DCt

def DPool.cts (p : DPool) : Pool := p.map DCt.ct

def dput (pool : DPool) (d : Nat) (r : Outcome DCt) : Outcome DPool :=
  bind r fun c => .ok (pool.set d c)

def dop1 (pool : DPool) (d : Nat) (f : DCt → Outcome DCt) : Outcome DPool :=
  match pool[d]? with
  | some cd => dput pool d (f cd)
  | none => .err Err.badSlot.toString

def dop2 (pool : DPool) (d a : Nat) (f : DCt → DCt → Outcome DCt) : Outcome DPool :=
  match pool[d]?, pool[a]? with
  | some cd, some ca => if d = a then .err Err.badSlot.toString else dput pool d (f cd ca)
  | _, _ => .err Err.badSlot.toString

def dop3 (pool : DPool) (d a b : Nat) (f : DCt → DCt → DCt → Outcome DCt) : Outcome DPool :=
  match pool[d]?, pool[a]?, pool[b]? with
  | some cd, some ca, some cb => if d = a ∨ d = b then .err Err.badSlot.toString else dput pool d (f cd ca cb)
  | _, _, _ => .err Err.badSlot.toString

/-- one call on the data pool -/
def dstep (env : Env) (N : Nat) (pool : DPool) : LOp → Outcome DPool
  | .add sub d a b => dop3 pool d a b (dAddInto env N sub)
  | .addAssign sub d a => dop2 pool d a (dAddAssign env N sub)
  | .neg d a => dop2 pool d a (dNegInto env N)
  | .negAssign d => dop1 pool d (dNegAssign env N)
  | .mulPow2 d a bits => dop2 pool d a (fun cd ca => dMulPow2Into env N cd ca bits)
  | .mulPow2Assign d bits => dop1 pool d (fun cd => dMulPow2Assign env N cd bits)
  | .divPow2 d a bits => dop2 pool d a (fun cd ca => dDivPow2Into env N cd ca bits)
  | .divPow2Assign d bits => dop1 pool d (fun cd => dDivPow2Assign env N cd bits)
  | .rescale d k a => dop2 pool d a (fun cd ca => dRescaleInto env N cd k ca)
  | .rescaleAssign d k => dop1 pool d (fun cd => dRescaleAssign env N cd k)
  | .align a b =>
    match pool[a]?, pool[b]? with
    | some ca, some cb =>
      if a = b then .err Err.badSlot.toString
      else if ca.md.logBudget < cb.md.logBudget then
        dput pool b (dRescaleAssign env N cb (cb.md.logBudget - ca.md.logBudget))
      else dput pool a (dRescaleAssign env N ca (ca.md.logBudget - cb.md.logBudget))
    | _, _ => .err Err.badSlot.toString
  | .addPt sub d a pt pg => dop2 pool d a (fun cd ca => dAddPtInto env N sub cd ca pt pg)
  | .addPtAssign sub d pt pg => dop1 pool d (fun cd => dAddPtAssign env N sub cd pt pg)

/-- the pool a call leaves behind when it returns `Err`: `ckks_add_into` / `ckks_sub_into` run their data path
before the budget check, so the destination holds the un-normalised aligned sum under its old metadata; every
other operation of the fragment checks first (docs/fixes/08) or cannot fail -/
def dstepErrPool (env : Env) (N : Nat) (pool : DPool) : LOp → DPool
  | .add sub d a b =>
    match pool[d]?, pool[a]?, pool[b]? with
    | some cd, some ca, some cb =>
      if d = a ∨ d = b then pool
      else
        match addIntoData env N sub cd ca cb with
        | .ok g1 => pool.set d ⟨g1, cd.md⟩
        | _ => pool
    | _, _, _ => pool
  | .addPt _ d a pt _ =>
    -- the alignment check of the plaintext comes after the aligned copy of `a`
    match pool[d]?, pool[a]? with
    | some cd, some ca =>
      if d = a then pool
      else
        match withPt env pt cd.ct (shiftInto env cd.ct ca.ct 0), glweLsh N cd.g ca.g (unaryShift env cd.ct ca.ct 0) with
        | .ok m1, .ok g1 => pool.set d ⟨g1, m1.md⟩
        | _, _ => pool
    | _, _ => pool
  | _ => pool

/-- a straight-line program, stopping at the first call that is not `Ok` -/
def drun (env : Env) (N : Nat) : DPool → List LOp → Outcome DPool
  | p, [] => .ok p
  | p, op :: rest => bind (dstep env N p op) fun p' => drun env N p' rest

end Ckks
