import Poulpy.Model.Basic

/-!
Integer model of the NTT120 back end's arithmetic *below* the butterfly network
(`poulpy-cpu-ref/src/reference/ntt120/{primes,arithmetic,mat_vec,types}.rs`, the modular
primitives of `ntt.rs`, the `Q_SHIFTED` add/sub/negate of `poulpy-cpu-ref/src/ntt120/prim.rs`).

Conventions
* a `u64` / `u32` value is a `Nat`; every Rust `+`, `*`, `-`, `<<` on it is followed by the wrap of
  its type (`wu64`, `wu32`, `subU64`): the harness is built with `overflow-checks = false`, so the
  model equals the implementation bit for bit *including on overflow*; the theorems
  (`Lemmas/Ntt120*.lean`) then show that inside the documented domain no wrap ever happens.
* an `i64` / `i128` value is an `Int` (wraps `w64` / `w128` of `Model/Basic.lean`); Rust `%`, `/`
  on signed integers are `Int.tmod`, `Int.tdiv`; `rem_euclid` is `Int.emod`.
* `x & m`, `x >> k` on unsigned values are `Nat.land` (`&&&`) and `Nat.shiftRight` (`>>>`);
  `x << k` is "multiply by `2^k`, then wrap".
* one q120 element = four residues, prime index `k = 0..3`; per-prime kernels carry the suffix `K`.
  The Rust loops run `for i in 0..ell { for k in 0..4 { … } }`; the accumulators of different primes
  are independent, so the model runs prime by prime (`k` outside, `i` inside).  Flat operand slices
  of the dot products are `Array Nat` (constant-time indexing in the driver); every index used is
  below the length checked by the entry assertion, which the model reproduces.
-/

namespace Ntt120

def wu64 (x : Nat) : Nat := x % 2 ^ 64
def wu32 (x : Nat) : Nat := x % 2 ^ 32
/-- `a - b` on `u64` operands (wrapping) -/
def subU64 (a b : Nat) : Nat := (a + (2 ^ 64 - b % 2 ^ 64)) % 2 ^ 64
/-- `x as u64` for an `i64` (or any two's-complement integer) -/
def asU64 (x : Int) : Nat := (x % 2 ^ 64).toNat

/-! ### primes.rs -/

structure PrimeSet where
  q0 : Nat
  q1 : Nat
  q2 : Nat
  q3 : Nat
  omega : List Nat
  c0 : Nat
  c1 : Nat
  c2 : Nat
  c3 : Nat
  logQ : Nat
deriving Repr

def PrimeSet.qs (P : PrimeSet) : List Nat := [P.q0, P.q1, P.q2, P.q3]
def PrimeSet.crt (P : PrimeSet) : List Nat := [P.c0, P.c1, P.c2, P.c3]

def primes29 : PrimeSet :=
  { q0 := (1 <<< 29) - 2 * (1 <<< 17) + 1, q1 := (1 <<< 29) - 5 * (1 <<< 17) + 1,
    q2 := (1 <<< 29) - 26 * (1 <<< 17) + 1, q3 := (1 <<< 29) - 35 * (1 <<< 17) + 1,
    omega := [78289835, 178519192, 483889678, 239808033],
    c0 := 301701286, c1 := 536020447, c2 := 86367873, c3 := 147030781, logQ := 29 }

/-- the default set; every HAL path of NTT120Ref / NTT120Avx is fixed to it -/
def primes30 : PrimeSet :=
  { q0 := (1 <<< 30) - 2 * (1 <<< 17) + 1, q1 := (1 <<< 30) - 17 * (1 <<< 17) + 1,
    q2 := (1 <<< 30) - 23 * (1 <<< 17) + 1, q3 := (1 <<< 30) - 42 * (1 <<< 17) + 1,
    omega := [1070907127, 315046632, 309185662, 846468380],
    c0 := 43599465, c1 := 292938863, c2 := 594011630, c3 := 140177212, logQ := 30 }

def primes31 : PrimeSet :=
  { q0 := (1 <<< 31) - (1 <<< 17) + 1, q1 := (1 <<< 31) - 4 * (1 <<< 17) + 1,
    q2 := (1 <<< 31) - 11 * (1 <<< 17) + 1, q3 := (1 <<< 31) - 23 * (1 <<< 17) + 1,
    omega := [1615402923, 1137738560, 154880552, 558784885],
    c0 := 1811422063, c1 := 2093150204, c2 := 164149010, c3 := 225197446, logQ := 31 }

/-- `Q = Q[0]·Q[1]·Q[2]·Q[3]` as the `i128` expression `q[0] * q[1] * q[2] * q[3]` -/
def totalQ (P : PrimeSet) : Int := w128 (w128 (w128 ((P.q0 : Int) * P.q1) * P.q2) * P.q3)

/-- `qm[k] = Q / Q[k]`, as the four `i128` triple products of `b_to_znx128_ref` -/
def qm0 (P : PrimeSet) : Int := w128 (w128 ((P.q1 : Int) * P.q2) * P.q3)
def qm1 (P : PrimeSet) : Int := w128 (w128 ((P.q0 : Int) * P.q2) * P.q3)
def qm2 (P : PrimeSet) : Int := w128 (w128 ((P.q0 : Int) * P.q1) * P.q3)
def qm3 (P : PrimeSet) : Int := w128 (w128 ((P.q0 : Int) * P.q1) * P.q2)

/-! ### mod.rs: `pow2_mod` -/

/-- the `while e > 0` loop of `pow2_mod` (`u128` intermediate products never wrap for `q < 2^64`);
`fuel = 64` suffices for a `u64` exponent -/
def pow2ModLoop : Nat → Nat → Nat → Nat → Nat → Nat
  | 0, _, result, _, _ => result
  | fuel + 1, q, result, base, e =>
    if e > 0 then
      let result := if e &&& 1 ≠ 0 then (result * base) % q else result
      pow2ModLoop fuel q result ((base * base) % q) (e >>> 1)
    else result

def pow2Mod (exp q : Nat) : Nat := pow2ModLoop 64 q 1 (2 % q) exp

/-! ### arithmetic.rs -/

/-- `i64::MAX as u64` -/
def maskLo : Nat := 2 ^ 63 - 1

/-- `OQ[k] = Q[k] - (2^63 mod Q[k])` (`u64` arithmetic) -/
def oq (q : Nat) : Nat := subU64 q (2 ^ 63 % q)

/-- inner statement of `b_from_znx64_ref` for one coefficient (already `as u64`) and one prime -/
def bFromU64K (q xu : Nat) : Nat :=
  let isNeg := decide (xu > maskLo)
  let xl := xu &&& maskLo
  wu64 (xl + (if isNeg then oq q else 0))

/-- `b_from_znx64_ref`, one coefficient: the four q120b residues -/
def bFromZnx64 (P : PrimeSet) (x : Int) : List Nat := P.qs.map (fun q => bFromU64K q (asU64 x))

/-- `b_from_znx64_masked_ref`, one coefficient: `(x & mask) as u64` first -/
def bFromZnx64Masked (P : PrimeSet) (x mask : Int) : List Nat :=
  P.qs.map (fun q => bFromU64K q (asU64 x &&& asU64 mask))

/-- the q120c pair of a canonical residue `r`: `[r as u32, ((r << 32) % q) as u32]` -/
def cPair (q r : Nat) : List Nat := [wu32 r, wu32 (wu64 (r * 2 ^ 32) % q)]

/-- `c_from_znx64_ref`, one coefficient and one prime: `r = x.rem_euclid(q)` -/
def cFromZnx64K (q : Nat) (x : Int) : List Nat := cPair q (x % (q : Int)).toNat

/-- `c_from_znx64_ref`, one coefficient: 8 `u32` -/
def cFromZnx64 (P : PrimeSet) (x : Int) : List Nat := (P.qs.map (fun q => cFromZnx64K q x)).flatten

/-- `c_from_b_ref`, one residue and one prime: `r = x % q` -/
def cFromBK (q x : Nat) : List Nat := cPair q (x % q)

/-- `c_from_b_ref`, one element (4 `u64` → 8 `u32`); a short input is an index panic -/
def cFromB (P : PrimeSet) (x : List Nat) : Outcome (List Nat) :=
  match x with
  | [x0, x1, x2, x3] => .ok (cFromBK P.q0 x0 ++ cFromBK P.q1 x1 ++ cFromBK P.q2 x2 ++ cFromBK P.q3 x3)
  | _ => .panic "bounds"

/-- one iteration of the `for k in 0..4` loop of `b_to_znx128_ref`:
`xk = (x % Q[k]) as i128; t = (xk * crt[k]) % q[k]; tmp += t * qm[k]` -/
def crtStep (tmp q crt qm : Int) (x : Nat) : Int :=
  let xk : Int := ((x % q.toNat : Nat) : Int)
  let t := Int.tmod (w128 (xk * crt)) q
  w128 (tmp + w128 (t * qm))

/-- `b_to_znx128_ref`, one coefficient, on explicit residues -/
def bToZnx128Core (P : PrimeSet) (x0 x1 x2 x3 : Nat) : Int :=
  let tq := totalQ P
  let tmp := crtStep 0 P.q0 P.c0 (qm0 P) x0
  let tmp := crtStep tmp P.q1 P.c1 (qm1 P) x1
  let tmp := crtStep tmp P.q2 P.c2 (qm2 P) x2
  let tmp := crtStep tmp P.q3 P.c3 (qm3 P) x3
  let tmp := Int.tmod tmp tq
  let half := Int.tdiv (w128 (tq + 1)) 2
  if tmp ≥ half then w128 (tmp - tq) else tmp

def bToZnx128 (P : PrimeSet) (x : List Nat) : Outcome Int :=
  match x with
  | [x0, x1, x2, x3] => .ok (bToZnx128Core P x0 x1 x2 x3)
  | _ => .panic "bounds"

/-- `Q[k] << 33` (`types.rs: Q_SHIFTED`, `add_bbb_ref: q_shifted`) -/
def qShifted (q : Nat) : Nat := wu64 (q * 2 ^ 33)

/-- `add_bbb_ref` / `NttAdd` / `NttAddAssign`: `x % q_s + y % q_s` -/
def addBbbK (q x y : Nat) : Nat := wu64 (x % qShifted q + y % qShifted q)
/-- `NttSub` / `NttSubAssign` / `NttSubNegateAssign`: `a % q_s + (q_s - b % q_s)` -/
def subBbbK (q a b : Nat) : Nat := wu64 (a % qShifted q + subU64 (qShifted q) (b % qShifted q))
/-- `NttNegate` / `NttNegateAssign`: `q_s - a % q_s` -/
def negBK (q a : Nat) : Nat := subU64 (qShifted q) (a % qShifted q)
/-- `add_ccc_ref`: `((x as u64 + y as u64) % q) as u32` -/
def addCccK (q x y : Nat) : Nat := wu32 (wu64 (x + y) % q)

/-- `lazy_reduce` of poulpy-cpu-avx/src/ntt120/prim.rs: one conditional subtraction of `q_s`
(the AVX2 twin of `% q_s`; equal to it exactly when `x < 2·q_s`) -/
def lazyReduceAvx (q x : Nat) : Nat := if x ≥ qShifted q then subU64 x (qShifted q) else x
def addBbbAvxK (q x y : Nat) : Nat := wu64 (lazyReduceAvx q x + lazyReduceAvx q y)
def subBbbAvxK (q a b : Nat) : Nat := wu64 (lazyReduceAvx q a + subU64 (qShifted q) (lazyReduceAvx q b))
def negBAvxK (q a : Nat) : Nat := subU64 (qShifted q) (lazyReduceAvx q a)

/-- element-wise lift of a per-prime binary kernel to q120b vectors (4 residues per element,
prime index = position mod 4) -/
def zipK (P : PrimeSet) (f : Nat → Nat → Nat → Nat) (x y : List Nat) : List Nat :=
  (List.zip x y).mapIdx (fun i p => f (P.qs.getD (i % 4) 1) p.1 p.2)

/-- the q120c twin: 8 `u32` per element, prime index = (position mod 8) / 2 -/
def zipKc (P : PrimeSet) (f : Nat → Nat → Nat → Nat) (x y : List Nat) : List Nat :=
  (List.zip x y).mapIdx (fun i p => f (P.qs.getD (i % 8 / 2) 1) p.1 p.2)

def mapK (P : PrimeSet) (f : Nat → Nat → Nat) (x : List Nat) : List Nat :=
  x.mapIdx (fun i v => f (P.qs.getD (i % 4) 1) v)

/-! ### mat_vec.rs -/

def m32 : Nat := 2 ^ 32 - 1

/-- `(1u64 << h) - 1` -/
def maskOf (h : Nat) : Nat := subU64 (wu64 (2 ^ h)) 1

/-- `BbcMeta`: the split point `h` (chosen by a floating-point search in `BbcMeta::new`; here a
parameter, compared with the Rust value on every run) and the two reduction constants per prime -/
structure BbcMeta where
  h : Nat
  s2l : List Nat
  s2h : List Nat
deriving Repr

/-- the integer part of `BbcMeta::new` given `h` -/
def bbcMetaOf (P : PrimeSet) (h : Nat) : BbcMeta :=
  { h := h, s2l := P.qs.map (pow2Mod 32), s2h := P.qs.map (pow2Mod (32 + h)) }

/-- `accum_mul_q120_bc`, prime `k`: `s = (s[2k], s[2k+1])`, `x = (x[2k], x[2k+1])`, `y` likewise -/
def accumMulBcK (s : Nat × Nat) (xlo xhi ylo yhi : Nat) : Nat × Nat :=
  let xyLo := wu64 (xlo * ylo)
  let xyHi := wu64 (xhi * yhi)
  (wu64 (s.1 + wu64 ((xyLo &&& m32) + (xyHi &&& m32))),
   wu64 (s.2 + wu64 ((xyLo >>> 32) + (xyHi >>> 32))))

/-- `accum_to_q120b`, prime `k` -/
def accumToQ120bK (h s2lPow s2hPow : Nat) (s : Nat × Nat) : Nat :=
  let s2l := s.2 &&& maskOf h
  let s2h := s.2 >>> h
  wu64 (wu64 (s.1 + wu64 (s2l * s2lPow)) + wu64 (s2h * s2hPow))

/-- one prime of `vec_mat1col_product_bbc_ref`: `terms = [(x_lo, x_hi, y_lo, y_hi)]`, one per row -/
def bbcK (h s2lPow s2hPow : Nat) (terms : List (Nat × Nat × Nat × Nat)) : Nat :=
  accumToQ120bK h s2lPow s2hPow
    (terms.foldl (fun s t => accumMulBcK s t.1 t.2.1 t.2.2.1 t.2.2.2) (0, 0))

/-- the `(x_lo, x_hi, y_lo, y_hi)` of prime `k`, rows `0..ell`, for element strides `sx`, `sy` and
element offsets `ox`, `oy` inside a row (1-column: `8,8,0,0`; x2: `16,16,{0,8},{0,8}`; …) -/
def bbcTerms (ell k sx ox sy oy : Nat) (x y : Array Nat) : List (Nat × Nat × Nat × Nat) :=
  (List.range ell).map (fun i =>
    (x.getD (sx * i + ox + 2 * k) 0, x.getD (sx * i + ox + 2 * k + 1) 0,
     y.getD (sy * i + oy + 2 * k) 0, y.getD (sy * i + oy + 2 * k + 1) 0))

def bbcOut (m : BbcMeta) (ell sx ox sy oy : Nat) (x y : Array Nat) : List Nat :=
  (List.range 4).map (fun k => bbcK m.h (m.s2l.getD k 0) (m.s2h.getD k 0) (bbcTerms ell k sx ox sy oy x y))

/-- `vec_mat1col_product_bbc_ref(meta, ell, res, x, y)` → `res[0..4]` -/
def vecMat1ColProductBbc (m : BbcMeta) (ell : Nat) (x y : Array Nat) : Outcome (List Nat) :=
  if x.size < 8 * ell ∨ y.size < 8 * ell then .panic "assert"
  else .ok (bbcOut m ell 8 0 8 0 x y)

/-- `vec_mat1col_product_x2_bbc_ref` → `res[0..8]` -/
def vecMat1ColProductX2Bbc (m : BbcMeta) (ell : Nat) (x y : Array Nat) : Outcome (List Nat) :=
  if x.size < 16 * ell ∨ y.size < 16 * ell then .panic "assert"
  else .ok (bbcOut m ell 16 0 16 0 x y ++ bbcOut m ell 16 8 16 8 x y)

/-- `vec_mat2cols_product_x2_bbc_ref` → `res[0..16]` -/
def vecMat2ColsProductX2Bbc (m : BbcMeta) (ell : Nat) (x y : Array Nat) : Outcome (List Nat) :=
  if x.size < 16 * ell ∨ y.size < 32 * ell then .panic "assert"
  else .ok (bbcOut m ell 16 0 32 0 x y ++ bbcOut m ell 16 8 32 8 x y ++
            bbcOut m ell 16 0 32 16 x y ++ bbcOut m ell 16 8 32 24 x y)

/-- `BbbMeta` -/
structure BbbMeta where
  h : Nat
  s1h : Nat
  s2l : List Nat
  s2h : List Nat
  s3l : List Nat
  s3h : List Nat
  s4l : List Nat
  s4h : List Nat
deriving Repr

/-- the integer part of `BbbMeta::new` given `h` -/
def bbbMetaOf (P : PrimeSet) (h : Nat) : BbbMeta :=
  let s1h := wu64 (2 ^ h)
  let s2l := P.qs.map (pow2Mod 32)
  let s3l := P.qs.map (fun q => wu64 (pow2Mod 32 q * pow2Mod 32 q) % q)
  let s4l := P.qs.map (fun q => wu64 ((wu64 (pow2Mod 32 q * pow2Mod 32 q) % q) * pow2Mod 32 q) % q)
  { h := h, s1h := s1h, s2l := s2l,
    s2h := List.zipWith (fun q v => wu64 (v * s1h) % q) P.qs s2l,
    s3l := s3l,
    s3h := List.zipWith (fun q v => wu64 (v * s1h) % q) P.qs s3l,
    s4l := s4l,
    s4h := List.zipWith (fun q v => wu64 (v * s1h) % q) P.qs s4l }

/-- loop body of `vec_mat1col_product_bbb_ref`, prime `k` -/
def bbbAccK (s : Nat × Nat × Nat × Nat) (xv yv : Nat) : Nat × Nat × Nat × Nat :=
  let xl := xv &&& m32
  let xh := xv >>> 32
  let yl := yv &&& m32
  let yh := yv >>> 32
  let a := wu64 (xl * yl)
  let b := wu64 (xl * yh)
  let c := wu64 (xh * yl)
  let d := wu64 (xh * yh)
  (wu64 (s.1 + (a &&& m32)),
   wu64 (s.2.1 + wu64 (wu64 ((a >>> 32) + (b &&& m32)) + (c &&& m32))),
   wu64 (s.2.2.1 + wu64 (wu64 ((b >>> 32) + (c >>> 32)) + (d &&& m32))),
   wu64 (s.2.2.2 + (d >>> 32)))

/-- final collapse of `vec_mat1col_product_bbb_ref`, prime `k` -/
def bbbFinalK (h s1hP s2lP s2hP s3lP s3hP s4lP s4hP : Nat) (s : Nat × Nat × Nat × Nat) : Nat :=
  let mask2 := maskOf h
  let t := s.1 &&& mask2
  let t := wu64 (t + wu64 ((s.1 >>> h) * s1hP))
  let t := wu64 (t + wu64 ((s.2.1 &&& mask2) * s2lP))
  let t := wu64 (t + wu64 ((s.2.1 >>> h) * s2hP))
  let t := wu64 (t + wu64 ((s.2.2.1 &&& mask2) * s3lP))
  let t := wu64 (t + wu64 ((s.2.2.1 >>> h) * s3hP))
  let t := wu64 (t + wu64 ((s.2.2.2 &&& mask2) * s4lP))
  wu64 (t + wu64 ((s.2.2.2 >>> h) * s4hP))

def bbbK (h s1hP s2lP s2hP s3lP s3hP s4lP s4hP : Nat) (terms : List (Nat × Nat)) : Nat :=
  bbbFinalK h s1hP s2lP s2hP s3lP s3hP s4lP s4hP
    (terms.foldl (fun s t => bbbAccK s t.1 t.2) (0, 0, 0, 0))

/-- `vec_mat1col_product_bbb_ref(meta, ell, res, x, y)` → `res[0..4]` -/
def vecMat1ColProductBbb (m : BbbMeta) (ell : Nat) (x y : Array Nat) : Outcome (List Nat) :=
  if x.size < 4 * ell ∨ y.size < 4 * ell then .panic "assert"
  else .ok ((List.range 4).map (fun k =>
    bbbK m.h m.s1h (m.s2l.getD k 0) (m.s2h.getD k 0) (m.s3l.getD k 0) (m.s3h.getD k 0) (m.s4l.getD k 0) (m.s4h.getD k 0)
      ((List.range ell).map (fun i => (x.getD (4 * i + k) 0, y.getD (4 * i + k) 0)))))

/-- `BaaMeta` -/
structure BaaMeta where
  h : Nat
  hPowRed : List Nat
deriving Repr

def baaMetaOf (P : PrimeSet) (h : Nat) : BaaMeta := { h := h, hPowRed := P.qs.map (pow2Mod h) }

/-- one prime of `vec_mat1col_product_baa_ref` -/
def baaK (h hPow : Nat) (terms : List (Nat × Nat)) : Nat :=
  let acc := terms.foldl (fun (s : Nat × Nat) t =>
    let p := wu64 (t.1 * t.2)
    (wu64 (s.1 + (p &&& maskOf h)), wu64 (s.2 + (p >>> h)))) (0, 0)
  wu64 (acc.1 + wu64 (acc.2 * hPow))

def vecMat1ColProductBaa (m : BaaMeta) (ell : Nat) (x y : Array Nat) : Outcome (List Nat) :=
  if x.size < 4 * ell ∨ y.size < 4 * ell then .panic "assert"
  else .ok ((List.range 4).map (fun k =>
    baaK m.h (m.hPowRed.getD k 0) ((List.range ell).map (fun i => (x.getD (4 * i + k) 0, y.getD (4 * i + k) 0)))))

/-! ### ntt.rs: the modular primitives (not the butterfly network) -/

/-- the square-and-multiply loop of `modq_pow` (`u64` products of values `< q < 2^32`) -/
def modqPowLoop : Nat → Nat → Nat → Nat → Nat → Nat
  | 0, _, res, _, _ => res
  | fuel + 1, q, res, valPow, np =>
    if np ≠ 0 then
      let res := if np &&& 1 ≠ 0 then wu64 (res * valPow) % q else res
      modqPowLoop fuel q res (wu64 (valPow * valPow) % q) (np >>> 1)
    else res

/-- `modq_pow(x: u32, n: i64, q: u32)`: exponent first reduced to `[0, q−1)` with `i64` `%` -/
def modqPow (x : Nat) (n : Int) (q : Nat) : Nat :=
  let qm1 : Int := ((q - 1 : Nat) : Int)
  let np := Int.tmod (w64 (Int.tmod n qm1 + qm1)) qm1
  wu32 (modqPowLoop 64 q 1 x (asU64 np))

/-- `split_precompmul(inp, powomega_packed, half_bs, mask)` -/
def splitPrecompmul (inp po halfBs mask : Nat) : Nat :=
  let inpLow := inp &&& mask
  let t := po &&& 0xFFFFFFFF
  let t1 := po >>> 32
  wu64 (wu64 (inpLow * t) + wu64 ((inp >>> halfBs) * t1))

/-- `pack_omega(t, half_bs, q)` -/
def packOmega (t halfBs q : Nat) : Nat :=
  let t1 := wu64 (t * 2 ^ halfBs) % q
  wu64 (t1 * 2 ^ 32) ||| t

/-- `modq_red(x, h, mask, cst)` -/
def modqRed (x h mask cst : Nat) : Nat := wu64 ((x &&& mask) + wu64 ((x >>> h) * cst))

/-- `ceil_log2_u64` -/
def ceilLog2 (x : Nat) : Nat :=
  if x ≤ 1 then 0 else if 2 ^ Nat.log2 x = x then Nat.log2 x else Nat.log2 x + 1

/-- `NttReducMeta` plus the resulting bit size -/
structure ReducMeta where
  cst : List Nat
  mask : Nat
  h : Nat
  bsAfter : Nat
deriving Repr

/-- the bit size `t` that `fill_reduction_meta` assigns to a split point `h` -/
def reducBits (P : PrimeSet) (bsStart h : Nat) : Nat :=
  P.qs.foldl (fun t q =>
    let p := pow2Mod h q
    let powHBs := if p ≤ 1 then 0 else ceilLog2 p
    let t1 := bsStart - h + powHBs
    let t2 := 1 + max t1 h
    if t < t2 then t2 else t) 0

/-- `fill_reduction_meta(bs_start)`: first `h ∈ [bs_start/2, bs_start)` minimising the bit size -/
def fillReductionMeta (P : PrimeSet) (bsStart : Nat) : ReducMeta :=
  let init : Nat × Nat := (2 ^ 64 - 1, bsStart / 2)
  let best := (List.range (bsStart - bsStart / 2)).foldl (fun (acc : Nat × Nat) d =>
    let h := bsStart / 2 + d
    let t := reducBits P bsStart h
    if t < acc.1 then (t, h) else acc) init
  { cst := P.qs.map (pow2Mod best.2), mask := maskOf best.2, h := best.2, bsAfter := best.1 }

/-! ### the one-limb product pipeline of `svp_prepare` / `svp_apply_dft_to_dft` / `idft_apply`
around an abstract transform -/

/-- split a `u64` into the `(lo, hi)` `u32` pair that `cast_slice::<u64, u32>` exposes (little endian) -/
def u32Pair (x : Nat) : Nat × Nat := (x &&& m32, x >>> 32)

/-- `ntt_mul_bbc(meta, 1, res, a_u32, b_c)` for prime `k` on one lazy residue `a` and the prepared
pair `c = [r, r·2^32 mod q]` -/
def mulBbc1K (h s2lPow s2hPow : Nat) (a : Nat) (c : List Nat) : Nat :=
  bbcK h s2lPow s2hPow [((u32Pair a).1, (u32Pair a).2, c.getD 0 0, c.getD 1 0)]

/-- everything the NTT120 back end does to one coefficient slot of one prime between the
coefficient-domain input and the CRT, *given* the transformed lazy residues `fa`, `fb` of the two
operands: prepare `fb` (`c_from_b`), multiply (`bbc`, `ell = 1`) -/
def slotProductK (q h : Nat) (fa fb : Nat) : Nat :=
  mulBbc1K h (pow2Mod 32 q) (pow2Mod (32 + h) q) fa (cFromBK q fb)

/-- the whole scalar pipeline at ring degree `n = 1`, where `ntt_ref` / `intt_ref` return
immediately: `b_from_znx64` on both operands, `c_from_b` on the prepared one, `bbc` with `ell = 1`,
`b_to_znx128`.  (`Z[X]/(X+1) = Z`: the result is the centred representative of `a·b` modulo `Q`.) -/
def scalarPipeline (P : PrimeSet) (h : Nat) (a b : Int) : Int :=
  let ra := bFromZnx64 P a
  let rb := bFromZnx64 P b
  let r := List.zipWith (fun q (p : Nat × Nat) => slotProductK q h p.1 p.2) P.qs (List.zip ra rb)
  bToZnx128Core P (r.getD 0 0) (r.getD 1 0) (r.getD 2 0) (r.getD 3 0)

/-! ### the split points chosen by the floating-point searches of `BbcMeta::new`, `BbbMeta::new`,
`BaaMeta::new` (`f64::log2` / `powf`: not modelled).  The values are compared with the Rust on every
run (`consts`); the theorems do not depend on them being optimal, only on their range. -/

def bbcH (P : PrimeSet) : Nat := if P.logQ = 31 then 27 else 25
def bbbH (_ : PrimeSet) : Nat := 24
def baaH (P : PrimeSet) : Nat := if P.logQ = 31 then 45 else if P.logQ = 30 then 47 else 46

def bbcMeta (P : PrimeSet) : BbcMeta := bbcMetaOf P (bbcH P)
def bbbMeta (P : PrimeSet) : BbbMeta := bbbMetaOf P (bbbH P)
def baaMeta (P : PrimeSet) : BaaMeta := baaMetaOf P (baaH P)

/-! ### vec_znx_dft.rs: the fused CRT of `ntt120_vec_znx_idft_apply_consume`
(`barrett_u61`, `reduce_q120b_crt`, the per-coefficient body of `compact_all_blocks_scalar`) -/

/-- `barrett_u61(x, q, mu)` with `mu = 2^61 / q` -/
def barrettU61 (x q mu : Nat) : Nat :=
  let qApprox := wu64 ((x * mu) >>> 61)
  let r := subU64 x (wu64 (qApprox * q))
  let r := if r ≥ q then subU64 r q else r
  if r ≥ q then subU64 r q else r

/-- `reduce_q120b_crt`: `(x mod q)·crt mod q` from the three 32/16/16-bit pieces of `x` -/
def reduceQ120bCrt (x q mu pow32Crt pow16Crt crt : Nat) : Nat :=
  let xHi := x >>> 32
  let xHiR := if xHi ≥ q then subU64 xHi q else xHi
  let xLo := x &&& 0xFFFFFFFF
  let xLoHi := xLo >>> 16
  let xLoLo := xLo &&& 0xFFFF
  let tmp := wu64 (wu64 (wu64 (xHiR * pow32Crt) + wu64 (xLoHi * pow16Crt)) + wu64 (xLoLo * crt))
  barrettU61 tmp q mu

/-- the per-prime constants `(mu, pow32_crt, pow16_crt)` of `compact_all_blocks_scalar` -/
def compactCst (q crt : Nat) : Nat × Nat × Nat :=
  let mu := 2 ^ 61 / q
  (mu, barrettU61 (wu64 ((2 ^ 32 % q) * crt)) q mu, barrettU61 (wu64 (2 ^ 16 * crt)) q mu)

def wu128 (x : Nat) : Nat := x % 2 ^ 128

/-- one coefficient of `compact_all_blocks_scalar` after the inverse transform (`u128` arithmetic;
the table `total_q_mult` has four entries, a larger index is an index panic) -/
def compactCrt (P : PrimeSet) (x : List Nat) : Outcome Int :=
  match x with
  | [x0, x1, x2, x3] =>
    let red := fun (q crt xk : Nat) =>
      let c := compactCst q crt
      reduceQ120bCrt xk q c.1 c.2.1 c.2.2 crt
    let tq := wu128 (wu128 (wu128 (P.q0 * P.q1) * P.q2) * P.q3)
    let m0 := wu128 (wu128 (P.q1 * P.q2) * P.q3)
    let m1 := wu128 (wu128 (P.q0 * P.q2) * P.q3)
    let m2 := wu128 (wu128 (P.q0 * P.q1) * P.q3)
    let m3 := wu128 (wu128 (P.q0 * P.q1) * P.q2)
    let v := wu128 (wu128 (wu128 (wu128 (red P.q0 P.c0 x0 * m0) + wu128 (red P.q1 P.c1 x1 * m1)) +
                wu128 (red P.q2 P.c2 x2 * m2)) + wu128 (red P.q3 P.c3 x3 * m3))
    let qApprox := v >>> 120
    if qApprox ≥ 4 then .panic "bounds"
    else
      let v := (v + (2 ^ 128 - wu128 (tq * qApprox))) % 2 ^ 128
      let v := if v ≥ tq then (v + (2 ^ 128 - tq)) % 2 ^ 128 else v
      let halfQ := (tq + 1) / 2
      .ok (if v ≥ halfQ then w128 (w128 (v : Int) - w128 (tq : Int)) else w128 (v : Int))
  | _ => .panic "bounds"

/-! ### the one-limb product pipeline at ring degree `n` around an abstract transform

`svp_prepare` (`b_from_znx64`, forward transform, `c_from_b`), `vec_znx_dft_apply`
(`b_from_znx64`, forward transform), `svp_apply_dft_to_dft` (`bbc` with `ell = 1` per slot),
`vec_znx_idft_apply` (inverse transform, `b_to_znx128`).  The butterfly networks `ntt_ref` /
`intt_ref` are *parameters* here (`ntt k`, `intt k` act on the lane of prime `k`): they are not
modelled; the pipeline theorem assumes `NttIsRingIso` for them. -/

/-- lane of prime `q`: prepared operand `p`, lazy operand `x` -/
def laneK (q h : Nat) (ntt intt : List Nat → List Nat) (p x : Poly) : List Nat :=
  let fp := ntt (p.map (fun c => bFromU64K q (asU64 c)))
  let fx := ntt (x.map (fun c => bFromU64K q (asU64 c)))
  intt (List.zipWith (fun a b => slotProductK q h a b) fx fp)

def nttPipeline (P : PrimeSet) (h : Nat) (ntt intt : Nat → List Nat → List Nat) (p x : Poly) : List Int :=
  let l0 := laneK P.q0 h (ntt 0) (intt 0) p x
  let l1 := laneK P.q1 h (ntt 1) (intt 1) p x
  let l2 := laneK P.q2 h (ntt 2) (intt 2) p x
  let l3 := laneK P.q3 h (ntt 3) (intt 3) p x
  (List.range x.length).map (fun i => bToZnx128Core P (l0.getD i 0) (l1.getD i 0) (l2.getD i 0) (l3.getD i 0))

/-! ### ntt.rs: `NttTable::new`, `NttTableInv::new`, `ntt_ref`, `intt_ref` — one prime lane

The four primes never interact inside the transform: the model works on one lane (the `n` residues
of prime `k`, `data[4·i + k]`), with that prime's column of `powomega` and `q2bs`.  The Rust runs
level by level over all blocks; a block of one level only feeds its own two half blocks of the next
level, so the model recurses into the halves (depth first) — the same values in a different order of
evaluation (the AVX2 twin uses the same by-block order for `n ≤ 1024`). -/

/-- `NttStepMeta` of one prime -/
structure StepMeta where
  q2bs : Nat
  bs : Nat
  halfBs : Nat
  mask : Nat
  reduce : Bool
deriving Repr

/-- `NttReducMeta` of one prime -/
structure ReducK where
  h : Nat
  mask : Nat
  cst : Nat
deriving Repr

/-- one level: metadata and this prime's packed twiddles, in table order -/
abbrev Level := StepMeta × List Nat

structure TableK where
  n : Nat
  levels : List Level
  reduc : ReducK
  outBs : Nat
deriving Repr

/-- `count` successive table entries `pack(pow), pack(pow·step mod q), …` (`u64` product, `% q`) -/
def packedPowers (q halfBs : Nat) : Nat → Nat → Nat → List Nat
  | 0, _, _ => []
  | c + 1, pow, step => packOmega pow halfBs q :: packedPowers q halfBs c (wu64 (pow * step) % q) step

def isPow2 (n : Nat) : Bool := n != 0 && n &&& (n - 1) == 0

def reducOf (P : PrimeSet) (k : Nat) : ReducK × Nat :=
  let rm := fillReductionMeta P 64
  ({ h := rm.h, mask := rm.mask, cst := rm.cst.getD k 0 }, rm.bsAfter)

/-- the `while nn >= 2` loop of `NttTable::new` (`fuel` = number of levels left) -/
def fwdLevels (q logQ omega n bsAfter : Nat) : Nat → Nat → Nat → Outcome (List Level × Nat)
  | 0, _, bs => .ok ([], bs)
  | fuel + 1, nn, bs =>
    let halfnn := nn / 2
    let doReduce := bs == 64
    let bs := if doReduce then bsAfter else bs
    let q2bs := wu64 (q * 2 ^ (bs - logQ))
    if nn ≥ 4 then
      let bs1 := bs + 1
      let halfBs := (bs1 + 1) / 2
      let bs2 := halfBs + logQ + 1
      let newBs := max bs1 bs2
      if newBs > 64 then .panic "assert"
      else
        let om := modqPow omega (n / halfnn : Nat) q
        let tw := packedPowers q halfBs (halfnn - 1) om om
        match fwdLevels q logQ omega n bsAfter fuel (nn / 2) newBs with
        | .ok (ls, b) => .ok (({ q2bs := q2bs, bs := newBs, halfBs := halfBs, mask := maskOf halfBs, reduce := doReduce }, tw) :: ls, b)
        | o => o
    else
      match fwdLevels q logQ omega n bsAfter fuel (nn / 2) (bs + 1) with
      | .ok (ls, b) => .ok (({ q2bs := q2bs, bs := bs + 1, halfBs := 0, mask := 0, reduce := doReduce }, []) :: ls, b)
      | o => o

/-- `NttTable::<P>::new(n)`, prime `k` -/
def nttTableK (P : PrimeSet) (k n : Nat) : Outcome TableK :=
  if !(isPow2 n && decide (n ≤ 2 ^ 16)) then .panic "assert"
  else
    let q := P.qs.getD k 1
    let omega := modqPow (P.omega.getD k 0) ((2 ^ 16 / n : Nat) : Int) q
    let (reduc, bsAfter) := reducOf P k
    if n = 1 then .ok { n := n, levels := [], reduc := reduc, outBs := 64 }
    else
      let bs0 := 32 + P.logQ + 1
      let l0 : Level := ({ q2bs := 0, bs := bs0, halfBs := 32, mask := maskOf 32, reduce := false }, packedPowers q 32 n 1 omega)
      match fwdLevels q P.logQ omega n bsAfter (Nat.log2 n) n bs0 with
      | .ok (ls, b) => .ok { n := n, levels := l0 :: ls, reduc := reduc, outBs := b }
      | .err e => .err e
      | .panic c => .panic c

/-- the `while nn <= n` loop of `NttTableInv::new` (levels `nn = 4, 8, …, n`) -/
def invLevels (q logQ omega n bsAfter : Nat) : Nat → Nat → Nat → Outcome (List Level × Nat)
  | 0, _, bs => .ok ([], bs)
  | fuel + 1, nn, bs =>
    let halfnn := nn / 2
    let doReduce := bs == 64
    let bs := if doReduce then bsAfter else bs
    let halfBs := (bs + 1) / 2
    let bsMult := halfBs + logQ + 1
    let newBs := 1 + max bs bsMult
    if newBs > 64 then .panic "assert"
    else
      let q2bs := wu64 (q * 2 ^ (bsMult - logQ))
      let om := modqPow omega (-((n / halfnn : Nat) : Int)) q
      let tw := packedPowers q halfBs (halfnn - 1) om om
      match invLevels q logQ omega n bsAfter fuel (nn * 2) newBs with
      | .ok (ls, b) => .ok (({ q2bs := q2bs, bs := newBs, halfBs := halfBs, mask := maskOf halfBs, reduce := doReduce }, tw) :: ls, b)
      | o => o

/-- `NttTableInv::<P>::new(n)`, prime `k`: levels `nn = 2`, `4 … n`, then the last pass -/
def inttTableK (P : PrimeSet) (k n : Nat) : Outcome TableK :=
  if !(isPow2 n && decide (n ≤ 2 ^ 16)) then .panic "assert"
  else
    let q := P.qs.getD k 1
    let omega := modqPow (P.omega.getD k 0) ((2 ^ 16 / n : Nat) : Int) q
    let (reduc, bsAfter) := reducOf P k
    if n = 1 then .ok { n := n, levels := [], reduc := reduc, outBs := 64 }
    else
      -- level 0 (nn = 2): bs == 64 on entry
      let bsA := bsAfter
      let l0 : Level := ({ q2bs := wu64 (q * 2 ^ (bsA - P.logQ)), bs := bsA + 1, halfBs := 0, mask := 0, reduce := true }, [])
      match invLevels q P.logQ omega n bsAfter (Nat.log2 n - 1) 4 (bsA + 1) with
      | .ok (ls, b) =>
        let doReduce := b == 64
        let bs := if doReduce then bsAfter else b
        let halfBs := (bs + 1) / 2
        let newBs := halfBs + P.logQ + 1
        if newBs > 64 then .panic "assert"
        else
          let invN := modqPow n (-1) q
          let omInv := modqPow omega (-1) q
          let last : Level := ({ q2bs := wu64 (q * 2 ^ (newBs - P.logQ)), bs := newBs, halfBs := halfBs, mask := maskOf halfBs, reduce := doReduce },
                               packedPowers q halfBs n invN omInv)
          .ok { n := n, levels := l0 :: ls ++ [last], reduc := reduc, outBs := newBs }
      | .err e => .err e
      | .panic c => .panic c

/-- `if do_reduce { modq_red(x, …) } else { x }` -/
def redIf (r : ReducK) (m : StepMeta) (x : Nat) : Nat := if m.reduce then modqRed x r.h r.mask r.cst else x

/-- the butterfly without twiddle: `(a, b) → (a + b, a + q2bs − b)` on the (optionally reduced) inputs -/
def bfly (r : ReducK) (m : StepMeta) (a b : Nat) : Nat × Nat :=
  let a := redIf r m a
  let b := redIf r m b
  (wu64 (a + b), subU64 (wu64 (a + m.q2bs)) b)

/-- forward block, positions `i ≥ 1`: the difference is multiplied by `powomega[po_off + 4(i−1) + k]` -/
def fwdTail (r : ReducK) (m : StepMeta) : List Nat → List Nat → List Nat → List Nat × List Nat
  | po :: tw, a :: lo, b :: hi =>
    let xy := bfly r m a b
    let rest := fwdTail r m tw lo hi
    (xy.1 :: rest.1, splitPrecompmul xy.2 po m.halfBs m.mask :: rest.2)
  | _, _, _ => ([], [])

/-- `ntt_butterfly_block` on the two halves of one block -/
def fwdBfly (r : ReducK) (m : StepMeta) (tw : List Nat) : List Nat → List Nat → List Nat × List Nat
  | a :: lo, b :: hi =>
    let xy := bfly r m a b
    let rest := fwdTail r m tw lo hi
    (xy.1 :: rest.1, xy.2 :: rest.2)
  | _, _ => ([], [])

/-- the butterfly levels `nn = |v|, |v|/2, …, 2` of `ntt_ref` on one block -/
def nttLevels (r : ReducK) : List Level → List Nat → List Nat
  | [], v => v
  | (m, tw) :: rest, v =>
    let h := v.length / 2
    let lh := fwdBfly r m tw (v.take h) (v.drop h)
    nttLevels r rest lh.1 ++ nttLevels r rest lh.2

/-- `ntt_ref(table, data)`, one lane: first pass `a[i] *= ω^i`, then the butterfly levels -/
def nttK (t : TableK) (v : List Nat) : List Nat :=
  match t.levels with
  | [] => v
  | (m0, tw0) :: rest => nttLevels t.reduc rest (List.zipWith (fun x po => splitPrecompmul x po m0.halfBs m0.mask) v tw0)

/-- inverse block, positions `i ≥ 1`: `b` is multiplied by the twiddle before the butterfly -/
def invTail (r : ReducK) (m : StepMeta) : List Nat → List Nat → List Nat → List Nat × List Nat
  | po :: tw, a :: lo, b :: hi =>
    let a' := redIf r m a
    let bo := splitPrecompmul (redIf r m b) po m.halfBs m.mask
    let rest := invTail r m tw lo hi
    (wu64 (a' + bo) :: rest.1, subU64 (wu64 (a' + m.q2bs)) bo :: rest.2)
  | _, _, _ => ([], [])

/-- `intt_butterfly_block` on the two halves of one block -/
def invBfly (r : ReducK) (m : StepMeta) (tw : List Nat) : List Nat → List Nat → List Nat × List Nat
  | a :: lo, b :: hi =>
    let xy := bfly r m a b
    let rest := invTail r m tw lo hi
    (xy.1 :: rest.1, xy.2 :: rest.2)
  | _, _ => ([], [])

/-- the butterfly levels of `intt_ref` on one block; `levels` = the levels of block sizes
`|v|, |v|/2, …, 2` (i.e. the table's butterfly levels reversed): the halves are completed first -/
def inttLevels (r : ReducK) : List Level → List Nat → List Nat
  | [], v => v
  | (m, tw) :: rest, v =>
    let h := v.length / 2
    let lo := inttLevels r rest (v.take h)
    let hi := inttLevels r rest (v.drop h)
    let lh := invBfly r m tw lo hi
    lh.1 ++ lh.2

/-- `intt_ref(table, data)`, one lane: butterfly levels, then the last pass `a[i] *= ω^{-i}·n^{-1}` -/
def inttK (t : TableK) (v : List Nat) : List Nat :=
  match t.levels.reverse with
  | [] => v
  | (mL, twL) :: revLevels =>
    let w := inttLevels t.reduc revLevels v
    List.zipWith (fun x po => splitPrecompmul (redIf t.reduc mL x) po mL.halfBs mL.mask) w twL

/-- lane `k` of a q120b vector (`data[4·i + k]`) and the inverse interleaving -/
def lane (k : Nat) (data : Array Nat) (n : Nat) : List Nat := (List.range n).map (fun i => data.getD (4 * i + k) 0)
def interleave4 (l0 l1 l2 l3 : Array Nat) (n : Nat) : List Nat :=
  (List.range n).flatMap (fun i => [l0.getD i 0, l1.getD i 0, l2.getD i 0, l3.getD i 0])

/-- `ntt_ref::<P>(&NttTable::new(n), data)` / `intt_ref::<P>(&NttTableInv::new(n), data)` on a whole
q120b vector (`debug_assert!(data.len() >= 4 * n)` for `n > 1`) -/
def transform (P : PrimeSet) (inverse : Bool) (n : Nat) (data : Array Nat) : Outcome (List Nat) :=
  let tab := fun k => if inverse then inttTableK P k n else nttTableK P k n
  match tab 0, tab 1, tab 2, tab 3 with
  | .ok t0, .ok t1, .ok t2, .ok t3 =>
    if n = 1 then .ok data.toList
    else if data.size < 4 * n then .panic "assert"
    else
      let run := fun (t : TableK) k => ((if inverse then inttK t (lane k data n) else nttK t (lane k data n))).toArray
      .ok (interleave4 (run t0 0) (run t1 1) (run t2 2) (run t3 3) n ++ (data.toList.drop (4 * n)))
  | .panic c, _, _, _ => .panic c
  | _, _, _, _ => .panic "assert"

/-! ### the product pipeline with the real transforms -/

/-- `ntt_ref` / `intt_ref` on lane `k` with the tables of size `n` (as `transform` runs them) -/
def realNtt (P : PrimeSet) (n k : Nat) (v : List Nat) : List Nat :=
  match nttTableK P k n with
  | .ok t => nttK t v
  | _ => v
def realIntt (P : PrimeSet) (n k : Nat) (v : List Nat) : List Nat :=
  match inttTableK P k n with
  | .ok t => inttK t v
  | _ => v

/-- `svp_prepare(p)`, `vec_znx_dft_apply(x)`, `svp_apply_dft_to_dft`, `vec_znx_idft_apply` on one limb of
ring degree `n`, NTT120 back end: everything executable -/
def svpPipeline (P : PrimeSet) (n : Nat) (p x : Poly) : List Int :=
  nttPipeline P (bbcH P) (realNtt P n) (realIntt P n) p x

/-! ### sums of products (the arithmetic of `vmp_apply_dft_to_dft` for one output column) -/

/-- one slot of a sum of products: `bbc` with one row per pair `(lazy residue of the input limb's
transform, lazy residue of the matrix entry's transform)`, the second prepared by `c_from_b` -/
def slotDotK (q h : Nat) (pairs : List (Nat × Nat)) : Nat :=
  bbcK h (pow2Mod 32 q) (pow2Mod (32 + h) q)
    (pairs.map (fun p => ((u32Pair p.1).1, (u32Pair p.1).2, (cFromBK q p.2).getD 0 0, (cFromBK q p.2).getD 1 0)))

/-- lane of prime `q` for `Σ_j p_j ⋆ x_j`: `rows = [(p_j, x_j)]`, `p_j` the prepared (matrix) side -/
def laneSumK (q h n : Nat) (ntt intt : List Nat → List Nat) (rows : List (Poly × Poly)) : List Nat :=
  let tr := rows.map (fun r => (ntt (r.2.map (fun c => bFromU64K q (asU64 c))), ntt (r.1.map (fun c => bFromU64K q (asU64 c)))))
  intt ((List.range n).map (fun i => slotDotK q h (tr.map (fun r => (r.1.getD i 0, r.2.getD i 0)))))

/-- `vmp_prepare` of the rows `p_j`, `vec_znx_dft_apply` of the limbs `x_j`, `vmp_apply_dft_to_dft` (one
output column, `ell = |rows|`), `vec_znx_idft_apply`: everything executable -/
def vmpPipeline (P : PrimeSet) (n : Nat) (rows : List (Poly × Poly)) : List Int :=
  let l0 := laneSumK P.q0 (bbcH P) n (realNtt P n 0) (realIntt P n 0) rows
  let l1 := laneSumK P.q1 (bbcH P) n (realNtt P n 1) (realIntt P n 1) rows
  let l2 := laneSumK P.q2 (bbcH P) n (realNtt P n 2) (realIntt P n 2) rows
  let l3 := laneSumK P.q3 (bbcH P) n (realNtt P n 3) (realIntt P n 3) rows
  (List.range n).map (fun i => bToZnx128Core P (l0.getD i 0) (l1.getD i 0) (l2.getD i 0) (l3.getD i 0))

/-! ### convolution: the x2-block pack kernels (`poulpy-cpu-ref/src/ntt120/prim.rs`) -/

/-- `ntt_pack_left_1blk_x2`, one residue: `(a % q) as u32`, high half `0` -/
def packLeftK (q a : Nat) : Nat × Nat := (wu32 (a % q), 0)

/-- `ntt_pairwise_pack_left_1blk_x2`, one residue: `(a % q + b % q)`, minus `q` if `≥ q` -/
def pairwisePackLeftK (q a b : Nat) : Nat × Nat :=
  let s := wu64 (a % q + b % q)
  let s := if s ≥ q then subU64 s q else s
  (wu32 s, 0)

/-- `ntt_pairwise_pack_right_1blk_x2`, one `u32` entry: `a + b` (`u32` addition) -/
def pairwisePackRightK (a b : Nat) : Nat := wu32 (a + b)

/-- the seeded variant of the pairwise left pack (NOT the code): the lazy 64-bit sum split into halves -/
def pairwisePackLeftLazyK (a b : Nat) : Nat × Nat := let s := wu64 (a + b); (wu32 s, s >>> 32)

/-- `ntt_pack_left_1blk_x2(dst, a, row_count, row_stride, blk)` on flat slices (prime index = position mod 4) -/
def packLeft1BlkX2 (P : PrimeSet) (a : Array Nat) (rowCount rowStride blk : Nat) : Outcome (List Nat) :=
  if a.size < rowStride * (rowCount - 1) + 8 * blk + 8 then .panic "assert"
  else .ok ((List.range rowCount).flatMap (fun row =>
    (List.range 8).flatMap (fun e =>
      let pr := packLeftK (P.qs.getD (e % 4) 1) (a.getD (row * rowStride + 8 * blk + e) 0)
      [pr.1, pr.2])))

/-- `ntt_pack_right_1blk_x2`: rows copied in reversed order -/
def packRight1BlkX2 (a : Array Nat) (rowCount rowStride blk : Nat) : Outcome (List Nat) :=
  if a.size < rowStride * (rowCount - 1) + 16 * blk + 16 then .panic "assert"
  else .ok ((List.range rowCount).flatMap (fun row =>
    (List.range 16).map (fun e => a.getD ((rowCount - 1 - row) * rowStride + 16 * blk + e) 0)))

/-- `ntt_pairwise_pack_left_1blk_x2` -/
def pairwisePackLeft1BlkX2 (P : PrimeSet) (a b : Array Nat) (rowCount rowStride blk : Nat) : Outcome (List Nat) :=
  if a.size < rowStride * (rowCount - 1) + 8 * blk + 8 ∨ b.size < rowStride * (rowCount - 1) + 8 * blk + 8 then .panic "assert"
  else .ok ((List.range rowCount).flatMap (fun row =>
    (List.range 8).flatMap (fun e =>
      let idx := row * rowStride + 8 * blk + e
      let pr := pairwisePackLeftK (P.qs.getD (e % 4) 1) (a.getD idx 0) (b.getD idx 0)
      [pr.1, pr.2])))

/-- `ntt_pairwise_pack_right_1blk_x2`: entry-wise `u32` sums, rows reversed -/
def pairwisePackRight1BlkX2 (a b : Array Nat) (rowCount rowStride blk : Nat) : Outcome (List Nat) :=
  if a.size < rowStride * (rowCount - 1) + 16 * blk + 16 ∨ b.size < rowStride * (rowCount - 1) + 16 * blk + 16 then .panic "assert"
  else .ok ((List.range rowCount).flatMap (fun row =>
    (List.range 16).map (fun e =>
      let idx := (rowCount - 1 - row) * rowStride + 16 * blk + e
      pairwisePackRightK (a.getD idx 0) (b.getD idx 0))))

end Ntt120
