/-
L1c — integer encoding / decoding of limb vectors (import-free).

Rust anchors: poulpy-hal/src/layouts/encoding.rs (`VecZnx::{encode_vec_i64, encode_vec_i128,
encode_coeff_i64, decode_vec_i64, decode_vec_i128, decode_coeff_i64, decode_vec_float}`,
`div_round_i64/i128`) and the thin wrappers of poulpy-core/src/utils.rs
(`GLWEPlaintext::{encode,decode}_*` = column 0, radix `base2k()`;
`LWEPlaintext::encode_i64` = `encode_coeff_i64 … idx = 0`, `encode_i128` = `encode_vec_i128 … &[data]`,
`decode_i64` = `decode_coeff_i64 … idx = 0`).

Per-coefficient functions work on one coefficient's limb column (`List Int`, most significant
first); container functions on `List Col` implement the frame (other columns / coefficients
untouched).  Panics of the Rust reachable from the arguments are explicit (`Outcome.panic`).
-/
import Poulpy.Model.VecNorm

/-- `k.div_ceil(base2k)` -/
def encSize (b k : Nat) : Nat := (k + b - 1) / b

/-- `k_rem = (base2k - k % base2k) % base2k`: the left shift applied while normalising -/
def encLsh (b k : Nat) : Nat := (b - k % b) % b

/-- `encode_vec_i64` / `encode_coeff_i64` on one coefficient: `aSize` limbs, the value `v` is put in
limb `size-1`, every other limb zeroed, then limbs `size-1 … 0` are normalised with shift `k_rem`.
Requires `1 ≤ size ≤ aSize` (checked by the container functions). -/
def encodeCoefI64 (b k aSize : Nat) (v : Int) : List Int :=
  let size := encSize b k
  assignRun 64 b (encLsh b k) (List.replicate (size - 1) 0 ++ [v]) ++ List.replicate (aSize - size) 0

/-- base-`2^b` digit decomposition loop of `encode_vec_i128` (bottom-up, `i128` carry, digits
truncated to `i64`): returns the `m` digits, most significant first. -/
def decompose128 (b : Nat) : Nat → Int → List Int
  | 0, _ => []
  | m + 1, x =>
    let d := getDigitW 128 b x
    decompose128 b m (getCarryW 128 b x d) ++ [w64 d]

/-- `encode_vec_i128` on one coefficient -/
def encodeCoefI128 (b k aSize : Nat) (v : Int) : List Int :=
  let size := encSize b k
  assignRun 64 b (encLsh b k) (decompose128 b size v) ++ List.replicate (aSize - size) 0

/-- Horner accumulation shared by `decode_vec_i64` (`bits = 64`), `decode_vec_i128` (`bits = 128`)
and `decode_coeff_i64`: `acc` is the running value, `l` the remaining limbs `(index, value)`.
`none` = `div_round` on a zero scale (cannot happen: the scale is a power of two < 2^bits). -/
def decodeFold (bits b k size : Nat) : List (Nat × Int) → Int → Option Int
  | [], acc => some acc
  | (j, x) :: rest, acc =>
    let rem := b - k % b
    if j = size - 1 ∧ rem ≠ b then
      match divRound bits x (shlW bits 1 rem) with
      | none => none
      | some q => decodeFold bits b k size rest (wrapN bits (shlW bits acc ((b - rem) % b) + q))
    else decodeFold bits b k size rest (wrapN bits (shlW bits acc b + x))

/-- `decode_vec_i64` / `decode_vec_i128` on one coefficient (`a`: all limbs of the column).
The Rust starts from limb 0 and special-cases `k < base2k`. -/
def decodeCoefVec (bits b k : Nat) (a : List Int) : Outcome Int :=
  let size := encSize b k
  match a with
  | [] => .panic "assert"                                  -- a.at(col, 0) on an empty vector
  | a0 :: _ =>
    if k < b then
      match divRound bits a0 (shlW bits 1 (b - k % b)) with
      | none => .panic "assert"
      | some q => .ok q
    else if size > a.length then .panic "assert"           -- a.at(col, i), i ≥ a.size()
    else
      match decodeFold bits b k size (((a.take size).zipIdx.map (fun p => (p.2, p.1))).drop 1) a0 with
      | none => .panic "assert"
      | some v => .ok v

/-- `decode_coeff_i64` on one coefficient -/
def decodeCoefI64 (b k : Nat) (a : List Int) : Outcome Int :=
  let size := encSize b k
  if size > a.length then .panic "assert"
  else
    match decodeFold 64 b k size ((a.take size).zipIdx.map (fun p => (p.2, p.1))) 0 with
    | none => .panic "assert"
    | some v => .ok v

/-- exact value of a limb column as a dyadic rational `num / 2^(b·size)`:
`Σ_j a_j · 2^(-b (j+1))` — the specification of `decode_vec_float`. -/
def valI (b : Nat) : List Int → Int
  | [] => 0
  | x :: rest => x * 2 ^ (b * rest.length) + valI b rest

/-- canonical form `(m, e)` of the dyadic rational `num / 2^den`: `m` odd (or `0, 0`), value
`m · 2^e` (`e` may be negative) — what the harness extracts from the `FBig` returned by
`decode_vec_float`. -/
def dyadicCanon (num : Int) (den : Nat) : Int × Int :=
  if num = 0 then (0, 0)
  else
    let rec strip : Nat → Int → Int → Int × Int
      | 0, m, e => (m, e)
      | f + 1, m, e => if m % 2 = 0 then strip f (m / 2) (e + 1) else (m, e)
    strip (num.natAbs.log2 + 1) num (-(den : Int))

def decodeFloatCoef (b : Nat) (a : List Int) : Int × Int := dyadicCanon (valI b a) (b * a.length)

/-! ### containers -/

/-- write coefficient `idx` of every limb of a column from a per-coefficient limb list -/
def setCoef (c : Col) (idx : Nat) (l : List Int) : Col :=
  List.zipWith (fun p x => p.set idx x) c l

/-- `VecZnx::encode_vec_i64(base2k, col, k, data)` on a container `v` (`n` coefficients per limb).
Panics: `k = 0` (`size - 1` underflows, `at_mut` asserts), `size > v.size()`, `col ≥ cols`,
`data.len() ≠ n`. -/
def encodeVecI64 (v : List Col) (n b col k : Nat) (data : List Int) : Outcome (List Col) :=
  let aSize := (getCol v col).length
  if col ≥ v.length ∨ encSize b k > aSize ∨ data.length ≠ n ∨ encSize b k = 0 then .panic "assert"
  else .ok (setCol v col (ofCoefs aSize (data.map (fun x => encodeCoefI64 b k aSize x))))

/-- `VecZnx::encode_vec_i128` -/
def encodeVecI128 (v : List Col) (n b col k : Nat) (data : List Int) : Outcome (List Col) :=
  let aSize := (getCol v col).length
  if col ≥ v.length ∨ encSize b k > aSize ∨ data.length ≠ n then .panic "assert"
  else .ok (setCol v col (ofCoefs aSize (data.map (fun x => encodeCoefI128 b k aSize x))))

/-- `VecZnx::encode_coeff_i64(base2k, col, k, idx, data)`: only coefficient `idx` of column `col`
changes. -/
def encodeCoeffI64 (v : List Col) (n b col k idx : Nat) (x : Int) : Outcome (List Col) :=
  let c := getCol v col
  if col ≥ v.length ∨ idx ≥ n ∨ encSize b k > c.length ∨ encSize b k = 0 then .panic "assert"
  else .ok (setCol v col (setCoef c idx (encodeCoefI64 b k c.length x)))

def sequenceOutcome {α : Type} : List (Outcome α) → Outcome (List α)
  | [] => .ok []
  | x :: rest =>
    match x, sequenceOutcome rest with
    | .ok a, .ok l => .ok (a :: l)
    | .ok _, o => o
    | .err e, _ => .err e
    | .panic p, _ => .panic p

/-- `VecZnx::decode_vec_i64` (`bits = 64`) / `decode_vec_i128` (`bits = 128`): all `n` coefficients
of column `col` -/
def decodeVec (bits : Nat) (v : List Col) (n b col k : Nat) : Outcome (List Int) :=
  if col ≥ v.length then .panic "assert"
  else sequenceOutcome ((List.range n).map (fun i => decodeCoefVec bits b k (coefAt (getCol v col) i)))

/-- `VecZnx::decode_coeff_i64` -/
def decodeCoeffI64 (v : List Col) (n b col k idx : Nat) : Outcome Int :=
  if col ≥ v.length ∨ idx ≥ n then .panic "assert"
  else decodeCoefI64 b k (coefAt (getCol v col) idx)
