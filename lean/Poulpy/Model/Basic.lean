/-
Shared vocabulary of the model (import-free).

Representation conventions used by every model file:
* `Poly`  = `List Int`: the `n` coefficients of one limb of one column, degree 0 first.
* `Col`   = `List Poly`: the active limbs of one column, limb 0 (most significant) first.
* A multi-column container (`VecZnx`, `VecZnxBig`, `VecZnxDft`, …) = `List Col`; the Rust storage
  order (limb-major, column-minor: limb `j` of column `i` at scalar offset `n*(j*cols+i)`) only
  matters at the boundary (harness printing / driver parsing), not inside the model.
* Rust `i64` arithmetic: do the operation in `Int`, then `w64` (two's-complement wrap).  `i128`
  likewise with `w128`; `u64`/`usize` with `u64`.
-/

abbrev Poly := List Int
abbrev Col := List Poly

/-- two's-complement wrap of an integer into the `i64` range -/
def w64 (x : Int) : Int := (x + 2 ^ 63) % 2 ^ 64 - 2 ^ 63
/-- two's-complement wrap into the `i128` range -/
def w128 (x : Int) : Int := (x + 2 ^ 127) % 2 ^ 128 - 2 ^ 127
/-- wrap into the `u64` range -/
def u64 (x : Int) : Int := x % 2 ^ 64

def inI64 (x : Int) : Bool := decide (-(2 ^ 63) ≤ x) && decide (x < 2 ^ 63)

/-- zero polynomial of degree `n` -/
def Poly.zero (n : Nat) : Poly := List.replicate n 0

/-- replace column `c` of a container (no-op if out of range: the Rust panics there; callers that
model the panic check the index first) -/
def setCol (v : List Col) (c : Nat) (x : Col) : List Col := v.set c x

def getCol (v : List Col) (c : Nat) : Col := v.getD c []

/-- outcome of a call that can fail: the Rust `Result` / panic trichotomy -/
inductive Outcome (α : Type) where
  | ok (v : α)
  | err (kind : String)
  | panic (cls : String)
deriving Repr
