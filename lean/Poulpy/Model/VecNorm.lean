/-
L1b — limb-vector normalisation and shifts (import-free).

Rust anchors
  poulpy-cpu-ref/src/reference/vec_znx/normalize.rs : vec_znx_normalize (inter / cross radix),
                                                      vec_znx_normalize_assign
  poulpy-cpu-ref/src/reference/vec_znx/shift.rs     : vec_znx_lsh{,_assign,_sub}, vec_znx_rsh{,_assign,_sub}
                                                      (`OVERWRITE = false` = the `_add_into` forms)
  poulpy-cpu-ref/src/reference/fft64/vec_znx_big.rs : vec_znx_big_normalize (ScalarBig = i64: same code)
  poulpy-cpu-ref/src/reference/ntt120/vec_znx_big.rs: ntt120_vec_znx_big_normalize{,_add_assign,_sub_assign}
                                                      (ScalarBig = i128, `nfc_*` kernels)
  poulpy-hal/src/api/vec_znx_big.rs, oep/hal_impl.rs: the fused add / sub / negate defaults

Every operation acts coefficient-wise: coefficient `i` of the output limbs depends only on
coefficient `i` of the input limbs (the loop counters depend on shapes only).  The model therefore
has two layers:

* `…Coef` functions on ONE coefficient's limb column, a `List Int`, most significant limb first
  (these are what the theorems of Props/C08 talk about);
* `…Col` functions on a `Col` (= list of limbs, each a `Poly` of `n` coefficients), obtained by
  transposition (`coefAt` / `ofCoefs`); these are what the driver executes and what other slices
  (core encryption, CKKS) call.

The `res` parameter of the `…Col` functions is the *previous* content of the output column; it is
only read by the fused `add`/`sub`/assign forms.  All functions require well-formed columns (every
limb has exactly `n` coefficients).
-/
import Poulpy.Model.ZnxNorm

/-! ### offsets -/

/-- Rust `res_offset % base2k` / `res_offset / base2k` (truncating) followed by the fix-up
`if res_offset < 0 && lsh != 0 { lsh = (lsh + b) % b; limbs_offset -= 1 }`:
returns `(lsh_pos, limbs_offset)`, i.e. `offset = limbs_offset * b + lsh_pos`, `0 ≤ lsh_pos < b`. -/
def splitOffset (b : Nat) (off : Int) : Nat × Int :=
  let lsh := Int.tmod off b
  let lo := Int.tdiv off b
  if off < 0 ∧ lsh ≠ 0 then (Int.toNat (Int.tmod (lsh + b) b), lo - 1) else (Int.toNat lsh, lo)

/-- `x.clamp(0, hi) as usize` -/
def clampNat (x : Int) (hi : Nat) : Nat := min (Int.toNat x) hi

/-! ### runs of step kernels over one coefficient's limbs (bottom limb = last element first) -/

/-- carry of a block of discarded low limbs: first step on the last limb, middle steps above it.
`none` on the empty block (the Rust then zeroes the carry explicitly). -/
def carryOnlyRun (bits b lsh : Nat) : List Int → Option Int
  | [] => none
  | x :: rest =>
    match carryOnlyRun bits b lsh rest with
    | none => some (firstStepS bits b lsh x).2
    | some c => some (middleStepS bits b lsh x c).2

/-- middle steps over a block, bottom-up, carry-in `c0`: returns `(digits, carry-out)`. -/
def middleRun (bits b lsh : Nat) : List Int → Int → List Int × Int
  | [], c0 => ([], c0)
  | x :: rest, c0 =>
    let r := middleRun bits b lsh rest c0
    let s := middleStepS bits b lsh x r.2
    (s.1 :: r.1, s.2)

/-- a block whose top limb gets the final step and the others middle steps (bottom-up). -/
def finalTopRun (bits b lsh : Nat) : List Int → Int → List Int
  | [], _ => []
  | x :: rest, c0 =>
    let r := middleRun bits b lsh rest c0
    finalStepS bits b lsh x r.2 :: r.1

/-- `g` carry-only middle steps on a (virtual) zero limb: moves a carry up by `g` limbs, rounding at
every limb (`for _ in 0..g { znx_normalize_middle_step_carry_only(b, lsh, zero, carry) }`). -/
def gapRun (bits b lsh : Nat) : Nat → Int → Int
  | 0, c => c
  | g + 1, c => (middleStepS bits b lsh 0 (gapRun bits b lsh g c)).2

/-- number of gap steps after which the carry has reached a fixed point of the step:
`ceil(BITS / base2k) + 1` (the Rust caps the gap loop there) -/
def gapCap (bits b : Nat) : Nat := (bits + b - 1) / b + 1

/-- `for j in (0..size).rev() { first (j = size-1) / final (j = 0) / middle }`, the pattern of
`vec_znx_normalize_assign`, `vec_znx_lsh_assign` and `encode_*`.  A one-limb block only gets the
first step (the `j == size - 1` test comes first in the Rust). -/
def lowerRun (bits b lsh : Nat) : List Int → List Int × Option Int
  | [] => ([], none)
  | x :: rest =>
    let r := lowerRun bits b lsh rest
    match r.2 with
    | none => let s := firstStepS bits b lsh x; (s.1 :: r.1, some s.2)
    | some c => let s := middleStepS bits b lsh x c; (s.1 :: r.1, some s.2)

def assignRun (bits b lsh : Nat) : List Int → List Int
  | [] => []
  | x :: rest =>
    let r := lowerRun bits b lsh rest
    match r.2 with
    | none => [(firstStepS bits b lsh x).1]
    | some c => finalStepS bits b lsh x c :: r.1

/-! ### vec_znx_normalize, same radix -/

/-- the four limb ranges of `vec_znx_normalize_inter_base2k`:
`(res_end, res_start, a_end, a_start)` from `limbs_offset`, `res_size`, `a_size`. -/
def interRanges (lo : Int) (rs as : Nat) : Nat × Nat × Nat × Nat :=
  (clampNat (-lo) rs, clampNat ((as : Int) - lo) rs, clampNat lo as, clampNat ((rs : Int) + lo) as)

/-- `vec_znx_normalize_inter_base2k` / `ntt120_vec_znx_big_normalize_inter` on one coefficient.
`a`: the input limbs; result: the `rs` output limbs (the previous content of `res` is never read).
Phases as in the Rust: carry over the discarded low limbs of `a`; carry-only steps over the gap
when the shifted input lies entirely below the output; zero fill of the low limbs of `res`; middle
steps over the overlap; carry propagation into the top `res_end` limbs. -/
def normalizeInterCoef (bits b rs : Nat) (off : Int) (a : List Int) : List Int :=
  let so := splitOffset b off
  let lsh := so.1
  let rg := interRanges so.2 rs a.length
  let resEnd := rg.1
  let resStart := rg.2.1
  let aEnd := rg.2.2.1
  let aStart := rg.2.2.2
  let c0 := (carryOnlyRun bits b lsh (a.drop aStart)).getD 0
  -- shifted input entirely below the output: bring the carry up over the gap
  let gap := Int.toNat (-so.2 - rs)
  let c1 := gapRun bits b lsh (min gap (gapCap bits b)) c0
  let mid := middleRun bits b lsh ((a.take aStart).drop aEnd) c1
  let top := finalTopRun bits b lsh (List.replicate resEnd 0) mid.2
  top ++ mid.1 ++ List.replicate (rs - resStart) 0

/-! ### vec_znx_normalize, different radices -/

/-- the NTT120 fused `AddOp` / `SubOp` tags (`AssignOp::apply_i64`) -/
inductive AccOp where
  | add | sub
deriving DecidableEq, Repr

def AccOp.apply (op : AccOp) (r x : Int) : Int :=
  match op with
  | .sub => w64 (r - x)
  | .add => w64 (r + x)

/-- per-coefficient state of `vec_znx_normalize_cross_base2k` (the counters are data independent
but are kept here so that the loop reads like the Rust) -/
structure CrossSt where
  res : List Int
  aNorm : Int
  aCarry : Int
  resCarry : Int
  resAccLeft : Nat
  resLimb : Nat
  aTakeLeft : Nat
  /-- `break 'outer` was taken -/
  done : Bool
  /-- the fuel of the inner loop ran out (unreachable; reported, never silently ignored) -/
  stuck : Bool
deriving Repr

/-- `znx_extract_digit_addmul(take, scale, res[res_limb], src)` / `nfc_extract_digit_addmul` -/
def crossExtract (bits : Nat) (take scale : Nat) (r src : Int) : Int × Int :=
  let d := getDigitW bits take src
  (w64 (r + shlW 64 (w64 d) scale), getCarryW bits take src d)

/-- one pass of the `'inner` loop body; `aLimb` is the current limb index of `a`.  Returns the new
state and whether the inner loop is left (`break 'inner` or `break 'outer`). -/
def crossInnerBody (bits : Nat) (ab rb aLimb : Nat) (st : CrossSt) : CrossSt × Bool :=
  let aTake := min ab (min st.aTakeLeft st.resAccLeft)
  let st1 : CrossSt :=
    if aTake ≠ 0 then
      let e := crossExtract bits aTake (rb - st.resAccLeft) (st.res.getD st.resLimb 0) st.aNorm
      { st with res := st.res.set st.resLimb e.1, aNorm := e.2,
                aTakeLeft := st.aTakeLeft - aTake, resAccLeft := st.resAccLeft - aTake }
    else st
  if st1.resAccLeft = 0 ∨ aLimb = 0 then
    if aLimb = 0 ∧ st1.aTakeLeft = 0 then
      -- flush of the overflowing top bits of `a` (negative offsets)
      let aCarry := wrapN bits (st1.aCarry + st1.aNorm)
      let e : Int × Int :=
        if st1.resAccLeft ≠ 0 then
          crossExtract bits st1.resAccLeft (rb - st1.resAccLeft) (st1.res.getD st1.resLimb 0) aCarry
        else (st1.res.getD st1.resLimb 0, aCarry)
      let m := middleStepS bits rb 0 e.1 st1.resCarry
      ({ st1 with res := st1.res.set st1.resLimb (w64 m.1), aCarry := e.2,
                  resCarry := wrapN bits (m.2 + e.2), done := true }, true)
    else if st1.resLimb = 0 then
      ({ st1 with done := true }, true)
    else
      let st2 := { st1 with resAccLeft := st1.resAccLeft + rb, resLimb := st1.resLimb - 1 }
      if st2.aTakeLeft = 0 then ({ st2 with aCarry := wrapN bits (st2.aCarry + st2.aNorm) }, true)
      else (st2, false)
  else if st1.aTakeLeft = 0 then
    ({ st1 with aCarry := wrapN bits (st1.aCarry + st1.aNorm) }, true)
  else (st1, false)

/-- the `'inner: loop`, with fuel (`a_take_left` strictly decreases: `ab + 1` passes suffice) -/
def crossInner (bits : Nat) (ab rb aLimb : Nat) : Nat → CrossSt → CrossSt
  | 0, st => { st with stuck := true, done := true }
  | fuel + 1, st =>
    let r := crossInnerBody bits ab rb aLimb st
    if r.2 then r.1 else crossInner bits ab rb aLimb fuel r.1

/-- `vec_znx_normalize_cross_base2k` (`bits = 64`) and `ntt120_vec_znx_big_normalize_cross`
(`bits = 128`) on one coefficient; the previous content of `res` is never read (all limbs are zeroed
first).  Returns `none` only if the inner-loop fuel ran out (never observed; the driver prints
`err:fuel`). -/
def normalizeCrossCoef (bits : Nat) (rb rs : Nat) (off : Int) (ab : Nat) (a : List Int) :
    Option (List Int) :=
  let as := a.length
  let aTot := as * ab
  let resTot := rs * rb
  let so := splitOffset ab off
  let lsh := so.1
  let lo := so.2
  let resEndBit := clampNat (-lo * ab) resTot
  let resStartBit := clampNat ((aTot : Int) - lo * ab) resTot
  let aEndBit := clampNat (lo * ab) aTot
  let aStartBit := clampNat ((resTot : Int) + lo * ab) aTot
  let resEnd := resEndBit / rb
  let resStart := (resStartBit + rb - 1) / rb
  let aEnd := aEndBit / ab
  let aStart := (aStartBit + ab - 1) / ab
  let res0 : List Int := List.replicate rs 0
  if resStart = 0 then some res0
  else
    let aCarryD := (carryOnlyRun bits ab lsh (a.drop aStart)).getD 0
    -- shifted input entirely below the output: scale the carry down over the gap (rounding shift)
    let gapBits := Int.toNat (-lo * ab - resTot)
    let aCarry0 :=
      if gapBits ≠ 0 then
        (if gapBits < bits then (if bits = 64 then mulPow2NegRef aCarryD gapBits else mulPow2Neg128 aCarryD gapBits) else 0)
      else aCarryD
    let midRange := aStart - aEnd
    let st0 : CrossSt := { res := res0, aNorm := 0, aCarry := aCarry0, resCarry := 0, resAccLeft := rb,
                           resLimb := resStart - 1, aTakeLeft := ab, done := false, stuck := false }
    let st := (List.range midRange).foldl (fun (st : CrossSt) j =>
      if st.done then st else
        let aLimb := aStart - j - 1
        let m := middleStepS bits ab lsh (a.getD aLimb 0) st.aCarry
        let st1 := { st with aNorm := m.1, aCarry := m.2, aTakeLeft := ab }
        let st2 : CrossSt :=
          if j = 0 then
            if (aTot - aStartBit) % ab ≠ 0 then
              let take := (aTot - aStartBit) % ab
              { st1 with aNorm := (if bits = 64 then mulPow2NegRef st1.aNorm take else mulPow2Neg128 st1.aNorm take),
                         aTakeLeft := ab - take }
            else if (resTot - resStartBit) % rb ≠ 0 then
              { st1 with resAccLeft := st1.resAccLeft - (resTot - resStartBit) % rb }
            else st1
          else st1
        crossInner bits ab rb aLimb (ab + 2) st2) st0
    if st.stuck then none
    else if resEnd ≠ 0 then
      let c := if aStart = aEnd then st.aCarry else st.resCarry
      let top : List Int := (finalTopRun bits rb 0 (st.res.take resEnd) c).map w64
      some (top ++ st.res.drop resEnd)
    else some st.res

/-- `vec_znx_normalize` / `vec_znx_big_normalize` (FFT64) on one coefficient: dispatch on
`res_base2k == a_base2k` exactly as the Rust does. -/
def normalizeCoef (rb rs : Nat) (off : Int) (ab : Nat) (a : List Int) : Option (List Int) :=
  if rb = ab then some (normalizeInterCoef 64 rb rs off a)
  else normalizeCrossCoef 64 rb rs off ab a

/-- `ntt120_vec_znx_big_normalize` on one coefficient (`i128` input limbs, `i64` output). -/
def bigNormalizeCoef128 (rb rs : Nat) (off : Int) (ab : Nat) (a : List Int) : Option (List Int) :=
  if rb = ab then some ((normalizeInterCoef 128 rb rs off a).map w64)
  else normalizeCrossCoef 128 rb rs off ab a

/-- `ntt120_vec_znx_big_normalize_inter_assign::<O>` on one coefficient: `res ±= normalize(a)`
without a temporary (no zero fill, the top limbs get `± digit(carry)`). -/
def normalizeInterAssignCoef128 (op : AccOp) (b : Nat) (off : Int) (a res : List Int) : List Int :=
  let rs := res.length
  let so := splitOffset b off
  let lsh := so.1
  let rg := interRanges so.2 rs a.length
  let resEnd := rg.1
  let resStart := rg.2.1
  let aEnd := rg.2.2.1
  let aStart := rg.2.2.2
  let c0 := (carryOnlyRun 128 b lsh (a.drop aStart)).getD 0
  let gap := Int.toNat (-so.2 - rs)
  let c1 := gapRun 128 b lsh (min gap (gapCap 128 b)) c0
  let mid := middleRun 128 b lsh ((a.take aStart).drop aEnd) c1
  let top := finalTopRun 128 b 0 (List.replicate resEnd 0) mid.2
  let midLo := resStart - mid.1.length
  List.zipWith (fun r d => op.apply r (w64 d)) (res.take resEnd) top
    ++ (res.take midLo).drop resEnd
    ++ List.zipWith (fun r d => op.apply r (w64 d)) ((res.take resStart).drop midLo) mid.1
    ++ res.drop resStart

/-- `ntt120_vec_znx_big_normalize_{add,sub}_assign` on one coefficient: the fused `i128` kernels
for equal radices; for different radices normalise into a temporary of `res`'s size, then limb-wise
`res ±= tmp` (what the HAL default does for every other back end). -/
def bigNormalizeAssignCoef128 (op : AccOp) (rb : Nat) (off : Int) (ab : Nat) (a res : List Int) :
    Option (List Int) :=
  if rb = ab then some (normalizeInterAssignCoef128 op rb off a res)
  else (normalizeCrossCoef 128 rb res.length off ab a).map (fun t => List.zipWith (fun r x => op.apply r x) res t)

/-! ### vec_znx_normalize_assign, lsh, rsh on one coefficient -/

/-- `vec_znx_normalize_assign` -/
def normalizeAssignCoef (b : Nat) (a : List Int) : List Int := assignRun 64 b 0 a

/-- `vec_znx_lsh_assign` -/
def lshAssignCoef (b k : Nat) (a : List Int) : List Int :=
  let size := a.length
  let steps := k / b
  let kRem := k % b
  if steps ≥ size then List.replicate size 0
  else assignRun 64 b kRem (a.drop steps) ++ List.replicate steps 0

/-- how a freshly computed digit is combined with the previous content of `res` -/
inductive Fuse where
  | overwrite | add | sub
deriving DecidableEq, Repr

def Fuse.apply (f : Fuse) (r d : Int) : Int :=
  match f with
  | .overwrite => d
  | .add => w64 (r + d)
  | .sub => w64 (r - d)

/-- `vec_znx_lsh::<OVERWRITE>` (`overwrite` / `add`) and `vec_znx_lsh_sub` (`sub`) on one coefficient;
`res` = previous content (its length is `res_size`). -/
def lshCoef (f : Fuse) (b k : Nat) (a res : List Int) : List Int :=
  let rs := res.length
  let as := a.length
  let steps := k / b
  let kRem := k % b
  if steps ≥ max rs as then
    (if f = .overwrite then List.replicate rs 0 else res)
  else
    let minSize := min rs (as - steps)
    let cos := min (steps + minSize) as
    let c := (carryOnlyRun 64 b kRem (a.drop cos)).getD 0
    let ds := finalTopRun 64 b kRem ((a.drop steps).take minSize) c
    List.zipWith (fun r d => f.apply r d) (res.take minSize) ds
      ++ (if f = .overwrite then List.replicate (rs - minSize) 0 else res.drop minSize)

/-- `(steps, lsh)` of the right shifts: `steps = ⌈k / b⌉`, `lsh = (b - k % b) % b` -/
def rshSteps (b k : Nat) : Nat × Nat :=
  (if k % b ≠ 0 then k / b + 1 else k / b, (b - k % b) % b)

/-- `vec_znx_rsh::<OVERWRITE>` (`overwrite` / `add`) and `vec_znx_rsh_sub` (`sub`) on one coefficient. -/
def rshCoef (f : Fuse) (b k : Nat) (a res : List Int) : List Int :=
  let rs := res.length
  let as := a.length
  let sl := rshSteps b k
  let steps := sl.1
  let lsh := sl.2
  let resEnd := min rs steps
  let resStart := min rs (as + steps)
  let aStart := min as (rs - steps)
  let c0 := (carryOnlyRun 64 b lsh (a.drop aStart)).getD 0
  -- a moved entirely below res: bring the carry up over the gap
  let c1 := gapRun 64 b lsh (min (steps - rs) (gapCap 64 b)) c0
  let midRange := resStart - resEnd
  -- the loop reads a[a_start - j - 1], j < mid_range
  let mid := middleRun 64 b lsh ((a.take aStart).drop (aStart - midRange)) c1
  match f with
  | .overwrite =>
    finalTopRun 64 b lsh (List.replicate resEnd 0) mid.2 ++ mid.1 ++ List.replicate (rs - resStart) 0
  | .add =>
    finalTopRun 64 b 0 (res.take resEnd) mid.2
      ++ List.zipWith (fun r d => w64 (r + d)) ((res.take resStart).drop resEnd) mid.1 ++ res.drop resStart
  | .sub =>
    finalTopRun 64 b 0 (res.take resEnd) (w64 (-mid.2))
      ++ List.zipWith (fun r d => w64 (r - d)) ((res.take resStart).drop resEnd) mid.1 ++ res.drop resStart

/-- `vec_znx_rsh_assign` on one coefficient: computes in place exactly what `vec_znx_rsh` computes
with `a = res` (same phases: carry over the discarded limbs, zeroed when `k = 0`; gap steps when
`⌈k/b⌉ > size`; shifted middle steps; carry propagation into the top limbs, final step last).
`scr` (the content of the scratch carry on entry) is no longer read and the result is always
`some`; both are kept so that callers of the model keep their signature. -/
def rshAssignCoef (b k : Nat) (_scr : Int) (a : List Int) : Option (List Int) :=
  some (rshCoef .overwrite b k a a)

/-! ### lifting to columns -/

/-- limb column of coefficient `i` (most significant limb first) -/
def coefAt (a : Col) (i : Nat) : List Int := a.map (fun p => p.getD i 0)

/-- inverse transposition: `size` limbs of `n` coefficients from `n` per-coefficient limb columns -/
def ofCoefs (size : Nat) (cs : List (List Int)) : Col :=
  (List.range size).map (fun j => cs.map (fun c => c.getD j 0))

/-- apply a per-coefficient function to every coefficient of a column -/
def mapCoefs (n size : Nat) (f : Nat → List Int) : Col :=
  ofCoefs size ((List.range n).map f)

/-- same for partial functions (`none` if any coefficient fails) -/
def mapCoefs? (n size : Nat) (f : Nat → Option (List Int)) : Option Col :=
  ((List.range n).mapM f).map (ofCoefs size)

/-- **`vec_znx_normalize`** on one column (also FFT64 `vec_znx_big_normalize`): `resSize` output
limbs in radix `2^resBase2k` representing `a · 2^resOffset` (input radix `2^aBase2k`, `n`
coefficients per limb); dispatches to the same-radix or cross-radix path as the Rust does.  The
previous content of the output is irrelevant.  `none` is never produced on well-formed input. -/
def normalizeCol? (resBase2k resSize : Nat) (resOffset : Int) (a : Col) (aBase2k : Nat) (n : Nat) : Option Col :=
  mapCoefs? n resSize (fun i => normalizeCoef resBase2k resSize resOffset aBase2k (coefAt a i))

/-- total version of `normalizeCol?` for callers (falls back to the zero column in the
never-observed `none` case) -/
def normalizeCol (resBase2k resSize : Nat) (resOffset : Int) (a : Col) (aBase2k : Nat) (n : Nat) : Col :=
  (normalizeCol? resBase2k resSize resOffset a aBase2k n).getD (List.replicate resSize (Poly.zero n))

/-- **`vec_znx_normalize_assign`** on one column (radix `2^base2k`) -/
def normalizeAssignCol (base2k : Nat) (a : Col) (n : Nat) : Col :=
  mapCoefs n a.length (fun i => normalizeAssignCoef base2k (coefAt a i))

/-- **`vec_znx_lsh`**: `res := a · 2^k` (left shift by `k` bits, `res.length` output limbs) -/
def lshCol (base2k k : Nat) (res a : Col) (n : Nat) : Col :=
  mapCoefs n res.length (fun i => lshCoef .overwrite base2k k (coefAt a i) (coefAt res i))
/-- **`vec_znx_lsh_add_into`**: `res += a · 2^k` -/
def lshAddCol (base2k k : Nat) (res a : Col) (n : Nat) : Col :=
  mapCoefs n res.length (fun i => lshCoef .add base2k k (coefAt a i) (coefAt res i))
/-- **`vec_znx_lsh_sub`**: `res -= a · 2^k` -/
def lshSubCol (base2k k : Nat) (res a : Col) (n : Nat) : Col :=
  mapCoefs n res.length (fun i => lshCoef .sub base2k k (coefAt a i) (coefAt res i))
/-- **`vec_znx_lsh_assign`**: `a := a · 2^k` -/
def lshAssignCol (base2k k : Nat) (a : Col) (n : Nat) : Col :=
  mapCoefs n a.length (fun i => lshAssignCoef base2k k (coefAt a i))

/-- **`vec_znx_rsh`**: `res := a · 2^-k` -/
def rshCol (base2k k : Nat) (res a : Col) (n : Nat) : Col :=
  mapCoefs n res.length (fun i => rshCoef .overwrite base2k k (coefAt a i) (coefAt res i))
/-- **`vec_znx_rsh_add_into`**: `res += a · 2^-k` -/
def rshAddCol (base2k k : Nat) (res a : Col) (n : Nat) : Col :=
  mapCoefs n res.length (fun i => rshCoef .add base2k k (coefAt a i) (coefAt res i))
/-- **`vec_znx_rsh_sub`**: `res -= a · 2^-k` -/
def rshSubCol (base2k k : Nat) (res a : Col) (n : Nat) : Col :=
  mapCoefs n res.length (fun i => rshCoef .sub base2k k (coefAt a i) (coefAt res i))
/-- **`vec_znx_rsh_assign`**: `a := a · 2^-k` (never `none`; `scr`, the scratch content, is ignored) -/
def rshAssignCol? (base2k k : Nat) (scr : Int) (a : Col) (n : Nat) : Option Col :=
  mapCoefs? n a.length (fun i => rshAssignCoef base2k k scr (coefAt a i))

/-- **FFT64 `vec_znx_big_normalize`** (`ScalarBig = i64`): the big accumulator is reinterpreted as
a `VecZnx`, so this is `normalizeCol?`. -/
def bigNormalizeCol64? (resBase2k resSize : Nat) (resOffset : Int) (a : Col) (aBase2k : Nat) (n : Nat) : Option Col :=
  normalizeCol? resBase2k resSize resOffset a aBase2k n

/-- **NTT120 `vec_znx_big_normalize`** (`ScalarBig = i128`): `i128` input limbs, `i64` output. -/
def bigNormalizeCol128? (resBase2k resSize : Nat) (resOffset : Int) (a : Col) (aBase2k : Nat) (n : Nat) : Option Col :=
  mapCoefs? n resSize (fun i => bigNormalizeCoef128 resBase2k resSize resOffset aBase2k (coefAt a i))

/-- limb-wise `wrapping_add` / `wrapping_sub` / `wrapping_neg` of the HAL fall-backs -/
def colZipW (f : Int → Int → Int) (x y : Col) : Col := List.zipWith (fun p q => List.zipWith f p q) x y

/-- **FFT64 `vec_znx_big_normalize_add_assign` / `_sub_assign`** (`HalImpl` fall-back: normalise
into a temporary of `res`'s size, then limb-wise wrapping add / sub). -/
def bigNormalizeFusedCol64? (sub : Bool) (resBase2k : Nat) (resOffset : Int) (res a : Col) (aBase2k : Nat) (n : Nat) :
    Option Col :=
  (normalizeCol? resBase2k res.length resOffset a aBase2k n).map
    (fun t => colZipW (fun r x => if sub then w64 (r - x) else w64 (r + x)) res t)

/-- **NTT120 `vec_znx_big_normalize_add_assign` / `_sub_assign`** (fused `i128` kernels). -/
def bigNormalizeFusedCol128? (sub : Bool) (resBase2k : Nat) (resOffset : Int) (res a : Col) (aBase2k : Nat) (n : Nat) :
    Option Col :=
  mapCoefs? n res.length (fun i =>
    bigNormalizeAssignCoef128 (if sub then .sub else .add) resBase2k resOffset aBase2k (coefAt a i) (coefAt res i))

/-- **`vec_znx_big_normalize_negate`** (API default, all back ends): normalise, then `wrapping_neg`. -/
def bigNormalizeNegateCol? (big128 : Bool) (resBase2k resSize : Nat) (resOffset : Int) (a : Col) (aBase2k : Nat) (n : Nat) :
    Option Col :=
  ((if big128 then bigNormalizeCol128? else bigNormalizeCol64?) resBase2k resSize resOffset a aBase2k n).map
    (fun t => t.map (fun p => p.map (fun x => w64 (-x))))
