import Poulpy.Model.Fft64

/-!
# Model of the AVX2/FMA FFT64 back end (`poulpy-cpu-avx/src/fft64`)

A 4-lane `__m256d` operation is four independent scalar operations, so the model is scalar.  What differs from the
reference back end is **which products are fused**: `_mm256_fmadd_pd / fmsub_pd` (`vfmadd231pd / vfmsub231pd` in
`fft16_avx2_fma.s`, `ifft16_avx2_fma.s`) round `x·y ± z` once (`F64.fma`), where the reference rounds the product
and the sum separately.  That is why the `f64` bits of FFT64Ref and FFT64Avx differ.

* butterflies (`twiddle_fft_avx2_fma`, `bitwiddle_fft_avx2_fma`, the four stages of `fft16_avx2_fma_asm`; inverse
  twins): `tra = omi·ui1; tra = fmsub(omr, ur1, tra)` … → `bflyFwdAvx`, `bflyInvAvx`.  The network, the table and the
  table positions are those of the reference (`Fft64.fwdIdx` / `invIdx`); `m < 16` *calls* `fft_ref` / `ifft_ref`.
* `reim_from_znx_i64_bnd50_fma`: `assert!(|x| ≤ 2^50 − 1)`, then the magic-constant trick
  `f64::from_bits((x + 2^51) | bits(2^52)) − 3·2^51` four lanes at a time, scalar `as f64` tail → `fromI64Avx`.
* `reim_to_znx_i64(_assign)_bnd63_avx2_fma`: `a + copysign(m/2, a)` (one `f64` rounding), then the integer part of the
  quotient by shifting the significand by the exponent difference (`sllv`/`srlv`: counts `≥ 64` give 0), sign restored
  in two's complement → `toI64Avx`; scalar reference tail when the length is not a multiple of 4.
* `reim_mul(_assign)_avx2_fma`, `reim_addmul_avx2_fma` (reference fallback when `m % 4 ≠ 0`) → `cmulAvx`, `caddmulAvx`.
* `reim4_vec_mat1col_product_avx` (four real accumulators, `re1 − re2`, `im1 + im2` at the end),
  `reim4_vec_mat2cols_product_avx`, `reim4_vec_mat2cols_2ndcol_product_avx` (`re = fmsub(ur,ar, fmsub(ui,ai,re))`) →
  `mat1colStep/Fin`, `mat2colsStep`.
-/

namespace Fft64Avx
open F64 Fft64

/-- `fmsub(a,b,c) = fl(a·b − c)` -/
def fmsub (a b c : Nat) : Nat := fma a b (neg c)

/-- forward butterfly of the AVX2 kernels; `t.imode` = the lanes that use `(ombr·ui3, fmadd(ombi, ur3, ·))` -/
def bflyFwdAvx (t : Tw) (a b : C64) : C64 × C64 :=
  if t.imode then
    let trb := fma t.im b.1 (mul t.re b.2)
    let tib := fmsub t.im b.2 (mul t.re b.1)
    ((sub a.1 trb, sub a.2 tib), (add a.1 trb, add a.2 tib))
  else
    let tra := fmsub t.re b.1 (mul t.im b.2)
    let tia := fma t.re b.2 (mul t.im b.1)
    ((add a.1 tra, add a.2 tia), (sub a.1 tra, sub a.2 tia))

/-- inverse butterfly of the AVX2 kernels -/
def bflyInvAvx (t : Tw) (a b : C64) : C64 × C64 :=
  let rd := sub a.1 b.1
  let id := sub a.2 b.2
  let s : C64 := (add a.1 b.1, add a.2 b.2)
  if t.imode then
    (s, (fma t.im rd (mul t.re id), fmsub t.im id (mul t.re rd)))
  else
    (s, (fmsub t.re rd (mul t.im id), fma t.re id (mul t.im rd)))

/-- the network of `Fft64.fwd` with a butterfly parameter -/
def fwdG (bf : Tw → C64 → C64 → C64 × C64) (tw : Nat → Nat → Tw) : (k : Nat) → (lvl blk : Nat) → List C64 → List C64
  | 0, _, _, z => z
  | k + 1, lvl, blk, z =>
    let r := bflyBlock (bf (tw lvl blk)) (z.take (2 ^ k)) (z.drop (2 ^ k))
    fwdG bf tw k (lvl + 1) (2 * blk) r.1 ++ fwdG bf tw k (lvl + 1) (2 * blk + 1) r.2

def invG (bf : Tw → C64 → C64 → C64 × C64) (tw : Nat → Nat → Tw) : (k : Nat) → (lvl blk : Nat) → List C64 → List C64
  | 0, _, _, z => z
  | k + 1, lvl, blk, z =>
    let lo := invG bf tw k (lvl + 1) (2 * blk) (z.take (2 ^ k))
    let hi := invG bf tw k (lvl + 1) (2 * blk + 1) (z.drop (2 ^ k))
    let r := bflyBlock (bf (tw lvl blk)) lo hi
    r.1 ++ r.2

/-- `fft_avx2_fma`: `m < 16` is `fft_ref` -/
def fwdAvx (K : Nat) (omg : Array Nat) (z : List C64) : List C64 :=
  if K < 4 then fwd (twOf (fwdIdx K) omg) K 0 0 z else fwdG bflyFwdAvx (twOf (fwdIdx K) omg) K 0 0 z

def invAvx (K : Nat) (iomg : Array Nat) (z : List C64) : List C64 :=
  if K < 4 then inv (twOf (invIdx K) iomg) K 0 0 z else invG bflyInvAvx (twOf (invIdx K) iomg) K 0 0 z

def fftAvx (K : Nat) (omg : Array Nat) (d : List Nat) : Outcome (List Nat) :=
  if omg.size ≠ tabAlloc K then .err "table"
  else match unflat K d with
    | none => .panic "assert"
    | some z => .ok (flat (fwdAvx K omg z))

def ifftAvx (K : Nat) (iomg : Array Nat) (d : List Nat) : Outcome (List Nat) :=
  if iomg.size ≠ tabAlloc K then .err "table"
  else match unflat K d with
    | none => .panic "assert"
    | some z => .ok (flat (invAvx K iomg z))

/-! ## conversions -/

/-- one lane of `reim_from_znx_i64_bnd50_fma` (inside the asserted range `x + 2^51 ∈ [0, 2^52)`, so the `or` with the
bits of `2^52` is an addition): `(2^52 + (x + 2^51)) − 3·2^51` -/
def fromLaneAvx (x : Int) : Nat := sub ((x + 2 ^ 51).toNat + 0x4330000000000000) 0x4338000000000000

/-- `reim_from_znx_i64_bnd50_fma`: range assertion (always on; an `assert!` with a custom message, which the harness
classifies as `panic:other`), vector lanes, scalar `as f64` tail -/
def fromZnxAvx (a : List Int) : Outcome (List Nat) :=
  if a.any (fun x => decide (2 ^ 50 - 1 < x.natAbs)) then .panic "other"
  else
    let span := a.length / 4 * 4
    .ok ((a.take span).map fromLaneAvx ++ (a.drop span).map ofInt)

/-- one lane of `reim_to_znx_i64_bnd63_avx2_fma(divisor = 2^K)` -/
def toLaneAvx (K : Nat) (a : Nat) : Int :=
  let sgn := decide ((a / 2 ^ 63) % 2 = 1)
  let a' := add a (pack sgn ((1022 + K) * 2 ^ 52))
  let ea : Nat := (a' / 2 ^ 52) % 2048
  let mant : Nat := a' % 2 ^ 52 + 2 ^ 52
  let ed : Nat := 1075 + K
  let lsh : Nat := (ea + 4096 - ed) % 4096
  let rsh : Nat := (ed + 4096 - ea) % 4096
  let outL : Nat := if lsh < 64 then (mant * 2 ^ lsh) % 2 ^ 64 else 0
  let outR : Nat := if rsh < 64 then mant / 2 ^ rsh else 0
  let out : Nat := outL ||| outR
  w64 (if sgn then -(out : Int) else (out : Int))

def toZnxAvx (K : Nat) (d : List Nat) : List Int :=
  let span := d.length / 4 * 4
  (d.take span).map (toLaneAvx K) ++ (d.drop span).map (toI64 K)

/-! ## slot-wise products -/

/-- one slot of `reim_mul_avx2_fma(res, a, b)` / `reim_mul_assign_avx2_fma(res = b, a)`:
`rr = fmsub(ar, br, ai·bi)`, `ri = fmadd(ai, br, ar·bi)` -/
def cmulLaneAvx (a b : C64) : C64 := (fmsub a.1 b.1 (mul a.2 b.2), fma a.2 b.1 (mul a.1 b.2))

/-- `reim_mul_avx2_fma` on `m = 2^K` points: the reference when `m % 4 ≠ 0` -/
def cmulAvx (K : Nat) (a b : C64) : C64 := if K < 2 then cmul a b else cmulLaneAvx a b

/-- one slot of `reim_addmul_avx2_fma`: `rr = fmsub(ar, br, fmsub(ai, bi, rr))`, `ri = fmadd(ai, br, fmadd(ar, bi, ri))` -/
def caddmulLaneAvx (acc a b : C64) : C64 :=
  (fmsub a.1 b.1 (fmsub a.2 b.2 acc.1), fma a.2 b.1 (fma a.1 b.2 acc.2))

def caddmulAvx (K : Nat) (acc a b : C64) : C64 := if K < 2 then caddmul acc a b else caddmulLaneAvx acc a b

/-! ## reim4 matrix-vector kernels (one slot) -/

/-- accumulators `(re1, im1, re2, im2)` of `reim4_vec_mat1col_product_avx` -/
structure Acc4 where
  re1 : Nat
  im1 : Nat
  re2 : Nat
  im2 : Nat

def mat1colStep (s : Acc4) (u v : C64) : Acc4 :=
  ⟨fma u.1 v.1 s.re1, fma u.1 v.2 s.im1, fma u.2 v.2 s.re2, fma u.2 v.1 s.im2⟩

def mat1colFin (s : Acc4) : C64 := (sub s.re1 s.re2, add s.im1 s.im2)

/-- `reim4_vec_mat1col_product_avx` for one slot: rows of `(u, v)` -/
def mat1col (rows : List (C64 × C64)) : C64 :=
  mat1colFin (rows.foldl (fun s r => mat1colStep s r.1 r.2) ⟨0, 0, 0, 0⟩)

/-- one row of `reim4_vec_mat2cols_product_avx` / `…_2ndcol_product_avx` for one slot and one column -/
def mat2colsStep (acc u v : C64) : C64 :=
  (fmsub u.1 v.1 (fmsub u.2 v.2 acc.1), fma u.2 v.1 (fma u.1 v.2 acc.2))

def mat2cols (rows : List (C64 × C64)) : C64 := rows.foldl (fun s r => mat2colsStep s r.1 r.2) (0, 0)

/-! ## pipelines -/

def halves (K : Nat) (d : List Nat) : List C64 := (d.take (2 ^ K)).zip (d.drop (2 ^ K))

/-- `reim_from_znx` + `fft_avx2_fma` of one limb -/
def dftOfAvx (K : Nat) (omg : Array Nat) (a : List Int) : Outcome (List C64) :=
  match fromZnxAvx a with
  | .ok d => .ok (fwdAvx K omg (halves K d))
  | .panic c => .panic c
  | .err e => .err e

def idftOfAvx (K : Nat) (iomg : Array Nat) (z : List C64) : List Int :=
  toZnxAvx K (flat (invAvx K iomg z))

/-- `svp_prepare(p)`; `svp_apply_dft(x)`; `vec_znx_idft_apply` on `Module<FFT64Avx>` -/
def svpPipelineAvx (K : Nat) (omg iomg : Array Nat) (p x : List Int) : Outcome (List Int) :=
  match dftOfAvx K omg p, dftOfAvx K omg x with
  | .ok fp, .ok fx => .ok (idftOfAvx K iomg (List.zipWith (cmulAvx K) fp fx))
  | .panic c, _ => .panic c
  | _, .panic c => .panic c
  | _, _ => .err "internal"

def allOk {α : Type} : List (Outcome α) → Outcome (List α)
  | [] => .ok []
  | .ok v :: rest => match allOk rest with
    | .ok vs => .ok (v :: vs)
    | .panic c => .panic c
    | .err e => .err e
  | .panic c :: _ => .panic c
  | .err e :: _ => .err e

/-- one row of `reim4_vec_mat1col_product_avx` on whole slot vectors -/
def mat1colRow (S : List Acc4) (u v : List C64) : List Acc4 :=
  List.zipWith (fun s uv => mat1colStep s uv.1 uv.2) S (u.zip v)

/-- one row of the 2-column kernels on whole slot vectors (one column) -/
def mat2colsRow (S : List C64) (u v : List C64) : List C64 :=
  List.zipWith (fun s uv => mat2colsStep s uv.1 uv.2) S (u.zip v)

/-- the accumulation of `vmp_apply_dft_to_dft` for one output column, all slots: `kernel = 1`:
`reim4_vec_mat1col_product_avx` (`ncols` odd, last column), otherwise the 2-column kernels -/
def vmpAccAvx (K : Nat) (kernel : Nat) (rows : List (List C64 × List C64)) : List C64 :=
  if kernel = 2 then rows.foldl (fun S r => mat2colsRow S r.1 r.2) (List.replicate (2 ^ K) (0, 0))
  else (rows.foldl (fun S r => mat1colRow S r.1 r.2) (List.replicate (2 ^ K) ⟨0, 0, 0, 0⟩)).map mat1colFin

/-- `vmp_prepare`; `vmp_apply_dft`; `idft`, one output column -/
def vmpPipelineAvx (K : Nat) (omg iomg : Array Nat) (kernel : Nat) (rows : List (List Int × List Int)) : Outcome (List Int) :=
  if 2 * 2 ^ K < 8 then .panic "assert"
  else
    match allOk (rows.map (fun r => dftOfAvx K omg r.1)), allOk (rows.map (fun r => dftOfAvx K omg r.2)) with
    | .ok us, .ok vs => .ok (idftOfAvx K iomg (vmpAccAvx K kernel (us.zip vs)))
    | .panic c, _ => .panic c
    | _, .panic c => .panic c
    | _, _ => .err "internal"

end Fft64Avx
