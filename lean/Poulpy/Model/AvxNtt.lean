import Poulpy.Model.Avx
import Poulpy.Model.Ntt120
/-
Lane models (one 64-bit lane of a `__m256i`, `BitVec 64`) of the integer AVX2 kernels of the NTT120 back end:
`poulpy-cpu-avx/src/ntt120/{ntt,prim,arithmetic_avx,mat_vec_avx}.rs`.  In these kernels one vector register holds the
four prime residues of ONE coefficient (a q120b element), so every kernel is "lane = prime": no tail, and the lane
function below is applied to each of the 4·n `u64` of the slice.  Intrinsics by their Intel pseudo-code; the reference
twins are the functions of `Model/Ntt120.lean` (C07).  Executable; run by `pdriver avx nttk …`.
-/
namespace Avx.Ntt
open Avx

/-- `_mm256_mul_epu32(a, b)`: the low 32 bits of each 64-bit lane multiplied to a 64-bit product -/
def mul_epu32 (a b : W) : W := (a &&& 0xFFFFFFFF#64) * (b &&& 0xFFFFFFFF#64)
/-- `_mm256_slli_epi64(a, imm8)` -/
def slli_epi64 (a : W) (imm : Nat) : W := if imm < 64 then a <<< imm else 0#64

/-! ### `ntt.rs` -/

/-- `split_precompmul_si256(inp, po, h, mask)` -/
def splitPrecompmulSi256 (inp po h mask : W) : W :=
  let inp_low := and_si256 inp mask
  let t1 := mul_epu32 inp_low po
  let inp_high := srl_epi64 inp h
  let po_high := srli_epi64 po 32
  let t2 := mul_epu32 inp_high po_high
  add_epi64 t1 t2

/-- `modq_red_si256(x, h, mask, cst)` -/
def modqRedSi256 (x h mask cst : W) : W :=
  let xh := srl_epi64 x h
  let xl := and_si256 x mask
  let xh_scaled := mul_epu32 xh cst
  add_epi64 xl xh_scaled

/-- per-level constants of one prime lane: `(q2bs, mask, half_bs)` and the reduction constants `(h, mask, cst)` -/
structure StepC where
  q2bs : W
  mask : W
  halfBs : W
  reduce : Bool
structure RedC where
  h : W
  mask : W
  cst : W

/-- `modq_red_si256` in the `_red` variants of the iteration kernels, identity otherwise -/
def redIf (r : RedC) (m : StepC) (x : W) : W := if m.reduce then modqRedSi256 x r.h r.mask r.cst else x

/-- `ntt_iter_first[_red]`: `x ← split_precompmul(modq_red?(x), po)` -/
def iterFirst (r : RedC) (m : StepC) (x po : W) : W := splitPrecompmulSi256 (redIf r m x) po m.halfBs m.mask

/-- butterfly `i = 0` of `ntt_iter[_red]` / `intt_iter[_red]`: `(a + b, (a + q2bs) − b)` on the (reduced) inputs -/
def bfly0 (r : RedC) (m : StepC) (a b : W) : W × W :=
  let a := redIf r m a
  let b := redIf r m b
  (add_epi64 a b, sub_epi64 (add_epi64 a m.q2bs) b)

/-- forward butterfly `i ≥ 1`: the difference is multiplied by the twiddle -/
def fwdBflyI (r : RedC) (m : StepC) (a b po : W) : W × W :=
  let a := redIf r m a
  let b := redIf r m b
  let b1 := sub_epi64 (add_epi64 a m.q2bs) b
  (add_epi64 a b, splitPrecompmulSi256 b1 po m.halfBs m.mask)

/-- inverse butterfly `i ≥ 1`: `b` is multiplied by the twiddle first -/
def invBflyI (r : RedC) (m : StepC) (a b po : W) : W × W :=
  let a := redIf r m a
  let b := redIf r m b
  let bo := splitPrecompmulSi256 b po m.halfBs m.mask
  (add_epi64 a bo, sub_epi64 (add_epi64 a m.q2bs) bo)

/-! ### `prim.rs`: lazy q120b arithmetic -/

def msbC : W := 0x8000000000000000#64

/-- `lazy_reduce(x, q_s, msb)`: one conditional subtraction of `Q_SHIFTED` with an unsigned compare
(`xor msb` + signed `cmpgt`) -/
def lazyReduce (x qs : W) : W :=
  let x_xor := xor_si256 x msbC
  let q_xor := xor_si256 qs msbC
  let lt := cmpgt_epi64 q_xor x_xor
  sub_epi64 x (andnot_si256 lt qs)

def nttAdd (qs a b : W) : W := add_epi64 (lazyReduce a qs) (lazyReduce b qs)
def nttSub (qs a b : W) : W := add_epi64 (lazyReduce a qs) (sub_epi64 qs (lazyReduce b qs))
def nttNegate (qs a : W) : W := sub_epi64 qs (lazyReduce a qs)

/-! ### `arithmetic_avx.rs` -/

/-- `cond_sub(x, q)` -/
def condSub (x q : W) : W :=
  let lt := cmpgt_epi64 q x
  sub_epi64 x (andnot_si256 lt q)

def mask32 : W := 0xFFFFFFFF#64

/-- `barrett_reduce(tmp, q, mu)` -/
def barrett (tmp q mu : W) : W :=
  let tmp_hi := srli_epi64 tmp 32
  let tmp_lo := and_si256 tmp mask32
  let q_hi := srli_epi64 (mul_epu32 tmp_hi mu) 29
  let q_lo := srli_epi64 (mul_epu32 tmp_lo mu) 61
  let q_approx := add_epi64 q_hi q_lo
  let r := sub_epi64 tmp (mul_epu32 q_approx q)
  condSub (condSub r q) q

/-- `reduce_b_to_canonical(x, q, mu, pow32)` -/
def reduceBToCanonical (x q mu pow32 : W) : W :=
  let x_hi := srli_epi64 x 32
  let x_lo := and_si256 x mask32
  let x_hi_r := condSub x_hi q
  let tmp := add_epi64 (mul_epu32 x_hi_r pow32) x_lo
  barrett tmp q mu

/-- one lane of `c_from_b_avx2`: `r | (r_shift << 32)` -/
def cFromB (x q mu pow32 : W) : W :=
  let r := reduceBToCanonical x q mu pow32
  let rShift := barrett (mul_epu32 r pow32) q mu
  or_si256 r (slli_epi64 rShift 32)

/-- one lane of `pairwise_pack_left_1blk_x2_avx2`: `cond_sub(canon(a) + canon(b), q)` -/
def pairwisePackLeft (a b q mu pow32 : W) : W :=
  condSub (add_epi64 (reduceBToCanonical a q mu pow32) (reduceBToCanonical b q mu pow32)) q

/-- one 32-bit lane of `pairwise_pack_right_1blk_x2_avx2`: `_mm256_add_epi32` -/
def add_epi32 (a b : BitVec 32) : BitVec 32 := a + b

/-- one lane of `b_from_znx64[_masked]_avx2` for the (already masked) coefficient `xv` -/
def bFromZnx64 (xv oq : W) : W :=
  let xl := and_si256 xv 0x7FFFFFFFFFFFFFFF#64
  let sign := cmpgt_epi64 setzero_si256 xv
  add_epi64 xl (and_si256 sign oq)

/-- `reduce_b_and_apply_crt(x, q, mu, pow32_crt, pow16_crt, crt)` -/
def reduceBAndApplyCrt (x q mu pow32Crt pow16Crt crt : W) : W :=
  let x_hi := srli_epi64 x 32
  let x_hi_r := condSub x_hi q
  let x_lo := and_si256 x mask32
  let x_lo_hi := srli_epi64 x_lo 16
  let x_lo_lo := and_si256 x_lo 0xFFFF#64
  let p1 := mul_epu32 x_hi_r pow32Crt
  let p2 := mul_epu32 x_lo_hi pow16Crt
  let p3 := mul_epu32 x_lo_lo crt
  barrett (add_epi64 (add_epi64 p1 p2) p3) q mu

/-- `hadd64(v)`: wrapping sum of the four lanes -/
def hadd64 (v : V4) : W := (v.l0 + v.l2) + (v.l1 + v.l3)

/-- `crt_accumulate_avx2(t, qm_hi, qm_mid, qm_lo)`: `u128` value `s_hi·2^64 + s_mid·2^32 + s_lo` (wrapping `u128` adds) -/
def crtAccumulate (t hi mid lo : V4) : BitVec 128 :=
  let m := fun (a b : V4) => (⟨mul_epu32 a.l0 b.l0, mul_epu32 a.l1 b.l1, mul_epu32 a.l2 b.l2, mul_epu32 a.l3 b.l3⟩ : V4)
  let sHi := hadd64 (m t hi)
  let sMid := hadd64 (m t mid)
  let sLo := hadd64 (m t lo)
  ((sHi.zeroExtend 128) <<< 64) + ((sMid.zeroExtend 128) <<< 32) + (sLo.zeroExtend 128)

/-! ### `mat_vec_avx.rs` (BBC) and `vec_mat1col_product_bbb_avx2` -/

/-- loop body of the BBC kernels on one prime lane: `x` a q120b lane, `y` a q120c lane; state `(s1, s2)` -/
def bbcStep (s : W × W) (xv yv : W) : W × W :=
  let xl := and_si256 xv mask32
  let xh := srli_epi64 xv 32
  let y0 := and_si256 yv mask32
  let y1 := srli_epi64 yv 32
  let a := mul_epu32 xl y0
  let b := mul_epu32 xh y1
  let s1 := add_epi64 (add_epi64 s.1 (and_si256 a mask32)) (and_si256 b mask32)
  let s2 := add_epi64 (add_epi64 s.2 (srli_epi64 a 32)) (srli_epi64 b 32)
  (s1, s2)

/-- `reduce_bbc(s_lo, s_hi, mask_h2, h2, s2l, s2h)` -/
def reduceBbc (sLo sHi maskH h2 s2l s2h : W) : W :=
  let hi_lo := and_si256 sHi maskH
  let hi_hi := srl_epi64 sHi h2
  let t := add_epi64 sLo (mul_epu32 hi_lo s2l)
  add_epi64 t (mul_epu32 hi_hi s2h)

/-- loop body of `vec_mat1col_product_bbb_avx2` on one prime lane; state `(s1, s2, s3, s4)` -/
def bbbStep (s : W × W × W × W) (xv yv : W) : W × W × W × W :=
  let xl := and_si256 xv mask32
  let xh := srli_epi64 xv 32
  let yl := and_si256 yv mask32
  let yh := srli_epi64 yv 32
  let a := mul_epu32 xl yl
  let b := mul_epu32 xl yh
  let c := mul_epu32 xh yl
  let d := mul_epu32 xh yh
  let s1 := add_epi64 s.1 (and_si256 a mask32)
  let s2 := add_epi64 (add_epi64 (add_epi64 s.2.1 (srli_epi64 a 32)) (and_si256 b mask32)) (and_si256 c mask32)
  let s3 := add_epi64 (add_epi64 (add_epi64 s.2.2.1 (srli_epi64 b 32)) (srli_epi64 c 32)) (and_si256 d mask32)
  let s4 := add_epi64 s.2.2.2 (srli_epi64 d 32)
  (s1, s2, s3, s4)

/-- final reduction of `vec_mat1col_product_bbb_avx2` -/
def bbbFinal (maskH h2 s1hP s2lP s2hP s3lP s3hP s4lP s4hP : W) (s : W × W × W × W) : W :=
  let t := and_si256 s.1 maskH
  let t := add_epi64 t (mul_epu32 (srl_epi64 s.1 h2) s1hP)
  let t := add_epi64 t (mul_epu32 (and_si256 s.2.1 maskH) s2lP)
  let t := add_epi64 t (mul_epu32 (srl_epi64 s.2.1 h2) s2hP)
  let t := add_epi64 t (mul_epu32 (and_si256 s.2.2.1 maskH) s3lP)
  let t := add_epi64 t (mul_epu32 (srl_epi64 s.2.2.1 h2) s3hP)
  let t := add_epi64 t (mul_epu32 (and_si256 s.2.2.2 maskH) s4lP)
  add_epi64 t (mul_epu32 (srl_epi64 s.2.2.2 h2) s4hP)

/-! ### loops: 4 prime lanes per `__m256i`, whole kernels -/

/-- a `for j in 0..n { v = load(p + j); store(q + j, f(v)) }` loop over `__m256i` words seen on the flat `u64` array:
lane `k` of every word is processed with the `k`-th lane of the constant vectors (`f k`); a trailing partial word is not
touched by the loop (the q120 layouts have none: their length is `4·n`) -/
def loop4 {α β : Type} (f : Nat → α → β) : List α → List β
  | a :: b :: c :: d :: rest => f 0 a :: f 1 b :: f 2 c :: f 3 d :: loop4 f rest
  | _ => []

/-- one prime lane of a whole BBC kernel call (`vec_mat1col_product_bbc_avx2`, and each output word of the `x2` / `2cols`
variants): `rows` = the `(x, y)` lane pairs of the `ell` rows -/
def bbcLane (maskH h2 s2l s2h : W) (rows : List (W × W)) : W :=
  let s := rows.foldl (fun s p => bbcStep s p.1 p.2) (0#64, 0#64)
  reduceBbc s.1 s.2 maskH h2 s2l s2h

/-- one prime lane of a whole `vec_mat1col_product_bbb_avx2` call -/
def bbbLane (maskH h2 c1 c2 c3 c4 c5 c6 c7 : W) (rows : List (W × W)) : W :=
  bbbFinal maskH h2 c1 c2 c3 c4 c5 c6 c7 (rows.foldl (fun s p => bbbStep s p.1 p.2) (0#64, 0#64, 0#64, 0#64))

/-- one level of a table, one prime lane: step metadata, the bookkeeping bit size, the packed twiddles -/
structure LevelC where
  m : StepC
  bs : Nat
  tw : List W

/-- `ntt_iter[_red]` on one block, positions `i ≥ 1` -/
def fwdTailBV (r : RedC) (m : StepC) : List W → List W → List W → List W × List W
  | po :: tw, a :: lo, b :: hi =>
    let xy := fwdBflyI r m a b po
    let rest := fwdTailBV r m tw lo hi
    (xy.1 :: rest.1, xy.2 :: rest.2)
  | _, _, _ => ([], [])

/-- `ntt_iter[_red]` on the two halves of one block -/
def fwdBlockBV (r : RedC) (m : StepC) (tw : List W) : List W → List W → List W × List W
  | a :: lo, b :: hi =>
    let xy := bfly0 r m a b
    let rest := fwdTailBV r m tw lo hi
    (xy.1 :: rest.1, xy.2 :: rest.2)
  | _, _ => ([], [])

/-- the schedule of the reference (`ntt_ref` as modelled by C07): depth first -/
def nttLevelsBV (r : RedC) : List LevelC → List W → List W
  | [], v => v
  | l :: rest, v =>
    let h := v.length / 2
    let lh := fwdBlockBV r l.m l.tw (v.take h) (v.drop h)
    nttLevelsBV r rest lh.1 ++ nttLevelsBV r rest lh.2

/-- one call `ntt_iter[_red](nn, begin, end, …)`: every block of the range is split in two halves -/
def fwdLevelBV (r : RedC) (l : LevelC) (blocks : List (List W)) : List (List W) :=
  blocks.flatMap (fun blk =>
    let lh := fwdBlockBV r l.m l.tw (blk.take (blk.length / 2)) (blk.drop (blk.length / 2))
    [lh.1, lh.2])

/-- successive levels over the same range -/
def fwdLevelwiseBV (r : RedC) : List LevelC → List (List W) → List (List W)
  | [], bs => bs
  | l :: ls, bs => fwdLevelwiseBV r ls (fwdLevelBV r l bs)

/-- `ntt_avx2`, one prime lane: level 0 (`ntt_iter_first`), `k` levels over the whole array (`nn > CHANGE_MODE_N`), then the
remaining levels block by block (`split_nn`-wide blocks, all levels inside a block before the next block) -/
def nttAvx (r : RedC) (levels : List LevelC) (k : Nat) (v : List W) : List W :=
  match levels with
  | [] => v
  | l0 :: rest =>
    let v0 := List.zipWith (fun x po => splitPrecompmulSi256 x po l0.m.halfBs l0.m.mask) v l0.tw
    let bl := fwdLevelwiseBV r (rest.take k) [v0]
    (bl.map (fun blk => (fwdLevelwiseBV r (rest.drop k) [blk]).flatten)).flatten

/-- `intt_iter[_red]` on one block, positions `i ≥ 1` -/
def invTailBV (r : RedC) (m : StepC) : List W → List W → List W → List W × List W
  | po :: tw, a :: lo, b :: hi =>
    let xy := invBflyI r m a b po
    let rest := invTailBV r m tw lo hi
    (xy.1 :: rest.1, xy.2 :: rest.2)
  | _, _, _ => ([], [])

def invBlockBV (r : RedC) (m : StepC) (tw : List W) : List W → List W → List W × List W
  | a :: lo, b :: hi =>
    let xy := bfly0 r m a b
    let rest := invTailBV r m tw lo hi
    (xy.1 :: rest.1, xy.2 :: rest.2)
  | _, _ => ([], [])

/-- the schedule of the reference (`intt_ref` as modelled by C07): levels in block-size-descending order, halves first -/
def inttLevelsBV (r : RedC) : List LevelC → List W → List W
  | [], v => v
  | l :: rest, v =>
    let h := v.length / 2
    let lo := inttLevelsBV r rest (v.take h)
    let hi := inttLevelsBV r rest (v.drop h)
    let lh := invBlockBV r l.m l.tw lo hi
    lh.1 ++ lh.2

/-- one call `intt_iter[_red](nn, begin, end, …)`: adjacent finished blocks are merged pairwise -/
def invLevelBV (r : RedC) (l : LevelC) : List (List W) → List (List W)
  | a :: b :: rest =>
    let lh := invBlockBV r l.m l.tw a b
    (lh.1 ++ lh.2) :: invLevelBV r l rest
  | _ => []

/-- successive levels (block-size-ascending order) over the same range -/
def invLevelwiseBV (r : RedC) : List LevelC → List (List W) → List (List W)
  | [], bs => bs
  | l :: ls, bs => invLevelwiseBV r ls (invLevelBV r l bs)

/-- `intt_avx2`, one prime lane, on the partition `chunks` of the lane into `split_nn`-wide blocks: the first `j` levels block by
block, the remaining levels over the whole array, then the last pass (`ntt_iter_first[_red]`) -/
def inttAvx (r : RedC) (levels : List LevelC) (j : Nat) (chunks : List (List W)) : List W :=
  match levels.reverse with
  | [] => chunks.flatten
  | last :: revL =>
    let asc := revL.reverse
    let blocks := chunks.map (fun c => (invLevelwiseBV r (asc.take j) (c.map (fun x => [x]))).flatten)
    let w := (invLevelwiseBV r (asc.drop j) blocks).flatten
    List.zipWith (fun x po => iterFirst r last.m x po) w last.tw

/-! ### `b_to_znx128_avx2`, one coefficient -/

/-- the scalar tail on the `u128` sum `v`: `q_approx = v >> 120`, `v -= TOTAL_Q_MULT[q_approx]` (a four-entry table: a larger index is
an index panic), one conditional `-= TOTAL_Q`, symmetric lift with `half_q = TOTAL_Q.div_ceil(2)` -/
def crtTail (totalQ : Nat) (v : BitVec 128) : Int :=
  let qa := (v >>> 120).toNat
  let v1 := v - BitVec.ofNat 128 ([0, totalQ, totalQ * 2, totalQ * 3].getD qa 0)
  let v2 := if BitVec.ofNat 128 totalQ ≤ v1 then v1 - BitVec.ofNat 128 totalQ else v1
  if BitVec.ofNat 128 ((totalQ + 1) / 2) ≤ v2 then (v2.toNat : Int) - (totalQ : Int) else (v2.toNat : Int)

/-- one iteration of the loop of `b_to_znx128_avx2`: the word `x` (four prime lanes) ↦ the `i128` coefficient -/
def bToZnx128AvxCoef (x q mu p32 p16 crt hi mid lo : V4) (totalQ : Nat) : Int :=
  let t : V4 := ⟨reduceBAndApplyCrt x.l0 q.l0 mu.l0 p32.l0 p16.l0 crt.l0, reduceBAndApplyCrt x.l1 q.l1 mu.l1 p32.l1 p16.l1 crt.l1,
                 reduceBAndApplyCrt x.l2 q.l2 mu.l2 p32.l2 p16.l2 crt.l2, reduceBAndApplyCrt x.l3 q.l3 mu.l3 p32.l3 p16.l3 crt.l3⟩
  crtTail totalQ (crtAccumulate t hi mid lo)

/-! ### the `u64` tables and the Primes30 constant vectors, as the kernels read them -/
section Tables
open Ntt120

def stepCOf (m : StepMeta) : StepC :=
  { q2bs := BitVec.ofNat 64 m.q2bs, mask := BitVec.ofNat 64 m.mask, halfBs := BitVec.ofNat 64 m.halfBs, reduce := m.reduce }
def levelCOf (l : Level) : LevelC := { m := stepCOf l.1, bs := l.1.bs, tw := l.2.map (BitVec.ofNat 64) }
def redCOf (r : ReducK) : RedC := { h := BitVec.ofNat 64 r.h, mask := BitVec.ofNat 64 r.mask, cst := BitVec.ofNat 64 r.cst }

/-- every field of the table is a `u64` (it is: the crate stores them in `u64` / `[u64; 4]` fields) -/
def fitsLevel (l : Level) : Bool :=
  decide (l.1.q2bs < 2 ^ 64) && decide (l.1.mask < 2 ^ 64) && decide (l.1.halfBs < 2 ^ 64) && l.2.all (fun x => decide (x < 2 ^ 64))
def fitsTable (t : TableK) : Bool :=
  t.levels.all fitsLevel && decide (t.reduc.h < 2 ^ 64) && decide (t.reduc.mask < 2 ^ 64) && decide (t.reduc.cst < 2 ^ 64)

/-- `Q_VEC`, `BARRETT_MU`, `POW32_CRT`, `POW16_CRT`, `CRT_VEC`, `QM_HI/MID/LO`, `TOTAL_Q` of `arithmetic_avx.rs` -/
def Q30 (k : Nat) : Nat := primes30.qs.getD k 1
def CRT30 (k : Nat) : Nat := primes30.crt.getD k 0
def totQ30 : Nat := primes30.q0 * primes30.q1 * primes30.q2 * primes30.q3
def QM30 (k : Nat) : Nat := totQ30 / Q30 k
def v4 (f : Nat → Nat) : V4 := ⟨BitVec.ofNat 64 (f 0), BitVec.ofNat 64 (f 1), BitVec.ofNat 64 (f 2), BitVec.ofNat 64 (f 3)⟩
def qV : V4 := v4 Q30
def muV : V4 := v4 (fun k => (compactCst (Q30 k) (CRT30 k)).1)
def p32V : V4 := v4 (fun k => (compactCst (Q30 k) (CRT30 k)).2.1)
def p16V : V4 := v4 (fun k => (compactCst (Q30 k) (CRT30 k)).2.2)
def crtV : V4 := v4 CRT30
def hiV : V4 := v4 (fun k => QM30 k / 2 ^ 64)
def midV : V4 := v4 (fun k => QM30 k / 2 ^ 32 % 2 ^ 32)
def loV : V4 := v4 (fun k => QM30 k % 2 ^ 32)

end Tables

end Avx.Ntt
