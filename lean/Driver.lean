import Poulpy.Driver.Util
import Poulpy.Driver.Bdd

open Drv

def dispatch (ts : List String) : String :=
  match ts with
  | "bddword" :: rest => Bdd.handle rest
  | _ => "bad-op"

partial def loop (hin hout : IO.FS.Stream) : IO Unit := do
  let line ← hin.getLine
  if line.isEmpty then return ()
  match toks line with
  | [] => loop hin hout
  | id :: rest =>
    hout.putStrLn (id ++ " " ++ dispatch rest)
    loop hin hout

def main : IO Unit := do
  let hin ← IO.getStdin
  let hout ← IO.getStdout
  loop hin hout
  hout.flush
