"""C16 — the CKKS evaluator tracks values and precision metadata through any straight-line program.

Gate 1 (proof): lake build Poulpy.Props.C16 — invariant / error-iff / bit-algebra / no-wrap theorems over
        Model/Ckks.lean (the definitions the driver executes), `never_panics_partial` + counterexamples.
Gate 2 (correspondence): random typed programs over the real poulpy_ckks leveled API (pvh ckks, profile
        `ovf`: debug assertions + overflow checks) vs the Lean model (pdriver ckks): outcome of every
        call (`ok` / error variant with its numeric fields / panic class) and the metadata + limb count
        of every ciphertext of the pool after every call must be identical.
Gate 3 (property oracle, Python, independent reading of the Rust): every implementation outcome is
        checked directly against the statement: no panic, no `ok` with log_delta+log_budget > max_k,
        errors exactly when the documented condition holds.  Violations whose key is recorded in
        known_findings.json print KNOWN-FINDING; anything else is a VIOLATION with a shrunk replay.
Gate 4 (values, correspondence only — floating point): for `ok` steps the destination is decrypted and
        decoded and compared with the same program on complex numbers (f64) within
        2^(-log_delta + slack(depth)); encode→decode identity within the element precision.
"""
import os

from . import common
from .common import VERIF

CORPUS = os.path.join(VERIF, "corpus", "C16")

# the only finding left after the repairs docs/fixes/01-07 (FFT64 only; the generator avoids it)
K_UNINIT = "ckks_mul*:operand-with-effective_k=0"

def div_ceil(x, b):
    return (x + b - 1) // b


# --------------------------------------------------------------------------------------------------
# Independent Python reading of poulpy-ckks (metadata + outcome); ints are Python big integers.
# --------------------------------------------------------------------------------------------------
class Panic(Exception):
    def __init__(self, cls, key):
        self.cls = cls
        self.key = key


class Err(Exception):
    def __init__(self, s):
        self.s = s


class Ct:
    __slots__ = ("d", "b", "size")

    def __init__(self, size, d=0, b=0):
        self.d, self.b, self.size = d, b, size

    def eff(self):
        return self.d + self.b

    def copy(self):
        return Ct(self.size, self.d, self.b)


class Sim:
    def __init__(self, base2k, keys, maxprec, pool):
        self.q = base2k
        self.keys = set(keys)
        self.maxprec = maxprec
        self.pool = [Ct(s, d, b) for (s, d, b) in pool]

    def show(self):
        return "/".join(f"{c.d}.{c.b}.{c.size}" for c in self.pool)

    def maxk(self, c):
        return c.size * self.q

    # ---- error.rs
    def budget_sub(self, avail, req):
        if req > avail:
            raise Err(f"InsufficientHomomorphicCapacity:{avail}:{req}")
        return avail - req

    def usub(self, x, y):
        if y > x:
            raise Panic("overflow", "unchecked-usize-subtraction")
        return x - y

    def off1(self, dst, a):
        return max(0, a.eff() - self.maxk(dst))

    # ---- pieces
    def shift_into(self, dst, a, extra=0):
        off = self.off1(dst, a)
        lb = self.budget_sub(a.b, off + extra)
        dst.d, dst.b = a.d, lb

    def pt_align(self, dst, pd, pb, pq):
        if self.q != pq:
            raise Err(f"PlaintextBase2KMismatch:{self.q}:{pq}")
        ptk = div_ceil(pd + pb, pq) * pq
        if dst.b + pd < ptk:
            raise Err(f"PlaintextAlignmentImpossible:{dst.b}:{pd}:{ptk}")

    def pt_build(self, pd, pb):
        """alloc_pt_vec_znx + to_znx of a ZNX plaintext operand"""
        if pd > self.maxprec:
            raise Err("other")
        if pd + pb == 0:
            raise Err("other")

    def rnx_to_znx(self, pd, pb):
        if pd > self.maxprec:
            raise Err("other")
        if pd + pb == 0:
            raise Err("other")

    def to_znx_at_k(self, k, ld, re, im):
        if ld > self.maxprec:
            raise Err("other")
        if (re or im) and k == 0:
            raise Err("other")
        return (ld, max(0, k - ld), div_ceil(k, self.q))

    def cst_assign(self, dst, cst, re, im):
        if not re and not im:
            return
        ld, lb, limbs = cst
        if dst.b + ld < ld + lb:
            raise Err(f"PlaintextAlignmentImpossible:{dst.b}:{ld}:{ld + lb}")
        # only the leading dst.size digits are injected

    def cnv_hi(self, cnv):
        return 0 if cnv < self.q else cnv // self.q - 1

    def mul_ct_params(self, res, a, b):
        mb, md = min(a.b, b.b), max(a.d, b.d)
        if md > mb:
            raise Err(f"MultiplicationPrecisionUnderflow:{a.b}:{b.b}:{a.d}:{b.d}")
        rlb0, rld = mb - md, min(a.d, b.d)
        ro = max(0, rlb0 + rld - self.maxk(res))
        rlb = self.budget_sub(rlb0, ro)
        return rlb, rld, max(a.b, b.b) + max(a.d, b.d) + ro

    def mul_pt_params(self, res, a, pd, pb, base):
        if pd > a.b:
            raise Err(f"MultiplicationPrecisionUnderflow:{a.b}:{pb}:{a.d}:{pd}")
        rlb0, rld = a.b - pd, a.d
        ro = max(0, rlb0 + rld - self.maxk(res))
        rlb = self.budget_sub(rlb0, ro)
        return rlb, rld, base + ro

    def eff_limbs(self, c):
        """poulpy-core effective_limbs: leading limbs covering effective_k (assert limbs <= size)"""
        n = div_ceil(c.eff(), self.q)
        if n > c.size:
            raise Panic("assert", "effective_limbs:metadata-exceed-storage")
        if n == 0:
            raise Panic("overflow", K_UNINIT)
        return n

    def mul_into(self, dst, a, b):
        rlb, rld, cnv = self.mul_ct_params(dst, a, b)
        self.usub(self.eff_limbs(a) + self.eff_limbs(b), self.cnv_hi(cnv))
        dst.d, dst.b = rld, rlb

    def square_into(self, dst, a):
        rlb, rld, cnv = self.mul_ct_params(dst, a, a)
        self.usub(2 * self.eff_limbs(a), self.cnv_hi(cnv))
        dst.d, dst.b = rld, rlb

    def mul_pt_znx(self, dst, a, pd, pb, pq):
        if pq != self.q:
            raise Err(f"PlaintextBase2KMismatch:{self.q}:{pq}")
        psize = div_ceil(pd + pb, pq)
        rlb, rld, cnv = self.mul_pt_params(dst, a, pd, pb, psize * pq)
        self.usub(self.eff_limbs(a) + psize, self.cnv_hi(cnv))
        dst.d, dst.b = rld, rlb

    def mul_pt_rnx(self, dst, a, pd, pb):
        self.rnx_to_znx(pd, pb)
        self.mul_pt_znx(dst, a, pd, pb, self.q)

    def mul_cst_rnx(self, dst, a, pd, pb, re, im, assign):
        mink = div_ceil(pd + pb, self.q) * self.q
        if not re and not im:
            rlb, rld, _ = self.mul_pt_params(dst, a, pd, pb, mink)
            dst.d, dst.b = rld, rlb
            return
        ld, lb, limbs = self.to_znx_at_k(mink, pd, re, im)
        rlb, rld, cnv = self.mul_pt_params(dst, a, ld, lb, div_ceil(ld + lb, self.q) * self.q)
        if not (assign and not (re and im)):
            self.usub(a.size + limbs, self.cnv_hi(cnv))
        dst.d, dst.b = rld, rlb

    def add_assign(self, dst, a):
        if dst.b < a.b:
            self.usub(a.b, dst.b)
        elif dst.b > a.b:
            self.usub(dst.b, a.b)
        dst.b, dst.d = min(dst.b, a.b), min(dst.d, a.d)

    def mul_add(self, dst, prod):
        tmp = Ct(dst.size)
        prod(tmp)
        self.add_assign(dst, tmp)

    # ---- composite.rs
    def acc_fits(self, n):
        if not (self.q < 64 and n <= 2 ** (63 - self.q)):
            raise Err("other")

    def add_into(self, cd, ca, cb):
        off = max(0, min(ca.eff(), cb.eff()) - self.maxk(cd))
        lb = self.budget_sub(min(ca.b, cb.b), off)
        cd.d, cd.b = min(ca.d, cb.d), lb

    def add_many(self, dst, ins):
        if not ins:
            raise Err("other")
        if len(ins) == 1:
            self.shift_into(dst, ins[0])
            return
        self.acc_fits(len(ins))
        self.add_into(dst, ins[0], ins[1])
        for c in ins[2:]:
            self.add_assign(dst, c)

    def mul_many_rec(self, dst, ins):
        if any(c.d != ins[0].d for c in ins):
            raise Err("other")
        if len(ins) == 1:
            self.shift_into(dst, ins[0])
        elif len(ins) == 2:
            self.mul_into(dst, ins[0], ins[1])
        else:
            mid = len(ins) // 2
            left, right = ins[:mid], ins[mid:]
            cl2 = lambda n: 0 if n <= 1 else (n - 1).bit_length()
            lk = max(0, min(c.eff() for c in left) - cl2(len(left)) * ins[0].d)
            rk = max(0, min(c.eff() for c in right) - cl2(len(right)) * ins[0].d)
            lt, rt = Ct(div_ceil(lk, self.q)), Ct(div_ceil(rk, self.q))
            self.mul_many_rec(lt, left)
            self.mul_many_rec(rt, right)
            self.mul_into(dst, lt, rt)

    def accumulate(self, dst, terms):
        for t in terms:
            tmp = Ct(dst.size)
            t(tmp)
            self.add_assign(dst, tmp)

    def dot_ct(self, dst, A, Bs):
        if len(A) == 0 or len(A) != len(Bs):
            raise Err("other")
        self.acc_fits(len(A))
        if len(A) == 1:
            self.mul_into(dst, A[0], Bs[0])
            return
        amin, bmin = min(c.b for c in A), min(c.b for c in Bs)
        a_al = all(c.b == amin and c.d == A[0].d for c in A)
        b_al = all(c.b == bmin and c.d == Bs[0].d for c in Bs)
        uniform = all(c.d == A[0].d for c in A) and all(c.d == Bs[0].d for c in Bs)
        if not uniform:
            self.mul_into(dst, A[0], Bs[0])
            self.accumulate(dst, [(lambda t, x=x, y=y: self.mul_into(t, x, y)) for x, y in list(zip(A, Bs))[1:]])
            return
        ald, bld = A[0].d, Bs[0].d
        aT, bT = amin + ald, bmin + bld
        if max(ald, bld) > min(amin, bmin):
            raise Err(f"MultiplicationPrecisionUnderflow:{amin}:{bmin}:{ald}:{bld}")
        lhr0 = min(amin, bmin) - max(ald, bld)
        rld = min(ald, bld)
        ro = max(0, lhr0 + rld - self.maxk(dst))
        rlb = self.budget_sub(lhr0, ro)
        cnv = max(amin, bmin) + max(ald, bld) + ro
        for x, y in zip(A, Bs):
            xa = x if a_al else Ct(div_ceil(aT, self.q), ald, amin)
            yb = y if b_al else Ct(div_ceil(bT, self.q), bld, bmin)
            self.usub(self.eff_limbs(xa) + self.eff_limbs(yb), self.cnv_hi(cnv))
        dst.d, dst.b = rld, rlb

    def dot_with(self, dst, A, first, term):
        if not A:
            raise Err("other")
        self.acc_fits(len(A))
        first(dst, A[0])
        self.accumulate(dst, [(lambda t, a=a: term(t, a)) for a in A[1:]])

    # ---- one API call; returns (outcome string, finding key or None)
    def step(self, f):
        P = self.pool
        name = f[0]
        iv = [int(x) for x in f[1:]]

        def slot(i):
            if not (0 <= i < len(P)):
                raise Err("bad-slot")
            return P[i]

        def distinct(d, *src):
            if any(d == s for s in src):
                raise Err("bad-slot")

        key = None
        try:
            if name == "enc":
                d, k, pd, pb, pq = iv
                c = slot(d)
                self.pt_build(pd, pb)
                if k == 0:
                    raise Err("other")
                lb = self.budget_sub(k, pd)
                if k > self.maxk(c):
                    raise Err(f"LimbReallocationShrinksBelowMetadata:{self.maxk(c)}:{pd}:{self.q}:{c.size}")
                c.d, c.b = pd, lb
                self.pt_align(c, pd, pb, pq)
            elif name in ("add", "sub"):
                d, a, b = iv
                cd, ca, cb = slot(d), slot(a), slot(b)
                distinct(d, a, b)
                off = max(0, min(ca.eff(), cb.eff()) - self.maxk(cd))
                lb = self.budget_sub(min(ca.b, cb.b), off)
                cd.d, cd.b = min(ca.d, cb.d), lb
            elif name in ("add_assign", "sub_assign"):
                d, a = iv
                cd, ca = slot(d), slot(a)
                distinct(d, a)
                self.add_assign(cd, ca)
            elif name in ("add_pt_znx", "sub_pt_znx"):
                d, a, pd, pb, pq = iv
                cd, ca = slot(d), slot(a)
                distinct(d, a)
                self.pt_build(pd, pb)
                self.shift_into(cd, ca)
                self.pt_align(cd, pd, pb, pq)
            elif name in ("add_pt_znx_assign", "sub_pt_znx_assign"):
                d, pd, pb, pq = iv
                cd = slot(d)
                self.pt_build(pd, pb)
                self.pt_align(cd, pd, pb, pq)
            elif name in ("add_pt_rnx", "sub_pt_rnx"):
                d, a, pd, pb = iv
                cd, ca = slot(d), slot(a)
                distinct(d, a)
                self.rnx_to_znx(pd, pb)
                self.shift_into(cd, ca)
                self.pt_align(cd, pd, pb, self.q)
            elif name in ("add_pt_rnx_assign", "sub_pt_rnx_assign"):
                d, pd, pb = iv
                cd = slot(d)
                self.rnx_to_znx(pd, pb)
                self.pt_align(cd, pd, pb, self.q)
            elif name in ("add_cst_rnx", "sub_cst_rnx"):
                d, a, pd, pb, re, im = iv
                cd, ca = slot(d), slot(a)
                distinct(d, a)
                if not re and not im:
                    self.shift_into(cd, ca)
                else:
                    off = self.off1(cd, ca)
                    rlb = self.budget_sub(ca.b, off)
                    cst = self.to_znx_at_k(rlb + pd, pd, re, im)
                    self.shift_into(cd, ca)
                    self.cst_assign(cd, cst, re, im)
            elif name in ("add_cst_rnx_assign", "sub_cst_rnx_assign"):
                d, pd, pb, re, im = iv
                cd = slot(d)
                if re or im:
                    cst = self.to_znx_at_k(cd.b + pd, pd, re, im)
                    self.cst_assign(cd, cst, re, im)
            elif name in ("add_cst_znx", "sub_cst_znx"):
                d, a, k, ld, re, im = iv
                cd, ca = slot(d), slot(a)
                distinct(d, a)
                cst = self.to_znx_at_k(k, ld, re, im)
                self.shift_into(cd, ca)
                self.cst_assign(cd, cst, re, im)
            elif name in ("add_cst_znx_assign", "sub_cst_znx_assign"):
                d, k, ld, re, im = iv
                cd = slot(d)
                cst = self.to_znx_at_k(k, ld, re, im)
                self.cst_assign(cd, cst, re, im)
            elif name == "neg":
                d, a = iv
                cd, ca = slot(d), slot(a)
                distinct(d, a)
                self.shift_into(cd, ca)
            elif name in ("neg_assign", "conj_assign"):
                slot(iv[0])
            elif name == "mul":
                d, a, b = iv
                cd, ca, cb = slot(d), slot(a), slot(b)
                distinct(d, a, b)
                self.mul_into(cd, ca, cb)
            elif name == "mul_assign":
                d, a = iv
                cd, ca = slot(d), slot(a)
                distinct(d, a)
                self.mul_into(cd, cd.copy(), ca)
            elif name == "square":
                d, a = iv
                cd, ca = slot(d), slot(a)
                distinct(d, a)
                self.square_into(cd, ca)
            elif name == "square_assign":
                cd = slot(iv[0])
                self.square_into(cd, cd.copy())
            elif name == "mul_pt_znx":
                d, a, pd, pb, pq = iv
                cd, ca = slot(d), slot(a)
                distinct(d, a)
                self.pt_build(pd, pb)
                self.mul_pt_znx(cd, ca, pd, pb, pq)
            elif name == "mul_pt_znx_assign":
                d, pd, pb, pq = iv
                cd = slot(d)
                self.pt_build(pd, pb)
                self.mul_pt_znx(cd, cd.copy(), pd, pb, pq)
            elif name == "mul_pt_rnx":
                d, a, pd, pb = iv
                cd, ca = slot(d), slot(a)
                distinct(d, a)
                self.mul_pt_rnx(cd, ca, pd, pb)
            elif name == "mul_pt_rnx_assign":
                d, pd, pb = iv
                cd = slot(d)
                self.mul_pt_rnx(cd, cd.copy(), pd, pb)
            elif name == "mul_cst_rnx":
                d, a, pd, pb, re, im = iv
                cd, ca = slot(d), slot(a)
                distinct(d, a)
                self.mul_cst_rnx(cd, ca, pd, pb, re, im, False)
            elif name == "mul_cst_rnx_assign":
                d, pd, pb, re, im = iv
                cd = slot(d)
                self.mul_cst_rnx(cd, cd.copy(), pd, pb, re, im, True)
            elif name in ("mul_add_ct", "mul_sub_ct"):
                d, a, b = iv
                cd, ca, cb = slot(d), slot(a), slot(b)
                distinct(d, a, b)
                self.mul_add(cd, lambda t: self.mul_into(t, ca, cb))
            elif name in ("mul_add_pt_znx", "mul_sub_pt_znx"):
                d, a, pd, pb, pq = iv
                cd, ca = slot(d), slot(a)
                distinct(d, a)
                self.pt_build(pd, pb)
                self.mul_add(cd, lambda t: self.mul_pt_znx(t, ca, pd, pb, pq))
            elif name in ("mul_add_pt_rnx", "mul_sub_pt_rnx"):
                d, a, pd, pb = iv
                cd, ca = slot(d), slot(a)
                distinct(d, a)
                self.mul_add(cd, lambda t: self.mul_pt_rnx(t, ca, pd, pb))
            elif name in ("mul_add_cst_rnx", "mul_sub_cst_rnx"):
                d, a, pd, pb, re, im = iv
                cd, ca = slot(d), slot(a)
                distinct(d, a)
                if re or im:
                    self.mul_add(cd, lambda t: self.mul_cst_rnx(t, ca, pd, pb, re, im, False))
            elif name in ("mul_pow2", "conj"):
                d, a = iv[0], iv[1]
                cd, ca = slot(d), slot(a)
                distinct(d, a)
                self.shift_into(cd, ca)
            elif name == "mul_pow2_assign":
                slot(iv[0])
            elif name == "div_pow2":
                d, a, bits = iv
                cd, ca = slot(d), slot(a)
                distinct(d, a)
                self.shift_into(cd, ca, bits)
                cd.d += bits
            elif name == "div_pow2_assign":
                d, bits = iv
                cd = slot(d)
                cd.b = self.budget_sub(cd.b, bits)
            elif name == "rot":
                d, a, k = iv
                cd, ca = slot(d), slot(a)
                distinct(d, a)
                if k not in self.keys:
                    raise Err(f"MissingAutomorphismKey:{k}")
                self.shift_into(cd, ca)
            elif name == "rot_assign":
                d, k = iv
                slot(d)
                if k not in self.keys:
                    raise Err(f"MissingAutomorphismKey:{k}")
            elif name == "rescale":
                d, k, a = iv
                cd, ca = slot(d), slot(a)
                distinct(d, a)
                lb = self.budget_sub(ca.b, k)
                off = max(0, ca.d + lb - self.maxk(cd))
                lb = self.budget_sub(lb, off)
                cd.d, cd.b = ca.d, lb
            elif name == "rescale_assign":
                d, k = iv
                cd = slot(d)
                cd.b = self.budget_sub(cd.b, k)
            elif name == "align":
                a, b = iv
                ca, cb = slot(a), slot(b)
                distinct(a, b)
                if ca.b < cb.b:
                    cb.b = self.budget_sub(cb.b, cb.b - ca.b)
                else:
                    ca.b = self.budget_sub(ca.b, ca.b - cb.b)
            elif name == "compact":
                cd = slot(iv[0])
                cd.size = div_ceil(cd.eff(), self.q)
            elif name == "realloc":
                d, sz = iv
                cd = slot(d)
                if sz < div_ceil(cd.eff(), self.q):
                    raise Err(f"LimbReallocationShrinksBelowMetadata:{self.maxk(cd)}:{cd.d}:{self.q}:{sz}")
                cd.size = sz
            elif name == "compact_copy":
                d, a = iv
                cd, ca = slot(d), slot(a)
                distinct(d, a)
                need = div_ceil(ca.eff(), self.q)
                if need > ca.size:
                    raise Panic("bounds", "ckks_compact_limbs_copy:source-shorter-than-metadata")
                cd.d, cd.b, cd.size = ca.d, ca.b, need
            elif name == "set_meta":
                d, pd, pb = iv
                cd = slot(d)
                if pd + pb > self.maxk(cd):
                    raise Err(f"LimbReallocationShrinksBelowMetadata:{self.maxk(cd)}:{pd}:{self.q}:{cd.size}")
                cd.d, cd.b = pd, pb
            elif name in ("add_many", "mul_many"):
                d = iv[0]
                cd = slot(d)
                cs = [slot(a) for a in iv[1:]]
                distinct(d, *iv[1:])
                if name == "add_many":
                    self.add_many(cd, cs)
                else:
                    if not cs:
                        raise Err("other")
                    self.mul_many_rec(cd, cs)
            elif name == "dot_ct":
                d, n = iv[0], iv[1]
                if len(iv) != 2 + 2 * n:
                    return "bad-op", None
                cd = slot(d)
                A = [slot(a) for a in iv[2:2 + n]]
                Bs = [slot(a) for a in iv[2 + n:]]
                distinct(d, *iv[2:])
                self.dot_ct(cd, A, Bs)
            elif name in ("dot_pt_znx", "dot_pt_rnx", "dot_cst_rnx"):
                d, n = iv[0], iv[1]
                cd = slot(d)
                A = [slot(a) for a in iv[2:2 + n]]
                distinct(d, *iv[2:2 + n])
                rest = iv[2 + n:]
                if name == "dot_pt_znx":
                    pd, pb, pq = rest
                    self.pt_build(pd, pb)
                    self.dot_with(cd, A, lambda t, a: self.mul_pt_znx(t, a, pd, pb, pq), lambda t, a: self.mul_pt_znx(t, a, pd, pb, pq))
                elif name == "dot_pt_rnx":
                    pd, pb = rest
                    self.dot_with(cd, A, lambda t, a: self.mul_pt_rnx(t, a, pd, pb), lambda t, a: self.mul_pt_rnx(t, a, pd, pb))
                else:
                    pd, pb, re, im = rest
                    self.dot_with(cd, A, lambda t, a: self.mul_cst_rnx(t, a, pd, pb, re, im, False),
                                  lambda t, a: self.mul_cst_rnx(t, a, pd, pb, re, im, False))
            elif name == "dec":
                a, pd, pb, pq = iv
                ca = slot(a)
                if self.q != pq:
                    raise Err(f"PlaintextBase2KMismatch:{self.q}:{pq}")
                if ca.b + pd < pd + pb:
                    raise Err(f"PlaintextAlignmentImpossible:{ca.b}:{pd}:{div_ceil(pd + pb, pq) * pq}")
            else:
                return "bad-op", None
            return "ok@" + self.show(), key
        except Err as e:
            return f"err:{e.s}@" + self.show(), None
        except Panic as p:
            return f"panic:{p.cls}", p.key


# --------------------------------------------------------------------------------------------------
# generator
# --------------------------------------------------------------------------------------------------
BACKENDS = [("ntt120ref", 52), ("fft64ref", 17), ("ntt120avx", 52), ("fft64avx", 17)]
F128 = ("ntt120ref128", 52)      # f128 plaintexts (max_log_delta_prec 113); NTT120 only, as in the crate's own f128 tests


class Gen:
    def __init__(self, rng, be, q, n):
        self.r = rng
        self.be, self.q, self.n = be, q, n
        self.maxprec = 113 if be.endswith("128") else 53
        if be.endswith("128"):
            sizes = [rng.range(8, 12) for _ in range(rng.range(3, 4))]
            self.dlo, self.dhi = 56, 100
        elif q == 52:
            sizes = [rng.range(3, 5) for _ in range(rng.range(3, 5))]
            self.dlo, self.dhi = 18, 40
        else:
            sizes = [rng.range(5, 9) for _ in range(rng.range(3, 5))]
            self.dlo, self.dhi = 10, 24
        if rng.chance(1, 3):
            sizes[-1] = max(2, min(sizes) - rng.range(1, 2))     # a destination smaller than the natural result
        self.pool = [(s, 0, 0) for s in sizes]
        m = n // 2
        cand = [1, 2, 3, m - 1, 5, 7, 0]      # keys are generated with galois_element(k): k >= 0 are slot rotations
        self.keys = sorted(set(c for c in cand if rng.chance(1, 2)))
        self.delta = rng.range(self.dlo, self.dhi)

    def header(self):
        ks = ",".join(str(k) for k in self.keys) if self.keys else "-"
        ps = "/".join(f"{s}:{d}:{b}" for (s, d, b) in self.pool)
        return f"be={self.be} n={self.n} base2k={self.q} maxprec={self.maxprec} keys={ks} pool={ps}"

    def prec(self, boundary=False):
        r = self.r
        if boundary:
            c = r.below(6)
            if c == 0:
                return (r.range(self.maxprec - 3, self.maxprec + 7), r.range(0, 4))     # around the precision bound of the float type
            if c == 1:
                return (0, 0)                                    # zero precision
            if c == 2:
                return (self.delta + r.range(8, 40), r.range(0, 8))
            if c == 3:
                return (r.range(1, 6), 0)
        d = self.delta if r.chance(2, 3) else max(1, self.delta + r.range(-8, 8))
        return (min(d, self.maxprec), r.range(0, 12))

    def candidate(self, sim, boundary):
        r, q = self.r, self.q
        P = sim.pool
        np_ = len(P)
        live = [i for i, c in enumerate(P) if c.eff() > 0]
        d = r.below(np_)
        others = [i for i in range(np_) if i != d]
        a = r.choice([i for i in others if i in live] or others)
        b = r.choice([i for i in others if i in live] or others)
        if boundary and r.chance(1, 12):
            a = r.range(0, np_ + 1)                              # possibly outside the pool / aliasing
        pd, pb = self.prec(boundary)
        pq = q if not (boundary and r.chance(1, 3)) else r.choice([q - 1, q + 2, 19])
        bits = r.range(0, 12) if not boundary else r.choice([0, 1, q, q + 3, 3 * q, 400])
        rot = r.choice(self.keys) if (self.keys and not boundary) else r.choice([1, 2, 3, -1, -2, self.n // 2 - 1, 5, 7, 0, 11])
        re, im = r.choice([(1, 0), (0, 1), (1, 1), (1, 1), (0, 0)])
        kinds = [
            ("enc", 10), ("add", 8), ("sub", 4), ("add_assign", 5), ("sub_assign", 3),
            ("add_pt_znx", 3), ("sub_pt_znx", 2), ("add_pt_znx_assign", 3), ("sub_pt_znx_assign", 1),
            ("add_pt_rnx", 3), ("sub_pt_rnx", 1), ("add_pt_rnx_assign", 2), ("sub_pt_rnx_assign", 1),
            ("add_cst_rnx", 3), ("sub_cst_rnx", 1), ("add_cst_rnx_assign", 3), ("sub_cst_rnx_assign", 1),
            ("add_cst_znx", 2), ("sub_cst_znx", 1), ("add_cst_znx_assign", 2), ("sub_cst_znx_assign", 1),
            ("neg", 3), ("neg_assign", 2),
            ("mul", 9), ("mul_assign", 4), ("square", 5), ("square_assign", 3),
            ("mul_pt_znx", 4), ("mul_pt_znx_assign", 2), ("mul_pt_rnx", 4), ("mul_pt_rnx_assign", 2),
            ("mul_cst_rnx", 4), ("mul_cst_rnx_assign", 3),
            ("mul_add_ct", 4), ("mul_sub_ct", 2), ("mul_add_pt_znx", 2), ("mul_sub_pt_znx", 1),
            ("mul_add_pt_rnx", 2), ("mul_sub_pt_rnx", 1), ("mul_add_cst_rnx", 2), ("mul_sub_cst_rnx", 1),
            ("mul_pow2", 3), ("mul_pow2_assign", 2), ("div_pow2", 3), ("div_pow2_assign", 2),
            ("rot", 5), ("rot_assign", 3), ("conj", 3), ("conj_assign", 2),
            ("rescale", 5), ("rescale_assign", 6), ("align", 2),
            ("compact", 10), ("realloc", 2), ("compact_copy", 2), ("set_meta", 1), ("dec", 3),
            ("add_many", 4), ("mul_many", 4), ("dot_ct", 4), ("dot_pt_znx", 2), ("dot_pt_rnx", 2), ("dot_cst_rnx", 2),
        ]
        if not live:
            name = "enc"
        else:
            tot = sum(w for _, w in kinds)
            x = r.below(tot)
            for name, w in kinds:
                if x < w:
                    break
                x -= w
        cd = P[d]
        if name in MANY_OUT:
            srcs = [i for i in others if i in live] or others
            n = r.range(1, 4) if not boundary else r.choice([0, 1, 2, 5])
            pick = lambda: [r.choice(srcs) for _ in range(n)]
            if name in ("add_many", "mul_many"):
                return [name, d] + pick()
            if name == "dot_ct":
                return [name, d, n] + pick() + pick()
            if name == "dot_pt_znx":
                return [name, d, n] + pick() + [pd, pb, pq]
            if name == "dot_pt_rnx":
                return [name, d, n] + pick() + [pd, pb]
            return [name, d, n] + pick() + [pd, pb, re, im]
        if name == "enc":
            kmax = cd.size * q
            if boundary:
                k = max(0, r.choice([kmax, kmax + 1, kmax - q, pd, max(0, pd - 1), q, 0, r.range(1, max(1, kmax))]))
            else:
                k = kmax - (r.range(0, q - 1) if r.chance(1, 2) else 0)
            return ["enc", d, k, pd, pb, pq]
        if name in ("add", "sub", "mul", "mul_add_ct", "mul_sub_ct"):
            return [name, d, a, b]
        if name in ("add_assign", "sub_assign", "mul_assign", "neg", "square", "conj", "compact_copy"):
            return [name, d, a]
        if name in ("neg_assign", "square_assign", "conj_assign", "compact"):
            return [name, d]
        if name in ("add_pt_znx", "sub_pt_znx", "mul_pt_znx", "mul_add_pt_znx", "mul_sub_pt_znx"):
            return [name, d, a, pd, pb, pq]
        if name in ("add_pt_znx_assign", "sub_pt_znx_assign", "mul_pt_znx_assign"):
            return [name, d, pd, pb, pq]
        if name in ("add_pt_rnx", "sub_pt_rnx", "mul_pt_rnx", "mul_add_pt_rnx", "mul_sub_pt_rnx"):
            return [name, d, a, pd, pb]
        if name in ("add_pt_rnx_assign", "sub_pt_rnx_assign", "mul_pt_rnx_assign"):
            return [name, d, pd, pb]
        if name in ("add_cst_rnx", "sub_cst_rnx", "mul_cst_rnx", "mul_add_cst_rnx", "mul_sub_cst_rnx"):
            return [name, d, a, pd, pb, re, im]
        if name in ("add_cst_rnx_assign", "sub_cst_rnx_assign", "mul_cst_rnx_assign"):
            return [name, d, pd, pb, re, im]
        if name in ("add_cst_znx", "sub_cst_znx"):
            ca = P[a] if a < np_ else cd
            k = max(0, ca.b - max(0, ca.eff() - cd.size * q)) + pd if not boundary else r.range(0, 6 * q)
            return [name, d, a, k, pd, re, im]
        if name in ("add_cst_znx_assign", "sub_cst_znx_assign"):
            k = cd.b + pd if not boundary else r.range(0, 6 * q)
            return [name, d, k, pd, re, im]
        if name in ("mul_pow2", "div_pow2"):
            return [name, d, a, bits]
        if name in ("mul_pow2_assign", "div_pow2_assign"):
            return [name, d, bits]
        if name == "rot":
            return [name, d, a, rot]
        if name == "rot_assign":
            return [name, d, rot]
        if name == "rescale":
            ca = P[a] if a < np_ else cd
            k = r.range(0, min(ca.b, 2 * q)) if not boundary else r.choice([ca.b, ca.b + 1, q + 3, 0])
            return [name, d, k, a]
        if name == "rescale_assign":
            k = r.range(0, min(cd.b, 2 * q)) if not boundary else r.choice([cd.b, cd.b + 1, q + 3, 0])
            return [name, d, k]
        if name == "align":
            return [name, d, a]
        if name == "realloc":
            return [name, d, r.range(max(0, cd.size - 2), cd.size + 1)]
        if name == "set_meta":
            return [name, d, pd, r.range(0, cd.size * q + 4)]
        if name == "dec":
            return [name, a, pd, pb, pq]
        return [name, d]

    def program(self, max_steps):
        sim = Sim(self.q, self.keys, self.maxprec, self.pool)
        ops = []
        n_boundary = 0
        for _ in range(max_steps):
            boundary = self.r.chance(1, 5)
            chosen = None
            for _try in range(10):
                c = self.candidate(sim, boundary)
                trial = Sim(self.q, self.keys, self.maxprec, [(x.size, x.d, x.b) for x in sim.pool])
                out, key = trial.step([str(x) for x in c])
                if any(x.size == 0 for x in trial.pool) or key == K_UNINIT:
                    continue      # zero-limb ciphertexts: degenerate, FFT64 asserts a_size > 0 where NTT120 accepts
                if boundary or (out.startswith("ok") and key is None):
                    chosen = c
                    break
            if chosen is None:
                chosen = ["neg_assign", self.r.below(len(sim.pool))]
            n_boundary += int(boundary)
            toks = [str(x) for x in chosen]
            out, _ = sim.step(toks)
            ops.append(",".join(toks))
            if out.startswith("panic") or out == "bad-op":
                break
        return ops


# --------------------------------------------------------------------------------------------------
def parse_header(line):
    kv = dict(t.split("=", 1) for t in line.split() if "=" in t)
    keys = [] if kv.get("keys", "-") == "-" else [int(x) for x in kv["keys"].split(",")]
    pool = [tuple(int(x) for x in e.split(":")) for e in kv.get("pool", "").split("/") if e and e != "-"]
    ops = [o for o in kv.get("ops", "").split(";") if o]
    return kv, keys, pool, ops


def oracle(line, impl_steps):
    """Property oracle: judges the implementation's own outputs against the statement along the whole
    run of a caller that handles errors and goes on (an Err leaves consistent state, docs/fixes/08).
    Returns a list with at most one (step index, key, description)."""
    kv, keys, pool, ops = parse_header(line)
    q = int(kv["base2k"])
    sim = Sim(q, keys, int(kv.get("maxprec", 53)), pool)
    prev = None
    for i, op in enumerate(ops):
        if i >= len(impl_steps):
            break
        got = impl_steps[i]
        want, key = sim.step(op.split(","))
        name = op.split(",")[0]
        if got.startswith("panic") or got.startswith("harness-panic"):
            k = key if want.startswith("panic") else None
            return [(i, k, f"step {i} `{op}` panics ({got}); the statement allows only ok/err")]
        if got.startswith("ok@") or got.startswith("err:"):
            cur = got.split("@")[-1].split("/")
            for j, e in enumerate(cur):
                d, b, s = (int(x) for x in e.split("."))
                if d + b > s * q and (prev is None or j >= len(prev) or prev[j] != e):
                    k = None
                    return [(i, k, f"step {i} `{op}` returns {got.split('@')[0].split(':')[0]} leaving log_delta+log_budget={d + b} > max_k={s * q} on slot {j}")]
            prev = cur
        if got.split("@")[0] != want.split("@")[0]:
            # ok / err / error fields differ from the documented conditions (the mirror encodes them)
            return [(i, None, f"step {i} `{op}`: implementation {got.split('@')[0]}, documented behaviour {want.split('@')[0]}")]
        if got != want:
            return [(i, None, f"step {i} `{op}`: implementation state {got}, documented {want}")]
    return []


def run_both(ctx, binp, drv, lines):
    ids = [f"{k} ckks {l}" for k, l in enumerate(lines)]
    rc1, mout, e1 = ctx.run_lines(drv, [], ids)
    rc2, iout, e2 = ctx.run_lines(binp, ["ckks"], ids, timeout=3000)
    model = {}
    impl = {}
    diag = {}
    for l in mout:
        t = l.split()
        if len(t) >= 2:
            model[int(t[0])] = t[1].split("|")
    for l in iout:
        t = l.split()
        if len(t) >= 2:
            impl[int(t[0])] = t[1].split("|")
            diag[int(t[0])] = t[2].split("|") if len(t) > 2 else []
    return [(model.get(k, ["?"]), impl.get(k, ["?"]), diag.get(k, [])) for k in range(len(lines))]


def first_diff(m, i):
    for k in range(max(len(m), len(i))):
        if k >= len(m) or k >= len(i) or m[k] != i[k]:
            return k
    return None


def with_ops(line, ops):
    head = " ".join(t for t in line.split() if not t.startswith("ops="))
    return head + " ops=" + ";".join(ops)


def shrink(ctx, binp, drv, line, bad):
    """drop steps from the end, then from the front, while `bad(line, model, impl)` still holds"""
    _, _, _, ops = parse_header(line)
    # from the end
    lo = 1
    cands = [with_ops(line, ops[:k]) for k in range(1, len(ops) + 1)]
    res = run_both(ctx, binp, drv, cands)
    for k, (m, i, _) in enumerate(res):
        if bad(cands[k], m, i):
            ops = ops[:k + 1]
            break
    # from the front, one at a time
    changed = True
    rounds = 0
    while changed and rounds < 12 and len(ops) > 1:
        rounds += 1
        changed = False
        cands = [with_ops(line, ops[:k] + ops[k + 1:]) for k in range(len(ops) - 1)]
        res = run_both(ctx, binp, drv, cands)
        for k, (m, i, _) in enumerate(res):
            if bad(cands[k], m, i):
                ops = ops[:k] + ops[k + 1:]
                changed = True
                break
    return with_ops(line, ops)


def corpus_lines():
    out = []
    if os.path.isdir(CORPUS):
        for fn in sorted(os.listdir(CORPUS)):
            if fn.endswith(".case"):
                for l in open(os.path.join(CORPUS, fn)):
                    l = l.strip()
                    if l and not l.startswith("#"):
                        out.append((fn, l))
    return out


def store_corpus(name, line, comment):
    os.makedirs(CORPUS, exist_ok=True)
    path = os.path.join(CORPUS, name + ".case")
    if not os.path.exists(path):
        with open(path, "w") as fh:
            fh.write("# " + comment + "\n" + line + "\n")


# --------------------------------------------------------------------------------------------------
# scenario class: every out-of-place operation × destination narrower than / as wide as the natural
# result × a.budget </=/> b.budget × a.delta </=/> b.delta (value check on)
# --------------------------------------------------------------------------------------------------
BINARY_CT = ["add", "sub", "mul", "mul_add_ct", "mul_sub_ct"]
UNARY_OUT = ["add_pt_znx", "sub_pt_znx", "add_pt_rnx", "sub_pt_rnx", "add_cst_rnx", "sub_cst_rnx", "add_cst_znx", "sub_cst_znx",
             "neg", "square", "mul_pt_znx", "mul_pt_rnx", "mul_cst_rnx", "mul_add_pt_znx", "mul_sub_pt_znx", "mul_add_pt_rnx",
             "mul_sub_pt_rnx", "mul_add_cst_rnx", "mul_sub_cst_rnx", "mul_pow2", "div_pow2", "rot", "conj", "rescale"]
MANY_OUT = ["add_many", "mul_many", "dot_ct", "dot_pt_znx", "dot_pt_rnx", "dot_cst_rnx"]
REL = {-1: "<", 0: "=", 1: ">"}


def sgn(x):
    return (x > 0) - (x < 0)


def scenario_programs(rng, reps):
    """deterministic grid, random parameters inside each cell"""
    lines = []
    idx = 0
    for rep in range(reps):
        for name in BINARY_CT + UNARY_OUT:
            # narrow = 2: a ONE-limb destination that cannot even hold log_delta bits (the budget deduction must fail, not saturate)
            for narrow in (1, 0, 2):
                for brel in ((-1, 0, 1) if name in BINARY_CT else (0,)):
                    for drel in ((-1, 0, 1) if narrow != 2 else (0,)):
                        be, q = BACKENDS[idx % 4]
                        idx += 1
                        W = 7 if q == 52 else 9
                        d = rng.range(26, 40) if q == 52 else rng.range(14, 22)
                        if narrow == 2:
                            d = 53 if q == 52 else rng.range(18, 24)
                        B = rng.range(150, 200) if q == 52 else rng.range(70, 90)
                        g = rng.range(3, 9)
                        r = rng.range(1, q + 5) if q == 52 else rng.range(1, 20)
                        da, db = (d - g, d) if drel < 0 else (d, d - g) if drel > 0 else (d, d)
                        ba, bb = (B - r, B) if brel < 0 else (B, B - r) if brel > 0 else (B, B)
                        ka, kb = da + ba, db + bb
                        pre = [f"enc,0,{ka},{da},0,{q}"]
                        binary = name in BINARY_CT
                        if binary:
                            pre.append(f"enc,1,{kb},{db},0,{q}")
                        # natural effective_k of the result
                        pd = db                     # plaintext / constant precision plays the role of b's delta
                        if name in ("add", "sub"):
                            nat = min(ka, kb)
                        elif name in ("mul", "mul_add_ct", "mul_sub_ct"):
                            nat = min(ba, bb) - max(da, db) + min(da, db)
                        elif name == "square":
                            nat = ba - da + da
                        elif name.startswith("mul_pt") or name.startswith("mul_cst") or name.startswith("mul_add_pt") or name.startswith("mul_sub_pt") \
                                or name.startswith("mul_add_cst") or name.startswith("mul_sub_cst"):
                            nat = ba - pd + da
                        elif name == "rescale":
                            nat = ka - r
                        else:
                            nat = ka
                        if narrow == 2:
                            size = 1
                        elif narrow:
                            size = max(1, (nat - 1) // q - rng.below(2))
                        else:
                            size = min(W, nat // q + 1 + rng.below(2))
                        if size * q >= nat and narrow:
                            size = max(1, size - 1)
                        pool = f"{W}:0:0/{W}:0:0/{size}:0:0"
                        if name.startswith("mul_add") or name.startswith("mul_sub"):
                            # the destination of a multiply-accumulate holds a value
                            kd = min(size * q, nat if nat > d + 4 else size * q)
                            pre.append(f"enc,2,{max(kd, da + 2)},{min(da, db)},0,{q}")
                        if binary:
                            op = f"{name},2,0,1"
                        elif name in ("add_pt_znx", "sub_pt_znx", "mul_pt_znx", "mul_add_pt_znx", "mul_sub_pt_znx"):
                            op = f"{name},2,0,{pd},{rng.range(0, 6)},{q}"
                        elif name in ("add_pt_rnx", "sub_pt_rnx", "mul_pt_rnx", "mul_add_pt_rnx", "mul_sub_pt_rnx"):
                            op = f"{name},2,0,{pd},{rng.range(0, 6)}"
                        elif name in ("add_cst_rnx", "sub_cst_rnx", "mul_cst_rnx", "mul_add_cst_rnx", "mul_sub_cst_rnx"):
                            re, im = rng.choice([(1, 0), (0, 1), (1, 1)])
                            op = f"{name},2,0,{pd},{rng.range(0, 6)},{re},{im}"
                        elif name in ("add_cst_znx", "sub_cst_znx"):
                            off = max(0, ka - size * q)
                            re, im = rng.choice([(1, 0), (0, 1), (1, 1)])
                            op = f"{name},2,0,{max(1, ba - off) + pd},{pd},{re},{im}"
                        elif name in ("neg", "square", "conj"):
                            op = f"{name},2,0"
                        elif name in ("mul_pow2", "div_pow2"):
                            op = f"{name},2,0,{rng.range(1, 6)}"
                        elif name == "rot":
                            op = f"{name},2,0,1"
                        elif name == "rescale":
                            op = f"rescale,2,{r},0"
                        else:
                            continue
                        n = 16 if idx % 3 else 64
                        lines.append(f"be={be} n={n} base2k={q} maxprec=53 keys=1 pool={pool} vals=1 mag=1.0 ops=" + ";".join(pre + [op]))
        # composite operations: natural width from the mirror run into a very wide destination
        for name in MANY_OUT:
            for narrow in (1, 0):
                for brel in (-1, 0, 1):
                    be, q = BACKENDS[idx % 4]
                    idx += 1
                    W = 7 if q == 52 else 9
                    d = rng.range(26, 40) if q == 52 else rng.range(14, 22)
                    B = rng.range(150, 200) if q == 52 else rng.range(70, 90)
                    r = rng.range(1, q + 5) if q == 52 else rng.range(1, 20)
                    g = rng.range(3, 9) if name in ("add_many", "dot_ct", "dot_cst_rnx") and rng.chance(1, 2) else 0
                    bs = [B, B + brel * r, B - (r if brel == 0 and rng.chance(1, 2) else 0)]
                    ds = [d, d - g, d]
                    pre = [f"enc,{i},{ds[i] + bs[i]},{ds[i]},0,{q}" for i in range(3)]
                    if name == "add_many":
                        body = ["add_many", 3, 0, 1, 2]
                    elif name == "mul_many":
                        pre = [f"enc,{i},{d + bs[i]},{d},0,{q}" for i in range(3)]
                        body = ["mul_many", 3, 0, 1, 2]
                    elif name == "dot_ct":
                        body = ["dot_ct", 3, 2, 0, 1, 1, 2]
                    elif name == "dot_pt_znx":
                        body = ["dot_pt_znx", 3, 2, 0, 1, d, rng.range(0, 5), q]
                    elif name == "dot_pt_rnx":
                        body = ["dot_pt_rnx", 3, 2, 0, 2, d, rng.range(0, 5)]
                    else:
                        body = ["dot_cst_rnx", 3, 3, 0, 1, 2, d, rng.range(0, 5), 1, rng.below(2)]
                    sim = Sim(q, [1], 53, [(W, 0, 0)] * 3 + [(10000, 0, 0)])
                    for o in pre:
                        sim.step(o.split(","))
                    out, _ = sim.step([str(x) for x in body])
                    nat = sim.pool[3].eff() if out.startswith("ok") else 2 * q
                    size = max(1, (nat - 1) // q - rng.below(2)) if narrow else min(W, nat // q + 1 + rng.below(2))
                    if narrow and size * q >= nat:
                        size = max(1, size - 1)
                    n = 16 if idx % 3 else 64
                    lines.append(f"be={be} n={n} base2k={q} maxprec=53 keys=1 pool={W}:0:0/{W}:0:0/{W}:0:0/{size}:0:0 vals=1 mag=1.0 ops="
                                 + ";".join(pre + [",".join(str(x) for x in body)]))
        # fused ct·ct dot product (taken only when log_delta is uniform inside each side): both sides' (delta, budget)
        # relations crossed — larger delta on the smaller-budget side, on the larger-budget side, equal deltas, equal budgets
        for drel in (-1, 0, 1):
            for brel in (-1, 0, 1):
                for narrow in (0, 1):
                    be, q = BACKENDS[idx % 4]
                    idx += 1
                    W = 7 if q == 52 else 9
                    dA = rng.range(28, 38) if q == 52 else rng.range(15, 20)
                    dB = dA + drel * (rng.range(3, 9) if q == 52 else rng.range(2, 5))
                    BA = rng.range(140, 180) if q == 52 else rng.range(60, 80)
                    BB = BA + brel * (rng.range(q // 2, 2 * q) if q == 52 else rng.range(8, 30))
                    pre = [f"enc,0,{dA + BA},{dA},0,{q}", f"enc,1,{dA + BA - rng.below(3)},{dA},0,{q}",
                           f"enc,2,{dB + BB},{dB},0,{q}", f"enc,3,{dB + BB - rng.below(3)},{dB},0,{q}"]
                    body = ["dot_ct", 4, 2, 0, 1, 2, 3]
                    sim = Sim(q, [1], 53, [(W, 0, 0)] * 4 + [(10000, 0, 0)])
                    for o in pre:
                        sim.step(o.split(","))
                    out, _ = sim.step([str(x) for x in body])
                    nat = sim.pool[4].eff() if out.startswith("ok") else 2 * q
                    size = max(1, (nat - 1) // q - rng.below(2)) if narrow else min(W, nat // q + 1 + rng.below(2))
                    n = 16 if idx % 3 else 64
                    lines.append(f"be={be} n={n} base2k={q} maxprec=53 keys=1 pool={W}:0:0/{W}:0:0/{W}:0:0/{W}:0:0/{size}:0:0 vals=1 mag=1.0 ops="
                                 + ";".join(pre + [",".join(str(x) for x in body)]))
    return lines


def natural_eff(q, keys, st, f):
    """effective_k the call would produce into an unboundedly wide destination (mirror run)"""
    d = int(f[1])
    pool = [(s, dd, b) for (dd, b, s) in st]
    pool[d] = (10000, pool[d][1], pool[d][2])
    sim = Sim(q, keys, 53, pool)
    out, _ = sim.step(f)
    return sim.pool[d].eff() if out.startswith("ok") else None


def cells_of(line, impl_steps):
    """(op, offset > 0, budget relation) of every out-of-place call that returned Ok, computed from
    the implementation's own states"""
    kv, keys, pool, ops = parse_header(line)
    q = int(kv["base2k"])
    st = [(d, b, s) for (s, d, b) in pool]
    out = []
    for i, op in enumerate(ops):
        if i >= len(impl_steps) or "@" not in impl_steps[i]:
            break
        f = op.split(",")
        name = f[0]
        try:
            if impl_steps[i].startswith("ok") and name in MANY_OUT:
                nat = natural_eff(q, keys, st, f)
                if nat is not None:
                    out.append((name, nat > st[int(f[1])][2] * q, "-"))
            elif impl_steps[i].startswith("ok") and (name in BINARY_CT or name in UNARY_OUT):
                dd, db_, ds = st[int(f[1])]
                K = ds * q
                if name in BINARY_CT:
                    (da, ba, _), (dbb, bb, _) = st[int(f[2])], st[int(f[3])]
                    rel = REL[sgn(ba - bb)]
                    if name in ("add", "sub"):
                        nat = min(da + ba, dbb + bb)
                    else:
                        nat = min(ba, bb) - max(da, dbb) + min(da, dbb)
                else:
                    a = int(f[3]) if name == "rescale" else int(f[2])
                    da, ba, _ = st[a]
                    rel = "-"
                    if name == "rescale":
                        nat = da + ba - int(f[2])
                    elif name == "square":
                        nat = ba
                    elif name.startswith("mul_") and name not in ("mul_pow2",):
                        nat = ba - int(f[3]) + da
                    else:
                        nat = da + ba
                out.append((name, nat > K, rel))
        except (IndexError, ValueError):
            pass
        st = [tuple(int(x) for x in e.split(".")) for e in impl_steps[i].split("@")[1].split("/")]
    return out


def required_cells():
    req = []
    for name in BINARY_CT:
        for off in (True, False):
            for rel in "<=>":
                req.append((name, off, rel))
    for name in UNARY_OUT + MANY_OUT:
        for off in (True, False):
            req.append((name, off, "-"))
    return req


# --------------------------------------------------------------------------------------------------
# data tie (`dump=1` / `data=…`): the limbs of the destination after every call of the linear fragment,
# harness (real library on pseudo-random balanced digits) against Model/CkksData.lean, bit for bit
LIN_KINDS = [("add", 8), ("sub", 8), ("add_assign", 6), ("sub_assign", 6), ("neg", 4), ("neg_assign", 2),
             ("mul_pow2", 4), ("mul_pow2_assign", 3), ("div_pow2", 4), ("div_pow2_assign", 2),
             ("rescale", 6), ("rescale_assign", 4), ("align", 3),
             ("add_pt_znx", 4), ("sub_pt_znx", 3), ("add_pt_znx_assign", 3), ("sub_pt_znx_assign", 3)]
MUL_KINDS = [("mul", 8), ("mul_assign", 4), ("square", 4), ("square_assign", 2), ("mul_pt_znx", 5), ("mul_pt_znx_assign", 3),
             ("mul_add_ct", 4), ("mul_sub_ct", 3), ("mul_add_pt_znx", 3), ("mul_sub_pt_znx", 3),
             ("add_many", 5), ("mul_many", 5), ("dot_ct", 8), ("dot_pt_znx", 4), ("rot", 4), ("rot_assign", 2), ("conj", 3), ("conj_assign", 2)]
NEEDS_ATK = ("rot", "rot_assign", "conj", "conj_assign")
NEEDS_KEY = ("mul", "mul_assign", "square", "square_assign", "dot_ct", "mul_add_ct", "mul_sub_ct", "mul_many")


def data_programs(rng, count, max_steps, with_mul=False):
    lines = []
    for p in range(count):
        be, q0 = BACKENDS[p % 4]
        q = q0 if rng.chance(1, 2) else rng.choice([52, 30, 19] if be.startswith("ntt") else [17, 19, 12])
        n = 16 if p % 3 else 32
        np_ = rng.range(3, 5)
        pool = []
        for _ in range(np_):
            size = rng.range(1, 5)
            cap = size * q
            d = rng.range(2, min(40, cap))
            b = rng.range(0, cap - d)
            if rng.chance(1, 3):
                b = cap - d                                        # full ciphertext
            pool.append((size, d, b))
        if with_mul:
            # ciphertexts a product accepts: log_delta below the budgets, a few limbs of budget
            np_ = rng.range(4, 6)
            lo = 3 if q >= 30 else 5
            dl = rng.range(4, min(30, q))
            pool = []
            for _ in range(np_):
                size = rng.range(lo, lo + 3)
                cap = size * q
                d = dl if rng.chance(3, 4) else rng.range(4, min(30, q))
                b = rng.range(min(cap - d, 3 * d), cap - d)
                if rng.chance(1, 3):
                    b = cap - d
                pool.append((size, d, b))
        kinds = LIN_KINDS + (MUL_KINDS * 2 if with_mul else [])
        sim = Sim(q, [1, 3] if with_mul else [], 53, pool)
        ops = []
        for _ in range(rng.range(4, max_steps)):
            for _try in range(8):
                tot = sum(w for _, w in kinds)
                x = rng.below(tot)
                for name, w in kinds:
                    if x < w:
                        break
                    x -= w
                d = rng.below(np_)
                others = [i for i in range(np_) if i != d]
                a = rng.choice(others)
                b = rng.choice(others)
                cd = sim.pool[d]
                ca = sim.pool[a]
                bits = rng.choice([0, 1, 3, rng.range(0, 2 * q)])
                if name in ("add", "sub", "mul", "mul_add_ct", "mul_sub_ct"):
                    c = [name, d, a, b]
                elif name in ("mul_assign", "square", "conj"):
                    c = [name, d, a]
                elif name in ("square_assign", "conj_assign"):
                    c = [name, d]
                elif name == "rot":
                    c = [name, d, a, rng.choice([1, 3])]
                elif name == "rot_assign":
                    c = [name, d, rng.choice([1, 3])]
                elif name in ("mul_pt_znx", "mul_pt_znx_assign", "dot_pt_znx", "mul_add_pt_znx", "mul_sub_pt_znx"):
                    src = cd if name == "mul_pt_znx_assign" else ca
                    pd_ = rng.range(2, min(30, max(2, src.b)))
                    pb_ = rng.range(0, q)
                    if name in ("mul_pt_znx", "mul_add_pt_znx", "mul_sub_pt_znx"):
                        c = [name, d, a, pd_, pb_, q]
                    elif name == "mul_pt_znx_assign":
                        c = [name, d, pd_, pb_, q]
                    else:
                        k_ = rng.range(1, 3)
                        c = [name, d, k_] + [rng.choice(others) for _ in range(k_)] + [pd_, pb_, q]
                elif name == "add_many":
                    c = [name, d] + [rng.choice(others) for _ in range(rng.range(1, 4))]
                elif name == "mul_many":
                    c = [name, d] + [rng.choice(others) for _ in range(rng.range(1, 5))]
                elif name == "dot_ct":
                    k_ = rng.range(1, 3)
                    c = [name, d, k_] + [rng.choice(others) for _ in range(2 * k_)]
                elif name in ("add_assign", "sub_assign", "neg", "align"):
                    c = [name, d, a]
                elif name == "neg_assign":
                    c = [name, d]
                elif name in ("mul_pow2", "div_pow2"):
                    c = [name, d, a, bits]
                elif name in ("mul_pow2_assign", "div_pow2_assign"):
                    c = [name, d, bits]
                elif name in ("add_pt_znx", "sub_pt_znx", "add_pt_znx_assign", "sub_pt_znx_assign"):
                    src = ca if name in ("add_pt_znx", "sub_pt_znx") else cd
                    pd_ = rng.range(2, 40)
                    # a plaintext that can be aligned: log_budget + pt.log_delta >= pt.max_k (mostly)
                    base = (src.b + pd_) // q * q                    # largest max_k the ciphertext can be aligned with
                    if base > q and rng.chance(1, 3):
                        base -= q
                    tot = max(1, base - rng.range(0, q - 1) + (q if rng.chance(1, 10) else 0))
                    pb_ = max(0, min(tot, 5 * q) - pd_)
                    c = ([name, d, a] if name in ("add_pt_znx", "sub_pt_znx") else [name, d]) + [pd_, pb_, q]
                elif name == "rescale":
                    c = [name, d, rng.range(0, ca.b + (1 if rng.chance(1, 8) else 0)), a]
                else:
                    c = [name, d, rng.range(0, cd.b + (1 if rng.chance(1, 8) else 0))]
                trial = Sim(q, [1, 3] if with_mul else [], 53, [(x_.size, x_.d, x_.b) for x_ in sim.pool])
                out, _ = trial.step([str(x_) for x_ in c])
                if out.startswith("ok") or rng.chance(1, 6):
                    break
            toks = [str(x_) for x_ in c]
            sim.step(toks)
            ops.append(",".join(toks))
        ps = "/".join(f"{s_}:{d_}:{b_}" for (s_, d_, b_) in pool)
        nk = int(any(o.split(",")[0] in NEEDS_KEY for o in ops))
        na = int(any(o.split(",")[0] in NEEDS_ATK for o in ops))
        lines.append(f"be={be} n={n} base2k={q} maxprec=53 keys={'1,3' if with_mul else '-'} pool={ps} dump=1 needkey={nk} needatk={na} big={int(be.startswith('ntt'))} seed={p + 1} ops=" + ";".join(ops))
    return lines


def run_data(ctx, binp, drv, lines):
    """harness first (it draws the initial limbs), then the model on the same limbs"""
    ids = [f"{k} ckks {l}" for k, l in enumerate(lines)]
    rc2, iout, e2 = ctx.run_lines(binp, ["ckks"], ids, timeout=3000)
    impl = {}
    for l in iout:
        t = l.split()
        if len(t) >= 2:
            impl[int(t[0])] = t[1].split("|")
    mids = []
    for k, l in enumerate(lines):
        st = impl.get(k, ["?"])
        init = st[0][5:] if st and st[0].startswith("init#") else ""
        key = ""
        while len(st) > 1 and st[1][:4] in ("key#", "atk#", "ctk#"):
            key += " " + st[1][:3] + "=" + st[1][4:]
            st = [st[0]] + st[2:]
        impl[k] = st
        # ZNX plaintext operands: the harness draws their limbs and prints them after `%`; hand them to the model
        kvp = l.split(" ops=")
        ops_ = kvp[1].split(";") if len(kvp) > 1 else []
        for j, o in enumerate(ops_):
            if "_pt_znx" in o.split(",")[0]:
                got = st[j + 1] if j + 1 < len(st) else ""
                ops_[j] = o + "," + (got.split("%")[1] if "%" in got else "-")
        mids.append(f"{k} ckks {kvp[0]} data={init}{key} ops=" + ";".join(ops_))
    rc1, mout, e1 = ctx.run_lines(drv, [], mids)
    model = {}
    for l in mout:
        t = l.split()
        if len(t) >= 2:
            model[int(t[0])] = t[1].split("|")
    out = []
    for k in range(len(lines)):
        m = model.get(k, ["?"])
        i = [x.split("%")[0] for x in impl.get(k, ["?"])[1:]]
        if m and m[-1].endswith("@#?"):
            # an `Err` of a multiplication / composite: outcome and error fields are compared, the program ends there
            j = len(m) - 1
            i = i[:j] + ([i[j].split("@")[0] + "@#?"] if j < len(i) else [])
        out.append((m, i))
    return out


def data_cell(q, prev, op, got):
    """(operation, outcome, alignment branch, an operand longer than the destination?) of one call;
    `prev` = `delta.budget.size` of every slot before the call"""
    f = op.split(",")
    name = f[0]
    kind = got.split("@")[0].split("#")[0].split(":")[0]
    try:
        st = [tuple(int(x) for x in e.split(".")) for e in prev]
        if name in ("add", "sub"):
            d, a, b = (st[int(x)] for x in f[1:4])
            off = max(0, min(a[0] + a[1], b[0] + b[1]) - d[2] * q)
            br = "exact" if off == 0 and a[1] == b[1] else ("a<=b" if a[1] <= b[1] else "a>b")
            return (name, kind, br, off > 0, max(a[2], b[2]) > d[2])
        if name in ("add_assign", "sub_assign"):
            d, a = (st[int(x)] for x in f[1:3])
            br = "d<a" if d[1] < a[1] else ("d>a" if d[1] > a[1] else "d=a")
            return (name, kind, br, False, a[2] > d[2])
        if name in ("neg", "mul_pow2", "div_pow2"):
            d, a = (st[int(x)] for x in f[1:3])
            off = max(0, a[0] + a[1] - d[2] * q)
            return (name, kind, "-", off > 0, a[2] > d[2])
        if name == "rescale":
            d, a = st[int(f[1])], st[int(f[3])]
            return (name, kind, "-", a[0] + a[1] - int(f[2]) > d[2] * q, a[2] > d[2])
        if name in ("add_pt_znx", "sub_pt_znx"):
            d, a = (st[int(x)] for x in f[1:3])
            off = max(0, a[0] + a[1] - d[2] * q)
            return (name, kind, "-", off > 0, a[2] > d[2])
        if name == "align":
            a, b = (st[int(x)] for x in f[1:3])
            return (name, kind, "a<b" if a[1] < b[1] else "a>=b", False, False)
    except (ValueError, IndexError):
        pass
    return (name, kind, "-", False, False)


def data_scenarios():
    """fixed programs for the branches the random stream reaches rarely: `Err` of add/sub into a narrow destination (the
    destination keeps the un-normalised aligned sum), the exact branch with operands longer than the destination, the
    three branches of the in-place forms with a longer operand, shifts that drop limbs"""
    out = []
    k = 0
    for be, q0 in BACKENDS:
        for q in ([52, 19] if be.startswith("ntt") else [17, 12]):
            progs = [
                # err: offset 33.. > min budget
                (f"3:{2*q}:10/3:{2*q}:12/1:0:0/2:0:0", "add,2,0,1;sub,2,0,1;add,2,1,0;sub,3,1,0;add,3,0,0"),
                # exact branch, three limbs into two
                (f"3:{q//2}:{q}/3:{q//2+1}:{q}/2:0:0", "add,2,0,1;sub,2,1,0;neg,2,0;mul_pow2,2,1,0;add_assign,2,0;sub_assign,2,1"),
                # in-place forms: d<a, d>a, d=a with a longer operand
                (f"2:{q//2}:{q//2}/3:{q//2}:{q+3}/3:{q//2}:{q//2}/3:{q//2}:3", "add_assign,0,1;sub_assign,0,2;add_assign,0,3;sub_assign,0,1;sub_assign,0,3;add_assign,0,2"),
                # unary into a narrower destination, rescale paying the offset, division
                (f"4:{q}:{2*q+5}/2:0:0/1:0:0", f"neg,1,0;mul_pow2,1,0,{q+3};div_pow2,1,0,7;rescale,1,{q+1},0;rescale,2,{q},0;neg,2,0;div_pow2,2,0,{2*q}"),
                # plaintext addends: aligned (shift 0), shifted, narrower destination, alignment error
                (f"3:{q//2}:{q+4}/2:0:0/3:0:0", f"add_pt_znx_assign,0,{q//2},{q+4},{q};sub_pt_znx_assign,0,{q//2},4,{q};add_pt_znx,1,0,{q//2},3,{q};sub_pt_znx,2,0,{q//3},{q},{q};add_pt_znx_assign,1,{q},{3*q},{q}"),
                # align both ways, then add / sub on aligned operands
                (f"3:{q//2}:{q+9}/3:{q//2}:{q}/3:0:0", "align,0,1;add,2,0,1;align,1,0;rescale_assign,1,4;align,0,1;sub,2,0,1"),
            ]
            for pool, ops in progs:
                k += 1
                out.append(f"be={be} n=16 base2k={q} maxprec=53 keys=- pool={pool} dump=1 seed={1000 + k} ops={ops}")
        # products and composites (tensor + relinearise, plaintext product, un-normalised accumulation); `d` = log_delta
        q = q0
        d = 20 if q == 52 else 8
        s_ = 3 if q == 52 else 6
        cap = s_ * q
        mprogs = [
            # plain products, full and with a narrower destination; square; in place
            (f"{s_}:{d}:{cap-d}/{s_}:{d}:{cap-d}/{s_}:0:0/{s_-1}:0:0", "mul,2,0,1;mul,3,0,1;square,2,0;mul_assign,2,0;square_assign,2"),
            # unequal budgets and deltas
            (f"{s_}:{d}:{cap-d}/{s_}:{d+3}:{cap-d-3-q}/{s_}:0:0", "mul,2,0,1;mul,2,1,0;mul_pt_znx,2,0,%d,%d,%d;mul_pt_znx_assign,2,%d,0,%d" % (d, q, q, d, q)),
            # mul_add / mul_sub: the product goes to a temporary, then the normalising in-place sum (destination budget above / below the product's)
            (f"{s_}:{d}:{cap-d}/{s_}:{d}:{cap-d}/{s_}:{d}:{cap-2*d-q}/{s_-1}:{d}:{q}",
             "mul_add_ct,2,0,1;mul_sub_ct,2,1,0;mul_add_ct,3,0,1;mul_add_pt_znx,2,0,%d,%d,%d;mul_sub_pt_znx,3,1,%d,0,%d" % (d, q, q, d, q)),
            # mul_many: one input (aligned copy), two (a product), three to five (product tree into scratch ciphertexts)
            (f"{s_+2}:{d}:{(s_+2)*q-d}/{s_+2}:{d}:{(s_+2)*q-d}/{s_+2}:{d}:{(s_+2)*q-d-3}/{s_+2}:0:0/{s_}:0:0",
             "mul_many,3,0;mul_many,3,0,1;mul_many,3,0,1,2;mul_many,4,0,1,2,0;mul_many,3,0,1,2,1,0"),
            # add_many: one input, two, three with different budgets
            (f"{s_}:{d}:{cap-d}/{s_}:{d}:{cap-d-7}/{s_}:{d}:{cap-d-q-2}/{s_}:0:0/{s_-1}:0:0", "add_many,3,0;add_many,3,0,1;add_many,3,0,1,2;add_many,4,2,1,0,1"),
            # dot products: aligned sides; crossed budgets (uniform delta per side): the fused path rescales into buffers
            (f"{s_}:{d}:{cap-d}/{s_}:{d}:{cap-d}/{s_}:{d}:{cap-d-5}/{s_}:{d}:{cap-d-q-1}/{s_}:0:0",
             "dot_ct,4,2,0,1,1,0;dot_ct,4,2,0,2,3,1;dot_ct,4,2,2,0,1,3;dot_ct,4,3,0,2,3,3,1,0;dot_ct,4,1,0,1"),
            # dot product with different deltas on one side (un-fused: accumulate_unnormalized), plaintext dot product
            (f"{s_}:{d}:{cap-d}/{s_}:{d+2}:{cap-d-2}/{s_}:{d}:{cap-d-4}/{s_}:0:0",
             "dot_ct,3,2,0,1,2,0;dot_pt_znx,3,2,0,2,%d,%d,%d;dot_pt_znx,3,1,1,%d,0,%d" % (d, q, q, d, q)),
        ]
        for pool, ops in mprogs:
            k += 1
            out.append(f"be={be} n=16 base2k={q} maxprec=53 keys=- pool={pool} dump=1 needkey=1 big={int(be.startswith('ntt'))} seed={2000 + k} ops={ops}")
        # rotations and conjugation: same size, narrower destination (aligned copy first), in place, missing key
        rprogs = [
            (f"{s_}:{d}:{cap-d}/{s_}:0:0/{s_-1}:0:0", "rot,1,0,1;rot,2,0,3;conj,1,0;conj,2,0;rot_assign,0,1;conj_assign,0;rot,1,0,5"),
            (f"{s_}:{d}:{cap-d-q-3}/{s_-2}:0:0/{s_}:0:0", "rot,1,0,3;conj,1,0;rot,2,0,1;rot_assign,2,3;conj_assign,2;rot_assign,1,1"),
        ]
        for pool, ops in rprogs:
            k += 1
            out.append(f"be={be} n=16 base2k={q} maxprec=53 keys=1,3 pool={pool} dump=1 needatk=1 big={int(be.startswith('ntt'))} seed={3000 + k} ops={ops}")
    return out


def _rha(M, sft):
    """round(M * 2^sft), halves away from zero (f64::round / roundq)"""
    if sft >= 0:
        return M << sft
    d = 1 << (-sft)
    q, r = divmod(abs(M), d)
    a = q + (1 if 2 * r >= d else 0)
    return -a if M < 0 else a


def _fmt_val(M, e):
    """exact `m:e` terms for the harness (mantissa chunks of 56 bits; the sum is exact when |M| < 2^p)"""
    if M == 0:
        return "0:0"
    sg = -1 if M < 0 else 1
    a = abs(M)
    terms = []
    sh = 0
    while a:
        lo = a & ((1 << 56) - 1)
        if lo:
            terms.append(f"{sg * lo}:{e + sh}")
        a >>= 56
        sh += 56
    return "+".join(reversed(terms))


def toznx_cases(rng, count):
    """inputs of the float → integer conversion around every boundary of `to_znx` / `to_znx_at_k`"""
    out = []
    for k in range(count):
        fl = "f128" if rng.range(0, 2) == 0 else "f64"
        p = 113 if fl == "f128" else 53
        maxprec = p
        b = rng.choice([17, 19, 52])
        form = "cst" if rng.range(0, 3) == 0 else "vec"
        delta = rng.choice([0, 1, rng.range(2, maxprec), rng.range(2, maxprec), rng.range(2, 53), maxprec, maxprec + 1]) if rng.range(0, 9) == 0 else rng.range(0, maxprec)
        tgt = rng.choice([rng.range(1, 40), 62, 63, 64, 65, rng.range(64, 127), 126, 127, 128, 129, 130, rng.range(129, 400), 0])
        if form == "vec":
            budget = max(0, tgt - delta) if rng.range(0, 4) else rng.range(0, 12)
            effk = delta + budget
            kk = 0
        else:
            kk = tgt if rng.range(0, 4) else rng.range(0, delta + 1)
            budget = max(0, kk - delta)
            effk = max(kk, delta)
        W = 63 if delta + budget <= 63 else 127
        nvals = rng.choice([2, 4]) if form == "vec" else 2
        vals, classes = [], []
        benign = rng.range(0, 1) == 0          # half of the lines: only values the conversion should accept
        for _ in range(nvals):
            c = (rng.choice(["small", "small", "half", "limit", "limit", "limit", "absent"]) if benign else
                 rng.choice(["small", "half", "limit", "cap", "cap", "cap", "huge", "nan", "inf", "absent"]))
            if c == "absent" and form == "vec":
                c = "small"
            sg = rng.choice([1, -1])
            if c == "small":
                v = ("fin", sg * rng.range(0, 1 << rng.range(1, min(p, 50))), -delta - rng.range(0, 4) + rng.range(0, 3))
            elif c == "half":
                v = ("fin", sg * (2 * rng.range(0, 1 << 20) + 1), -delta - 1)
            elif c == "limit":      # around the magnitude limit of the metadata: |x * 2^delta| ~ 2^(effk-1)
                t = max(effk - 1, 0)
                M = rng.choice([1 << (p - 1), (1 << p) - 1, (1 << (p - 1)) + 1, (1 << p) - rng.range(1, 1 << 10)])
                e = rng.choice([t - p, t - p + 1, t - p - 1]) - delta if M != 1 << (p - 1) else rng.choice([t - p + 1, t - p, t - p + 2]) - delta
                v = ("fin", sg * M, e)
            elif c == "cap":        # around the range of the integer type the path selects
                M = rng.choice([1 << (p - 1), (1 << p) - 1, (1 << (p - 1)) + 1, (1 << p) - rng.range(1, 1 << 10)])
                e = (W - p if M != 1 << (p - 1) else W - p + 1) + rng.choice([0, 0, 0, -1, 1]) - delta
                v = ("fin", sg * M, e)
            elif c == "huge":
                v = ("fin", sg * rng.range(1, 1 << 20), W - delta + rng.range(0, 800))
            elif c == "nan":
                v = ("nan",)
            elif c == "inf":
                v = ("inf", sg < 0)
            else:
                v = None
            vals.append(v)
            classes.append(c)
        if form == "cst" and vals[0] is None and vals[1] is None and rng.range(0, 2):
            vals[0] = ("fin", 1, 0)
        def show(v):
            if v is None:
                return "-"
            if v[0] == "nan":
                return "nan"
            if v[0] == "inf":
                return "-inf" if v[1] else "inf"
            return _fmt_val(v[1], v[2])
        conv, inr, ints = [], [], []
        for v in vals:
            if v is None:
                continue
            if v[0] != "fin":
                conv.append(False); inr.append(False); ints.append(None)
                continue
            iv = _rha(v[1], v[2] + delta)
            ints.append(iv)
            conv.append(-(1 << W) <= iv < (1 << W))
            inr.append(effk >= 1 and abs(iv) < (1 << (effk - 1)))
        size = div_ceil(effk if form == "vec" else kk, b)
        if form == "vec":
            heads = delta <= maxprec and size > 0
        else:
            heads = delta <= maxprec and not (kk == 0 and any(v is not None for v in vals))
        line = (f"toznx float={fl} form={form} base2k={b} delta={delta} budget={budget} k={kk} vals=" + ";".join(show(v) for v in vals))
        out.append({"line": line, "float": fl, "form": form, "base2k": b, "delta": delta, "budget": budget, "k": kk, "effk": effk, "W": W,
                    "path": W, "classes": classes, "convertible": conv, "in_range": inr, "ints": ints, "size": size, "passes_heads": heads,
                    "present": [v is not None for v in vals]})
    return out


def toznx_expect(c):
    """second reading of vec.rs / cst.rs: the outcome class"""
    if not c["passes_heads"]:
        return "err"
    if c["float"] == "f64" and not all(c["convertible"]):
        return "panic"
    return "ok"


def toznx_digits_ok(c, ans):
    """digits ≡ value (mod 2^(b * limbs)), at the position the form encodes at, for every present coefficient"""
    body = ans.split()[1]
    b = c["base2k"]
    cols = body.split(",") if c["form"] == "vec" else [x for x in body.split("/") if x != "-"]
    if len(cols) != len(c["ints"]):
        return False
    for col, v in zip(cols, c["ints"]):
        ds = [int(x) for x in col.split(".")]
        tot = 0
        for d in ds:
            tot = (tot << b) + d
        # to_znx_at_k encodes at k: the value sits k bits below the top, i.e. shifted left by b*limbs - k
        sh = b * len(ds) - c["k"] if c["form"] == "cst" else 0
        if sh < 0 or (tot - (v << sh)) % (1 << (b * len(ds))) != 0:
            return False
    return True


def run(ctx):
    rng = ctx.rng
    quick = ctx.tier == "quick"
    ctx.trusted += [
        "Model/Ckks.lean as the reading of poulpy-ckks metadata/outcome behaviour (tied step by step by the `ckks` harness)",
        "vlib/c16.py Sim: second, independent reading of the Rust used as property oracle and program generator",
    ]
    ctx.assumptions += [
        "all ciphertexts and evaluation keys of a program share one radix and rank 1; scratch is ample (C12)",
        "program-level theorems: slot and constant values are finite with -2^W <= round(x*2^log_delta) < 2^W (W = 63 if log_delta+log_budget <= 63 else 127) — "
        "the exact precondition of the float → integer conversion (Props/C16 §11: f64 panics, f128 saturates outside it); implied by the magnitude limit "
        "of the metadata iff log_delta+log_budget <= 128",
        "value semantics (decrypt+decode vs complex arithmetic) is correspondence only: IEEE-754 arithmetic of the encoder and of FFT64 is outside the model",
    ]
    broken = []
    ok, failures = ctx.proof_gate(["Poulpy.Props.C16"])
    if not ok:
        broken += failures
    binp = ctx.build_harness("ovf")
    drv = ctx.driver()
    if binp is None:
        broken.append("harness build failed: " + getattr(ctx, "build_error", "")[-600:])
    if drv is None:
        broken.append("model driver does not build")
    hist = {}
    cells = {}
    vstats = {"checked": 0, "worst_slack": -99.0, "failed": 0}
    findings = {}          # key -> (line, description)
    unknown = []           # (line, description)
    disagree = []
    disagree_data = []

    def judge(lines, tag):
        res = run_both(ctx, binp, drv, lines)
        for line, (m, i, dg) in zip(lines, res):
            kv, keys, pool, ops = parse_header(line)
            k = first_diff(m, i)
            for s, (op, got) in enumerate(zip(ops, i)):
                name = op.split(",")[0]
                kind = got.split("@")[0].split(":")[0] + (":" + got.split(":")[1].split("@")[0] if got.startswith("err:") else "")
                if got.startswith("panic"):
                    kind = got
                st = got.split("@")[-1].split("/") if "@" in got else []
                f = op.split(",")
                feat = ()
                try:
                    d = int(f[1])
                    if st and d < len(st):
                        dd, db, ds = (int(x) for x in st[d].split("."))
                        feat = (dd + db == ds * int(kv["base2k"]), div_ceil(dd + db, int(kv["base2k"])) == ds, ds)
                except (ValueError, IndexError):
                    pass
                hist[(name, kind)] = hist.get((name, kind), 0) + 1
                ctx.count_case((kv["be"], kv["n"], name, kind) + feat, nontrivial=True)
            for cell in cells_of(line, i):
                cells[cell] = cells.get(cell, 0) + 1
            if k is not None:
                ctx.disagreements += 1
                disagree.append((line, k, m[k] if k < len(m) else "-", i[k] if k < len(i) else "-"))
            first_finding = None
            for (s, key, what) in oracle(line, i):
                ctx.oracle_failures += 1
                first_finding = s if first_finding is None else min(first_finding, s)
                if key is not None:
                    findings.setdefault(key, (line, s, what))
                else:
                    unknown.append((line, s, what))
            # values (not judged from the first property violation on: e.g. rescale into a too small
            # destination returns Ok but has dropped the message bits)
            for s, dgs in enumerate(dg):
                if first_finding is not None and s >= first_finding:
                    break
                if dgs and dgs != "-":
                    try:
                        l2e, ld, l2m, lb = dgs.split(":")
                        if int(ld) < 10:
                            vstats["low_precision_skipped"] = vstats.get("low_precision_skipped", 0) + 1
                            continue          # below ~10 bits the encryption noise (sigma 3.2, bound 19) is of the order of the message
                        if float(l2m) + 1.5 >= int(lb):
                            vstats["out_of_range_skipped"] = vstats.get("out_of_range_skipped", 0) + 1
                            continue          # the value does not fit the remaining log_budget: caller's overflow
                        slack = float(l2e) + int(ld)
                        bound = 9.0 + 1.5 * s + 2.0 * max(0.0, float(l2m))
                        vstats["checked"] += 1
                        vstats["worst_slack"] = max(vstats["worst_slack"], slack - 1.5 * s - 2.0 * max(0.0, float(l2m)))
                        if slack > bound:
                            vstats["failed"] += 1
                            unknown.append((line, s, f"step {s}: decrypted slots differ from the complex-number program by 2^{l2e} at log_delta={ld} (allowed 2^{bound - int(ld):.1f})"))
                    except ValueError:
                        pass
            if len(ctx.samples) < 10 and tag != "corpus" and len(ops) > 3:
                ctx.samples.append({"request": line, "implementation": "|".join(i)[:600], "model_equal": k is None})

    if binp is not None and drv is not None:
        # ---- corpus first
        cl = corpus_lines()
        if cl:
            judge([l for _, l in cl], "corpus")
        ctx.cov["corpus_programs"] = len(cl)
        # ---- scenario grid: every out-of-place op × narrow/wide destination × budget relation × delta relation
        sl = scenario_programs(rng.fork(), 1 if quick else 20)
        for off in range(0, len(sl), 500):
            judge(sl[off:off + 500], "scenario")
        ctx.cov["scenario_programs"] = len(sl)
        # ---- generated programs
        n_prog = 300 if quick else 20000
        max_steps = 12 if quick else 16
        lines = []
        for p in range(n_prog):
            be, q = BACKENDS[p % 4] if p % 10 != 9 else F128
            n = 16 if (p // 4) % 3 else 64
            g = Gen(rng.fork(), be, q, n)
            ops = g.program(g.r.range(4, max_steps))
            line = g.header() + " vals=1" + (" mag=" + str(g.r.choice([1.0, 1.0, 0.5, 4.0, 30.0]))) + " ops=" + ";".join(ops)
            lines.append(line)
        for off in range(0, len(lines), 500):
            judge(lines[off:off + 500], "gen")
        ctx.cov["programs"] = len(lines)
        per_be = {}
        for l in lines:
            b = l.split()[0][3:]
            per_be[b] = per_be.get(b, 0) + 1
        ctx.cov["programs_per_backend"] = per_be
        # ---- encode → decode identity
        rt = []
        r2 = rng.fork()
        for k in range(60 if quick else 2000):
            q = r2.choice([52, 17, 19])
            d = r2.range(4, 53)
            b = r2.range(0, 12)
            cap = 2.0 ** (b - 1) * 0.69          # 0.69 ≈ 0.98/√2: slot bound → coefficient bound; a plaintext of log_budget b holds |coefficient| < 2^(b-1)
            mag = r2.choice([m_ for m_ in [1.0, 0.5, 2.0 ** max(0, b - 2), cap] if m_ <= cap] or [cap])
            fl = "f128" if k % 4 == 3 else "f64"
            if fl == "f128":
                d = r2.range(4, 113)
            rt.append((q, d, b, mag, f"{k} roundtrip n={r2.choice([16, 64])} base2k={q} delta={d} budget={b} mag={mag} seed={k} float={fl}"))
        rc, rout, _ = ctx.run_lines(binp, ["ckks"], [x[-1] for x in rt])
        worst_enc, worst_full, rt_bad = -1074.0, -99.0, 0
        for (q, d, b, mag, req), l in zip(rt, rout):
            t = l.split()
            ctx.count_case(("roundtrip", q, d // 8, b // 4, mag >= 2), nontrivial=True)
            if len(t) >= 4 and t[1] == "ok":
                e0 = float(t[2].split("=")[1])
                e1 = float(t[3].split("=")[1])
                import math
                lm = math.log2(max(mag, 1.0))
                worst_enc = max(worst_enc, e0 - lm)
                worst_full = max(worst_full, min(e1 + d, e1 - lm + 50))
                # encoder alone: element precision (f64: 2^-52 relative, n/2 ≤ 32 terms); quantised: 2^-delta * sqrt(n)
                # f64 element precision: 2^-52 relative, a few bits for the FFT of n/2 ≤ 32 points;
                # through the ZNX form additionally the quantisation step 2^-delta
                if e0 - lm > -44 or e1 > max(-d + 6.0, lm - 44.0):
                    rt_bad += 1
                    unknown.append((req, 0, f"encode→decode identity off: encoder 2^{e0}, through ZNX 2^{e1} at log_delta={d}"))
            else:
                rt_bad += 1
                unknown.append((req, 0, "roundtrip did not return ok: " + l))
        ctx.cov["roundtrip"] = {"cases": len(rt), "worst_encoder_log2_rel": worst_enc, "worst_quantised_log2_times_delta": worst_full, "bad": rt_bad}

        # ---- float → integer conversion of to_znx / to_znx_at_k (Model/CkksConv.lean, Props/C16 §11)
        tz = toznx_cases(rng.fork(), 400 if quick else 20000)
        tstat = {"cases": len(tz), "ok": 0, "err": 0, "panic": 0, "mismatch": 0, "f128_saturated_or_nan": 0,
                 "in_range_checked": 0, "in_range_beyond_int_path": 0, "in_range_bad_below_128": 0}
        ids = [f"{k} ckks {c['line']}" for k, c in enumerate(tz)]
        _, mo, _ = ctx.run_lines(drv, [], ids)
        _, io, _ = ctx.run_lines(binp, ["ckks"], ids)
        mo = {int(l.split()[0]): " ".join(l.split()[1:]) for l in mo if l.split()}
        io = {int(l.split()[0]): " ".join(l.split()[1:]) for l in io if l.split()}
        for k, c in enumerate(tz):
            m, i = mo.get(k, "?"), io.get(k, "?")
            kind = i.split()[0].split(":")[0]
            tstat[kind] = tstat.get(kind, 0) + 1
            ctx.count_case(("toznx", c["float"], c["form"], c["base2k"], c["path"], tuple(sorted(set(c["classes"]))), kind), nontrivial=True)
            if m != i:
                tstat["mismatch"] += 1
                ctx.disagreements += 1
                if tstat["mismatch"] == 1:
                    ctx.violation("to_znx conversion: model and implementation differ", {"line": c["line"], "model": m[:300], "implementation": i[:300],
                                  "rerun": f"echo '0 ckks {c['line']}' | harness/target/ovf/pvh ckks"}, True)
                continue
            want = toznx_expect(c)
            if want != kind:
                unknown.append((c["line"], 0, f"to_znx: documented outcome {want}, observed {i[:80]}"))
                continue
            if c["float"] == "f128" and kind == "ok" and any(not cv for cv in c["convertible"]):
                tstat["f128_saturated_or_nan"] += 1
            # value oracle on the inputs inside the magnitude limit the metadata declare
            if c["passes_heads"] and all(c["in_range"]):
                tstat["in_range_checked"] += 1
                good = kind == "ok" and toznx_digits_ok(c, i)
                if not good:
                    if c["effk"] >= 128:
                        tstat["in_range_beyond_int_path"] += 1
                        findings.setdefault("to_znx:value-beyond-int-path", (c["line"], 0,
                            f"{c['float']} {c['form']}: a value inside the magnitude limit of the declared metadata (|x| < 2^(log_budget-1), "
                            f"log_delta+log_budget = {c['effk']} >= 128) but with |x*2^log_delta| >= 2^127 - 2^(base2k-1) "
                            + ("panics (`to_i128().unwrap()` on None)" if kind == "panic" else "is stored as a different value (saturating cast / i128 carry wrap)")
                            + f": {i[:120]}"))
                    else:
                        tstat["in_range_bad_below_128"] += 1
                        unknown.append((c["line"], 0, f"to_znx: in-range value not encoded exactly: {i[:120]}"))
        ctx.cov["toznx"] = tstat

        # ---- data tie: limbs after every call of the linear fragment (Model/CkksData.lean, Props/C16 §8)
        dl = (data_scenarios() + data_programs(rng.fork(), 60 if quick else 4000, 10 if quick else 14)
              + data_programs(rng.fork(), 40 if quick else 1500, 8 if quick else 10, with_mul=True))
        dstat = {"programs": len(dl), "calls": 0, "ok": 0, "err": 0, "limbs_compared": 0, "mismatch": 0}
        dcells = {}
        for off in range(0, len(dl), 500):
            chunk = dl[off:off + 500]
            for line, (m, i) in zip(chunk, run_data(ctx, binp, drv, chunk)):
                kv, keys, pool, ops = parse_header(line)
                k = first_diff(m, i)
                prev = [f"{d_}.{b_}.{s0}" for (s0, d_, b_) in pool]
                for s_, (op, got) in enumerate(zip(ops, i)):
                    dstat["calls"] += 1
                    dstat["ok"] += int(got.startswith("ok"))
                    dstat["err"] += int(got.startswith("err"))
                    dstat["limbs_compared"] += got.count(".") + 1 if "#" in got else 0
                    cell = data_cell(int(kv["base2k"]), prev, op, got)
                    dcells[cell] = dcells.get(cell, 0) + 1
                    ctx.count_case(("data", kv["be"], kv["n"], kv["base2k"]) + cell, nontrivial=True)
                    if "@" in got:
                        prev = got.split("@")[1].split("#")[0].split("/")
                if k is not None:
                    dstat["mismatch"] += 1
                    ctx.disagreements += 1
                    disagree_data.append((line, k, m[k] if k < len(m) else "-", i[k] if k < len(i) else "-"))
        dstat["cells"] = {f"{a}:{b}:{c}:off>0={int(d)}:longer={int(e_)}": v for (a, b, c, d, e_), v in sorted(dcells.items())}
        ctx.cov["data_tie"] = dstat

    # ---- reporting
    ctx.cov["cells_op_offset_budgetrel"] = {f"{n}|off>0={int(o)}|{r}": v for (n, o, r), v in sorted(cells.items())}
    empty = [f"{n}|off>0={int(o)}|{r}" for (n, o, r) in required_cells() if cells.get((n, o, r), 0) == 0]
    ctx.cov["empty_cells"] = empty
    if empty and binp is not None and drv is not None:
        broken.append("scenario grid left cells without an Ok call: " + ", ".join(empty[:12]))
    ctx.cov["outcome_histogram"] = {f"{k[0]}:{k[1]}": v for k, v in sorted(hist.items())}
    ctx.cov["values"] = vstats
    ctx.cov["finding_keys_seen"] = sorted(findings)
    for key, (line, s, what) in sorted(findings.items()):
        if binp is not None and drv is not None and ctx.match_known(key) is None and not key.startswith("to_znx:"):
            # not (yet) recorded: minimise and keep the program as a regression case
            line = shrink(ctx, binp, drv, line, lambda l, m, i: any(k2 == key for (_, k2, _) in oracle(l, i)))
            store_corpus(key.replace("/", "_").replace(":", "-").replace("*", "x"), line, what)
        ctx.violation(what, {"program": line, "step": s, "key": key, "rerun": f"echo '0 ckks {line}' | harness/target/ovf/pvh ckks"}, True, key=key)
    if disagree:
        line, k, mv, iv = disagree[0]
        line = shrink(ctx, binp, drv, line, lambda l, m, i: first_diff(m, i) is not None)
        store_corpus("disagree-" + str(abs(hash(line)) % 10 ** 8), line, f"model {mv} vs implementation {iv}")
        res = run_both(ctx, binp, drv, [line])[0]
        orc = oracle(line, res[1])
        ctx.violation("model and implementation disagree", {"program": line, "model": res[0], "implementation": res[1],
                      "oracle": [w for (_, _, w) in orc], "n_disagreeing_programs": len(disagree)}, bool(orc))
    if disagree_data:
        line, k, mv, iv = disagree_data[0]
        ctx.violation("data path: model and implementation limbs differ", {"program": line, "step": k, "model": mv[:400], "implementation": iv[:400],
                      "n_disagreeing_programs": len(disagree_data),
                      "rerun": f"echo '0 ckks {line}' | harness/target/ovf/pvh ckks"}, False)
    if unknown:
        line, s, what = unknown[0]
        if not line.split()[0].isdigit() and binp is not None and drv is not None:
            w0 = what.split(":")[0]
            line = shrink(ctx, binp, drv, line, lambda l, m, i: any(k2 is None for (_, k2, _) in oracle(l, i))) if "decrypted" not in what else line
        ctx.violation(what, {"program": line, "step": s, "all": [w for (_, _, w) in unknown[:10]]}, True)
    if broken:
        ctx.violation("C16 obligation or build no longer checks", {"broken": broken[:20]}, False)
    return ctx.finish(rule="a case = one API call of a generated program (compared on outcome, error fields and the metadata/limbs of all "
                           "pool slots); distinct = (back end, N, operation, outcome kind, destination full?, destination compact?, destination limbs); "
                           "non-trivial = every call (each runs real homomorphic code); roundtrip cases = (radix, delta/8, budget/4, large?)")
