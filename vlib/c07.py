"""C07 — DFT-domain products equal exact negacyclic (bivariate) convolution.
Proof gate: Props/C07.lean (shape / selection / truncation algebra and bilinearity of the exact
spec).  Tie: `hal` programs on all four back ends, bit for bit against the Lean model, with value
classes at the magnitude limit of the FFT64 domain."""
from . import halgen, halrun

FAMILIES = ["dft_roundtrip", "dft_select", "dft_arith", "svp", "svp_dft", "vmp", "vmp_offset", "vmp_small", "cnv", "cnv_pair", "cnv_const"]


def run(ctx):
    quick = ctx.tier == "quick"
    ok, failures = ctx.proof_gate(["Poulpy.Props.C07"])
    broken = list(failures)
    binp = ctx.build_harness()
    drv = ctx.driver()
    if binp is None or drv is None:
        broken.append("harness or model driver does not build: " + (getattr(ctx, "build_error", "") or getattr(ctx, "driver_error", ""))[-400:])
    else:
        n_cases = 2500 if quick else 60000
        rng = ctx.rng
        cases = [halgen.program(rng, family=rng.choice(FAMILIES)) for _ in range(n_cases)]
        # every ring degree up to 2^16 on every back end (round trips only: linear time)
        big = [halgen.program(rng, family="dft_bign") for _ in range(120 if quick else 600)]
        cases += [c for c in big if c[1]["n"] <= 8192]
        # beyond 2^13 the list-based driver is slow (quadratic): the implementation is compared with the independent exact
        # oracle of the property statement instead (a forward/inverse round trip returns its input)
        huge = [c for c in big if c[1]["n"] > 8192]
        if huge:
            from . import haloracle
            rc_h, iout_h, _ = ctx.run_lines(binp, ["hal"], [f"{k} {c[0]}" for k, c in enumerate(huge)], timeout=600)
            for k, (line, meta) in enumerate(huge):
                a = halrun.ans_of(iout_h, k)
                want = haloracle.run(line)
                ctx.count_case(("dft_bign", meta["be"], meta["n"], meta["class"]))
                if halgen.compare(a, want):
                    ctx.oracle_failures += 1
                    ctx.violation("forward/inverse transform round trip differs from its input at a large ring degree",
                                  {"request": line[:300] + " …", "n": meta["n"], "backend": meta["be"], "implementation": a[:300], "expected": want[:300],
                                   "replay": "printf '1 <request>\\n' | harness/target/release/pvh hal"}, True)
                    break
        for off in range(0, len(cases), 5000):
            bad = halrun.run_cases(ctx, binp, drv, cases[off:off + 5000])
            for (k, d, a, b) in bad[:5]:
                ctx.disagreements += 1
                line, meta = cases[off + k]
                found, w = halrun.classify(ctx, binp, line, a, b)
                w["difference"] = d
                w["meta"] = meta
                if found:
                    ctx.oracle_failures += 1
                ctx.violation("DFT-domain result differs from the exact product", w, found)
            if bad:
                broken.append(f"{len(bad)} model/implementation disagreements")
                break
    if broken and not ctx.violations:
        ctx.violation("C07 obligation or correspondence no longer checks", {"broken": broken[:20]}, False)
    ctx.assumptions += ["FFT64 rounding error < 1/2 inside the documented magnitude domain and the NTT120 butterflies/CRT are tied by correspondence only (not proved)"]
    return ctx.finish(rule="random hal programs over families " + ",".join(FAMILIES) + "; 4 back ends; n in {8,16,32,64}; sizes/rows/cols 1..6 incl. mismatched; "
                           "value classes random/max/min/alternating/sparse/zero at digit widths up to the FFT64 magnitude limit; distinct = (family, back end, n, class, op, limb_offset, cnv_offset, step); "
                           "non-trivial = implementation answer ok and contains a non-zero value")


# ---------------------------------------------------------------------------------------------
# NTT120 integer arithmetic (slice extension, appended): the same `run`, with the `ntt120`
# correspondence gate (vlib/ntt120gen.py) executed before the evidence is written.
_run_hal_programs = run


def run(ctx):
    from . import ntt120gen
    finish = ctx.finish

    def finish_with_ntt120(level="proof", rule="", extra=None):
        binp = ctx.build_harness()
        drv = ctx.driver()
        if binp is not None and drv is not None:
            broken = ntt120gen.gate(ctx, binp, drv)
            if broken and not ctx.violations:
                ctx.violation("C07 NTT120 correspondence no longer checks", {"broken": broken[:20]}, False)
        ctx.cov["hal_generator_domain_checks"] = {"fft64": domain["fft64"], "ntt120": domain["ntt120"], "outside": len(domain["outside"])}
        if domain["outside"]:
            ctx.violation("hal generator picked a digit width outside the documented magnitude domain", {"cases": domain["outside"][:10]}, False)
        ctx.assumptions[:] = [a for a in ctx.assumptions if not a.startswith("FFT64 rounding error")] + [
            "FFT64: rounding error < 1/2 inside the documented magnitude domain is tied by correspondence only (IEEE-754 code, not proved)",
            "NTT120: the lane compositions of Model/Ntt120Hal.lean (transforms, prepare, bbc products, lazy add/sub/negate, idft + CRT; "
            "cnv / vmp / dft_apply / arbitrary compositions) are proved equal to the exact-integer HAL specification; that the Rust HAL "
            "functions of NTT120Ref and NTT120Avx store exactly these lanes (x2-block / column index maps, loop structure) is tied by the "
            "raw-word correspondence (pvh hal … ; raw D), not proved",
            "NTT120Avx: every lane kernel is proved equal to the reference lane on every operand that can occur (C10 lane models + the range "
            "lemmas of C07); the BitVec models of the intrinsic sequences themselves and the SAT-backed lemmas they rest on belong to C10",
        ]
        return finish(level=level, rule=(rule + " || " + ntt120gen.RULE) if rule else ntt120gen.RULE, extra=extra)

    ctx.finish = finish_with_ntt120
    # the magnitude domain of the hal generator, checked rather than informal: every digit width picked by
    # halgen.pick_bits is re-checked against the predicate of C07.generator_in_fft64_domain (FFT64: 4·n·rows·2^(2(bits-1)) ≤ 2^50)
    # resp. the NTT120 exactness bound of C07.ntt120_crt_exact ((Q-1)/2)
    domain = {"fft64": 0, "ntt120": 0, "outside": []}
    pick = halgen.pick_bits

    def checked_pick_bits(rng, n, rows_flat, be):
        bits = pick(rng, n, rows_flat, be)
        mag = 4 * n * rows_flat * (1 << (bits - 1)) ** 2
        fam = "fft64" if be.startswith("fft64") else "ntt120"
        lim = (1 << 50) if fam == "fft64" else (ntt120gen.bigq(30) - 1) // 2
        domain[fam] += 1
        if mag > lim:
            domain["outside"].append({"be": be, "n": n, "rows": rows_flat, "bits": bits})
        return bits

    halgen.pick_bits = checked_pick_bits
    try:
        rc = _run_hal_programs(ctx)
    finally:
        halgen.pick_bits = pick
    return rc


# ---------------------------------------------------------------------------------------------
# FFT64 floating-point half (slice extension, appended): the same `run`, with the `fft64` correspondence
# gate (vlib/fft64gen.py: exact binary64 model vs the reference f64 code, bit for bit; numerical twiddle check;
# model-only worst-case search) executed before the evidence is written.
_run_with_ntt120 = run


def run(ctx):
    from . import fft64gen
    finish = ctx.finish

    def finish_with_fft64(level="proof", rule="", extra=None):
        binp = ctx.build_harness()
        drv = ctx.driver()
        if binp is not None and drv is not None:
            broken = fft64gen.gate(ctx, binp, drv)
            if broken and not ctx.violations:
                ctx.violation("C07 FFT64 correspondence no longer checks", {"broken": broken[:20]}, False)
        ctx.assumptions[:] = [a for a in ctx.assumptions if not a.startswith("FFT64")] + [
            "FFT64: the theorems are about the exact binary64 model (Model/F64.lean, Model/Fft64.lean); that the hardware/compiler implement "
            "IEEE-754 round-to-nearest-even for f64 + - * and the i64<->f64 conversions, and that rustc does not contract a*b+c, is tied bit for bit "
            "(never proved)",
            "FFT64: the twiddle tables are computed by libm sin/cos (not modelled); the hypothesis `Fft64.TableAccurate (2^-51)` of `fft64_pipeline_exact_numeric` is "
            "checked numerically on every dumped table (exact fixed-point interval arithmetic), not proved",
            "FFT64: the AVX2/FMA kernels of FFT64Avx are a different evaluation order (fused multiply-add) and are not covered by the model; they are "
            "compared with FFT64Ref through the exact-integer `hal` tie only",
        ]
        ctx.trusted += ["IEEE-754 binary64 RNE semantics of f64 + - * / as-casts on the host (x86-64 SSE2; no FMA contraction in the reference code)",
                        "libm sin/cos only through the dumped twiddle tables, which are checked numerically against the roots of unity on every run"]
        return finish(level=level, rule=(rule + " || " + fft64gen.RULE) if rule else fft64gen.RULE, extra=extra)

    ctx.finish = finish_with_fft64
    return _run_with_ntt120(ctx)
