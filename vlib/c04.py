"""C04 — external products and CMux multiply by the GGSW plaintext within noise.

Gate 1 (proof): lake build Poulpy.Props.C04 + audit.
Gate 2 (correspondence): `pvh ep` generates secret / GGSW / inputs with the real code (NTT120Ref),
        runs the operation on the four back ends from the same raw containers; the Lean model
        (`pdriver ep`, Model/Core/Ep.lean) must reproduce every output ciphertext bit for bit
        (FFT64 back ends inside their magnitude domain, NTT120 always; FFT64 = NTT120 on the
        intersection).
Gate 3 (property oracle, Python big integers, shares nothing with the model): exact phase of
        every GGSW cell (its error e), of the inputs and of every output; the output phase must
        equal m2 * phase(input) (CMux: phase(t) for bit 1, phase(f) for bit 0) within the explicit
        worst-case bound built from max|e|, the digit size, the dropped limbs and the output ulp.
Gate 5 (row expansion, `pvh expand` / `pdriver expand`): ggsw_from_gglwe modelled and tied bit for bit on the four
        back ends; for ggsw_from_gglwe, ggsw_keyswitch and ggsw_automorphism (ranks 1, 2 and 3) the oracle first checks
        every cell of the GGLWE->GGSW key against s_i*s_j (error within the sampler's bound) and then EVERY cell
        (row, col) of the resulting GGSW against m2*s_col*2^(-(row+1)*dsize*b) within the explicit bound.
Gate 4 (scratch independence): the same call with a dirty scratch arena must give the same bits, and
        CMux cases with dsize >= 3 are also run with exactly representable stale content left in the slot
        that res_dft will occupy (this is how the defect repaired by poulpy d3c2e96 was found).
"""
import math

from . import common

BE_NAMES = ["FFT64Ref", "NTT120Ref", "FFT64Avx", "NTT120Avx"]
BIG128 = [0, 1, 0, 1]


# ------------------------------------------------------------------ exact arithmetic (oracle)
def negmul(a, b):
    n = len(b)
    out = [0] * n
    for i, x in enumerate(a):
        if x == 0:
            continue
        for j, y in enumerate(b):
            k = i + j
            if k >= n:
                out[k - n] -= x * y
            else:
                out[k] += x * y
    return out


def centered(x, m):
    x %= m
    return x - m if x >= m // 2 else x


def parse_vec(s, n):
    hd, body = s.split(":")
    cols, size = (int(x) for x in hd.split("x"))
    v = [int(x) for x in body.split(",")] if body not in ("", "-") else []
    assert len(v) == cols * size * n, (len(v), cols, size, n)
    return [[v[(c * size + j) * n:(c * size + j + 1) * n] for j in range(size)] for c in range(cols)]


def phase(ct, sk, b):
    """exact phase of a GLWE (list of columns of limbs) at scale 2^(b*size), not reduced"""
    size = len(ct[0])
    n = len(ct[0][0])
    out = [0] * n
    for j in range(size):
        w = 1 << (b * (size - 1 - j))
        for t in range(n):
            out[t] += ct[0][j][t] * w
        for i, s in enumerate(sk):
            p = negmul(s, ct[i + 1][j])
            for t in range(n):
                out[t] += p[t] * w
    return out, b * size


def l1(p):
    return sum(abs(x) for x in p)


# ------------------------------------------------------------------ generator
def ceil_div(a, b):
    return -(-a // b)


def gen_case(rng, idx, quick):
    """one request: dict of parameters"""
    n = rng.choice([8, 8, 16, 16, 32] if quick else [8, 16, 32, 32])
    rank = rng.choice([1, 1, 2, 3])
    dsize = rng.choice([1, 1, 2, 2, 3, 4])
    ops = ["glwe", "glwe", "glwe", "glwe_assign", "cmux", "cmux", "cmux_assign", "cmux_assign_neg", "ggsw", "ggsw_assign",
           "cswap", "cswap", "gglwe", "gglwe_assign"]
    op = ops[idx % len(ops)] if idx < 3 * len(ops) else rng.choice(ops)
    ntt_only = rng.chance(1, 6)
    bg = rng.range(18, 40) if ntt_only else rng.range(6, 17)
    # GGSW size: > dsize, enough for the noise to stay meaningful
    size_g = dsize + rng.range(1, 3) + (1 if bg < 10 else 0)
    kg = bg * size_g - rng.below(bg)
    if ceil_div(kg, bg) <= dsize:
        kg = bg * (dsize + 1)
    size_g = ceil_div(kg, bg)
    dnum_max = size_g // dsize
    dnum = rng.range(1, dnum_max)
    cmux = op.startswith("cmux") or op == "cswap"
    # radices: input / output mismatches (CMux asserts all three equal)
    if cmux:
        bi = bo = bg
    else:
        bi = bg if rng.chance(1, 2) else max(3, bg + rng.range(-3, 3))
        bo = bg if rng.chance(1, 2) else max(3, bg + rng.range(-3, 3))
        if op in ("glwe_assign", "ggsw_assign", "gglwe_assign"):
            bo = bi
        if op in ("ggsw", "gglwe"):
            bo = bi
    # precisions: GLWE below / equal / above GGSW precision, result shorter / longer
    cls = rng.below(4)
    if cls == 0:
        ki = max(2, kg - rng.range(1, 2 * bg))
    elif cls == 1:
        ki = kg + rng.range(1, bg + 3)
    elif cls == 2:
        ki = bg * dnum * dsize            # exactly the gadget depth
    else:
        ki = rng.range(2, kg + bg)
    rcls = rng.below(4)
    if rcls == 0:
        ko = max(2, bo * (ceil_div(kg, bo) - 1) - rng.below(bo))   # fewer limbs than the GGSW
    elif rcls == 1:
        ko = kg + rng.range(1, 2 * bo)                              # more
    elif rcls == 2:
        ko = ki
    else:
        ko = rng.range(2, kg + bg)
    ko = max(ko, 2)
    m2s = ["zero", "one", "mone", f"mono:{rng.below(n)}", f"dense:{rng.below(1 << 30)}"]
    m2 = rng.choice(["zero", "one"]) if cmux else rng.choice(m2s)
    m1 = rng.choice(["rand", "rand", "ext", "raw"])
    c = dict(op=op, n=n, rank=rank, dsize=dsize, dnum=dnum, bg=bg, kg=kg, bi=bi, ki=ki, bo=bo, ko=ko, m2=m2, m1=m1,
             seed=rng.below(1 << 40) + 1)
    if cmux:
        c["kf"] = max(2, ki + rng.range(-bg - 1, bg + 1))
        if op != "cmux":
            c["ko"] = c["ki"]
        if op == "cswap" and rng.chance(1, 8):
            # the cross-radix branch of Cswap: glwe_sub asserts equal radices (model: panic)
            c["bi"] = c["bo"] = bg + rng.choice([-1, 1])
        if dsize >= 3 and op != "cmux_assign_neg" and rng.chance(1, 2):
            # regression of the defect repaired by poulpy d3c2e96 (res_dft is not zeroed by the CMux forms): leave
            # exactly representable stale limbs in the scratch slot it will occupy; they must not influence the result
            c["stale"] = rng.choice([6, 12, 20, 40, 44])
    if op in ("ggsw", "ggsw_assign", "gglwe", "gglwe_assign"):
        if op.startswith("gglwe"):
            c["rin"] = rng.range(1, 2)
        size_a = ceil_div(ki, bi)
        if size_a < 2:
            c["ki"] = ki = 2 * bi
            size_a = 2
        c["dnuma"] = rng.range(1, size_a - 1) if size_a > 1 else 1
        c["m1"] = "rand"
        if op in ("ggsw", "gglwe"):
            # result GGSW (dsize 1): dnum rows need size > 1 and dnum <= size
            size_o = ceil_div(c["ko"], bo)
            if size_o < 2:
                c["ko"] = 2 * bo
                size_o = 2
            c["dnumr"] = rng.range(1, min(size_o, c["dnuma"] + (1 if op == "ggsw" or rng.chance(1, 6) else 0)))
        else:
            c["ko"] = c["ki"]
    return c


def req_line(c, dirty=0):
    d = dict(c)
    if "dnumr" in d:
        # the harness allocates the result GGSW with `dnum` rows of its own: passed as dnumr
        pass
    toks = [f"{k}={v}" for k, v in d.items()]
    if dirty:
        toks.append(f"dirty={dirty}")
    return " ".join(toks)


def fft_in_domain(c):
    rows = c["dnum"] * (c["rank"] + 1)
    return c["n"] * rows * c["dsize"] * (1 << (2 * c["bg"])) <= (1 << 50) and c["bg"] <= 17


def parse_answer(ans):
    t = ans.split(" ")
    if t[0] != "ok":
        return None
    return dict(x.split("=", 1) for x in t[1:])


def model_line(c, a, big):
    n = c["n"]
    size_g = ceil_div(c["kg"], c["bg"])
    op = c["op"]
    base = f"ep big={big} n={n} gp={c['bg']},{c['rank']},{c['dsize']},{c['dnum']},{size_g} g={a['g']}"
    if "r0" in a:
        base += f" r0={a['r0']}"
    if op == "glwe":
        return base + f" op=glwe bo={c['bo']} so={ceil_div(c['ko'], c['bo'])} bi={c['bi']} a={a['a']}"
    if op == "glwe_assign":
        return base + f" op=glwe bo={c['bi']} so={ceil_div(c['ki'], c['bi'])} bi={c['bi']} a={a['a']}"
    if op == "cmux":
        return base + f" op=cmux bo={c['bo']} so={ceil_div(c['ko'], c['bo'])} bi={c['bi']} a={a['a']} f={a['f']}"
    if op in ("cmux_assign", "cmux_assign_neg"):
        return base + f" op={op} bo={c['bi']} so={ceil_div(c['ki'], c['bi'])} bi={c['bi']} a={a['a']} f={a['f']}"
    if op == "cswap":
        return base + f" op=cswap bo={c['bi']} so=0 bi={c['bi']} a={a['a']} f={a['f']}"
    if op == "gglwe":
        return base + (f" op=mat gglwe=1 bo={c['bo']} so={ceil_div(c['ko'], c['bo'])} bi={c['bi']} rows={c['dnumr']},{c['dnuma']},{c['rin']}"
                       f" am={a['am']}")
    if op == "gglwe_assign":
        return base + (f" op=mat gglwe=1 bo={c['bi']} so={ceil_div(c['ki'], c['bi'])} bi={c['bi']} rows={c['dnuma']},{c['dnuma']},{c['rin']}"
                       f" am={a['am']}")
    if op == "ggsw":
        return base + (f" op=mat bo={c['bo']} so={ceil_div(c['ko'], c['bo'])} bi={c['bi']} rows={c['dnumr']},{c['dnuma']},{c['rank'] + 1}"
                       f" am={a['am']}")
    if op == "ggsw_assign":
        return base + (f" op=mat bo={c['bi']} so={ceil_div(c['ki'], c['bi'])} bi={c['bi']} rows={c['dnuma']},{c['dnuma']},{c['rank'] + 1}"
                       f" am={a['am']}")
    raise ValueError(op)


# ------------------------------------------------------------------ property oracle
def ggsw_errors(c, a, sk):
    """max |e| over all cells (scale 2^(bg*S)) and its scale; also checks nothing else"""
    n, rank, bg = c["n"], c["rank"], c["bg"]
    S = ceil_div(c["kg"], bg)
    cols = rank + 1
    g = [int(x) for x in a["g"].split(",")]
    m2 = [int(x) for x in a["m2"].split(",")]
    cell_len = cols * S * n
    emax = 0
    for row in range(c["dnum"]):
        for ci in range(cols):
            q = row * cols + ci
            v = g[q * cell_len:(q + 1) * cell_len]
            ct = [[v[(co * S + j) * n:(co * S + j + 1) * n] for j in range(S)] for co in range(cols)]
            ph, bits = phase(ct, sk, bg)
            sigma = [1] + [0] * (n - 1) if ci == 0 else sk[ci - 1]
            want = negmul(m2, sigma)
            sh = bg * S - bg * (row + 1) * c["dsize"]
            for t in range(n):
                e = centered(ph[t] - (want[t] << sh if sh >= 0 else 0), 1 << bits)
                emax = max(emax, abs(e))
    return emax, bg * S


def torus_diff(p_out, bits_out, p_ref, bits_ref):
    """max |p_out/2^bits_out − p_ref/2^bits_ref| mod 1, as a (numerator, log2 denominator)"""
    B = max(bits_out, bits_ref)
    worst = 0
    for x, y in zip(p_out, p_ref):
        d = centered((x << (B - bits_out)) - (y << (B - bits_ref)), 1 << B)
        worst = max(worst, abs(d))
    return worst, B


def bound_ep(c, sk, m2, emax, ebits, in_bits_limb, digit_factor, b_in, size_in, b_out, size_out):
    """worst-case |phase(out) − m2·phase(in)| on the torus, as a float (see docs/C04.md)"""
    n, rank, bg, dsize, dnum = c["n"], c["rank"], c["bg"], c["dsize"], c["dnum"]
    S = ceil_div(c["kg"], bg)
    cols = rank + 1
    sn = 1 + sum(l1(s) for s in sk)
    size_conv = size_in if b_in == bg else ceil_div(size_in * b_in, bg)
    rows_used = min(dnum, ceil_div(size_conv, dsize))
    noise = rows_used * cols * n * digit_factor * 2.0 ** (bg * dsize - 1) * 1.01 * emax / 2.0 ** ebits
    ignored = rows_used * cols * n * digit_factor * 2.0 ** (-bg * (S - dsize + 1)) if dsize > 2 else 0.0
    trunc = l1(m2) * sn * digit_factor * 2.0 ** (-bg * dnum * dsize - 1) * 1.01 if size_conv > dnum * dsize else 0.0
    rnd = sn * 2.0 ** (-b_out * size_out - 1) * 1.01 if bg * S > b_out * size_out or True else 0.0
    return noise + ignored + trunc + rnd


def oracle_case(c, a, res_str):
    """-> (ok, detail dict).  `res_str`: one back end's output."""
    n, rank = c["n"], c["rank"]
    skv = [int(x) for x in a["sk"].split(",")]
    sk = [skv[i * n:(i + 1) * n] for i in range(rank)]
    m2 = [int(x) for x in a["m2"].split(",")]
    emax, ebits = ggsw_errors(c, a, sk)
    op = c["op"]
    sn = 1 + sum(l1(s) for s in sk)
    det = {"ggsw_emax_log2": round(math.log2(emax + 1) - ebits, 2)}
    # the sampler's contract |e| <= 6 sigma 2^-k: a larger value means a cell does not encrypt m2·σ_c at its gadget position
    if emax / 2.0 ** ebits > 20.0 * 2.0 ** (-c["kg"]):
        det["why"] = "a GGSW cell produced by ggsw_encrypt_sk does not encrypt m2*s_col at its gadget position"
        return False, det
    checks = []
    if op in ("glwe", "glwe_assign"):
        ain = parse_vec(a["a"], n)
        out = parse_vec(res_str, n)
        b_out = c["bo"] if op == "glwe" else c["bi"]
        p_in, bits_in = phase(ain, sk, c["bi"])
        p_out, bits_out = phase(out, sk, b_out)
        ref = negmul(m2, p_in)
        bnd = bound_ep(c, sk, m2, emax, ebits, c["bi"], 1.0, c["bi"], len(ain[0]), b_out, len(out[0]))
        checks.append((p_out, bits_out, ref, bits_in, bnd))
    elif op == "cswap":
        x = parse_vec(a["a"], n)      # res_a
        y = parse_vec(a["f"], n)      # res_b
        oa, ob = (parse_vec(t, n) for t in res_str.split(";"))
        b = c["bg"]
        bit = m2[0]
        wsize = max(len(x[0]), len(y[0]))
        for out, src in ((oa, y if bit == 1 else x), (ob, x if bit == 1 else y)):
            p_src, bits_src = phase(src, sk, b)
            p_out, bits_out = phase(out, sk, b)
            bnd = bound_ep(c, sk, [1], emax, ebits, b, 2.0, b, wsize, b, len(out[0]))
            bnd += 2 * sn * 2.0 ** (-b * min(len(x[0]), len(y[0]), len(out[0]))) * 1.01
            checks.append((p_out, bits_out, p_src, bits_src, bnd))
    elif op.startswith("cmux"):
        x = parse_vec(a["a"], n)      # t (cmux) / res (assign forms)
        y = parse_vec(a["f"], n)      # f (cmux) / a (assign forms)
        out = parse_vec(res_str, n)
        b = c["bg"]
        bit = m2[0]
        if op == "cmux":
            sel, other = (x, y) if bit == 1 else (y, x)
        elif op == "cmux_assign":      # res = (res − a)·s + a
            sel, other = (x, y) if bit == 1 else (y, x)
        else:                          # res = (a − res)·s + res
            sel, other = (y, x) if bit == 1 else (x, y)
        p_sel, bits_sel = phase(sel, sk, b)
        p_out, bits_out = phase(out, sk, b)
        size_out = len(out[0])
        # difference digits are not normalised (|limb| < 2^b): digit factor 2; operands truncated to the
        # working size: one ulp of that size per operand
        wsize = size_out if op != "cmux_assign_neg" else max(len(x[0]), len(y[0]))
        bnd = bound_ep(c, sk, [1], emax, ebits, b, 2.0, b, wsize, b, size_out)
        bnd += 2 * sn * 2.0 ** (-b * min(wsize, size_out)) * 1.01
        # with bit = 0 the product term is pure noise, with bit = 1 it carries (t − f) exactly: same bound
        checks.append((p_out, bits_out, p_sel, bits_sel, bnd))
    else:
        cells_in = [parse_vec(s, n) for s in a["am"].split(";")]
        cells_out = [parse_vec(s, n) for s in res_str.split(";")]
        b_out = c["bo"] if op in ("ggsw", "gglwe") else c["bi"]
        rows_a = c["dnuma"]
        cols = c["rin"] if op.startswith("gglwe") else rank + 1
        for q, out in enumerate(cells_out):
            row = q // cols
            if row >= rows_a:
                if any(v != 0 for col in out for limb in col for v in limb):
                    return False, {"why": "row beyond the operand's rows is not zero", "cell": q}
                continue
            ain = cells_in[q]
            p_in, bits_in = phase(ain, sk, c["bi"])
            p_out, bits_out = phase(out, sk, b_out)
            ref = negmul(m2, p_in)
            bnd = bound_ep(c, sk, m2, emax, ebits, c["bi"], 1.0, c["bi"], len(ain[0]), b_out, len(out[0]))
            checks.append((p_out, bits_out, ref, bits_in, bnd))
    worst_ratio = 0.0
    loose = False
    for p_out, bits_out, ref, bits_ref, bnd in checks:
        d, B = torus_diff(p_out, bits_out, ref, bits_ref)
        dv = d / 2.0 ** B
        det["bound_log2"] = round(math.log2(bnd), 2)
        det["diff_log2"] = round(math.log2(dv), 2) if dv > 0 else None
        if bnd >= 0.125:
            loose = True
            continue
        worst_ratio = max(worst_ratio, dv / bnd)
        if dv > bnd:
            det["why"] = "decrypted phase differs from the plaintext product by more than the bound"
            return False, det
    det["ratio"] = round(worst_ratio, 4)
    det["loose"] = loose
    return True, det



# ------------------------------------------------------------------ row expansion (third clause)
def automorphism(p, m):
    n = len(m)
    out = [0] * n
    for i, v in enumerate(m):
        e = (i * p) % (2 * n)
        if e >= n:
            out[e - n] -= v
        else:
            out[e] += v
    return out


def gen_expand(rng, idx, quick):
    op = ["from_gglwe", "from_gglwe", "ks", "from_gglwe", "auto"][idx % 5]
    rank = [3, 1, 2, 3, 2, 1, 3][idx % 7]            # every rank, rank 3 most often
    n = rng.choice([8, 8, 16])
    ntt_only = rng.chance(1, 8)
    ba = rng.range(18, 30) if ntt_only else rng.range(8, 14)
    dsa = rng.choice([1, 1, 2])
    dnum = rng.range(1, 3)
    size_o = dnum * dsa + rng.range(1, 2)
    ko = ba * size_o - rng.below(ba // 2)
    size_a = size_o + rng.range(-1, 1) if op == "from_gglwe" else size_o
    size_a = max(size_a, dnum * dsa + (0 if op == "from_gglwe" else 1), dsa + 1)
    ka = ba * size_a - rng.below(ba // 2)
    bk = ba if (rng.chance(1, 2) or ntt_only) else max(6, ba + rng.range(-2, 2))
    dsk = rng.choice([1, 1, 2, 3])
    # the key must cover the result precision with room for the digit noise
    size_k = max(dsk + 1, ceil_div(ba * size_o, bk) + dsk + 1)
    kk = bk * size_k - rng.below(bk // 2)
    dnk_full = ceil_div(ceil_div(ba * size_o, bk), dsk)
    dnk = min(size_k // dsk, dnk_full if rng.chance(3, 4) else max(1, dnk_full - 1))
    m2s = ["one", "mone", f"mono:{rng.below(n)}", f"dense:{rng.below(1 << 30)}", "zero"]
    c = dict(op=op, n=n, rank=rank, ba=ba, ka=ka, dsa=dsa, dnum=dnum, ko=ko, bk=bk, kk=kk, dsk=dsk, dnk=dnk,
             m2=rng.choice(m2s), seed=rng.below(1 << 40) + 1)
    if op == "auto":
        c["p"] = rng.choice([-1, -5, 3, 5, 2 * n - 1, 25])
    return c


def expand_fft_ok(c):
    return c["n"] * c["dnk"] * c["rank"] * c["dsk"] * (1 << (2 * c["bk"])) <= (1 << 50) and c["bk"] <= 17 and c["ba"] <= 17


def expand_model_line(c, a, big):
    S = ceil_div(c["kk"], c["bk"])
    return (f"expand op=from_gglwe big={big} n={c['n']} bo={c['ba']} so={ceil_div(c['ko'], c['ba'])} "
            f"kp={c['bk']},{c['rank']},{c['dsk']},{c['dnk']},{S} k={a['k']} am={a['am']}")


def expand_key_error(c, a, sk):
    """max |phase(key cell) − s_i·s_j·2^(−(row+1)·dsk·bk)| over the whole GGLWE→GGSW key (torus units)"""
    n, rank, bk, dsk, dnk = c["n"], c["rank"], c["bk"], c["dsk"], c["dnk"]
    S = ceil_div(c["kk"], bk)
    cols = rank + 1
    g = [int(x) for x in a["k"].split(",")]
    cell_len = cols * S * n
    assert len(g) == rank * dnk * rank * cell_len
    emax = 0
    where = None
    for i in range(rank):
        for row in range(dnk):
            for j in range(rank):
                q = (i * dnk + row) * rank + j
                v = g[q * cell_len:(q + 1) * cell_len]
                ct = [[v[(co * S + l) * n:(co * S + l + 1) * n] for l in range(S)] for co in range(cols)]
                ph, bits = phase(ct, sk, bk)
                want = negmul(sk[i], sk[j])
                sh = bk * S - bk * (row + 1) * dsk
                for t in range(n):
                    e = abs(centered(ph[t] - (want[t] << sh if sh >= 0 else 0), 1 << bits))
                    if e > emax:
                        emax, where = e, (i, row, j)
    return emax / 2.0 ** (bk * S), where


def oracle_expand(c, a, res_str):
    """every cell (row, col) of the resulting GGSW against m2·σ_col·2^(−(row+1)·dsize·b)"""
    n, rank, ba, dsa, bk, dsk, dnk = c["n"], c["rank"], c["ba"], c["dsa"], c["bk"], c["dsk"], c["dnk"]
    cols = rank + 1
    skv = [int(x) for x in a["sk"].split(",")]
    sk = [skv[i * n:(i + 1) * n] for i in range(rank)]
    m2 = [int(x) for x in a["m2"].split(",")]
    if c["op"] == "auto":
        m2 = automorphism(c["p"], m2)
    sn = 1 + sum(l1(s) for s in sk)
    S = ceil_div(c["kk"], bk)
    det = {}
    ekey, where = expand_key_error(c, a, sk)
    det["key_emax_log2"] = round(math.log2(ekey), 2) if ekey > 0 else None
    # the sampler's contract: |e| <= 6 sigma 2^-k (sigma = 3.2); anything larger means the key does not encrypt s_i·s_j
    if ekey > 20.0 * 2.0 ** (-c["kk"]):
        det["why"] = f"GGLWE->GGSW key cell (key {where[0]}, row {where[1]}, input column {where[2]}) does not encrypt s_i*s_j"
        return False, det
    cells = [parse_vec(x, n) for x in res_str.split(";")]
    so = len(cells[0][0])
    e_in = 20.0 * 2.0 ** (-c["ka"])
    size_conv = ceil_div(so * ba, bk)
    rows_used = min(dnk, ceil_div(size_conv, dsk))
    digit = rows_used * rank * n * 2.0 ** (bk * dsk - 1) * 1.01
    ignored = rows_used * rank * n * sn * 2.0 ** (-bk * (S - dsk + 1)) if dsk > 2 else 0.0
    rnd = sn * 2.0 ** (-ba * so) * 1.01
    dropped = 2.0 ** (-bk * dnk * dsk - 1) * 1.01 if size_conv > dnk * dsk else 0.0
    if c["op"] == "from_gglwe":
        b0 = e_in + rnd
    else:
        # key switch / automorphism of column 0 first: same gadget noise with a key of the same shape, input secret of norm <= n
        b0 = e_in + digit * 20.0 * 2.0 ** (-c["kk"]) + ignored + rank * n * dropped + rnd
    worst = 0.0
    loose = False
    for q, cell in enumerate(cells):
        row, col = q // cols, q % cols
        sigma = [1] + [0] * (n - 1) if col == 0 else sk[col - 1]
        want = negmul(m2, sigma)
        ph, bits = phase(cell, sk, ba)
        sh = bits - ba * (row + 1) * dsa
        ref = [w << sh for w in want] if sh >= 0 else [0] * n
        d, B = torus_diff(ph, bits, ref, bits)
        dv = d / 2.0 ** B
        if col == 0:
            bnd = b0
        else:
            s2 = sum(l1(negmul(sk[col - 1], sj)) for sj in sk)
            bnd = l1(sk[col - 1]) * b0 + digit * ekey + ignored + s2 * dropped + rnd
        if bnd >= 0.125:
            loose = True
            continue
        worst = max(worst, dv / bnd)
        if dv > bnd:
            det.update({"why": "GGSW cell does not encrypt m2*s_col at its gadget position", "row": row, "col": col,
                        "diff_log2": round(math.log2(dv), 2), "bound_log2": round(math.log2(bnd), 2)})
            return False, det
    det["ratio"] = round(worst, 4)
    det["loose"] = loose
    return True, det


def run_expand(ctx, binp, drv, quick, broken):
    rng = ctx.rng.fork()
    ncases = 45 if quick else 400
    cases = [gen_expand(rng, i, quick) for i in range(ncases)]
    lines = [f"{k} {req_line(c)}" for k, c in enumerate(cases)]
    rc, out, err = ctx.run_lines(binp, ["expand"], lines, timeout=3000)
    answers = [out[k].split(" ", 1)[1] if k < len(out) and " " in out[k] else "missing" for k in range(len(cases))]
    mlines, index = [], []
    for k, (c, ans) in enumerate(zip(cases, answers)):
        a = parse_answer(ans)
        if a is None:
            broken.append(f"harness could not generate expand case {req_line(c)}: {ans[:80]}")
            continue
        if c["op"] == "from_gglwe":
            for big in (0, 1):
                mlines.append(f"{len(mlines)} " + expand_model_line(c, a, big))
                index.append((k, big))
    rc, mout, merr = ctx.run_lines(drv, [], mlines, timeout=3000) if mlines else (0, [], "")
    model = {index[i]: (mout[i].split(" ", 1)[1] if i < len(mout) and " " in mout[i] else "missing") for i in range(len(index))}
    hist = {}
    n_or = n_loose = 0
    worst = 0.0
    witness = None
    for k, (c, ans) in enumerate(zip(cases, answers)):
        a = parse_answer(ans)
        if a is None:
            continue
        fft_ok = expand_fft_ok(c)
        outs = [a.get(f"be{i}", "missing") for i in range(4)]
        ctx.count_case(("expand", c["op"], c["rank"], c["dsa"], c["dsk"], c["bk"] == c["ba"], c["n"], fft_ok, c["m2"].split(":")[0],
                        c["dnk"] * c["dsk"] * c["bk"] < ceil_div(c["ko"], c["ba"]) * c["ba"]), nontrivial=True)
        for hk in (f"expand:{c['op']}", f"expand:rank{c['rank']}", f"expand:key_dsize{c['dsk']}"):
            hist[hk] = hist.get(hk, 0) + 1
        for i in range(4):
            if BIG128[i] == 0 and not fft_ok:
                continue
            if outs[i].startswith("panic"):
                broken.append(f"{BE_NAMES[i]} panics on: expand {req_line(c)}")
            elif c["op"] == "from_gglwe" and outs[i] != model[(k, BIG128[i])]:
                ctx.disagreements += 1
                if len(broken) < 12:
                    broken.append(f"model != {BE_NAMES[i]} on: expand {req_line(c)}")
        if fft_ok and len(set(outs)) > 1:
            broken.append(f"back ends disagree on: expand {req_line(c)}")
        if not outs[1].startswith("panic"):
            okc, det = oracle_expand(c, a, outs[1])
            n_or += 1
            n_loose += 1 if det.get("loose") else 0
            worst = max(worst, det.get("ratio", 0.0))
            if not okc:
                ctx.oracle_failures += 1
                witness = {"request": "expand " + req_line(c), "back_end": "NTT120Ref", "oracle": det,
                           "rerun": f"printf '1 {req_line(c)}\\n' | harness/target/release/pvh expand"}
                broken.append(f"row-expansion oracle fails: expand {req_line(c)} {det}")
        if k == 0:
            ctx.samples.append({"request": "expand " + req_line(c), "implementation(NTT120Ref)": outs[1][:160],
                                "model": model.get((k, 1), "(oracle only)")[:160]})
    # secret-tensor index map against the formula of GLWESecretTensor::at, ranks 1..6
    for r in range(1, 7):
        rc, o, _ = ctx.run_lines(drv, [], [f"0 expand op=idx rank={r}"])
        got = o[0].split(" ", 1)[1] if o and " " in o[0] else "missing"
        want = ",".join(str(min(i, j) * r + max(i, j) - min(i, j) * (min(i, j) + 1) // 2) for i in range(r) for j in range(r))
        if got != want:
            broken.append(f"secretTensorIdx differs from GLWESecretTensor::at for rank {r}")
    ctx.cov["expand_cases"] = len(cases)
    ctx.cov["expand_oracle_checks"] = n_or
    ctx.cov["expand_oracle_undecidable"] = n_loose
    ctx.cov["expand_max_noise_over_bound"] = round(worst, 4)
    ctx.cov["expand_histogram"] = hist
    return witness

# ------------------------------------------------------------------ main
def run_batch(ctx, binp, drv, cases, dirty=0):
    lines = [f"{k} {req_line(c, dirty)}" for k, c in enumerate(cases)]
    rc, out, err = ctx.run_lines(binp, ["ep"], lines, timeout=3000)
    answers = []
    for k in range(len(cases)):
        ans = out[k].split(" ", 1)[1] if k < len(out) and " " in out[k] else "missing"
        answers.append(ans)
    return answers


def run(ctx):
    rng = ctx.rng
    quick = ctx.tier == "quick"
    broken = []
    ok, failures = ctx.proof_gate(["Poulpy.Props.C04"])
    if not ok:
        broken += failures
    binp = ctx.build_harness()
    drv = ctx.driver()
    if binp is None:
        broken.append("harness build failed: " + getattr(ctx, "build_error", "")[-600:])
    if drv is None:
        broken.append("model driver does not build: " + getattr(ctx, "driver_error", "")[-600:])
    hist = {}
    witness = None
    stale_witness = None
    if binp and drv:
        ncases = 400 if quick else 4000
        cases = [gen_case(rng, i, quick) for i in range(ncases)]
        answers = run_batch(ctx, binp, drv, cases)
        mlines = []
        index = []
        for k, (c, ans) in enumerate(zip(cases, answers)):
            a = parse_answer(ans)
            if a is None:
                broken.append(f"harness could not generate case {req_line(c)}: {ans[:80]}")
                continue
            for big in (0, 1):
                mlines.append(f"{len(mlines)} " + model_line(c, a, big))
                index.append((k, big))
        rc, mout, merr = ctx.run_lines(drv, [], mlines, timeout=3000)
        model = {}
        for i, (k, big) in enumerate(index):
            model[(k, big)] = mout[i].split(" ", 1)[1] if i < len(mout) and " " in mout[i] else "missing"
        n_oracle = 0
        n_stale_fail = 0
        n_loose = 0
        max_ratio = 0.0
        for k, (c, ans) in enumerate(zip(cases, answers)):
            a = parse_answer(ans)
            if a is None:
                continue
            fft_ok = fft_in_domain(c)
            outs = [a.get(f"be{i}", "missing") for i in range(4)]
            key = (c["op"], c["rank"], c["dsize"], c["bi"] == c["bg"], c["bo"] == c["bg"], c["m2"].split(":")[0], c["m1"],
                   (ceil_div(c["ki"], c["bi"]) * c["bi"] > c["dnum"] * c["dsize"] * c["bg"]),
                   (ceil_div(c["ko"], c["bo"]) * c["bo"] < c["kg"]), fft_ok, c["n"])
            ctx.count_case(key, nontrivial=True)
            hist[c["op"]] = hist.get(c["op"], 0) + 1
            hist[f"dsize{c['dsize']}"] = hist.get(f"dsize{c['dsize']}", 0) + 1
            hist[f"rank{c['rank']}"] = hist.get(f"rank{c['rank']}", 0) + 1
            hist["fft64_in_domain" if fft_ok else "ntt120_only"] = hist.get("fft64_in_domain" if fft_ok else "ntt120_only", 0) + 1
            bad_here = False
            for i in range(4):
                if BIG128[i] == 0 and not fft_ok:
                    if outs[i].startswith("panic") and outs[i] != model[(k, BIG128[i])]:
                        broken.append(f"{BE_NAMES[i]} panics outside its magnitude domain: {req_line(c)}")
                    continue
                if outs[i] != model[(k, BIG128[i])]:
                    ctx.disagreements += 1
                    bad_here = True
                    if len(broken) < 12:
                        broken.append(f"model != {BE_NAMES[i]} on: {req_line(c)}")
            if fft_ok and (outs[0] != outs[1] or outs[2] != outs[3] or outs[0] != outs[2]):
                bad_here = True
                broken.append(f"back ends disagree on: {req_line(c)}")
            # property oracle on the implementation's own output (NTT120Ref; FFT64Ref too when in domain)
            if c["m1"] != "raw" and not outs[1].startswith("panic"):
                for i in ([1] + ([0] if fft_ok else [])):
                    okc, det = oracle_case(c, a, outs[i])
                    n_oracle += 1
                    if det.get("loose"):
                        n_loose += 1
                    max_ratio = max(max_ratio, det.get("ratio", 0.0))
                    if not okc and "stale" in c:
                        n_stale_fail += 1
                    if not okc:
                        ctx.oracle_failures += 1
                        witness = {"request": req_line(c), "back_end": BE_NAMES[i], "oracle": det,
                                   "rerun": f"printf '1 {req_line(c)}\\n' | harness/target/release/pvh ep"}
                        broken.append(f"property oracle fails on {BE_NAMES[i]}: {req_line(c)} {det}")
            if bad_here and witness is None and c["m1"] != "raw":
                pass
            if len(ctx.samples) < 6 and k % 17 == 0:
                ctx.samples.append({"request": req_line(c), "implementation(NTT120Ref)": outs[1][:160], "model": model[(k, 1)][:160]})
        ctx.cov["oracle_checks"] = n_oracle
        ctx.cov["oracle_bound_too_loose_to_decide"] = n_loose
        ctx.cov["max_observed_noise_over_bound"] = round(max_ratio, 4)
        ctx.cov["histogram"] = hist
        ctx.cov["stale_res_dft_cases"] = sum(1 for c in cases if "stale" in c)
        ctx.cov["stale_res_dft_oracle_failures"] = n_stale_fail

        # ---- gate 4: scratch contents must not matter
        sub = [c for c in cases if "stale" not in c][: (100 if quick else 600)]
        dirty_ans = run_batch(ctx, binp, drv, sub, dirty=0x412E848000000000)
        n_stale = 0
        clean = {id(c): a for c, a in zip(cases, answers)}
        for c, a1 in zip(sub, dirty_ans):
            a0 = clean[id(c)]
            p0, p1 = parse_answer(a0), parse_answer(a1)
            if p0 is None or p1 is None:
                continue
            for i in range(4):
                if p0.get(f"be{i}") != p1.get(f"be{i}"):
                    n_stale += 1
                    broken.append(f"output depends on scratch content: {req_line(c)}")
                    if stale_witness is None:
                        stale_witness = {"request": req_line(c), "back_end": BE_NAMES[i], "clean_scratch": p0.get(f"be{i}")[:300],
                                         "dirty_scratch": p1.get(f"be{i}")[:300],
                                         "rerun": f"printf '1 {req_line(c)}\\n2 {req_line(c, 0x412E848000000000)}\\n' | harness/target/release/pvh ep"}
                    break
        ctx.cov["dirty_scratch_cases"] = len(sub)
        ctx.cov["dirty_scratch_differences"] = n_stale

    if binp and drv:
        w2 = run_expand(ctx, binp, drv, quick, broken)
        witness = witness or w2
    if stale_witness is not None:
        # regression of the defect repaired by poulpy d3c2e96 (CMux forms, dsize >= 3, res_dft not zeroed)
        ctx.violation("output depends on the prior content of the scratch arena", {"witness": stale_witness}, True)
    if broken:
        ctx.log("broken:", *broken[:6])
        if witness:
            ctx.violation("external product / CMux output does not decrypt to the plaintext product within the bound",
                          {"witness": witness, "broken": broken[:20]}, True)
        else:
            ctx.violation("C04 obligation or correspondence no longer checks", {"broken": broken[:20]}, False)
    return ctx.finish(rule="cases = (op, n, rank, dsize, dnum, three radices, three precisions, m2 class, m1 class, seed); distinct = (op, rank, "
                           "dsize, input radix = ggsw radix, output radix = ggsw radix, m2 class, m1 class, input longer than gadget depth, "
                           "result shorter than ggsw, fft64 in domain, n); every case is run on 4 back ends and twice on the model "
                           "(i64 / i128 accumulator); non-trivial = always (random masks and errors)")
