"""C15 — encrypted integers: bootstrap, word operations and bit surgery match u32.

Gate 1 (proof): lake build Poulpy.Props.C15 (retriever_history, blind_rotation_rotates, bit_index bijection, pack/get_bit addressing, splice_u8/u16, sext,
        get_bit/get_byte bit positions over BitVec 32 for all inputs, decode, composition over abstract Cmux).
Gate 2 (correspondence): the real code end to end (`pvh fheuint`, the crate's own smallest test parameters: N=256,
        n_lwe=77, rank 2, FFT64 Ref/AVX) — encrypt packed words, prepare through circuit bootstrapping, apply every
        word operation, partial preparation (start, count), splice / sext / get_bit (GLWE and LWE paths) / swap at
        every index, re-preparation pipelines, per-cell GGSW noise of the circuit-bootstrapped bits — vs the Lean
        model (`pdriver fheuint`: plaintext-level slot model; word ops through the C13 circuit tables) vs u32
        arithmetic in Python.
        hist: ONE GLWEBlindRetriever reused for several streams (add… flush / retrieve, different lengths, every index of
        the later stream) vs `Retr.history`; cbtexp: circuit bootstrapping in exponent mode (every log_gap_out up to and including
        log_gap_in, ranks 1-2, 1-4 rows) vs `Cbt.expRows` and the monomial X^(data << log_gap_out); brot: glwe/ggsw/scalar blind rotation by an index field, every width 1..9,
        in place and out of place, vs `blindRotationAssign` and the negacyclic rotation by ±(v << lsh).
"""
from . import common
from . import c13

M32 = 0xFFFFFFFF
BES = ["fft64ref", "fft64avx"]


def kv(tokens):
    d = {}
    for t in tokens:
        if "=" in t:
            k, v = t.split("=", 1)
            d[k] = v
    return d


def rotr(x, r):
    r %= 32
    return ((x >> r) | (x << (32 - r))) & M32


def rotl(x, r):
    return rotr(x, (32 - r) % 32)


def splice8(a, b, dst, src):
    return rotl((rotr(a, dst * 8) & 0xFFFFFF00) | (rotr(b, src * 8) & 0xFF), dst * 8)


def splice16(a, b, dst, src):
    return rotl((rotr(a, dst * 16) & 0xFFFF0000) | (rotr(b, src * 16) & 0xFFFF), dst * 16)


def sext(x, bits):
    lo = (x << (32 - bits) & M32) >> (32 - bits)
    hi = ((x >> bits) & 1) * ((0xFFFFFFFF << bits) & M32)
    return hi | lo


def run(ctx):
    rng = ctx.rng
    quick = ctx.tier == "quick"
    ctx.trusted += [
        "Model/FheUint.lean: plaintext-level slot model of rotate / trace / add / sub (noise dropped), tied end to end through decryption",
        "word operations: C13's circuit theorems + Cmux contract (C04); the model side of `word` is evalFlat on the generated tables",
    ]
    ctx.assumptions += [
        "noise growth through prepare -> evaluate -> pack -> prepare pipelines is observed (decryption stays exact over the sampled rounds), not proved",
        "circuit bootstrapping output cells: checked by the crate's own per-cell noise statistic against the test-suite bound, not by a theorem",
    ]
    broken = []
    witness = None
    known_size1 = []
    ok, failures = ctx.proof_gate(["Poulpy.Props.C15", "Poulpy.Props.C15Noise"])
    broken += failures
    binp = ctx.build_harness()
    drv = ctx.driver()
    if binp is None or drv is None:
        ctx.violation("C15 machinery does not build", {"broken": broken + [getattr(ctx, "build_error", "")[-400:], getattr(ctx, "driver_error", "")[-400:]]}, False)
        return ctx.finish(rule="n/a")

    reqs = []     # (harness line body, model line body or None, python expectation or None, class key)

    def add(h, m, want, key):
        reqs.append((h, m, want, key))

    r = rng.fork()
    B = c13.BOUNDARY
    # ---- word operations (prepare both operands through circuit bootstrapping)
    n_rand = 4 if quick else 40
    for oi, op in enumerate(c13.OPS):
        pairs = [(r.choice(B), r.choice(B))] + c13.sample_pairs(r, 144 + n_rand)[144:]
        if op in ("sll", "srl", "sra"):
            pairs.append((r.next() & M32, r.choice([0, 1, 31, 32, 33, 63])))
        for pi, (a, b) in enumerate(pairs):
            be = BES[(oi + pi) % 2]
            th = r.choice([1, 1, 3, 4])
            add(f"word be={be} op={op} a={a} b={b} threads={th}", f"word op={op} a={a} b={b}", c13.spec(op, a, b), ("word", op, be, th > 1))
    # ---- partial preparation
    grid = [(0, 32), (0, 1), (31, 1), (5, 9), (8, 8), (16, 16), (1, 30), (7, 0 + 25)] if quick else \
        [(s, c) for s in range(0, 32, 3) for c in range(1, 33 - s, 4)] + [(0, 32), (31, 1)]
    for gi, (s, c) in enumerate(grid):
        a = r.choice([0xFFFFFFFF, r.next() & M32, 0xAAAAAAAA])
        want = a & (((1 << c) - 1) << s)
        add(f"prep be={BES[gi % 2]} a={a} start={s} count={c}", f"prep a={a} start={s} count={c}", want, ("prep", min(s, 2), min(c, 3), BES[gi % 2]))
    # ---- pipelines through re-preparation
    for k in range(1 if quick else 6):
        a, b = r.next() & M32, r.next() & M32
        rounds = 3 if quick else 6
        want = ",".join(str((a + (j + 1) * b) & M32) for j in range(rounds))
        add(f"reprep be={BES[k % 2]} a={a} b={b} rounds={rounds}", None, want, ("reprep", BES[k % 2]))
    # ---- bit surgery at every index
    vals = [0xFFFFFFFF, 0xAABBCCDD, 0x84838281, 0x44434241, 0, 0x80000000, 0x00FF00FF]
    k = 0
    for dst in range(4):
        for src in range(4):
            a, b = (r.choice(vals), r.choice(vals)) if r.chance(1, 2) else (r.next() & M32, r.next() & M32)
            add(f"splice8 be={BES[k % 2]} a={a} b={b} dst={dst} src={src}", f"splice8 a={a} b={b} dst={dst} src={src}", splice8(a, b, dst, src), ("splice8", dst, src))
            k += 1
    for dst in range(2):
        for src in range(2):
            for _ in range(1 if quick else 4):
                a, b = r.next() & M32, r.next() & M32
                add(f"splice16 be={BES[k % 2]} a={a} b={b} dst={dst} src={src}", f"splice16 a={a} b={b} dst={dst} src={src}", splice16(a, b, dst, src), ("splice16", dst, src))
                k += 1
    for byte in range(4):
        for a in ([0x84838281, 0x44434241] + [r.next() & M32 for _ in range(0 if quick else 4)]):
            add(f"sext be={BES[k % 2]} a={a} byte={byte}", f"sext a={a} byte={byte}", sext(a, 8 * (byte + 1) - 1), ("sext", byte, (a >> (8 * byte + 7)) & 1))
            k += 1
    a = r.next() & M32
    for i in range(32):
        if quick and i % 3 and i not in (0, 7, 8, 31):
            continue
        add(f"getbit be={BES[i % 2]} a={a} i={i}", f"getbit a={a} i={i}", (a >> i) & 1, ("getbit", i))
        add(f"getbitlwe be={BES[(i + 1) % 2]} a={a} i={i}", None, (a >> i) & 1, ("getbitlwe", i))
    for bit in (0, 1):
        a, b = r.next() & M32, r.next() & M32
        want = f"{b},{a}" if bit else f"{a},{b}"
        add(f"swap be={BES[bit]} a={a} b={b} bit={bit}", f"swap a={a} b={b} bit={bit}", want, ("swap", bit))
    # ---- blind retrieval (statefull forward / reverse, one-shot) and blind selection
    def idxword(v, rsh, bits):
        """index field value v at [rsh, rsh+bits), random garbage in every other bit"""
        g = r.next() & M32
        mask = ((1 << bits) - 1) << rsh
        return (g & ~mask & M32) | ((v << rsh) & mask)

    def table(n):
        return [(r.next() & M32) if r.chance(1, 2) else (1000 + i) for i in range(n)]
    bk = 0
    for ln in range(1, 9):                       # every length 1..8 with a 3-bit field, every index in range
        for v in range(8):
            if v >= ln and not (v == ln or v == 7):
                continue
            rsh = [0, 2, 5, 29][(ln + v) % 4]
            data = table(ln)
            w = idxword(v, rsh, 3)
            add(f"retr be={BES[bk % 2]} bits=3 rsh={rsh} idxword={w} data={','.join(map(str, data))}",
                f"retr bits=3 rsh={rsh} idxword={w} data={','.join(map(str, data))}",
                ("retr", data, v), ("retr", ln, 3, "in" if v < ln else "out", BES[bk % 2]))
            bk += 1
    for ln, bits in [(3, 5), (4, 5), (16, 5), (17, 5), (25, 5), (32, 5), (5, 2), (2, 1), (9, 4), (6, 4)]:
        vs = sorted(set([0, 1, ln - 1, ln // 2] + [r.below(ln) for _ in range(1 if quick else 6)]))
        for v in vs:
            if v >= (1 << bits):
                continue
            rsh = r.choice([0, 3, 32 - bits])
            data = table(ln)
            w = idxword(v, rsh, bits)
            add(f"retr be={BES[bk % 2]} bits={bits} rsh={rsh} idxword={w} data={','.join(map(str, data))}",
                f"retr bits={bits} rsh={rsh} idxword={w} data={','.join(map(str, data))}",
                ("retr", data, v), ("retr", ln, bits, "in", BES[bk % 2]))
            bk += 1
    for size in list(range(1, 9)) + [16, 17, 25]:    # one-shot retriever
        lens = [size] if size < 8 else [size, size - 3]
        for ln in lens:
            vs = range(ln) if size <= 8 else sorted(set([0, ln - 1, r.below(ln), r.below(ln)]))
            for v in vs:
                rsh = [0, 2][(size + v) % 2]
                nb = max(1, (size - 1).bit_length())
                data = table(ln)
                w = idxword(v, rsh, nb)
                add(f"retr1 be={BES[bk % 2]} size={size} rsh={rsh} idxword={w} data={','.join(map(str, data))}",
                    f"retr1 size={size} rsh={rsh} idxword={w} data={','.join(map(str, data))}",
                    ("retr1", data, v, size), ("retr1", size, ln == size, BES[bk % 2]))
                bk += 1
    for bits, keysets in [(3, [[0, 2, 5], [1, 3, 4, 6, 7], list(range(8)), [7], []]), (5, [list(range(0, 32, 3)), [31, 16, 15]]), (1, [[1], [0, 1]])]:
        for keys in keysets:
            vs = range(1 << bits) if bits <= 3 else sorted(set([0, 3, 15, 16, 31, r.below(32)]))
            for v in vs:
                if quick and bits == 3 and len(keys) in (5, 1) and v % 2:
                    continue
                rsh = r.choice([0, 1, 32 - bits])
                vals = [(r.next() & M32) | 1 for _ in keys]
                w = idxword(v, rsh, bits)
                tbl = dict(zip(keys, vals))
                add(f"sel be={BES[bk % 2]} bits={bits} rsh={rsh} idxword={w} keys={','.join(map(str, keys)) or '-'} vals={','.join(map(str, vals)) or '-'}",
                    f"sel bits={bits} rsh={rsh} idxword={w} keys={','.join(map(str, keys)) or '-'} vals={','.join(map(str, vals)) or '-'}",
                    tbl.get(v, 0), ("sel", bits, len(keys), v in tbl, BES[bk % 2]))
                bk += 1
    # ---- the retriever object used more than once (streaming add… flush, and retrieve after a streaming use)
    hk = 0
    for size in ([2, 3, 4, 8] if quick else [2, 3, 4, 5, 8, 16]):
        nb = max(1, (size - 1).bit_length())
        cap = 1 << nb
        firsts = sorted(set([1, max(1, cap // 2), cap, max(1, cap // 2 - 1)]))
        seconds = sorted(set([1, 2, cap // 2 + 1, cap])) if cap > 2 else [1, 2]
        for l1 in firsts:
            for l2 in seconds:
                if l2 > cap:
                    continue
                for v in range(l2):
                    if quick and size >= 8 and (v + l1 + l2) % 3:
                        continue
                    modes = [(0, 0), (0, 1), (1, 0), (0, 0, 0)][hk % 4]
                    streams = [table(l1), table(l2)] if len(modes) == 2 else [table(l1), table(r.range(1, cap)), table(l2)]
                    rsh = [0, 2, 7][hk % 3]
                    w = idxword(v, rsh, nb)
                    st = "|".join(",".join(map(str, x)) for x in streams)
                    md = ",".join(map(str, modes))
                    add(f"hist be={BES[hk % 2]} size={size} rsh={rsh} idxword={w} streams={st} modes={md}",
                        f"hist size={size} rsh={rsh} idxword={w} streams={st} modes={md}",
                        ("hist", streams, v), ("hist", size, l1, l2, modes))
                    hk += 1
    # ---- glwe / ggsw blind rotation by an encrypted index field: every width, odd and even, in place and out of place
    logn2 = 9                      # log2(2N) for N = 256
    for mask in range(1, logn2 + 1):
        for kind in ("glwe", "glwe_assign"):
            for rep in range(2):
                lsh = r.range(0, logn2 - mask)
                rsh = r.choice([0, 3, 32 - mask, 11])
                if rsh + mask > 32:
                    rsh = 32 - mask
                top = rep                                  # field with its top bit set / clear
                v = (r.below(1 << (mask - 1)) if mask > 1 else 0) | (top << (mask - 1))
                sign = (mask + rep + (kind == "glwe")) % 2
                w = idxword(v, rsh, mask)
                want = (v << lsh) if sign else -(v << lsh)
                pt = ",".join(str(((j * 7 + 3) % 13) - 6) for j in range(256))
                add(f"brot be={BES[hk % 2]} kind={kind} sign={sign} rsh={rsh} mask={mask} lsh={lsh} idxword={w} want={want}",
                    f"brot sign={sign} rsh={rsh} mask={mask} lsh={lsh} idxword={w} pt={pt}",
                    ("brot", want), ("brot", kind, mask, sign, top, lsh > 0))
                hk += 1
    for mask in ([1, 2, 3, 4, 7, 8] if quick else range(1, logn2)):
        for kind in ("scalar", "ggsw", "ggsw_assign"):
            lsh = r.range(0, logn2 - 1 - mask)
            rsh = r.choice([0, 5, 32 - mask])
            v = r.below(1 << mask) | (1 << (mask - 1))
            sign = (mask + len(kind)) % 2
            w = idxword(v, rsh, mask)
            want = (v << lsh) if sign else -(v << lsh)
            add(f"brot be={BES[hk % 2]} kind={kind} sign={sign} rsh={rsh} mask={mask} lsh={lsh} idxword={w} want={want}",
                None, ("brotg", want), ("brotg", kind, mask, sign))
            hk += 1
    # ---- circuit bootstrapping, exponent mode (own small context: N = 256, radices 15/14/13/12/11), every gap incl. log_gap_out = log_gap_in
    # (table cells of at least 8 coefficients: with 4 the mod-switch drift of the 77-bit key leaves the cell in a few % of the runs)
    for rank, dnum, ld in ([(1, 1, 4), (1, 2, 4), (1, 3, 3), (1, 4, 2), (2, 2, 3), (2, 3, 2)] if quick else
                           [(rk, dn, l) for rk in (1, 2) for dn in (1, 2, 3, 4) for l in (1, 2, 3, 4) if (1 << l) * (4 if dn > 2 else dn) <= 32]):
        lgi = 8 - ld
        for lgo in range(0, lgi + 1):
            datas = sorted(set([0, 1, (1 << ld) - 1, r.below(1 << ld)])) if (quick and lgo not in (lgi, 1)) else \
                sorted(set([0, 1, (1 << ld) - 1] + [r.below(1 << ld) for _ in range(3)]))
            for data in datas:
                add(f"cbtexp be={BES[hk % 2]} rank={rank} dnum={dnum} logdomain={ld} lgo={lgo} data={data}",
                    f"cbtexp logn=8 b=13 resb=15 dnum={dnum} logdomain={ld} lgo={lgo} data={data} e=1024 prec=30",
                    ("cbtexp", dnum, data << lgo), ("cbtexp", rank, dnum, ld, lgo == lgi, data == 0))
                hk += 1
    # ---- small-radix INPUT words: the LWE entering the circuit bootstrapping then has base2k <= log2(2N) = 9 and mod_switch_2n collects its bits
    #      over several limbs (b | 9: 3; b ∤ 9: 4, 5, 6, 7); Left direction through prepare / word ops / constant-mode cbt, Right through cbtexp
    SMALL = [(3, 24), (4, 24), (5, 25), (6, 24), (7, 28)]
    for si, (inb, ink) in enumerate(SMALL):
        words = [1, 0x80000000, 0xDEADBEEF, r.next() & M32] if quick else [0, 1, 0x80000000, 0xFFFFFFFF, 0xDEADBEEF] + [r.next() & M32 for _ in range(4)]
        for wi, a in enumerate(words):
            be = BES[(si + wi) % 2]
            add(f"prep be={be} a={a} start=0 count=32 inb={inb} ink={ink}", f"prep a={a} start=0 count=32", a, ("prep-small", inb, wi % 2))
        for (op, a, b) in [("add", 1, 0xFFFFFFFF), ("xor", 0x5555AAAA, r.next() & M32), ("sub", r.next() & M32, r.next() & M32)][: (2 if quick else 3)]:
            add(f"word be={BES[si % 2]} op={op} a={a} b={b} threads=1 inb={inb} ink={ink}", f"word op={op} a={a} b={b}", c13.spec(op, a, b),
                ("word-small", inb, op))
        for data in ([5] if quick else [0, 3, 5, 7]):
            add(f"cbtexp be={BES[si % 2]} rank=1 dnum=2 logdomain=3 lgo=2 data={data} lweb={inb}",
                f"cbtexp logn=8 b=13 resb=15 dnum=2 logdomain=3 lgo=2 data={data} e=1024 prec=30", ("cbtexp", 2, data << 2), ("cbtexp", "small-radix", inb))
    cbt_vals = [0x84838281] if quick else [0x84838281, 0, 0xFFFFFFFF, r.next() & M32]
    for ci, a in enumerate(cbt_vals):
        add(f"cbt be={BES[ci % 2]} a={a}", None, None, ("cbt", BES[ci % 2]))
    for si, (inb, ink) in enumerate(SMALL):
        add(f"cbt be={BES[si % 2]} a={0x84838281 ^ (si * 0x01010101)} inb={inb} ink={ink}", None, None, ("cbt", BES[si % 2], inb))

    lines = [f"{i} {h}" for i, (h, m, w, key) in enumerate(reqs)]
    rc, outl, err = ctx.run_lines(binp, ["fheuint"], lines, timeout=3000)
    mlines = [f"{i} {'blindsel' if key[0] in ('retr', 'retr1', 'sel', 'hist', 'brot') else 'fheuint'} {m}" for i, (h, m, w, key) in enumerate(reqs) if m is not None]
    rc2, mout, _ = ctx.run_lines(drv, [], mlines)
    model = {}
    for ln in mout:
        t = ln.split()
        if t:
            model[int(t[0])] = " ".join(t[1:])
    if rc != 0 or len(outl) != len(lines):
        broken.append(f"pvh fheuint failed rc={rc} {len(outl)}/{len(lines)} {err[-300:]}")
    else:
        hist = {}
        for i, (h, m, want, key) in enumerate(reqs):
            got = " ".join(outl[i].split()[1:])
            kind = key[0]
            hist[kind] = hist.get(kind, 0) + 1
            ctx.count_case(key)
            if kind == "cbt":
                # crate test bound: -(size*base2k) + log2(sigma) + 2 + 0.5*logN (+0.5*logN for the mask columns), sigma = 3.2, size*base2k = 39, logN = 8
                okc = got.startswith("ok ")
                worst = []
                if okc:
                    for cell in got[3:].split(","):
                        rc_, val = cell.split(":")
                        col = int(rc_.split(".")[1])
                        bound = -39 + 1.678 + 2 + 4 + (4 if col else 0)
                        worst.append((rc_, float(val), bound))
                        if float(val) > bound:
                            okc = False
                ctx.cov.setdefault("cbt_cell_noise_log2", []).append([(c, v) for c, v, b in worst])
                if not okc:
                    ctx.oracle_failures += 1
                    witness = witness or {"kind": "cbt", "line": lines[i], "implementation": got}
                continue
            mv = model.get(i)
            if kind == "hist":
                if m is not None and mv != got:
                    ctx.disagreements += 1
                    if len(broken) < 20:
                        broken.append(f"hist: {h[:200]} implementation={got[:80]} model={str(mv)[:80]}")
                streams, v = want[1], want[2]
                vals = got[3:].split(",") if got.startswith("ok ") else []
                bad = None
                if len(vals) != len(streams):
                    bad = f"answer {got[:60]}"
                else:
                    for si, st_ in enumerate(streams):
                        if v < len(st_) and vals[si] != str(st_[v]):
                            bad = f"stream {si} (length {len(st_)}) returned {vals[si]} for index {v}, its element is {st_[v]}"
                            break
                if bad:
                    ctx.oracle_failures += 1
                    witness = witness or {"kind": "hist", "stream_lengths": [len(x) for x in streams], "index": v, "line": lines[i], "implementation": got[:200], "why": bad}
                continue
            if kind == "cbtexp":
                dnum, pos = want[1], want[2]
                rows_i = " ".join(t for t in got.split()[1:] if t.startswith("r"))
                rows_m = " ".join(t for t in (mv or "").split()[1:] if t.startswith("r"))
                if rows_i != rows_m:
                    ctx.disagreements += 1
                    if len(broken) < 20:
                        broken.append(f"cbtexp: {h} implementation={got[:160]} model={str(mv)[:160]}")
                exp_rows = " ".join(f"r{i}=" + (f"{pos}:1" if 15 * (i + 1) <= 30 else "-") for i in range(dnum))
                noise = float(kv(got.split()).get("noise", "0")) if got.startswith("ok") else 0.0
                if rows_i != exp_rows or noise > -17.5:
                    ctx.oracle_failures += 1
                    witness = witness or {"kind": "cbtexp", "line": lines[i], "implementation": got[:300], "want_rows": exp_rows,
                                          "why": "a row of the bootstrapped GGSW is not the monomial X^(data << log_gap_out)" if rows_i != exp_rows
                                                 else f"GGSW noise statistic {noise} (log2) w.r.t. X^(data << log_gap_out)"}
                continue
            if kind in ("brot", "brotg"):
                if kind == "brot":
                    if mv != got:
                        ctx.disagreements += 1
                        if len(broken) < 20:
                            broken.append(f"brot: {h[:160]} implementation={got[:80]} model={str(mv)[:80]}")
                    k = want[1]
                    base = [((j * 7 + 3) % 13) - 6 for j in range(256)]
                    exp = []
                    for j in range(256):
                        u = (j - k) % 512
                        exp.append(base[u] if u < 256 else -base[u - 256])
                    okb = got == "ok " + ",".join(map(str, exp))
                else:
                    okb = got.startswith("ok margin=") and float(got.split("=")[1]) <= 0.0
                if not okb:
                    ctx.oracle_failures += 1
                    witness = witness or {"kind": kind, "line": lines[i], "implementation": got[:200], "want_rotation": want[1]}
                continue
            if kind in ("retr", "retr1"):
                if got.startswith("panic") and (mv or "").startswith("panic"):
                    mv = got                       # panic classes are not printed by this harness command
                if m is not None and mv != got:
                    ctx.disagreements += 1
                    if len(broken) < 20:
                        broken.append(f"{kind}: {h[:160]} implementation={got[:120]} model={str(mv)[:120]}")
                data, v = want[1], want[2]
                bad = None
                if kind == "retr":
                    d = kv(got.split())
                    fw = d.get("fwd", "").split(",")
                    rv = d.get("rev", "").split(",")
                    if not got.startswith("ok"):
                        bad = "panics"
                    elif rv != [str(x) for x in data]:
                        bad = "the reverse pass does not restore the table"
                    elif v < len(data) and fw[0] != str(data[v]):
                        bad = f"element 0 after the forward pass is {fw[0]}, table[{v}] = {data[v]}"
                else:
                    size = want[3]
                    if size == 1 and got.startswith("panic"):
                        known_size1.append({"line": lines[i], "implementation": got})
                    elif v < len(data) and got != f"ok {data[v]}":
                        bad = f"returned {got}, table[{v}] = {data[v]}"
                if bad:
                    ctx.oracle_failures += 1
                    witness = witness or {"kind": kind, "table_length": len(data), "index": v, "line": lines[i], "implementation": got[:300], "why": bad}
                continue
            exp = f"ok {want}"
            if m is not None and mv != got:
                ctx.disagreements += 1
                if len(broken) < 20:
                    broken.append(f"{kind}: {h} implementation={got} model={mv}")
            if got != exp:
                ctx.oracle_failures += 1
                witness = witness or {"kind": kind, "line": lines[i], "implementation": got, "want": exp, "model": mv}
        ctx.cov["cases_by_kind"] = hist
        for i in (0, len(reqs) // 2):
            ctx.samples.append({"request": lines[i], "implementation": outl[i], "model": model.get(i)})

    # ---- noise chain: measured key error of the circuit-bootstrapped GGSWs, measured error of the packed result, proved worst-case bound
    import math
    DEPTH = {"add": 64, "sub": 64, "slt": 64, "sltu": 64, "sll": 6, "srl": 6, "sra": 6, "and": 2, "or": 2, "xor": 2}
    r = ctx.rng.fork()
    nreq = []
    for oi, op in enumerate(DEPTH):
        for rep in range(1 if quick else 4):
            a, b = (r.choice(c13.BOUNDARY), r.choice(c13.BOUNDARY)) if rep == 0 else (r.next() & M32, r.next() & M32)
            nreq.append((BES[(oi + rep) % 2], op, a, b))
    nlines = [f"{i} wordnoise be={be} op={op} a={a} b={b}" for i, (be, op, a, b) in enumerate(nreq)]
    rcn, nout, errn = ctx.run_lines(binp, ["fheuint"], nlines, timeout=3000)
    chain = {}
    if rcn != 0 or len(nout) != len(nlines):
        broken.append(f"pvh fheuint wordnoise failed rc={rcn} {errn[-300:]}")
    else:
        blines = []
        for i, (be, op, a, b) in enumerate(nreq):
            d = kv(nout[i].split())
            blines.append(f"{i} noise word n=256 rank=2 dnum=2 b=13 k=26 hw=256 l={DEPTH[op]} e={d.get('ein', 0)} bp=0")
        rcb, bout, _ = ctx.run_lines(drv, [], blines)
        for i, (be, op, a, b) in enumerate(nreq):
            d = kv(nout[i].split())
            bd = kv(bout[i].split()) if i < len(bout) else {}
            ctx.evaluations += 1
            ctx.count_case(("wordnoise", be, op))
            want = c13.spec(op, a, b)
            if not nout[i].split()[1:2] == ["ok"] or d.get("word") != str(want) or "bound" not in bd:
                ctx.oracle_failures += 1
                witness = witness or {"kind": "wordnoise", "line": nlines[i], "implementation": nout[i][:200], "want": want}
                continue
            ein, out, bound = int(d["ein"]), int(d["out"]), int(bd["bound"])
            if out > bound:
                ctx.oracle_failures += 1
                witness = witness or {"kind": "wordnoise", "line": nlines[i], "measured_out": out, "proved_bound": bound}
            e = chain.setdefault(op, {"depth": DEPTH[op], "ein_log2": -99.0, "out_log2": -99.0, "bound_log2": 99.0, "worst_case_condition_holds": True})
            e["ein_log2"] = max(e["ein_log2"], round(math.log2(max(ein, 1)) - 64, 2))
            e["out_log2"] = max(e["out_log2"], round(math.log2(max(out, 1)) - 64, 2))
            e["bound_log2"] = min(e["bound_log2"], round(math.log2(max(bound, 1)) - 64, 2))
            e["worst_case_condition_holds"] = e["worst_case_condition_holds"] and bd.get("wordok") == "1"
            e["fresh_log2"] = round(math.log2(max(int(d.get("fresh", 1)), 1)) - 64, 2)
    ctx.cov["noise_chain"] = {"units": "log2 of the max coefficient error, torus = 1; Delta/2 = 2^-3", "per_operation": chain,
                              "bound": "L_op * NoiseB.cmuxBound(N=256, rank 2, 2 rows of 2^13, 26 bits, hw 256, E = measured ein) (pdriver noise word); "
                                       "worst_case_condition = 2*(L*Bc) < Delta (C15Noise.word_op_correct)"}

    # ---- across rounds of re-preparation: the key error of prepare(x) and the error of the result stay where they were (C15Noise.add_reprepare_fixpoint)
    nr = 4 if quick else 10
    ra, rb_ = 4294967290, 3
    rcr, rout, _ = ctx.run_lines(binp, ["fheuint"], [f"0 noiserounds be=fft64ref op=add a={ra} b={rb_} rounds={nr}"], timeout=3000)
    if rcr != 0 or not rout or rout[0].split()[1:2] != ["ok"]:
        broken.append(f"pvh fheuint noiserounds failed: {(rout or ['?'])[0][:200]}")
    else:
        d = kv(rout[0].split())
        words = [int(x) for x in d["words"].split(",")]
        eins = [int(x) for x in d["eins"].split(",")]
        outs = [int(x) for x in d["outs"].split(",")]
        ctx.evaluations += nr
        ctx.count_case(("noiserounds", nr))
        if words != [(ra + (k + 1) * rb_) & M32 for k in range(nr)] or max(eins) > 4 * eins[0] or max(outs) > 4 * outs[0]:
            ctx.oracle_failures += 1
            witness = witness or {"kind": "noiserounds", "implementation": rout[0][:300], "why": "wrong word or noise growing across rounds"}
        ctx.cov["noise_rounds"] = {"rounds": nr, "key_error_of_prepare_x_log2": [round(math.log2(max(e, 1)) - 64, 2) for e in eins],
                                   "result_error_log2": [round(math.log2(max(e, 1)) - 64, 2) for e in outs]}

    # model-only: layout tables
    rc3, lo, _ = ctx.run_lines(drv, [], ["0 fheuint bitindex ty=u8", "1 fheuint bitindex ty=u16", "2 fheuint bitindex ty=u32"])
    for T, (bits, lb) in enumerate([(8, 0), (16, 1), (32, 2)]):
        want = "ok " + ",".join(str(((i & 7) << lb) | (i >> 3)) for i in range(bits))
        if " ".join(lo[T].split()[1:]) != want:
            ctx.disagreements += 1
            broken.append(f"bitindex table {bits}: {lo[T]}")

    if known_size1:
        ctx.violation("GLWEBlindRetriever::alloc(infos, 1) allocates no accumulator: retrieve() of a one-element table panics in add_core "
                      "(split_at_mut(1) of an empty slice, 'mid > len') instead of returning the element",
                      {"witness": known_size1[0], "count": len(known_size1), "theorem": "C15.retrieve_instances (second conjunct)",
                       "rerun": "printf '1 retr1 be=fft64ref size=1 rsh=0 idxword=0 data=10\\n' | harness/target/release/pvh fheuint"}, True,
                      key="GLWEBlindRetriever:size=1")
    if broken or witness:
        ctx.log("broken:", *broken[:6])
        if witness:
            ctx.violation("encrypted integer operation decrypts to a value different from the u32 result", {"witness": witness, "broken": broken[:20],
                          "rerun": "./check C15 --tier " + ctx.tier}, True)
        else:
            ctx.violation("C15 obligation or correspondence no longer checks", {"broken": broken[:20]}, False)
    return ctx.finish(rule="one case = one end-to-end homomorphic evaluation on the real code (word: 2 x 32 circuit bootstraps + 32 circuits + packing); "
                           "distinct = (kind, op / indices / sign class, back end, multi-threaded?)")
