"""C15 — encrypted integers: bootstrap, word operations and bit surgery match u32.

Gate 1 (proof): lake build Poulpy.Props.C15 (bit_index bijection, pack/get_bit addressing, splice_u8/u16, sext,
        get_bit/get_byte bit positions over BitVec 32 for all inputs, decode, composition over abstract Cmux).
Gate 2 (correspondence): the real code end to end (`pvh fheuint`, the crate's own smallest test parameters: N=256,
        n_lwe=77, rank 2, FFT64 Ref/AVX) — encrypt packed words, prepare through circuit bootstrapping, apply every
        word operation, partial preparation (start, count), splice / sext / get_bit (GLWE and LWE paths) / swap at
        every index, re-preparation pipelines, per-cell GGSW noise of the circuit-bootstrapped bits — vs the Lean
        model (`pdriver fheuint`: plaintext-level slot model; word ops through the C13 circuit tables) vs u32
        arithmetic in Python.
"""
from . import common
from . import c13

M32 = 0xFFFFFFFF
BES = ["fft64ref", "fft64avx"]


def rotr(x, r):
    r %= 32
    return ((x >> r) | (x << (32 - r))) & M32


def rotl(x, r):
    return rotr(x, (32 - r) % 32)


def splice8(a, b, dst, src):
    return rotl((rotr(a, dst * 8) & 0xFFFFFF00) | (rotr(b, src * 8) & 0xFF), dst * 8)


def splice16(a, b, dst, src):
    return rotl((rotr(a, dst * 16) & 0xFFFF0000) | (rotr(b, src * 16) & 0xFFFF), dst * 16)


def sext(x, bits):
    lo = (x << (32 - bits) & M32) >> (32 - bits)
    hi = ((x >> bits) & 1) * ((0xFFFFFFFF << bits) & M32)
    return hi | lo


def run(ctx):
    rng = ctx.rng
    quick = ctx.tier == "quick"
    ctx.trusted += [
        "Model/FheUint.lean: plaintext-level slot model of rotate / trace / add / sub (noise dropped), tied end to end through decryption",
        "word operations: C13's circuit theorems + Cmux contract (C04); the model side of `word` is evalFlat on the generated tables",
    ]
    ctx.assumptions += [
        "noise growth through prepare -> evaluate -> pack -> prepare pipelines is observed (decryption stays exact over the sampled rounds), not proved",
        "circuit bootstrapping output cells: checked by the crate's own per-cell noise statistic against the test-suite bound, not by a theorem",
    ]
    broken = []
    witness = None
    ok, failures = ctx.proof_gate(["Poulpy.Props.C15"])
    broken += failures
    binp = ctx.build_harness()
    drv = ctx.driver()
    if binp is None or drv is None:
        ctx.violation("C15 machinery does not build", {"broken": broken + [getattr(ctx, "build_error", "")[-400:], getattr(ctx, "driver_error", "")[-400:]]}, False)
        return ctx.finish(rule="n/a")

    reqs = []     # (harness line body, model line body or None, python expectation or None, class key)

    def add(h, m, want, key):
        reqs.append((h, m, want, key))

    r = rng.fork()
    B = c13.BOUNDARY
    # ---- word operations (prepare both operands through circuit bootstrapping)
    n_rand = 4 if quick else 40
    for oi, op in enumerate(c13.OPS):
        pairs = [(r.choice(B), r.choice(B))] + c13.sample_pairs(r, 144 + n_rand)[144:]
        if op in ("sll", "srl", "sra"):
            pairs.append((r.next() & M32, r.choice([0, 1, 31, 32, 33, 63])))
        for pi, (a, b) in enumerate(pairs):
            be = BES[(oi + pi) % 2]
            th = r.choice([1, 1, 3, 4])
            add(f"word be={be} op={op} a={a} b={b} threads={th}", f"word op={op} a={a} b={b}", c13.spec(op, a, b), ("word", op, be, th > 1))
    # ---- partial preparation
    grid = [(0, 32), (0, 1), (31, 1), (5, 9), (8, 8), (16, 16), (1, 30), (7, 0 + 25)] if quick else \
        [(s, c) for s in range(0, 32, 3) for c in range(1, 33 - s, 4)] + [(0, 32), (31, 1)]
    for gi, (s, c) in enumerate(grid):
        a = r.choice([0xFFFFFFFF, r.next() & M32, 0xAAAAAAAA])
        want = a & (((1 << c) - 1) << s)
        add(f"prep be={BES[gi % 2]} a={a} start={s} count={c}", f"prep a={a} start={s} count={c}", want, ("prep", min(s, 2), min(c, 3), BES[gi % 2]))
    # ---- pipelines through re-preparation
    for k in range(1 if quick else 6):
        a, b = r.next() & M32, r.next() & M32
        rounds = 3 if quick else 6
        want = ",".join(str((a + (j + 1) * b) & M32) for j in range(rounds))
        add(f"reprep be={BES[k % 2]} a={a} b={b} rounds={rounds}", None, want, ("reprep", BES[k % 2]))
    # ---- bit surgery at every index
    vals = [0xFFFFFFFF, 0xAABBCCDD, 0x84838281, 0x44434241, 0, 0x80000000, 0x00FF00FF]
    k = 0
    for dst in range(4):
        for src in range(4):
            a, b = (r.choice(vals), r.choice(vals)) if r.chance(1, 2) else (r.next() & M32, r.next() & M32)
            add(f"splice8 be={BES[k % 2]} a={a} b={b} dst={dst} src={src}", f"splice8 a={a} b={b} dst={dst} src={src}", splice8(a, b, dst, src), ("splice8", dst, src))
            k += 1
    for dst in range(2):
        for src in range(2):
            for _ in range(1 if quick else 4):
                a, b = r.next() & M32, r.next() & M32
                add(f"splice16 be={BES[k % 2]} a={a} b={b} dst={dst} src={src}", f"splice16 a={a} b={b} dst={dst} src={src}", splice16(a, b, dst, src), ("splice16", dst, src))
                k += 1
    for byte in range(4):
        for a in ([0x84838281, 0x44434241] + [r.next() & M32 for _ in range(0 if quick else 4)]):
            add(f"sext be={BES[k % 2]} a={a} byte={byte}", f"sext a={a} byte={byte}", sext(a, 8 * (byte + 1) - 1), ("sext", byte, (a >> (8 * byte + 7)) & 1))
            k += 1
    a = r.next() & M32
    for i in range(32):
        if quick and i % 3 and i not in (0, 7, 8, 31):
            continue
        add(f"getbit be={BES[i % 2]} a={a} i={i}", f"getbit a={a} i={i}", (a >> i) & 1, ("getbit", i))
        add(f"getbitlwe be={BES[(i + 1) % 2]} a={a} i={i}", None, (a >> i) & 1, ("getbitlwe", i))
    for bit in (0, 1):
        a, b = r.next() & M32, r.next() & M32
        want = f"{b},{a}" if bit else f"{a},{b}"
        add(f"swap be={BES[bit]} a={a} b={b} bit={bit}", f"swap a={a} b={b} bit={bit}", want, ("swap", bit))
    cbt_vals = [0x84838281] if quick else [0x84838281, 0, 0xFFFFFFFF, r.next() & M32]
    for ci, a in enumerate(cbt_vals):
        add(f"cbt be={BES[ci % 2]} a={a}", None, None, ("cbt", BES[ci % 2]))

    lines = [f"{i} {h}" for i, (h, m, w, key) in enumerate(reqs)]
    rc, outl, err = ctx.run_lines(binp, ["fheuint"], lines, timeout=3000)
    mlines = [f"{i} fheuint {m}" for i, (h, m, w, key) in enumerate(reqs) if m is not None]
    rc2, mout, _ = ctx.run_lines(drv, [], mlines)
    model = {}
    for ln in mout:
        t = ln.split()
        if t:
            model[int(t[0])] = " ".join(t[1:])
    if rc != 0 or len(outl) != len(lines):
        broken.append(f"pvh fheuint failed rc={rc} {len(outl)}/{len(lines)} {err[-300:]}")
    else:
        hist = {}
        for i, (h, m, want, key) in enumerate(reqs):
            got = " ".join(outl[i].split()[1:])
            kind = key[0]
            hist[kind] = hist.get(kind, 0) + 1
            ctx.count_case(key)
            if kind == "cbt":
                # crate test bound: -(size*base2k) + log2(sigma) + 2 + 0.5*logN (+0.5*logN for the mask columns), sigma = 3.2, size*base2k = 39, logN = 8
                okc = got.startswith("ok ")
                worst = []
                if okc:
                    for cell in got[3:].split(","):
                        rc_, val = cell.split(":")
                        col = int(rc_.split(".")[1])
                        bound = -39 + 1.678 + 2 + 4 + (4 if col else 0)
                        worst.append((rc_, float(val), bound))
                        if float(val) > bound:
                            okc = False
                ctx.cov.setdefault("cbt_cell_noise_log2", []).append([(c, v) for c, v, b in worst])
                if not okc:
                    ctx.oracle_failures += 1
                    witness = witness or {"kind": "cbt", "line": lines[i], "implementation": got}
                continue
            exp = f"ok {want}"
            mv = model.get(i)
            if m is not None and mv != got:
                ctx.disagreements += 1
                if len(broken) < 20:
                    broken.append(f"{kind}: {h} implementation={got} model={mv}")
            if got != exp:
                ctx.oracle_failures += 1
                witness = witness or {"kind": kind, "line": lines[i], "implementation": got, "want": exp, "model": mv}
        ctx.cov["cases_by_kind"] = hist
        for i in (0, len(reqs) // 2):
            ctx.samples.append({"request": lines[i], "implementation": outl[i], "model": model.get(i)})

    # model-only: layout tables
    rc3, lo, _ = ctx.run_lines(drv, [], ["0 fheuint bitindex ty=u8", "1 fheuint bitindex ty=u16", "2 fheuint bitindex ty=u32"])
    for T, (bits, lb) in enumerate([(8, 0), (16, 1), (32, 2)]):
        want = "ok " + ",".join(str(((i & 7) << lb) | (i >> 3)) for i in range(bits))
        if " ".join(lo[T].split()[1:]) != want:
            ctx.disagreements += 1
            broken.append(f"bitindex table {bits}: {lo[T]}")

    if broken or witness:
        ctx.log("broken:", *broken[:6])
        if witness:
            ctx.violation("encrypted integer operation decrypts to a value different from the u32 result", {"witness": witness, "broken": broken[:20],
                          "rerun": "./check C15 --tier " + ctx.tier}, True)
        else:
            ctx.violation("C15 obligation or correspondence no longer checks", {"broken": broken[:20]}, False)
    return ctx.finish(rule="one case = one end-to-end homomorphic evaluation on the real code (word: 2 x 32 circuit bootstraps + 32 circuits + packing); "
                           "distinct = (kind, op / indices / sign class, back end, multi-threaded?)")
