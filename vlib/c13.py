"""C13 — compiled BDD circuits compute their 32-bit word functions for all inputs.

Gate 1 (translator): tools/gen_circuits.py regenerates the Lean tables from the Rust source.
Gate 2 (hook dump): the tables compiled into the crate (pvh circuits) equal the translator's parse.
Gate 3 (proof): lake build Poulpy.Props.C13 — 290 per-bit theorems + hand-written statements.
Gate 4 (correspondence): evalFlat (Lean driver) == table oracle with the Rust evaluator's
        stale-slot semantics (Python, bit-sliced) == u32 arithmetic on sampled pairs; and the real
        homomorphic evaluator at toy parameters (pvh bddeval) == evalFlat.
Failure search: bv_decide counter-examples, boundary classes and random pairs on the dumped tables.
"""
import os
import re
import subprocess
import sys

from . import common
from .common import VERIF, LEAN

OPS = ["add", "sub", "sll", "srl", "sra", "slt", "sltu", "and", "or", "xor", "identity"]
NS = {"add": "Add", "sub": "Sub", "sll": "Sll", "srl": "Srl", "sra": "Sra", "slt": "Slt", "sltu": "Sltu",
      "and": "And", "or": "Or", "xor": "Xor", "identity": "Identity"}
M32 = 0xFFFFFFFF


def s32(x):
    return x - (1 << 32) if x & 0x80000000 else x


def spec(op, a, b):
    if op == "add":
        return (a + b) & M32
    if op == "sub":
        return (a - b) & M32
    if op == "sll":
        return (a << (b & 31)) & M32
    if op == "srl":
        return a >> (b & 31)
    if op == "sra":
        return (s32(a) >> (b & 31)) & M32
    if op == "slt":
        return int(s32(a) < s32(b))
    if op == "sltu":
        return int(a < b)
    if op == "and":
        return a & b
    if op == "or":
        return a | b
    if op == "xor":
        return a ^ b
    if op == "identity":
        return a
    raise ValueError(op)


def parse_dump(text):
    """-> {op: {'in':..,'out':..,'bits':[(w,[nodes])]}}"""
    tabs = {}
    for line in text.split("\n"):
        t = line.split()
        if not t:
            continue
        if t[0] == "circuit":
            tabs[t[1]] = {"in": int(t[2][3:]), "out": int(t[3][4:]), "bits": []}
        elif t[0] == "bit":
            w = int(t[3][2:])
            nodes = []
            for x in t[5:]:
                if x[0] == "C":
                    b, h, l = x[1:].split(",")
                    nodes.append(("C", int(b), int(h), int(l)))
                else:
                    nodes.append((x,))
            tabs[t[1]]["bits"].append((w, nodes))
    return tabs


def structural_defect(op, tab):
    """The structural clauses of the property, evaluated directly on the dumped table.
    Returns a description of the first defect or None."""
    for i, (w, nodes) in enumerate(tab["bits"]):
        if w == 0:
            continue
        if len(nodes) == 0 or len(nodes) % w != 0:
            return f"{op} bit {i}: {len(nodes)} nodes is not a positive multiple of width {w}"
        defined = [True] * w
        levels = [nodes[k:k + w] for k in range(0, len(nodes), w)]
        for L, lv in enumerate(levels):
            nxt = [False] * w
            for j, n in enumerate(lv):
                if n[0] == "C":
                    if n[1] >= tab["in"] or n[1] >= 64:
                        return f"{op} bit {i} level {L} node {j}: input index {n[1]} out of range"
                    if n[2] >= w or n[3] >= w:
                        return f"{op} bit {i} level {L} node {j}: state index out of range (width {w})"
                    if not defined[n[2]] or not defined[n[3]]:
                        return f"{op} bit {i} level {L} node {j}: reads a slot the previous level left undefined"
                    nxt[j] = True
                elif n[0] == "P":
                    if not defined[j]:
                        return f"{op} bit {i} level {L} node {j}: copies an undefined slot"
                    nxt[j] = True
            defined = nxt
        if levels[-1][0][0] != "C":
            return f"{op} bit {i}: last level does not start with a Cmux"
    return None


def eval_sliced(w, nodes, inputs, ones):
    """Rust eval_level semantics (stale slots keep old contents), bit-sliced over samples."""
    if w == 0:
        return 0
    prev = [0] * w
    nxt = [0] * w
    if w > 1:
        prev[1] = ones
    levels = [nodes[k:k + w] for k in range(0, len(nodes), w)]
    for lv in levels[:-1]:
        for j, n in enumerate(lv):
            if n[0] == "C":
                sel = inputs[n[1]]
                nxt[j] = (sel & prev[n[2]]) | ((ones ^ sel) & prev[n[3]])
            elif n[0] == "P":
                nxt[j] = prev[j]
        prev, nxt = nxt, prev
    n = levels[-1][0]
    sel = inputs[n[1]]
    return (sel & prev[n[2]]) | ((ones ^ sel) & prev[n[3]])


def oracle_words(op, tab, pairs):
    """Output words of the dumped table on all pairs (Rust semantics)."""
    k = len(pairs)
    ones = (1 << k) - 1
    inputs = []
    for bit in range(64):
        v = 0
        if bit < 32:
            for idx, (a, b) in enumerate(pairs):
                if (a >> bit) & 1:
                    v |= 1 << idx
        else:
            for idx, (a, b) in enumerate(pairs):
                if (b >> (bit - 32)) & 1:
                    v |= 1 << idx
        inputs.append(v)
    outs = [0] * k
    for i, (w, nodes) in enumerate(tab["bits"][:tab["out"]]):
        r = eval_sliced(w, nodes, inputs, ones)
        for idx in range(k):
            if (r >> idx) & 1:
                outs[idx] |= 1 << i
    return outs


BOUNDARY = [0, 1, 2, 3, 31, 32, 33, 0x7FFFFFFF, 0x80000000, 0x80000001, 0xFFFFFFFF, 0xFFFFFFFE, 0x55555555,
            0xAAAAAAAA, 0x0000FFFF, 0xFFFF0000, 0x00010000, 0x7FFFFFFE] + [1 << k for k in range(2, 32, 3)]


def sample_pairs(rng, n):
    pairs = [(a, b) for a in BOUNDARY[:12] for b in BOUNDARY[:12]]
    while len(pairs) < n:
        cls = rng.below(6)
        a = rng.next() & M32
        b = rng.next() & M32
        if cls == 0:
            b = rng.below(64)                # shift amounts 0..63
        elif cls == 1:
            b = a ^ (1 << rng.below(32))     # differ in one bit (comparators)
        elif cls == 2:
            a = rng.choice(BOUNDARY)
        elif cls == 3:
            b = rng.choice(BOUNDARY)
        elif cls == 4:
            b = (a + rng.range(-2, 2)) & M32
        pairs.append((a, b))
    return pairs[:n]


def search(ctx, tabs, candidates, rng, budget):
    """Look for a concrete (op, a, b) on which the compiled table disagrees with the word
    operation.  candidates: {op: [(a,b)]} tried first."""
    for op in OPS:
        if op not in tabs:
            continue
        d = structural_defect(op, tabs[op])
        if d:
            return {"kind": "structural", "op": op, "defect": d}
    for op in OPS:
        if op not in tabs:
            continue
        pairs = list(candidates.get(op, [])) + sample_pairs(rng, budget)
        for off in range(0, len(pairs), 4096):
            chunk = pairs[off:off + 4096]
            got = oracle_words(op, tabs[op], chunk)
            for (a, b), g in zip(chunk, got):
                want = spec(op, a, b)
                if g != want:
                    bit = (g ^ want).bit_length() - 1
                    return {"kind": "value", "op": op, "a": a, "b": b, "want": want, "got": g, "first_wrong_bit_from_top": bit}
    return None


def run(ctx):
    rng = ctx.rng
    quick = ctx.tier == "quick"
    ctx.trusted += [
        "bv_decide: one axiom '<thm>._native.bv_decide.ax_*' per generated per-bit theorem (LRAT certificate from cadical, "
        "checked by Lean's verified checker run natively) — accepted for C13, listed under coverage.axioms",
        "tools/gen_circuits.py (translator; its parse is compared token-for-token with the tables compiled into the crate via the verif-hooks accessor)",
        "Model/Bdd.lean evalFlat as the reading of eval_level (tied by running the real homomorphic evaluator at toy parameters)",
    ]
    ctx.assumptions += ["Cmux(ggsw bit, hi, lo) selects hi for 1 and lo for 0 (C04), so the Boolean model of a level is the plaintext image of the homomorphic level"]
    broken = []          # names of obligations / correspondences that no longer check
    candidates = {}

    # ---- gate 1: translator
    dump_path = os.path.join(LEAN, ".lake", "c13_translator.dump")
    os.makedirs(os.path.dirname(dump_path), exist_ok=True)
    p = subprocess.run([sys.executable, os.path.join(VERIF, "tools", "gen_circuits.py"), "--repo", common.REPO,
                        "--dump", dump_path, "--list"], capture_output=True, text=True)
    gen_modules = [m for m in p.stdout.split("\n") if m]
    if p.returncode != 0:
        broken.append("translator: " + p.stderr.strip()[-600:])
    ctx.log(p.stderr.strip().split("\n")[-1] if p.stderr.strip() else "translator ok")
    tr_dump = open(dump_path).read() if os.path.exists(dump_path) else ""

    # ---- gate 2: compiled tables through the hook
    tabs = parse_dump(tr_dump)
    binp = ctx.build_harness()
    if binp is None:
        broken.append("harness build failed: " + getattr(ctx, "build_error", "")[-600:])
    else:
        rc, out, err = common.run([binp, "circuits"])
        if rc != 0:
            broken.append("pvh circuits failed")
        else:
            tabs = parse_dump(out)           # the compiled truth is what the search runs on
            if out != tr_dump:
                broken.append("translator output differs from the tables compiled into poulpy-bin-fhe (hook dump)")
            ctx.cov["hook_dump_bytes"] = len(out)

    # ---- gate 3: proofs
    # kernel-only route (no bv_decide axiom accepted) for the bitwise tables, reported separately
    ok_k, fail_k = ctx.proof_gate(["Poulpy.Props.C13Kernel"], allow_bv=False)
    kernel_thms = [t for t in ctx.theorems]
    kernel_axioms = {t: ctx.axioms.get(t) for t in kernel_thms}
    ok, failures = ctx.proof_gate(["Poulpy.Props.C13"], allow_bv=True)
    ctx.theorems = ctx.theorems + kernel_thms
    ctx.cov["property_theorems"] = ctx.theorems
    ctx.cov["kernel_only_theorems"] = {
        "module": "Poulpy.Props.C13Kernel",
        "theorems": kernel_thms,
        "axioms": kernel_axioms,
        "circuits_covered": 290,
        "circuits_total": 290,
        "covers": "all 290 per-bit circuits, all inputs, without bv_decide: and / or / xor (32 each, support {a_i, b_i}) and identity (32, "
                  "support {a_i}) by the support lemma (Lemmas/BddSupport.lean) + `decide +kernel`; add / sub (32 each, carry chain), "
                  "slt / sltu (1 each, comparison chain), sll / srl / sra (32 each, barrel shifter) by the verified checker "
                  "(Lemmas/BddSim.lean: `check_sound`, proved once) against specification automata (Lemmas/BddSpecs.lean, identified with the "
                  "BitVec operations once per family from core carry / shift lemmas) + `decide +kernel` of `checkFlat` on each regenerated table",
        "ok": ok_k,
    }
    if not ok_k:
        failures = list(failures) + list(fail_k)
        ok = False
    ctx.obligations += len(gen_modules)
    if ok:
        ctx.discharged += len(gen_modules)
    else:
        out = getattr(ctx, "build_output", "")
        bad = set(re.findall(r"^- (Poulpy\.Generated\.U32\.\w+B\d+)$", out, re.M))
        ctx.discharged += len([m for m in gen_modules if m not in bad])
        broken += failures
        # bv_decide counter-examples: "a = 0x..#32" lines following the failing file name
        for m in re.finditer(r"Poulpy/Generated/U32/(\w+?)B(\d+)\.lean[^\n]*\n(?:[^\n]*\n){0,12}?[^\n]*counterexample[^\n]*\n((?:\s*\w+ = \S+\n)+)", out):
            opn = [k for k, v in NS.items() if v == m.group(1)]
            vals = dict(re.findall(r"(\w+) = (\S+)", m.group(3)))

            def tonum(s):
                s = s.split("#")[0]
                return int(s, 16) if s.startswith("0x") else int(s)
            if opn:
                candidates.setdefault(opn[0], []).append((tonum(vals.get("a", "0")), tonum(vals.get("b", "0"))))
        ctx.cov["bv_decide_counterexamples"] = {k: v[:4] for k, v in candidates.items()}

    # ---- gate 4: correspondence
    n_pairs = 1024 if quick else 65536
    drv = ctx.driver()
    if drv is None:
        broken.append("model driver does not build")
    else:
        for op in OPS:
            if op not in tabs:
                continue
            pairs = sample_pairs(rng.fork(), n_pairs)
            lines = [f"{k} bdd {op} {a} {b}" for k, (a, b) in enumerate(pairs)]
            rc, outl, err = ctx.run_lines(drv, [], lines)
            model = [l.split()[1] if len(l.split()) > 1 else "?" for l in outl]
            table = oracle_words(op, tabs[op], pairs)
            for k, (a, b) in enumerate(pairs):
                want = spec(op, a, b)
                mv = model[k] if k < len(model) else "?"
                ctx.count_case((op, a.bit_length(), b.bit_length(), want.bit_length()), nontrivial=(a | b) != 0)
                if str(table[k]) != mv or table[k] != want:
                    ctx.disagreements += 1
                    if table[k] != want:
                        candidates.setdefault(op, []).append((a, b))
                    if len(broken) < 20:
                        broken.append(f"correspondence: {op}({a},{b}) model={mv} compiled-table={table[k]} u32={want}")
            if len(ctx.samples) < 11:
                ctx.samples.append({"op": op, "a": pairs[-1][0], "b": pairs[-1][1], "model": model[-1], "u32": spec(op, *pairs[-1])})

    # ---- gate 4b: the real homomorphic evaluator at toy parameters (reading of eval_level + bit numbering)
    if binp is not None and drv is not None:
        n_real = 120 if quick else 3000
        reqs = []
        r2 = rng.fork()
        for op in OPS:
            for (a, b) in sample_pairs(r2, 144 + n_real)[144:]:
                reqs.append((op, a, b))
            for _ in range(8):
                reqs.append((op, r2.choice(BOUNDARY), r2.choice(BOUNDARY)))
            if op in ("sll", "srl", "sra"):
                # every shift amount (incl. the ignored high bits of b) on sign / pattern classes of a
                for a in (0x80000000, 0xFFFF0000, 0x7FFFFFFF, 0x40000000, r2.next() & M32 | 0x80000000, r2.next() & M32):
                    for b in range(64):
                        reqs.append((op, a, b))
            if op in ("add", "sub", "slt", "sltu"):
                # long carry / borrow chains and sign combinations
                for k in range(32):
                    reqs.append((op, (1 << k) - 1, 1))
                    reqs.append((op, M32, (1 << k)))
                    reqs.append((op, 1 << k, (1 << k) - 1 if k else 0))
        lines = [f"{k} {op} {a} {b}" for k, (op, a, b) in enumerate(reqs)]
        rc, outl, err = ctx.run_lines(binp, ["bddeval"], lines, timeout=3000)
        if rc != 0:
            broken.append("pvh bddeval failed: " + err[-400:])
        else:
            mlines = [f"{k} bdd {op} {a} {b}" for k, (op, a, b) in enumerate(reqs)]
            rc2, mout, _ = ctx.run_lines(drv, [], mlines)
            n_ok = 0
            for k, (op, a, b) in enumerate(reqs):
                impl = outl[k].split()[1] if k < len(outl) and len(outl[k].split()) > 1 else "?"
                mv = mout[k].split()[1] if k < len(mout) and len(mout[k].split()) > 1 else "?"
                ctx.count_case(("real", op, a.bit_length(), b.bit_length()))
                if impl != mv:
                    ctx.disagreements += 1
                    broken.append(f"real evaluator: {op}({a},{b}) implementation={impl} model={mv}")
                    if impl != str(spec(op, a, b)):
                        ctx.real_fail = {"kind": "real-evaluator", "op": op, "a": a, "b": b, "got": impl, "want": spec(op, a, b)}
                else:
                    n_ok += 1
            ctx.cov["real_evaluator_words"] = len(reqs)
            ctx.cov["real_evaluator_agree"] = n_ok
            ctx.samples.append({"real_evaluator": True, "op": reqs[0][0], "a": reqs[0][1], "b": reqs[0][2], "implementation": outl[0] if outl else None})

    # ---- verdict
    if broken:
        ctx.log("broken:", *broken[:6])
        w = getattr(ctx, "real_fail", None) or search(ctx, tabs, candidates, rng.fork(), 20000 if quick else 400000)
        if w:
            ctx.violation("compiled circuit / evaluator disagrees with the word operation", {"witness": w, "broken": broken[:20],
                          "rerun": "./check C13 --tier quick"}, True)
        else:
            ctx.violation("C13 obligation or correspondence no longer checks", {"broken": broken[:20]}, False)
    ctx.cov["generated_bit_theorems"] = len(gen_modules)
    return ctx.finish(rule="pairs (op,a,b): 144 boundary×boundary + classes {random, shift amounts 0..63, one-bit difference, boundary a, "
                           "boundary b, b=a±2}; distinct = (op, bitlen a, bitlen b, bitlen result); non-trivial = (a|b)≠0; "
                           "each pair is evaluated by the Lean model, by the compiled table (Rust stale-slot semantics) and by u32 arithmetic; "
                           "'real' cases additionally run the homomorphic evaluator")
