"""C18 — serialisation round-trips, and rejects damaged input without corruption.

Gate 1 (proof): lake build Poulpy.Props.C18 (+ axiom audit).
Gate 2 (correspondence): for every serialisable type × layout grid × (source, receiver) pair
    * byte format: the model's `write` of a random object is read by the real reader and re-written by the
      real writer (and the other way round: the real writer's bytes are read and re-written by the model);
    * every truncation point (quick: all points in headers + every 8th elsewhere) and every header field
      replaced from the boundary dictionary (single fields, overflowing pairs, consistent resizes), read by the
      real code built with `release` and with `ovf` (overflow-checks on) and by the model: outcome class,
      unread byte count, re-serialised post-state (and, for the three HAL layouts, all dimension fields,
      buffer length and the whole buffer) must agree.
Oracle (independent of the model, evaluated on what the harness prints): no panic; post-state invariant
    (size <= max_size, n*cols*max_size*8 <= buffer, matrix analogue; the writer must accept the post-state);
    on error the re-serialisation equals the receiver's initial one (metadata unchanged).
Known defects are reported through keys (see docs/C18.md).
"""
import os
import resource
import subprocess

from . import common

U64 = 1 << 64
KEY_WRAPPER = "wrapper-read_from:metadata-assigned-before-inner-read"
KEY_CONTAINER = "container-read_from:elements-committed-before-a-later-element-fails"
KEY_ALLOC = "GGLWECompressed/GGSWCompressed::read_from:seed_len-unvalidated-allocation"
KEY_DIST = "poulpy-core/src/dist.rs:Distribution::write_to:f64-low-mantissa-byte-dropped"
MEM = 1 << 33          # RLIMIT_AS of the harness processes = the model's `mem`

# ----------------------------------------------------------------------------- wire schema (Python's own reading)
GG = [("u32",), ("u32",), ("leaf", "m")]
GGC = [("u32",), ("u32",), ("u32",), ("u32",), ("seeds",), ("leaf", "m")]
SCHEMA = {
    "vec": [("leaf", "v")], "scalar": [("leaf", "s")], "mat": [("leaf", "m")],
    "glwe": [("u32",), ("leaf", "v")], "lwe": [("u32",), ("leaf", "v")],
    "gglwe": GG, "ggsw": GG, "glwe_tensor_key": GG,
    "glwe_switching_key": [("u32",), ("u32",)] + GG,
    "lwe_switching_key": [("u32",), ("u32",)] + GG,
    "lwe_to_glwe_key": [("u32",), ("u32",)] + GG,
    "glwe_to_lwe_key": [("u32",), ("u32",)] + GG,
    "glwe_automorphism_key": [("u64",)] + GG,
    "glwe_public_key": [("dist",), ("u32",), ("leaf", "v")],
    "gglwe_to_ggsw_key": [("rep", GG)],
    "glwe_compressed": [("u32",), ("u32",), ("seed",), ("leaf", "v")],
    "lwe_compressed": [("u32",), ("u32",), ("seed",), ("leaf", "v")],
    "gglwe_compressed": GGC, "ggsw_compressed": GGC, "glwe_tensor_key_compressed": GGC,
    "glwe_switching_key_compressed": [("u32",), ("u32",)] + GGC,
    "lwe_switching_key_compressed": [("u32",), ("u32",)] + GGC,
    "lwe_to_glwe_key_compressed": [("u32",), ("u32",)] + GGC,
    "glwe_to_lwe_key_compressed": [("u32",), ("u32",)] + GGC,
    "glwe_automorphism_key_compressed": [("u64",)] + GGC,
    "gglwe_to_ggsw_key_compressed": [("rep", GGC)],
    "blind_rotation_key": [("dist",), ("rep", GG)],
    "blind_rotation_key_compressed": [("dist",), ("rep", GGC)],
    "circuit_bootstrapping_key": [("dist",), ("rep", GG), ("rep", [("key64",), ("u64",)] + GG), ("rep", GG)],
    "bdd_key": [("dist",), ("rep", GG), ("rep", [("key64",), ("u64",)] + GG), ("rep", GG), ("opt", [("u32",), ("u32",)] + GG), ("u32",), ("u32",)] + GG,
}
HAL = ("vec", "scalar", "mat")
LEAF_HDR = {"v": 5, "s": 3, "m": 6}          # u64 header words incl. len


class ParseError(Exception):
    pass


def le(b):
    return int.from_bytes(b, "little")


def parse(ty, data):
    """-> dict(F, S, L, hdr=[(off,width,kind)], end). L entries: (kind, [dims], len, payload bytes)."""
    st = {"F": [], "S": [], "L": [], "hdr": [], "pay": []}
    pos = [0]

    def take(n):
        if pos[0] + n > len(data):
            raise ParseError("short")
        b = data[pos[0]:pos[0] + n]
        pos[0] += n
        return b

    def walk(items):
        for it in items:
            k = it[0]
            if k in ("u32", "u64", "key64"):
                w = 4 if k == "u32" else 8
                st["hdr"].append((pos[0], w, "field"))
                st["F"].append(le(take(w)))
            elif k == "dist":
                st["hdr"].append((pos[0], 8, "dist"))
                word = le(take(8))
                tag, pl = word >> 56, word & ((1 << 56) - 1)
                if tag in (1, 3):
                    pl = (pl << 8) % U64
                elif tag in (5, 6):
                    pl = 0
                st["F"] += [tag, pl]
            elif k == "seed":
                st["S"].append((1, take(32)))
            elif k == "seeds":
                st["hdr"].append((pos[0], 4, "seedlen"))
                c = le(take(4))
                st["S"].append((c, take(32 * c)))
            elif k == "leaf":
                nw = LEAF_HDR[it[1]]
                base = pos[0]
                ws = []
                for i in range(nw):
                    st["hdr"].append((pos[0], 8, "leaf%s%d" % (it[1], i)))
                    ws.append(le(take(8)))
                ln = ws[-1]
                st["pay"].append((pos[0], ln))
                st["L"].append((it[1], ws[:-1], ln, take(ln), base))
            elif k == "opt":
                st["hdr"].append((pos[0], 1, "opttag"))
                tg = le(take(1))
                st["F"].append(tg)
                if tg == 1:
                    walk(it[1])
                elif tg != 0:
                    raise ParseError("opttag")
            elif k == "rep":
                st["hdr"].append((pos[0], 8, "count"))
                c = le(take(8))
                st["F"].append(c)
                if c > 64:
                    raise ParseError("count")
                for _ in range(c):
                    walk(it[1])
    walk(SCHEMA[ty])
    st["end"] = pos[0]
    return st


def hx(b):
    return b.hex() if b else "-"


def r64(x):
    return (x + 63) // 64 * 64


def leaf_txt(kind, dims, buf):
    return kind + ":" + ":".join(str(d) for d in dims) + ":" + hx(buf)


def st_txt(F, S, L):
    f = ",".join(str(x) for x in F) if F else "-"
    s = ";".join("%d:%s" % (c, hx(b)) for c, b in S) if S else "-"
    l = ";".join(L) if L else "-"
    return "F=%s S=%s L=%s" % (f, s, l)


def recv_state(ty, w0, hal_meta=None):
    """flat text state of a freshly allocated receiver from its serialisation (buffers padded to 64)."""
    p = parse(ty, w0)
    leaves = []
    for kind, dims, ln, pay, _ in p["L"]:
        buflen = r64(ln)
        if hal_meta is not None:
            buflen = hal_meta[-1]
        leaves.append((kind, dims, pay + bytes(buflen - len(pay))))
    return p, leaves


def leaf_inv(kind, dims, buflen):
    if kind == "v":
        n, cols, size, mx = dims
        return size <= mx and n * cols * mx * 8 <= buflen
    if kind == "s":
        n, cols = dims
        return n * cols * 8 <= buflen
    n, size, rows, ci, co = dims
    return rows * ci * n * co * size * 8 <= buflen


# ----------------------------------------------------------------------------- grids
def grids():
    g = {}
    g["vec"] = [(4, 2, 2, 2), (4, 2, 1, 3), (8, 3, 3, 3), (2, 1, 1, 1), (1, 1, 1, 5), (4, 1, 0, 2)]
    g["scalar"] = [(4, 2), (8, 3), (2, 1), (16, 1)]
    g["mat"] = [(4, 2, 2, 2, 2), (2, 1, 1, 1, 1), (4, 3, 1, 2, 3), (8, 2, 2, 3, 2)]
    glwe = [(4, 8, 16, 1), (4, 8, 24, 2), (8, 12, 12, 1), (2, 8, 24, 1)]
    g["glwe"] = glwe
    g["glwe_public_key"] = glwe
    g["glwe_compressed"] = glwe
    g["lwe"] = [(3, 8, 16), (7, 8, 24), (4, 12, 12)]
    g["lwe_compressed"] = [(8, 16), (8, 24), (12, 12)]
    gg = [(4, 8, 24, 1, 1, 2, 1), (4, 8, 24, 2, 1, 1, 2), (2, 8, 16, 1, 2, 1, 1), (8, 8, 24, 2, 2, 3, 1)]
    for t in ("gglwe", "glwe_switching_key", "gglwe_compressed", "glwe_switching_key_compressed"):
        g[t] = gg
    g6 = [(4, 8, 24, 1, 2, 1), (4, 8, 24, 2, 1, 2), (2, 8, 16, 1, 1, 1), (8, 8, 24, 2, 3, 1)]
    for t in ("ggsw", "glwe_automorphism_key", "glwe_tensor_key", "gglwe_to_ggsw_key", "ggsw_compressed",
              "glwe_automorphism_key_compressed", "glwe_tensor_key_compressed", "gglwe_to_ggsw_key_compressed"):
        g[t] = g6
    g5 = [(4, 8, 24, 1, 2), (4, 8, 24, 2, 1), (2, 8, 16, 1, 1), (8, 8, 24, 2, 3)]
    for t in ("lwe_to_glwe_key", "glwe_to_lwe_key", "lwe_to_glwe_key_compressed", "glwe_to_lwe_key_compressed"):
        g[t] = g5
    g4 = [(4, 8, 24, 2), (4, 8, 16, 1), (8, 8, 24, 3)]
    for t in ("lwe_switching_key", "lwe_switching_key_compressed"):
        g[t] = g4
    brk = [(4, 2, 8, 24, 2, 1), (4, 3, 8, 16, 1, 1), (2, 2, 8, 24, 1, 2), (8, 2, 8, 24, 2, 1)]
    g["blind_rotation_key"] = brk
    g["blind_rotation_key_compressed"] = brk
    # n_glwe, n_lwe, base2k, k, dnum, rank, dsize, k_atk [, has_ks_glwe]
    g["circuit_bootstrapping_key"] = [(4, 2, 8, 16, 1, 1, 1, 16), (8, 2, 8, 24, 2, 1, 1, 24), (2, 1, 8, 16, 1, 1, 1, 16)]
    g["bdd_key"] = [(4, 2, 8, 16, 1, 1, 1, 16, 1), (4, 2, 8, 16, 1, 1, 1, 16, 0), (8, 1, 8, 24, 2, 1, 1, 24, 1)]
    return g


DICT64 = [0, 1, 1 << 31, 1 << 32, 1 << 61, 1 << 63, U64 - 1]
DICT32 = [0, 1, 1 << 31, (1 << 32) - 1]


def put(data, off, width, val):
    return data[:off] + (val % (1 << (8 * width))).to_bytes(width, "little") + data[off + width:]


def mutations(ty, stream, rng, quick):
    """yield (class, bytes).  `stream` is a valid stream of type ty."""
    p = parse(ty, stream)
    hdr = p["hdr"]
    inhdr = set()
    for off, w, _ in hdr:
        inhdr.update(range(off, off + w + 1))
    for c, b in p["S"]:
        pass
    # truncations
    step = 8 if (quick or len(stream) > 4096) else 1          # thorough: every truncation point of objects up to 4 KiB
    n = len(stream)
    pts = sorted(set([x for x in inhdr if x <= n] + list(range(0, n, step)) + [n - 1, n]))
    # quick tier: thin the payload truncations of long streams
    for t in pts:
        if t < 0:
            continue
        if quick and t not in inhdr and n > 600 and (t // 8) % 4 != 0 and t < n - 1:
            continue
        yield ("trunc-hdr" if t in inhdr and t < n else ("trunc-pay" if t < n else "full"), stream[:t])
    # trailing bytes
    yield ("trailing", stream + b"\x01\x02\x03")
    # single-field substitutions
    for off, w, kind in hdr:
        v = le(stream[off:off + w])
        vals = (DICT32 if w == 4 else DICT64) + [v + 1, v - 1]
        if kind == "dist":
            vals = [(t << 56) | (v & ((1 << 56) - 1)) for t in (0, 1, 2, 3, 4, 5, 6, 7, 255)] + [U64 - 1, 0]
        if kind == "seedlen":
            vals = [0, 1, v + 1, v - 1, 1 << 10]          # the huge values are the separate alloc cases
        for x in vals:
            if x < 0:
                continue
            yield ("subst-" + kind.rstrip("0123456789"), put(stream, off, w, x))
    # leaf-level structured corruptions
    for kind, dims, ln, pay, base in p["L"]:
        nw = LEAF_HDR[kind]

        def leafput(words):
            s = stream
            for i, x in enumerate(words):
                s = put(s, base + 8 * i, 8, x)
            return s
        ws = dims + [ln]
        # overflowing products
        for (i, j, a, b) in [(0, 1, 1 << 32, 1 << 32), (0, 1, 1 << 61, 1), (0, 2 if nw > 3 else 1, 1 << 40, 1 << 30), (0, 1, 3, (1 << 63) + 1)]:
            w2 = list(ws)
            w2[i], w2[j] = a, b
            yield ("ovf-pair", leafput(w2))
            w3 = list(w2)
            prod = 8
            for x in (w2[:2] + [w2[2]] if kind == "v" else w2[:-1]):
                prod *= x
            w3[-1] = prod % U64            # len = wrapped product: passes an unchecked comparison
            yield ("ovf-wrapped-len", leafput(w3))
        if kind == "v":
            n_, c_, s_, m_ = dims
            # max_size 1000 over the actual buffer (the pre-fix witness), size>max_size, consistent growth
            for (s2, m2) in [(s_, 1000), (s_, s_ + 1), (s_ + 1, s_), (s_, U64 - 1), (s_, (1 << 61)), (s_ + 1, s_ + 1), (s_ + 8, s_ + 8), (0, 0), (0, m_)]:
                w2 = [n_, c_, s2, m2, n_ * c_ * s2 * 8]
                extra = n_ * c_ * s2 * 8 - ln
                body = leafput(w2)
                if extra > 0:
                    pos = base + 40 + ln
                    body = body[:pos] + bytes((7 * i + 1) & 255 for i in range(extra)) + body[pos:]
                yield ("vec-capacity", body)
            # same bytes, other factorisation of the same length
            yield ("vec-reshape", leafput([c_, n_, s_, m_, ln]))
            yield ("vec-reshape", leafput([n_ * c_, 1, s_, m_, ln]))
        elif kind == "m":
            n_, s_, r_, ci, co = dims
            yield ("mat-reshape", leafput([n_, r_, s_, ci, co, ln]))
            yield ("mat-reshape", leafput([1, 1, 1, 1, n_ * s_ * r_ * ci * co, ln]))
            w2 = [n_, s_ + 1, r_, ci, co, n_ * (s_ + 1) * r_ * ci * co * 8]
            extra = w2[-1] - ln
            body = leafput(w2)
            pos = base + 48 + ln
            yield ("mat-grow", body[:pos] + bytes(extra) + body[pos:])
        else:
            n_, c_ = dims
            yield ("scalar-reshape", leafput([c_, n_, ln]))
            w2 = [n_ + 1, c_, (n_ + 1) * c_ * 8]
            body = leafput(w2)
            pos = base + 24 + ln
            yield ("scalar-grow", body[:pos] + bytes(w2[-1] - ln) + body[pos:])
    # random byte flips inside headers
    for _ in range(4 if quick else 32):
        if not hdr:
            break
        off, w, kind = rng.choice(hdr)
        yield ("flip", put(stream, off + rng.below(w), 1, rng.below(256)))


def randomize(ty, p, rng):
    """random wrapper fields / seeds for an object parsed from a fresh allocation (dims and data kept)."""
    F = []
    it = iter(p["F"])
    schema_fields = []

    def walk(items, reps):
        for itx in items:
            k = itx[0]
            if k == "u32":
                schema_fields.append("u32")
            elif k == "u64":
                schema_fields.append("u64")
            elif k == "key64":
                schema_fields.append("count")
            elif k == "dist":
                schema_fields.extend(["tag", "pl"])
            elif k == "opt":
                schema_fields.append("count")
                if reps.pop(0) == 1:
                    walk(itx[1], reps)
            elif k == "rep":
                schema_fields.append("count")
                cnt = reps.pop(0)
                for _ in range(cnt):
                    walk(itx[1], reps)
    counts = []
    # counts are the fields sitting at 'count' positions: recover by a first pass
    pos = 0

    def first(items):
        nonlocal pos
        for itx in items:
            k = itx[0]
            if k in ("u32", "u64", "key64"):
                pos += 1
            elif k == "dist":
                pos += 2
            elif k == "opt":
                c = p["F"][pos]
                counts.append(c)
                pos += 1
                if c == 1:
                    first(itx[1])
            elif k == "rep":
                c = p["F"][pos]
                counts.append(c)
                pos += 1
                for _ in range(c):
                    first(itx[1])
    first(SCHEMA[ty])
    walk(SCHEMA[ty], list(counts))
    tag = None
    for kind, old in zip(schema_fields, p["F"]):
        if kind == "u32":
            F.append(rng.choice([rng.below(64), rng.below(1 << 32), (1 << 32) - 1, 0]))
        elif kind == "u64":
            F.append(rng.choice([rng.below(1 << 20), rng.next(), U64 - 1, (1 << 63) + 5]))
        elif kind == "tag":
            tag = rng.below(7)
            F.append(tag)
        elif kind == "pl":
            if tag in (0, 2, 4):
                F.append(rng.below(1 << 56) if rng.chance(3, 4) else rng.below(4096))
            elif tag in (1, 3):
                F.append((rng.next() >> 8) << 8)
            else:
                F.append(0)
        else:
            F.append(old)
    S = []
    for c, b in p["S"]:
        S.append((c, bytes(rng.below(256) for _ in range(32 * c))))
    return F, S


def seedpat(v, i):
    return bytes(((v * 31) + i * 7 + j * 13 + 1) & 255 for j in range(32))


def rt_expect(ty, p, v):
    """(expected wrapper fields, expected seed pattern value or None) of the real writer's stream for an object built by
    `pvh ser rt type=ty p=.. v=..`; None when the type's fields are not pinned here (checked through the model instead)."""
    v0 = v[0] if v else 0
    v1 = v[1] if len(v) > 1 else 0
    m32 = (1 << 32) - 1
    if ty in ("glwe", "lwe"):
        return [v0 & m32], None
    if ty == "gglwe":
        return [p[1], p[6]], None
    if ty in ("ggsw", "glwe_tensor_key"):
        return [p[1], p[5]], None
    if ty == "glwe_switching_key":
        return [v0 & m32, v1 & m32, p[1], p[6]], None
    if ty in ("lwe_switching_key", "lwe_to_glwe_key", "glwe_to_lwe_key"):
        return [v0 & m32, v1 & m32, p[1], 1], None
    if ty == "glwe_automorphism_key":
        return [v0 % U64, p[1], p[5]], None
    if ty == "glwe_public_key":
        tag, pl = v0, v1
        if tag in (0, 2, 4):
            pl = pl % (1 << 56)
        elif tag in (1, 3):
            pl = (pl >> 8) << 8
        else:
            pl = 0
        return [tag, pl, p[1]], None
    if ty == "gglwe_to_ggsw_key":
        return [p[3]] + [p[1], p[5]] * p[3], None
    if ty == "glwe_compressed":
        return [p[1], p[3]], v0
    if ty == "lwe_compressed":
        return [p[1], p[0]], None
    if ty == "gglwe_compressed":
        return [p[2], p[1], p[6], p[4]], v0
    if ty in ("ggsw_compressed", "glwe_tensor_key_compressed"):
        return [p[2], p[1], p[5], p[3]], v0
    if ty == "glwe_switching_key_compressed":
        return [v0 & m32, v1 & m32, p[2], p[1], p[6], p[4]], v0 ^ v1
    if ty == "glwe_automorphism_key_compressed":
        return [v0 % U64, p[2], p[1], p[5], p[3]], v1
    if ty == "gglwe_to_ggsw_key_compressed":
        return [p[3]] + [p[2], p[1], p[5], p[3]] * p[3], None
    if ty == "blind_rotation_key":
        return [6, 0, p[1]] + [p[2], 1] * p[1], None
    if ty == "blind_rotation_key_compressed":
        return [6, 0, p[1]] + [p[3], p[2], 1, p[5]] * p[1], None
    return None, None


RT_VALUES = {
    "u32": [[0, 0], [1, 2], [1 << 31, (1 << 32) - 1], [(1 << 32) - 1, 1 << 31], [12, 4096]],
    "p": [[U64 - 5], [5], [1 << 63], [(1 << 63) - 1], [0], [U64 - 1], [U64 - (1 << 31)]],
}


def rt_values(ty):
    if "automorphism" in ty:
        return [x + [7 * (k + 1)] for k, x in enumerate(RT_VALUES["p"])]
    if ty == "glwe_public_key":
        out = []
        for tag in range(7):
            for pl in (0, 1, 256, (1 << 56) - 1, 4602678819172646912, 4599075939470750515, 0x3FE0000000000100):
                if tag in (0, 2, 4) and pl >= (1 << 56):
                    continue          # a Hamming weight / block size >= 2^56 is not an admissible parameter
                out.append([tag, pl])
        return out
    return RT_VALUES["u32"]


def struct_sig(ty, p):
    """the values a reader only compares (container counts, map keys, option tag): part of the receiver's shape"""
    sig = []
    pos = [0]

    def walk(items):
        for itx in items:
            k = itx[0]
            if k in ("u32", "u64"):
                pos[0] += 1
            elif k == "dist":
                pos[0] += 2
            elif k == "key64":
                sig.append(("key", p["F"][pos[0]]))
                pos[0] += 1
            elif k == "opt":
                c = p["F"][pos[0]]
                sig.append(("opt", c))
                pos[0] += 1
                if c == 1:
                    walk(itx[1])
            elif k == "rep":
                c = p["F"][pos[0]]
                sig.append(("count", c))
                pos[0] += 1
                for _ in range(c):
                    walk(itx[1])
    walk(SCHEMA[ty])
    return sig


def leaf_need(kind, dims):
    if kind == "v":
        n, cols, size, mx = dims
        return (n * cols * mx * 8) if size <= mx else None
    if kind == "s":
        return dims[0] * dims[1] * 8
    n, size, rows, ci, co = dims
    return rows * ci * n * co * size * 8


def fits_capacity(ty, stream, recv_p, recv_leaves):
    """The property text's premise, decided from the stream and the receiver's CAPACITY (buffer lengths) and
    container shape only: 'a stream whose object fits the receiver's capacity'."""
    try:
        q = parse(ty, stream)
    except ParseError:
        return False
    if q["end"] != len(stream) or len(q["L"]) != len(recv_leaves):
        return False
    # the multiset of map keys / counts must be the receiver's (keys may arrive in any order; ours are sorted)
    if struct_sig(ty, q) != struct_sig(ty, recv_p):
        return False
    for (k, dims, ln, pay, _), (k0, d0, buf0) in zip(q["L"], recv_leaves):
        need = leaf_need(k, dims)
        if k != k0 or need is None or need > len(buf0) or need >= U64:
            return False
    return True


def split_seq_answer(line):
    """'id a | b | c' -> list of (outcome, dict)"""
    body = line.split(" ", 1)[1] if " " in line else ""
    out = []
    for piece in body.split(" | "):
        t = piece.split()
        d = {}
        for x in t[1:]:
            if "=" in x:
                k, v = x.split("=", 1)
                d[k] = v
        out.append((t[0] if t else "?", d))
    return out


def judge_sequence(ty, streams, answers, w0, recv_p, recv_leaves):
    """Oracle of the property text on the implementation's own answers for one receiver-reuse sequence.
    Returns (index of the first failing read, reason) or None.  Wrapper-field / container effects of an error are
    the recorded findings and are not judged here; the HAL layouts are judged strictly."""
    prev_w = hx(w0)
    prev_md = None
    for j, (data, (ho, hd)) in enumerate(zip(streams, answers)):
        if ho.startswith("panic") or ho == "?":
            return j, "panic / no answer: " + ho
        if fits_capacity(ty, data, recv_p, recv_leaves):
            if ho != "ok" or hd.get("rest") != "0":
                return j, f"a stream whose object fits the receiver's capacity was rejected ({ho}) after {j} earlier read(s)"
            if hd.get("W") != hx(data):
                return j, "accepted, but re-serialising the receiver does not give the stream's bytes (object not reproduced)"
        if ho.startswith("err") and ty in HAL:
            if hd.get("W") != prev_w or (prev_md is not None and (hd.get("M"), hd.get("D")) != prev_md):
                return j, "a rejected read changed the receiver"
        prev_w = hd.get("W")
        if "M" in hd:
            prev_md = (hd.get("M"), hd.get("D"))
    return None


def run_harness(ctx, binp, lines, limit=True):
    """run pvh ser under RLIMIT_AS = MEM.  Returns (rc, out_lines)."""
    def pre():
        if limit:
            resource.setrlimit(resource.RLIMIT_AS, (MEM, MEM))
    p = subprocess.run([binp, "ser"], input="\n".join(lines) + "\n", capture_output=True, text=True, preexec_fn=pre, env=common.ENV)
    out = p.stdout.split("\n")
    if out and out[-1] == "":
        out.pop()
    return p.returncode, out


def fields_of(ans):
    t = ans.split()
    d = {}
    for x in t[2:]:
        if "=" in x:
            k, v = x.split("=", 1)
            d[k] = v
    return (t[1] if len(t) > 1 else "?"), d


def run(ctx):
    rng = ctx.rng
    quick = ctx.tier == "quick"
    broken = []
    ctx.trusted += [
        "Model/Bytes.lean as the reading of the 3 HAL and 26 wrapper ReaderFrom/WriterTo impls (slice reader semantics)",
        "vlib/c18.py wire schema (independent third reading of the formats, used to mutate headers and to evaluate the invariant)",
    ]
    ctx.assumptions += [
        "reader object = byte slice / Cursor: a failing read_exact leaves the destination bytes untouched",
        "usize = 64 bit",
        "CircuitBootstrappingKey and BDDKey readers (HashMap / Option containers of modelled parts) are not modelled",
    ]
    ok, failures = ctx.proof_gate(["Poulpy.Props.C18"])
    if not ok:
        broken += failures
    drv = ctx.driver()
    bins = {}
    for prof in ("release", "ovf"):
        b = ctx.build_harness(prof)
        if b is None:
            broken.append(f"harness build failed ({prof}): " + getattr(ctx, "build_error", "")[-400:])
        else:
            bins[prof] = b
    if os.environ.get("C18_PVH"):          # self-test hook: judge another build of the harness (e.g. against a seeded copy of /repo)
        bins = {"release": os.environ["C18_PVH"]}
    if drv is None:
        broken.append("model driver does not build: " + getattr(ctx, "driver_error", "")[-400:])

    known_counts = {KEY_WRAPPER: 0, KEY_CONTAINER: 0, KEY_ALLOC: 0, KEY_DIST: 0}
    known_first = {}
    oracle_fail = []
    disagree = []
    classes = {}
    outcomes = {}

    if drv is not None and bins:
        G = grids()
        types = list(SCHEMA.keys())
        # ---- receivers / sources from the real allocator
        req = []
        index = []
        for ty in types:
            for pi, p in enumerate(G[ty]):
                req.append(f"{len(req)} new type={ty} p={','.join(map(str, p))} fill={1 + pi}")
                index.append((ty, pi))
        rc, out = run_harness(ctx, bins["release"], req)
        fresh = {}
        for (ty, pi), l in zip(index, out):
            o, d = fields_of(l)
            if o != "ok" or "W" not in d:
                broken.append(f"harness new failed: {ty} {G[ty][pi]}: {l[:120]}")
                continue
            w0 = bytes.fromhex(d["W"]) if d["W"] != "-" else b""
            meta = [int(x) for x in d["M"].split(",")] if "M" in d else None
            try:
                pz, leaves = recv_state(ty, w0, meta)
                if "D" in d:          # HAL layouts: the whole buffer is printed
                    leaves = [(leaves[0][0], leaves[0][1], bytes.fromhex(d["D"]) if d["D"] != "-" else b"")]
            except ParseError as e:
                broken.append(f"schema cannot parse fresh {ty}: {e}")
                continue
            fresh[(ty, pi)] = (w0, pz, leaves, meta)
        # ---- byte format, direction impl → model: model reads the real writer's bytes and re-writes them
        mlines = []
        mkeys = []
        for (ty, pi), (w0, pz, leaves, meta) in fresh.items():
            L = [leaf_txt(k, dms, bytes(len(buf))) for (k, dms, buf) in leaves]
            S0 = [(c, bytes(32 * c)) for c, b in pz["S"]]
            mlines.append(f"{len(mlines)} ser read type={ty} mem={MEM} {st_txt(pz['F'], S0, L)} in={hx(w0)}")
            mkeys.append((ty, pi))
        rc, mout, _ = ctx.run_lines(drv, [], mlines)
        for (ty, pi), l in zip(mkeys, mout):
            o, d = fields_of(l)
            w0 = fresh[(ty, pi)][0]
            ctx.count_case(("fmt-impl-to-model", ty, pi))
            if o != "ok" or d.get("W") != hx(w0) or d.get("rest") != "0":
                ctx.disagreements += 1
                disagree.append({"what": "model cannot reproduce the real writer's bytes", "type": ty, "p": G[ty][pi], "model": l[:300], "bytes": hx(w0)[:300]})

        # ---- sources written by the model, mutated, read by both
        cases = []          # (ty, src pi, recv pi, class, bytes)
        for ty in types:
            ps = [k for k in fresh if k[0] == ty]
            pairs = []
            for a in ps:
                for b in ps:
                    pairs.append((a[1], b[1]))
            # same, larger/smaller receivers; quick: limit the pair count
            rng2 = rng.fork()
            if quick and len(pairs) > 5:
                same = [(a, b) for a, b in pairs if a == b][:2]
                other = [(a, b) for a, b in pairs if a != b]
                pick = []
                while len(pick) < 3 and other:
                    pick.append(other.pop(rng2.below(len(other))))
                pairs = same + pick
            wl = []
            for (a, b) in pairs:
                w0, pz, leaves, meta = fresh[(ty, a)]
                F, S = randomize(ty, pz, rng2)
                L = [leaf_txt(k, dms, buf) for (k, dms, buf) in leaves]
                wl.append(f"{len(wl)} ser write type={ty} prof=ovf {st_txt(F, S, L)}")
            rc, wout, _ = ctx.run_lines(drv, [], wl)
            for (a, b), l in zip(pairs, wout):
                t = l.split()
                if len(t) < 2 or t[1].startswith(("err", "panic", "bad", "big")):
                    broken.append(f"model write failed for {ty}: {l[:100]}")
                    continue
                stream = bytes.fromhex(t[1]) if t[1] != "-" else b""
                try:
                    for cls, data in mutations(ty, stream, rng2, quick):
                        cases.append((ty, a, b, cls, data))
                except ParseError as e:
                    broken.append(f"schema cannot parse the model's stream of {ty}: {e}")
        ctx.log(f"{len(cases)} read cases over {len(types)} types")
        # model
        mlines = []
        for i, (ty, a, b, cls, data) in enumerate(cases):
            w0, pz, leaves, meta = fresh[(ty, b)]
            L = [leaf_txt(k, dms, buf) for (k, dms, buf) in leaves]
            mlines.append(f"{i} ser read type={ty} mem={MEM} {st_txt(pz['F'], pz['S'], L)} in={hx(data)}")
        rc, mout, _ = ctx.run_lines(drv, [], mlines)
        # implementation, both profiles.  Cases for which the model predicts an allocation failure abort the
        # process: they are run one per process (a few), the others in one batch per profile.
        hlines = []
        aborting = []
        for i, (ty, a, b, cls, data) in enumerate(cases):
            mo = mout[i].split()[1] if i < len(mout) and len(mout[i].split()) > 1 else "?"
            line = f"{i} read type={ty} p={','.join(map(str, G[ty][b]))} fill={1 + b} in={hx(data)}"
            if mo == "panic:alloc":
                aborting.append((i, line))
                hlines.append(f"{i} skip")
            else:
                hlines.append(line)
        houts = {}
        if os.environ.get("C18_DUMP"):
            open(os.environ["C18_DUMP"], "w").write("\n".join(hlines) + "\n")
        for prof, binp in bins.items():
            rc, out = run_harness(ctx, binp, hlines)
            if len(out) != len(hlines):
                broken.append(f"harness ({prof}) stopped after {len(out)} of {len(hlines)} cases (rc={rc})")
            houts[prof] = out
        for (i, line) in aborting[:6 if quick else 64]:
            rc, out = run_harness(ctx, bins["release"], [line])
            ho = out[0].split()[1] if out else ("panic:alloc" if rc in (-6, 134) else "?")
            ty = cases[i][0]
            ctx.count_case((ty, "seedlen-alloc-mutation", ho))
            if ho != "panic:alloc":
                ctx.disagreements += 1
                disagree.append({"type": ty, "class": cases[i][3], "model": "panic:alloc", "impl": ho, "in": hx(cases[i][4])[:400]})
            else:
                known_counts[KEY_ALLOC] += 1
                known_first.setdefault(KEY_ALLOC, {"type": ty, "p": G[ty][cases[i][2]], "in": hx(cases[i][4])[:400], "exit": rc,
                                                   "observed": "process abort (memory allocation failed)", "rlimit_as": MEM})
        for i, (ty, a, b, cls, data) in enumerate(cases):
            w0, pz, leaves, meta = fresh[(ty, b)]
            mo, md = fields_of(mout[i]) if i < len(mout) else ("?", {})
            classes[cls] = classes.get(cls, 0) + 1
            outcomes[mo] = outcomes.get(mo, 0) + 1
            ctx.count_case((ty, cls, mo, a == b), nontrivial=True)
            for prof, out in houts.items():
                if i >= len(out):
                    continue
                ho, hd = fields_of(out[i])
                if ho == "skip" or out[i].endswith(" bad-op"):
                    continue
                # (1) model vs implementation
                same = (ho == mo and hd.get("rest") == md.get("rest") and hd.get("W") == md.get("W"))
                if same and ty in HAL and "M" in hd:
                    ml = md.get("L", "")
                    parts = ml.split(":")
                    mm = ",".join(parts[1:-1]) + "," + str(0 if parts[-1] == "-" else len(parts[-1]) // 2)
                    same = (mm == hd["M"] and parts[-1] == hd.get("D"))
                if not same:
                    ctx.disagreements += 1
                    if len(disagree) < 20:
                        disagree.append({"type": ty, "src": G[ty][a], "recv": G[ty][b], "class": cls, "profile": prof, "in": hx(data)[:600],
                                         "model": mout[i][:400] if i < len(mout) else None, "impl": out[i][:400]})
                # (2) oracle on the implementation's own output
                bad = None
                if ho.startswith("panic") or ho.startswith("alloc-panic") or ho == "?":
                    bad = "panic / no answer: " + ho
                elif hd.get("W", "").startswith(("err", "panic")):
                    bad = "post-state rejected by the writer (dimensions exceed the buffer): " + hd.get("W", "")
                else:
                    try:
                        if hd.get("W") == "big":          # > 2^20 bytes of seeds: not re-serialised (both sides)
                            raise ParseError("big")
                        post = parse(ty, bytes.fromhex(hd["W"]) if hd.get("W", "-") != "-" else b"")
                        for (k, dims, ln, pay, _), (k0, d0, buf0) in zip(post["L"], leaves):
                            if not leaf_inv(k, dims, len(buf0)):
                                bad = f"invariant violated after {ho}: leaf {k} dims={dims} buffer={len(buf0)}"
                        if ty in HAL and "M" in hd:
                            mvals = [int(x) for x in hd["M"].split(",")]
                            if not leaf_inv(leaves[0][0], mvals[:-1], mvals[-1]):
                                bad = f"invariant violated after {ho}: M={hd['M']}"
                    except (ParseError, ValueError, KeyError) as e:
                        if str(e) == "big" and ho.startswith("err"):
                            known_counts[KEY_WRAPPER] += 1
                        else:
                            bad = f"post-state serialisation unparsable: {e}"
                    if bad is None and ho.startswith("err") and hd.get("W") != hx(w0):
                        # metadata changed although an error was returned
                        if ty in HAL:
                            bad = "HAL reader changed the receiver although it returned an error"
                        else:
                            same_leaves = [(k, d_, pay) for (k, d_, ln, pay, _) in post["L"]] == [(k, d_, pay) for (k, d_, ln, pay, _) in pz["L"]]
                            key = KEY_WRAPPER if same_leaves else KEY_CONTAINER
                            known_counts[key] += 1
                            known_first.setdefault(key, {"type": ty, "recv": G[ty][b], "class": cls, "in": hx(data)[:400], "profile": prof,
                                                         "outcome": ho, "receiver_before": hx(w0)[:400], "receiver_after": hd.get("W", "")[:400]})
                if bad:
                    ctx.oracle_failures += 1
                    if len(oracle_fail) < 20:
                        oracle_fail.append({"type": ty, "src": G[ty][a], "recv": G[ty][b], "class": cls, "profile": prof, "why": bad,
                                            "in": hx(data)[:600], "impl": out[i][:400]})
            if len(ctx.samples) < 8 and cls.startswith(("subst", "vec-cap")) and i % 997 == 0:
                ctx.samples.append({"type": ty, "recv": G[ty][b], "class": cls, "in": hx(data)[:160], "model": mout[i][:160] if i < len(mout) else None})

        # ---- receiver reuse: ONE receiver, 2..4 successive reads of streams of different shapes
        vl, vkeys = [], []
        rng3 = rng.fork()
        for (ty, a), (w0, pz, leaves, meta) in fresh.items():
            F, S = randomize(ty, pz, rng3)
            L = [leaf_txt(k, dms, buf) for (k, dms, buf) in leaves]
            vl.append(f"{len(vl)} ser write type={ty} prof=ovf {st_txt(F, S, L)}")
            vkeys.append((ty, a))
        rc, vout, _ = ctx.run_lines(drv, [], vl)
        valid = {}
        for k_, l in zip(vkeys, vout):
            t = l.split()
            if len(t) > 1 and not t[1].startswith(("err", "panic", "bad", "big")):
                valid[k_] = bytes.fromhex(t[1]) if t[1] != "-" else b""
        seqs = []           # (ty, recv pi, pattern, [streams])
        for ty in types:
            ps = sorted(a for (t_, a) in valid if t_ == ty)
            for b in ps:
                w0, pz, leaves, meta = fresh[(ty, b)]
                fit = sorted([a for a in ps if fits_capacity(ty, valid[(ty, a)], pz, leaves)], key=lambda a: len(valid[(ty, a)]))
                nofit = [a for a in ps if a not in fit]
                own = valid[(ty, b)]
                if len(fit) >= 2:
                    sm, lg = valid[(ty, fit[0])], valid[(ty, fit[-1])]
                    seqs.append((ty, b, "small-then-large", [sm, lg]))
                    seqs.append((ty, b, "large-small-large", [lg, sm, lg]))
                    seqs.append((ty, b, "small-fail-large", [sm, lg[:max(1, len(lg) // 2)], lg]))
                    seqs.append((ty, b, "small-corrupt-large", [sm, put(lg, 0, 1, lg[0] ^ 0x80) if ty in HAL else lg[:3], lg, sm]))
                if nofit and fit:
                    seqs.append((ty, b, "nofit-then-fit", [valid[(ty, nofit[0])], valid[(ty, fit[-1])]]))
                    seqs.append((ty, b, "fit-nofit-fit", [valid[(ty, fit[0])], valid[(ty, nofit[-1])], valid[(ty, fit[-1])]]))
                try:
                    resh = [d_ for c_, d_ in mutations(ty, own, rng3, True) if c_.endswith("reshape")][:2]
                except ParseError:
                    resh = []
                for r_ in resh:
                    seqs.append((ty, b, "reshape-then-own", [r_, own, r_]))
                pool = [valid[(ty, a)] for a in ps] + resh + [own[:len(own) // 3], own + b"\x00"]
                for _ in range(2 if quick else 12):
                    seqs.append((ty, b, "random", [rng3.choice(pool) for _ in range(rng3.range(2, 4))]))
        ml, hl = [], []
        for i, (ty, b, pat, sts) in enumerate(seqs):
            w0, pz, leaves, meta = fresh[(ty, b)]
            L = [leaf_txt(k, dms, buf) for (k, dms, buf) in leaves]
            ins = ";".join(hx(x) for x in sts)
            ml.append(f"{i} ser seq type={ty} mem={MEM} {st_txt(pz['F'], pz['S'], L)} in={ins}")
            hl.append(f"{i} seq type={ty} p={','.join(map(str, G[ty][b]))} fill={1 + b} in={ins}")
        rc, smod, _ = ctx.run_lines(drv, [], ml)
        seq_fail = []
        for prof, binp in bins.items():
            rc, sout = run_harness(ctx, binp, hl)
            if len(sout) != len(hl):
                broken.append(f"harness seq ({prof}) stopped after {len(sout)} of {len(hl)} sequences")
            for i, (ty, b, pat, sts) in enumerate(seqs):
                if i >= len(sout) or i >= len(smod):
                    break
                w0, pz, leaves, meta = fresh[(ty, b)]
                ha = split_seq_answer(sout[i])
                ma = split_seq_answer(smod[i])
                if prof == "release":
                    ctx.count_case(("seq", ty, pat, tuple(o for o, _ in ma)))
                # (1) model vs implementation, every read of the sequence
                for j, ((ho, hd), (mo, md)) in enumerate(zip(ha, ma)):
                    same = (ho == mo and hd.get("rest") == md.get("rest") and hd.get("W") == md.get("W"))
                    if same and ty in HAL and "M" in hd:
                        parts = md.get("L", "").split(":")
                        mm = ",".join(parts[1:-1]) + "," + str(0 if parts[-1] == "-" else len(parts[-1]) // 2)
                        same = (mm == hd["M"] and parts[-1] == hd.get("D"))
                    if same and "A" in md:      # capacity-only acceptance predicate of the model vs the real outcome
                        same = (md["A"] == ("1" if ho == "ok" else "0"))
                    if not same:
                        ctx.disagreements += 1
                        if len(disagree) < 20:
                            disagree.append({"type": ty, "recv": G[ty][b], "class": "reuse:" + pat, "read": j, "profile": prof,
                                             "streams": [hx(x)[:300] for x in sts], "model": str(ma[j])[:300], "impl": str(ha[j])[:300]})
                        break
                # (2) the property text's oracle on the implementation alone, then shrink to the shortest failing sequence
                v = judge_sequence(ty, sts, ha, w0, pz, leaves)
                if v is not None and len(seq_fail) < 6:
                    j, why = v
                    best = (sts[:j + 1], why)
                    # candidates: every sub-sequence of the earlier reads (in order) followed by the failing read
                    cands = []
                    for mask in range(1 << j):
                        sub = [sts[t_] for t_ in range(j) if (mask >> t_) & 1] + [sts[j]]
                        cands.append(sub)
                    cands.sort(key=len)
                    cl = [f"{c_} seq type={ty} p={','.join(map(str, G[ty][b]))} fill={1 + b} in={';'.join(hx(x) for x in sub)}" for c_, sub in enumerate(cands)]
                    rc2, cout = run_harness(ctx, binp, cl)
                    for sub, l2 in zip(cands, cout):
                        v2 = judge_sequence(ty, sub, split_seq_answer(l2), w0, pz, leaves)
                        if v2 is not None and v2[0] == len(sub) - 1:
                            best = (sub, v2[1])
                            break
                    sub, why = best
                    ctx.oracle_failures += 1
                    seq_fail.append({"type": ty, "recv": G[ty][b], "class": "reuse:" + pat, "profile": prof, "why": why,
                                     "shortest_failing_sequence": [hx(x) for x in sub], "reads": len(sub),
                                     "receiver_capacity_bytes": [len(bf) for (_, _, bf) in leaves],
                                     "stream_sizes": [len(x) for x in sub],
                                     "rerun": f"printf '0 seq type={ty} p={','.join(map(str, G[ty][b]))} fill={1 + b} in=<streams joined by ;>\\n' | harness/target/release/pvh ser"})
                elif v is not None:
                    ctx.oracle_failures += 1
        ctx.cov["reuse_sequences"] = len(seqs)
        ctx.cov["reuse_reads"] = sum(len(x[3]) for x in seqs)
        if seq_fail:
            oracle_fail[:0] = seq_fail

        # ---- allocation from an unvalidated seed_len: one process per case (the process aborts)
        alloc_cases = []
        for ty in ("gglwe_compressed", "ggsw_compressed", "glwe_switching_key_compressed", "blind_rotation_key_compressed"):
            if (ty, 0) not in fresh:
                continue
            w0, pz, leaves, meta = fresh[(ty, 0)]
            off = [o for o, w, k in pz["hdr"] if k == "seedlen"][0]
            for v in ((1 << 32) - 1, 1 << 31):
                alloc_cases.append((ty, put(w0, off, 4, v)[:off + 4 + 7]))
        for ty, data in alloc_cases:
            w0, pz, leaves, meta = fresh[(ty, 0)]
            L = [leaf_txt(k, dms, buf) for (k, dms, buf) in leaves]
            rc, mo_, _ = ctx.run_lines(drv, [], [f"0 ser read type={ty} mem={MEM} {st_txt(pz['F'], pz['S'], L)} in={hx(data)}"])
            mo = mo_[0].split()[1] if mo_ else "?"
            rc, out = run_harness(ctx, bins["release"], [f"0 read type={ty} p={','.join(map(str, G[ty][0]))} fill=1 in={hx(data)}"])
            ho = out[0].split()[1] if out else ("panic:alloc" if rc < 0 or rc == 134 else "?")
            ctx.count_case((ty, "seedlen-alloc", mo))
            if ho != mo:
                ctx.disagreements += 1
                disagree.append({"type": ty, "class": "seedlen-alloc", "model": mo, "impl": ho, "rc": rc, "in": hx(data)})
            if not (ho == "ok" or ho.startswith("err")):
                known_counts[KEY_ALLOC] += 1
                known_first.setdefault(KEY_ALLOC, {"type": ty, "p": G[ty][0], "in": hx(data), "exit": rc, "observed": "process abort (memory allocation failed)" if not out else ho,
                                                   "rlimit_as": MEM})

        # ---- implementation-level round trip: known field values (negative / extreme), real writer -> real reader,
        #      object equality + every exposed field + the writer's header fields against the construction parameters
        rl = []
        rmeta = []
        for ty in types:
            for pi, pp in enumerate(G[ty][:2]):
                for v in rt_values(ty):
                    rl.append(f"{len(rl)} rt type={ty} p={','.join(map(str, pp))} v={','.join(map(str, v))} fill={3 + pi}")
                    rmeta.append((ty, pp, v))
        rt_fail = []
        for prof, binp in bins.items():
            rc, out = run_harness(ctx, binp, rl)
            if len(out) != len(rl):
                broken.append(f"harness rt ({prof}) stopped after {len(out)} of {len(rl)} cases")
            for (ty, pp, v), l in zip(rmeta, out):
                ho, hd = fields_of(l)
                if prof == "release":
                    ctx.count_case(("rt", ty, tuple(x.bit_length() for x in v)))
                why = None
                if ho != "ok" or hd.get("rest") != "0":
                    why = f"the real reader does not accept the real writer's bytes: {ho}"
                elif hd.get("fa") != hd.get("fb"):
                    why = f"object written with [{hd.get('fa')}] reads back as [{hd.get('fb')}]"
                elif hd.get("eq") != "1":
                    why = "object read back is != the object written (fields printed are equal: difference is in data / seeds / unexposed fields)"
                elif hd.get("same_bytes") != "1":
                    why = "re-serialising the object read back gives different bytes"
                if why is None:
                    try:
                        pw = parse(ty, bytes.fromhex(hd["W"]))
                        expF, seedv = rt_expect(ty, list(pp), v)
                        if expF is not None and pw["F"] != expF:
                            why = f"writer's header fields {pw['F']} differ from the construction values {expF}"
                        if why is None and seedv is not None:
                            k0 = 0
                            for c, bts in pw["S"]:
                                want = b"".join(seedpat(seedv, i) for i in range(c))
                                if bts != want:
                                    why = "writer's seed bytes differ from the seeds set on the object"
                    except (ParseError, ValueError, KeyError) as e:
                        why = f"writer's stream unparsable: {e}"
                if why:
                    if ty == "glwe_public_key" and v[0] in (1, 3) and v[1] % 256 != 0 and "dist:" in why:
                        known_counts[KEY_DIST] += 1
                        known_first.setdefault(KEY_DIST, {"type": ty, "v": v, "why": why})
                        continue
                    ctx.oracle_failures += 1
                    if len(rt_fail) < 20:
                        rt_fail.append({"type": ty, "p": list(pp), "v": v, "profile": prof, "why": why, "impl": l[:500],
                                        "rerun": f"printf '0 rt type={ty} p={','.join(map(str, pp))} v={','.join(map(str, v))}\\n' | harness/target/release/pvh ser"})
        ctx.cov["round_trip_cases"] = len(rl)
        if rt_fail:
            oracle_fail += rt_fail

        # ---- Distribution round trip on the real code
        dl = []
        dcases = []
        for tag in range(7):
            for bits in [0, 1, 255, 256, 4599075939470750515, 4602678819172646912, (1 << 56) - 1, 1 << 56, U64 - 1, rng.next(), (rng.next() >> 8) << 8]:
                dcases.append((tag, bits))
                dl.append(f"{len(dl)} dist tag={tag} bits={bits}")
        rc, out = run_harness(ctx, bins["release"], dl)
        for (tag, bits), l in zip(dcases, out):
            t = l.split()
            ctx.count_case(("dist", tag, bits.bit_length() // 8, bits % 256 == 0))
            # model of dist.rs
            if tag in (0, 2, 4):
                word = ((tag << 56) | bits) % U64
            elif tag in (1, 3):
                word = (tag << 56) | (bits >> 8)
            else:
                word = tag << 56
            rt, rp = word >> 56, word & ((1 << 56) - 1)
            if rt in (1, 3):
                rp = (rp << 8) % U64
            elif rt in (5, 6):
                rp = 0
            want = f"ok {word.to_bytes(8, 'little').hex()} {rt},{rp}" if rt <= 6 else f"err:invalid {word.to_bytes(8, 'little').hex()}"
            got = " ".join(t[1:4]) if rt <= 6 else " ".join(t[1:3])
            if got != want:
                ctx.disagreements += 1
                disagree.append({"class": "dist", "tag": tag, "bits": bits, "model": want, "impl": l})
            equal = (t[-1] == "equal=1")
            admissible = (tag in (0, 2, 4) and bits < (1 << 56)) or tag in (5, 6) or tag in (1, 3)
            if admissible and not equal:
                if tag in (1, 3) and bits % 256 != 0:
                    known_counts[KEY_DIST] += 1
                    known_first.setdefault(KEY_DIST, {"tag": tag, "f64_bits": bits, "value": "TernaryProb(0.3)" if bits == 4599075939470750515 else None,
                                                      "written_word": t[2] if len(t) > 2 else None, "read_back": t[3] if len(t) > 3 else None})
                else:
                    ctx.oracle_failures += 1
                    oracle_fail.append({"class": "dist", "tag": tag, "bits": bits, "impl": l})

    ctx.cov["mutation_classes"] = classes
    ctx.cov["model_outcomes"] = outcomes
    ctx.cov["known_defect_hits"] = known_counts
    ctx.cov["types"] = sorted(SCHEMA.keys())
    ctx.cov["profiles"] = sorted(bins.keys())
    # ---- verdict
    for key, cnt in known_counts.items():
        if cnt:
            ctx.violation(f"{key} ({cnt} cases)", {"key": key, "count": cnt, "first": known_first.get(key), "rerun": "./check C18 --tier quick"}, True, key=key)
    if oracle_fail:
        ctx.violation("serialisation property violated on the implementation's own output",
                      {"failures": oracle_fail[:20], "model_disagreements": disagree[:10], "rerun": "./check C18 --tier quick"}, True)
    elif disagree:
        ctx.violation("model and implementation disagree (C18 correspondence)", {"disagreements": disagree[:20], "broken": broken[:10]}, False)
    if broken and not disagree and not oracle_fail:
        ctx.log("broken:", *broken[:6])
        ctx.violation("C18 obligation or machinery no longer checks", {"broken": broken[:20]}, False)
    return ctx.finish(rule="case = (type, source layout, receiver layout, mutation class, bytes); distinct = (type, mutation class, model outcome, "
                           "receiver==source layout); every case is read by the model and by the real reader in the release and ovf profiles; "
                           "non-trivial = all (streams carry random fields, seeds and data)")
