"""C08 — limb representation: normalisation, shifts and integer encoding are exact.

Gate 1 (proof): lake build Poulpy.Props.C08 + axiom audit.
Gate 2 (correspondence): `pvh norm` (real HAL code, four back ends, N in {1,2,4,8}) == `pdriver norm`
        (Lean model) limb for limb on (i) exhaustive small scopes, (ii) structured random cases over
        radix pairs 1..62, sizes 1..6, offsets in the +-(a_bits+2b) window, value classes.
Gate 3 (property oracle, independent of the model): exact torus relation / digit range / round trip /
        frame evaluated in Python big integers on the implementation's own outputs.
Oracle failures inside the documented gap region are reported with key
`vec_znx_normalize/rsh:gap-region`; every other failure is reported with its own key (a key not
listed in known_findings.json is a VIOLATION).
"""
from fractions import Fraction

from . import common  # noqa: F401

BES = ["fft64ref", "fft64avx", "ntt120ref", "ntt120avx"]
GAP_KEY = "vec_znx_normalize/rsh:gap-region"

# ----------------------------------------------------------------------------- exact arithmetic


def val(b, limbs):
    v = 0
    for x in limbs:
        v = (v << b) + x
    return v


def shifted(b, limbs, off):
    """value val(limbs) * 2^(off - b*len) as (num, log): num / 2^log, log >= 0"""
    a = val(b, limbs)
    lg = b * len(limbs) - off
    if lg >= 0:
        return a, lg
    return a << (-lg), 0


def tadd(t1, t2, sign=1):
    (n1, l1), (n2, l2) = t1, t2
    lg = max(l1, l2)
    return (n1 << (lg - l1)) + sign * (n2 << (lg - l2)), lg


def torus_dist(x, px, t):
    """distance on R/Z between x/2^px and t = (num, log): returns (d, m) meaning d / 2^m"""
    tn, tl = t
    m = px + tl
    d = ((x << tl) - (tn << px)) % (1 << m)
    if d > (1 << (m - 1)):
        d = (1 << m) - d
    return d, m


def balanced_digits(b, v, size):
    """balanced base-2^b expansion of v over `size` digits (msb first) and the carry out"""
    ds = []
    for _ in range(size):
        d = ((v + (1 << (b - 1))) % (1 << b)) - (1 << (b - 1))
        ds.append(d)
        v = (v - d) >> b
    return ds[::-1], v


def wrap(bits, x):
    h = 1 << (bits - 1)
    return ((x + h) % (1 << bits)) - h


# ----------------------------------------------------------------------------- cases


class Case:
    __slots__ = ("op", "p", "a", "res", "n", "cls", "bes", "tag", "big")

    def __init__(self, op, p, a, res, cls, bes, tag=""):
        self.op, self.p, self.a, self.res, self.cls, self.bes, self.tag = op, p, a, res, cls, bes, tag
        self.n = len(a)
        self.big = op.startswith("big_")

    def col(self, coefs):
        if not coefs or not coefs[0]:
            return "-"
        size = len(coefs[0])
        return "|".join(",".join(str(c[j]) for c in coefs) for j in range(size))

    def line(self, ident, be):
        p = self.p
        s = [str(ident), "norm", self.op, "be=" + be, "n=%d" % self.n]
        s += ["%s=%d" % (k, v) for k, v in p.items()]
        a = self.a
        if self.big and be.startswith("fft64"):
            a = [[wrap(64, x) for x in c] for c in a]
        s.append("a=" + self.col(a))
        if self.res is not None:
            s.append("res=" + self.col(self.res))
        return " ".join(s)

    def a_for(self, be):
        if self.big and be.startswith("fft64"):
            return [[wrap(64, x) for x in c] for c in self.a]
        return self.a


def parse_col(s, n):
    """answer column -> per-coefficient limb lists"""
    if s == "-":
        return [[] for _ in range(n)]
    limbs = [[int(x) for x in l.split(",")] for l in s.split("|")]
    return [[l[i] for l in limbs] for i in range(n)]


def in_gap(c):
    p = c.p
    if c.op in ("normalize", "big_normalize", "big_normalize_add", "big_normalize_sub", "big_normalize_negate"):
        rs = p["rs"] if "rs" in p else len(c.res[0])
        lo = p["off"] // p["ab"]
        return -lo * p["ab"] > rs * p["rb"]
    if c.op in ("rsh", "rsh_add", "rsh_sub"):
        return -(-p["k"] // p["b"]) > len(c.res[0])
    return False


def oracle(c, be, out_coefs):
    """Evaluate the property on the implementation's output.  Returns list of (coef index, kind, err_ulp)."""
    p = c.p
    op = c.op
    fails = []
    a_all = c.a_for(be)
    for i, out in enumerate(out_coefs):
        a = a_all[i]
        r0 = c.res[i] if c.res is not None else None
        digits = False
        if op in ("normalize", "big_normalize", "big_normalize_negate", "big_normalize_add", "big_normalize_sub"):
            rb, ab, off = p["rb"], p["ab"], p["off"]
            t = shifted(ab, a, off)
            struct_log = ab * len(a) - off
            if op == "big_normalize_negate":
                t = (-t[0], t[1])
            elif op == "big_normalize_add":
                t = tadd(shifted(rb, r0, 0), t)
            elif op == "big_normalize_sub":
                t = tadd(shifted(rb, r0, 0), t, -1)
            else:
                digits = rb == ab
            b_out = rb
        elif op in ("lsh", "lsh_add", "lsh_sub", "rsh", "rsh_add", "rsh_sub", "lsh_assign", "rsh_assign", "normalize_assign"):
            b_out = p["b"]
            off = 0 if op == "normalize_assign" else (p["k"] if op.startswith("lsh") else -p["k"])
            t = shifted(b_out, a, off)
            struct_log = b_out * len(a) - off
            if op.endswith("_add"):
                t = tadd(shifted(b_out, r0, 0), t)
            elif op.endswith("_sub"):
                t = tadd(shifted(b_out, r0, 0), t, -1)
            else:
                digits = True
        else:
            continue
        px = b_out * len(out)
        d, m = torus_dist(val(b_out, out), px, t)
        tl = t[1]
        # one unit of the last output limb = 2^-px  <=>  d / 2^m <= 2^-px  <=>  d <= 2^tl
        err = d / (1 << tl) if tl < 1000 else float(Fraction(d, 1 << tl))
        if d > (1 << tl):
            fails.append((i, "value", err))
        elif struct_log <= px and d != 0:
            fails.append((i, "inexact-with-enough-limbs", err))
        elif digits and any(not (-(1 << (b_out - 1)) <= x < (1 << (b_out - 1))) for x in out):
            fails.append((i, "digit-range", err))
        else:
            fails.append((i, None, err))
    return fails


# ----------------------------------------------------------------------------- value classes

CLASSES = ["normalised", "all-max", "all-min", "alternating", "headroom", "sparse", "zero", "ripple", "out-of-range", "wide"]


def gen_coef(rng, cls, b, size, big128):
    h = 1 << (b - 1)
    H = (1 << 120) if big128 else (1 << 62)
    if cls == "normalised":
        return [rng.below(2 * h) - h for _ in range(size)]
    if cls == "all-max":
        return [h - 1] * size
    if cls == "all-min":
        return [-h] * size
    if cls == "alternating":
        s = rng.below(2)
        return [(h - 1) if (j + s) % 2 == 0 else -h for j in range(size)]
    if cls == "headroom":
        return [rng.choice([H, -H, H - 1, -(H - 1), H >> 1, rng.below(2 * H + 1) - H]) for _ in range(size)]
    if cls == "sparse":
        v = [0] * size
        v[rng.below(size)] = rng.choice([1, -1, h - 1, -h, h, rng.below(4 * h + 1) - 2 * h])
        return v
    if cls == "zero":
        return [0] * size
    if cls == "ripple":
        s = rng.choice([1, -1])
        v = [s * (h - 1) if s > 0 else -h for _ in range(size)]
        v[-1] = h if s > 0 else -h - 1
        return v
    if cls == "out-of-range":
        return [rng.below(4 * h + 1) - 2 * h for _ in range(size)]
    # wide: un-normalised accumulator of random magnitude
    e = rng.range(b, 119 if big128 else 61)
    return [rng.below((2 << e) + 1) - (1 << e) for _ in range(size)]


def pick_n(rng, bes_all=True):
    return rng.choice([2, 4, 8, 8, 4, 1] if bes_all else [2, 4, 8])


def bes_for(n, which=None):
    bes = [b for b in BES if not (n == 1 and b.startswith("fft64"))]
    return bes if which is None else [b for b in bes if b in which]


def pick_off(rng, ab, a_size, rb, rs):
    w = ab * a_size + 2 * ab
    sp = [0, ab, -ab, ab - 1, -(ab - 1), ab * a_size, -(ab * a_size), -(rb * rs), rb * rs, -(rb * rs) - 1, -(rb * rs) + 1, w, -w]
    if rng.chance(1, 3):
        o = rng.choice(sp)
        return max(-w, min(w, o))
    if rng.chance(1, 12):
        # far below the output: exercises the cap of the gap loop (carry fixed point)
        return -(rb * rs) - rng.choice([64, 65, 127, 128, 129, 200, 1000, 70 * ab, 130 * ab + 3])
    return rng.range(-w, w)


# ----------------------------------------------------------------------------- generators


def gen_exhaustive(rng, bmax, smax, full):
    """All digit values in [-2^b, 2^b], all offsets in the window, all (ab, rb) <= bmax, sizes <= smax.
    `full` = every vector; otherwise a stratified 1/stride sample of the value vectors."""
    cases = []
    for ab in range(1, bmax + 1):
        vals = list(range(-(1 << ab), (1 << ab) + 1))
        for a_size in range(1, smax + 1):
            vecs = [[]]
            for _ in range(a_size):
                vecs = [v + [x] for v in vecs for x in vals]
            if not full and len(vecs) > 96:
                stride = len(vecs) // 96 + 1
                start = rng.below(stride)
                vecs = vecs[start::stride] + [vecs[0], vecs[-1]]
            chunks = []
            for i in range(0, len(vecs), 8):
                ch = list(vecs[i:i + 8])
                while len(ch) not in (1, 2, 4, 8):
                    ch.append(ch[-1])
                chunks.append(ch)
            w = ab * a_size + 2 * ab
            for rs in range(1, smax + 1):
                for rb in range(1, bmax + 1):
                    # window of offsets, plus offsets far below the result: the carry crosses a gap of about
                    # 63..129 bits (rounding shift by < word, = word, > word for i64 and for i128)
                    far = [-(rb * rs) - g for g in (63, 64, 65, 127, 128, 129)]
                    for off in list(range(-w, w + 1)) + far:
                        for ch in (chunks if off >= -w else chunks[::3]):
                            n = len(ch)
                            cases.append(Case("normalize", {"rb": rb, "rs": rs, "off": off, "ab": ab}, ch, None, "exhaustive",
                                              bes_for(n), "exh"))
                            cases.append(Case("big_normalize", {"rb": rb, "rs": rs, "off": off, "ab": ab}, ch, None, "exhaustive",
                                              bes_for(n), "exh"))
                # shifts (same radix)
                for k in range(0, w + 1):
                    for ch in chunks:
                        n = len(ch)
                        zero = [[0] * rs for _ in range(n)]
                        for op in ("lsh", "rsh"):
                            cases.append(Case(op, {"b": ab, "k": k}, ch, zero, "exhaustive", bes_for(n), "exh"))
            for k in range(0, w + 1):
                for ch in chunks:
                    for op in ("lsh_assign", "rsh_assign"):
                        cases.append(Case(op, {"b": ab, "k": k, "scr": 0}, ch, None, "exhaustive", bes_for(len(ch)), "exh"))
            for ch in chunks:
                cases.append(Case("normalize_assign", {"b": ab}, ch, None, "exhaustive", bes_for(len(ch)), "exh"))
    return cases


def gen_random(rng, count):
    cases = []
    ops = ["normalize", "normalize", "normalize", "big_normalize", "big_normalize", "big_normalize_add", "big_normalize_sub",
           "big_normalize_negate", "normalize_assign", "lsh", "lsh_add", "lsh_sub", "lsh_assign", "rsh", "rsh_add", "rsh_sub",
           "rsh_assign"]
    for _ in range(count):
        op = rng.choice(ops)
        n = pick_n(rng)
        bes = bes_for(n)
        cls = rng.choice(CLASSES)
        a_size = rng.range(1, 6)
        rs = rng.range(1, 6)
        ab = rng.range(1, 62)
        if rng.chance(1, 4):
            ab = rng.choice([1, 2, 3, 4, 17, 50, 61, 62])
        big = op.startswith("big_")
        if op in ("normalize", "big_normalize", "big_normalize_add", "big_normalize_sub", "big_normalize_negate"):
            rel = rng.below(4)
            rb = ab if rel < 2 else rng.range(1, 62)
            off = pick_off(rng, ab, a_size, rb, rs)
            # 128-bit value classes only make sense for the i128 accumulator; FFT64 lines wrap them to i64
            a = [gen_coef(rng, cls, ab, a_size, big and cls in ("headroom", "wide") and rng.chance(1, 2)) for _ in range(n)]
            p = {"rb": rb, "off": off, "ab": ab}
            res = None
            if op in ("big_normalize_add", "big_normalize_sub"):
                rcls = rng.choice(["normalised", "out-of-range", "zero", "all-min", "all-max"])
                res = [gen_coef(rng, rcls, rb, rs, False) for _ in range(n)]
            else:
                p["rs"] = rs
            if big and any(abs(x) >= (1 << 63) for c in a for x in c):
                bes = [b for b in bes if b.startswith("ntt120")]
            p["scr"] = rng.choice([0, 0, 5, -3, 1 << 40, -(1 << 62)])
            cases.append(Case(op, p, a, res, cls, bes))
        elif op == "normalize_assign":
            cases.append(Case(op, {"b": ab, "scr": rng.choice([0, 0, 5, -3, 1 << 40, -(1 << 62)])},
                              [gen_coef(rng, cls, ab, a_size, False) for _ in range(n)], None, cls, bes))
        else:
            w = ab * a_size + 2 * ab
            k = rng.range(0, w) if rng.chance(2, 3) else rng.choice([0, ab, ab - 1, ab + 1, ab * a_size, ab * rs, ab * rs + 1, w])
            k = max(0, min(k, w))
            if op.startswith("rsh") and rng.chance(1, 12):
                k = ab * max(rs, a_size) + rng.choice([64, 65, 128, 200, 1000, 70 * ab + 1])
            a = [gen_coef(rng, cls, ab, a_size, False) for _ in range(n)]
            if op.endswith("_assign"):
                # the scratch area is not the caller's to clean: a dirty scratch (scr != 0) must not matter
                p = {"b": ab, "k": k, "scr": rng.choice([0, 0, 5, -3, 1 << 40, -(1 << 62)])}
                cases.append(Case(op, p, a, None, cls, bes))
            else:
                if op in ("lsh", "rsh"):
                    res = [[0] * rs for _ in range(n)]
                else:
                    rcls = rng.choice(["normalised", "out-of-range", "zero", "all-min", "all-max"])
                    res = [gen_coef(rng, rcls, ab, rs, False) for _ in range(n)]
                cases.append(Case(op, {"b": ab, "k": k, "scr": rng.choice([0, 0, 5, -3, 1 << 40, -(1 << 62)])}, a, res, cls, bes))
    return cases


CORPUS = [
    # the recorded gap-region witness: b=3, a=[-4], res_size=1, offset=-4 gives [-2], correct rounding 0
    Case("normalize", {"rb": 3, "rs": 1, "off": -4, "ab": 3}, [[-4], [-4]], None, "corpus", BES, "corpus"),
    Case("rsh", {"b": 3, "k": 4}, [[-4], [-4]], [[0], [0]], "corpus", BES, "corpus"),
    Case("big_normalize", {"rb": 3, "rs": 1, "off": -4, "ab": 3}, [[-4]], None, "corpus", ["ntt120ref", "ntt120avx"], "corpus"),
    Case("normalize", {"rb": 4, "rs": 1, "off": -7, "ab": 3}, [[-4], [3]], None, "corpus", BES, "corpus"),
]

# ----------------------------------------------------------------------------- encode / decode


def cont_str(cols):
    """cols: list of columns, each = list of limbs, each = list of n coefficients"""
    return ";".join("|".join(",".join(str(x) for x in limb) for limb in col) for col in cols)


def parse_cont(s):
    return [[[int(x) for x in limb.split(",")] for limb in col.split("|")] for col in s.split(";")]


def gen_codec(rng, quick):
    """encode cases: (line-builder dict).  Every (b, k) with 2<=b<=62, k in {1.., <b, m*b, size*b} over sizes."""
    cases = []
    bs = list(range(2, 63))
    for b in bs:
        for size in ([1, 2, 3, 6] if not quick else [rng.choice([1, 2]), rng.choice([3, 4, 5, 6])]):
            kmax = size * b
            ks = {1, 2, b - 1, b, b + 1, kmax, kmax - 1, max(1, kmax - b + 1), rng.range(1, kmax), rng.range(1, kmax)}
            if not quick:
                ks |= set(range(1, min(kmax, 2 * b + 2) + 1))
                ks |= {m * b for m in range(1, size + 1)}
            for k in sorted(x for x in ks if 1 <= x <= kmax):
                for wide in (False, True):
                    n = rng.choice([2, 4, 8])
                    bits = 128 if wide else 64
                    lim = 1 << (bits - 1)
                    cand = [(1 << (k - 1)), -(1 << (k - 1)), (1 << (k - 1)) - 1, -(1 << (k - 1)) - 1,
                            (1 << k) >> 2, -((1 << k) >> 2), ((1 << k) >> 2) - 1, -(((1 << k) >> 2) - 1), 0, 1, -1,
                            (1 << k), -(1 << k) + 1, lim - 1, -lim]
                    data = []
                    for _ in range(n):
                        if rng.chance(1, 2):
                            v = rng.choice(cand)
                        else:
                            e = rng.range(0, min(k + 2, bits - 1))
                            v = rng.below((2 << e)) - (1 << e)
                        data.append(max(-lim, min(lim - 1, v)))
                    tot = rng.range(size, min(6, size + 2)) if size < 6 else 6
                    col = rng.below(2)
                    g = [[[rng.below(1 << 40) - (1 << 39) for _ in range(n)] for _ in range(tot)] for _ in range(2)]
                    form = rng.choice(["vec", "vec", "coeff"]) if not wide else "vec"
                    cases.append({"b": b, "k": k, "n": n, "tot": tot, "col": col, "bits": bits, "data": data, "v": g,
                                  "form": form, "idx": rng.below(n), "size": -(-k // b)})
    return cases


def run_codec(ctx, binp, drv, quick, broken, fails):
    rng = ctx.rng.fork()
    cases = gen_codec(rng, quick)
    # phase 1: encode
    lines = []
    for i, c in enumerate(cases):
        base = f"{i} norm %s n={c['n']} b={c['b']} col={c['col']} k={c['k']} v={cont_str(c['v'])}"
        if c["form"] == "coeff":
            lines.append(base % "enc_coeff_i64" + f" idx={c['idx']} x={c['data'][c['idx']]}")
        elif c["bits"] == 64:
            lines.append(base % "enc_i64" + " data=" + ",".join(str(x) for x in c["data"]))
        else:
            lines.append(base % "enc_i128" + " data=" + ",".join(str(x) for x in c["data"]))
    rc, impl, err = ctx.run_lines(binp, ["norm"], lines)
    rc2, model, err2 = ctx.run_lines(drv, [], lines)
    if rc != 0 or rc2 != 0 or len(impl) != len(lines) or len(model) != len(lines):
        broken.append(f"codec phase 1: harness rc={rc} driver rc={rc2} lines={len(lines)}/{len(impl)}/{len(model)} {err[-300:]}")
        return
    dec_lines = []
    dec_meta = []
    for i, c in enumerate(cases):
        iv = impl[i].split(" ", 1)[1] if " " in impl[i] else "?"
        mv = model[i].split(" ", 1)[1] if " " in model[i] else "?"
        ctx.count_case(("enc", c["form"], c["bits"], c["b"], c["k"] % c["b"] == 0, c["size"], c["tot"] - c["size"]))
        if iv != mv:
            ctx.disagreements += 1
            if len(broken) < 30:
                broken.append(f"correspondence: {lines[i][:300]} impl={iv[:200]} model={mv[:200]}")
        if iv.startswith("panic") or iv.startswith("err"):
            fails.append(("encode:panic", lines[i], iv, None))
            continue
        out = parse_cont(iv)
        # frame
        oc = 1 - c["col"]
        if out[oc] != c["v"][oc]:
            fails.append(("encode:frame-column", lines[i], iv, None))
        if c["form"] == "coeff":
            for j in range(c["tot"]):
                for t in range(c["n"]):
                    if t != c["idx"] and out[c["col"]][j][t] != c["v"][c["col"]][j][t]:
                        fails.append(("encode_coeff:frame-coefficient", lines[i], iv, None))
        # decode requests on the implementation's own output
        dv = cont_str(out)
        base = f"norm %s n={c['n']} b={c['b']} col={c['col']} k={c['k']} v={dv}"
        if c["form"] == "coeff":
            dec_lines.append(f"{len(dec_lines)} " + base % "dec_coeff_i64" + f" idx={c['idx']}")
            dec_meta.append((i, "coeff"))
        else:
            dec_lines.append(f"{len(dec_lines)} " + base % ("dec_i64" if c["bits"] == 64 else "dec_i128"))
            dec_meta.append((i, "vec"))
        if i % 7 == 0:
            dec_lines.append(f"{len(dec_lines)} " + base % "dec_float")
            dec_meta.append((i, "float"))
    # extra decode cases on arbitrary (not encoded) limbs: model equality + exact rational for dec_float
    for _ in range(200 if quick else 3000):
        b = rng.range(2, 62)
        n = rng.choice([2, 4])
        tot = rng.range(1, 6)
        k = rng.range(1, tot * b)
        cls = rng.choice(["normalised", "out-of-range", "wide", "headroom"])
        coefs = [gen_coef(rng, cls, b, tot, False) for _ in range(n)]
        col = [[c[j] for c in coefs] for j in range(tot)]
        base = f"norm %s n={n} b={b} col=0 k={k} v={cont_str([col])}"
        op = rng.choice(["dec_i64", "dec_i128", "dec_coeff_i64", "dec_float"])
        dec_lines.append(f"{len(dec_lines)} " + base % op + (" idx=1" if op == "dec_coeff_i64" else ""))
        dec_meta.append((None, "raw:" + op, b, coefs))
    rc, impl2, err = ctx.run_lines(binp, ["norm"], dec_lines)
    rc2, model2, err2 = ctx.run_lines(drv, [], dec_lines)
    if rc != 0 or rc2 != 0 or len(impl2) != len(dec_lines) or len(model2) != len(dec_lines):
        broken.append(f"codec phase 2: harness rc={rc} driver rc={rc2} {err[-300:]}")
        return
    for j, meta in enumerate(dec_meta):
        iv = impl2[j].split(" ", 1)[1] if " " in impl2[j] else "?"
        mv = model2[j].split(" ", 1)[1] if " " in model2[j] else "?"
        if iv != mv:
            ctx.disagreements += 1
            if len(broken) < 30:
                broken.append(f"correspondence: {dec_lines[j][:300]} impl={iv[:200]} model={mv[:200]}")
        if meta[0] is None:
            ctx.count_case(("dec-raw", meta[1], meta[2]))
            if meta[1] == "raw:dec_float" and not iv.startswith("panic"):
                b, coefs = meta[2], meta[3]
                for t, pe in enumerate(iv.split(",")):
                    m, e = (int(x) for x in pe.split(":"))
                    want = Fraction(val(b, coefs[t]), 1 << (b * len(coefs[t])))
                    got = Fraction(m) * (Fraction(2) ** e)
                    if want != got:
                        fails.append(("decode_vec_float:not-exact-rational", dec_lines[j], iv, None))
            continue
        c = cases[meta[0]]
        kind = meta[1]
        ctx.count_case(("dec", kind, c["bits"], c["b"], c["k"] % c["b"] == 0, c["size"]))
        if iv.startswith("panic") or iv.startswith("err"):
            fails.append(("decode:panic", dec_lines[j], iv, None))
            continue
        if kind == "float":
            out = parse_cont(dec_lines[j].split(" v=")[1].split(" ")[0])[c["col"]]
            for t, pe in enumerate(iv.split(",")):
                m, e = (int(x) for x in pe.split(":"))
                limbs = [out[l][t] for l in range(c["tot"])]
                if Fraction(val(c["b"], limbs), 1 << (c["b"] * c["tot"])) != Fraction(m) * (Fraction(2) ** e):
                    fails.append(("decode_vec_float:not-exact-rational", dec_lines[j], iv, None))
            continue
        got = [int(x) for x in iv.split(",")]
        idxs = [c["idx"]] if kind == "coeff" else list(range(c["n"]))
        for g, t in zip(got, idxs):
            v = c["data"][t]
            k, b, bits = c["k"], c["b"], c["bits"]
            mod = 1 << min(k, bits)
            if (g - v) % mod != 0:
                fails.append(("encode/decode:not-congruent-mod-2^k", dec_lines[j], iv, {"v": v, "got": g, "k": k, "b": b}))
                continue
            lsh = (b - k % b) % b
            _, carry = balanced_digits(b, v << lsh, c["size"])
            if (carry == 0 or abs(v) < (1 << k) >> 2) and g != v:
                fails.append(("encode/decode:not-exact-although-balanced-expansion-fits", dec_lines[j], iv,
                              {"v": v, "got": g, "k": k, "b": b}))
    ctx.samples.append({"codec": lines[0][:240], "implementation": impl[0][:200], "decode": dec_lines[0][:200] + " -> " + impl2[0][:80]})
    ctx.cov["codec_encode_cases"] = len(cases)
    ctx.cov["codec_decode_cases"] = len(dec_lines)


# ----------------------------------------------------------------------------- main


def cross_branches(bits, rb, rs, off, ab, a_size):
    """Branch labels of `vec_znx_normalize_cross_base2k` (model: `normalizeCrossCoef`) taken on these parameters.
    The loop counters are data independent, so this replica of the counters (not of the arithmetic) is enough
    to say which branches a case exercises.  Coverage instrumentation only: nothing is checked with it, except
    that the replica never runs out of the model's inner-loop fuel (the Lean theorem `normalize_cross_terminates`)."""
    def clamp(x, hi):
        return 0 if x < 0 else min(x, hi)
    out = set()
    a_tot, res_tot = a_size * ab, rs * rb
    lo = off // ab
    res_end_bit = clamp(-lo * ab, res_tot)
    res_start_bit = clamp(a_tot - lo * ab, res_tot)
    a_end_bit = clamp(lo * ab, a_tot)
    a_start_bit = clamp(res_tot + lo * ab, a_tot)
    res_end, res_start = res_end_bit // rb, (res_start_bit + rb - 1) // rb
    a_end, a_start = a_end_bit // ab, (a_start_bit + ab - 1) // ab
    # the offset classes of the proof (Lemmas/NormCross5..7)
    if res_start == 0:
        out.add("class:all-shifted-out")
        return out
    if lo >= 0:
        out.add("class:P(limbs_offset>=0)")
    elif -lo * ab >= res_tot:
        out.add("class:N1(below-the-result)")
    else:
        out.add("class:N2(overlap)")
    out.add("lsh!=0" if off % ab else "lsh=0")
    out.add("dropped-limbs" if a_start < a_size else "no-dropped-limbs")
    gap = max(0, -lo * ab - res_tot)
    out.add("gap:none" if gap == 0 else ("gap:rounding-shift" if gap < bits else "gap:beyond-word(carry:=0)"))
    mid = max(0, a_start - a_end)
    if mid == 0:
        out.add("outer:empty")
    take0, pad0 = (a_tot - a_start_bit) % ab, (res_tot - res_start_bit) % rb
    acc, limb, atl, done = rb, res_start - 1, ab, False
    for j in range(mid):
        if done:
            out.add("outer:skipped-after-break")
            continue
        a_limb = a_start - j - 1
        atl = ab
        if j == 0:
            if take0:
                out.add("first:partial-a-limb(take)")
                atl = ab - take0
            elif pad0:
                out.add("first:partial-res-limb(pad)")
                acc -= pad0
            else:
                out.add("first:aligned")
        fuel = ab + 2
        while True:
            assert fuel > 0, "replica ran out of the model's fuel"
            fuel -= 1
            t = min(ab, atl, acc)
            if t:
                out.add("inner:extract")
                atl -= t
                acc -= t
            else:
                out.add("inner:extract-nothing")
            if acc == 0 or a_limb == 0:
                if a_limb == 0 and atl == 0:
                    out.add("inner:flush+extract" if acc else "inner:flush")
                    done = True
                    break
                if limb == 0:
                    out.add("inner:result-full(break-outer)")
                    done = True
                    break
                acc += rb
                limb -= 1
                if atl == 0:
                    out.add("inner:next-res-limb,a-limb-exhausted")
                    break
                out.add("inner:next-res-limb,continue")
            elif atl == 0:
                out.add("inner:a-limb-exhausted")
                break
            else:
                out.add("inner:continue")
    if res_end:
        out.add("top:carry-from-a" if a_start == a_end else "top:carry-from-res")
    else:
        out.add("top:none")
    return out


CROSS_UNREACHABLE = ["inner:extract-nothing", "inner:continue"]
CROSS_LABELS = ["class:all-shifted-out", "class:P(limbs_offset>=0)", "class:N1(below-the-result)", "class:N2(overlap)",
                "lsh=0", "lsh!=0", "dropped-limbs", "no-dropped-limbs",
                "gap:none@i64", "gap:rounding-shift@i64", "gap:beyond-word(carry:=0)@i64",
                "gap:none@i128", "gap:rounding-shift@i128", "gap:beyond-word(carry:=0)@i128",
                "outer:empty", "outer:skipped-after-break", "first:partial-a-limb(take)", "first:partial-res-limb(pad)", "first:aligned",
                "inner:extract", "inner:extract-nothing", "inner:flush", "inner:flush+extract", "inner:result-full(break-outer)",
                "inner:next-res-limb,a-limb-exhausted", "inner:next-res-limb,continue", "inner:a-limb-exhausted", "inner:continue",
                "top:carry-from-a", "top:carry-from-res", "top:none"]


def shape_key(c, be):
    p = c.p
    if "ab" in p:
        rs = p.get("rs", len(c.res[0]) if c.res else 0)
        rel = "eq" if p["ab"] == p["rb"] else ("lt" if p["ab"] < p["rb"] else "gt")
        off = p["off"]
        lo = off // p["ab"]
        oc = "gap" if -lo * p["ab"] > rs * p["rb"] else ("neg" if off < 0 else ("zero" if off == 0 else ("beyond" if off >= p["ab"] * len(c.a[0]) else "pos")))
        return (c.op, be, rel, len(c.a[0]), rs, oc, off % p["ab"] == 0, min(p["ab"], 8), c.cls)
    k = p.get("k", 0)
    b = p["b"]
    rs = len(c.res[0]) if c.res else len(c.a[0])
    steps = -(-k // b)
    kc = "zero" if k == 0 else ("gap" if steps > rs else ("full" if steps == rs else "in"))
    return (c.op, be, len(c.a[0]), rs, kc, k % b == 0, min(b, 8), c.cls)


def fail_key(c, kind, gap, be=""):
    """stable key = call site + input class of an oracle failure"""
    if c.op in ("normalize", "big_normalize", "big_normalize_add", "big_normalize_sub", "big_normalize_negate", "rsh", "rsh_add", "rsh_sub") and gap:
        return GAP_KEY
    if c.op == "rsh_assign":
        steps = -(-c.p["k"] // c.p["b"])
        if kind == "panic" and steps > len(c.a[0]):
            return "vec_znx_rsh_assign:steps>size-panic"
        if steps >= 2 and kind == "value":
            return "vec_znx_rsh_assign:steps>=2"
        if c.p["k"] == 0 and c.p.get("scr", 0) != 0:
            return "vec_znx_rsh_assign:k=0-stale-scratch-carry"
    cross = "ab" in c.p and c.p["ab"] != c.p["rb"]
    if c.op == "big_normalize_sub" and cross and be.startswith("ntt120") and c.p["off"] < 0 and kind == "value":
        return "ntt120:vec_znx_big_normalize_sub_assign:cross-radix:negative-offset"
    base = "vec_znx_" + c.op
    if c.big:
        base = be[:-3] + ":" + base
    return f"{base}:{'cross-radix' if cross else 'same-radix'}:{kind}"


def run(ctx):
    quick = ctx.tier == "quick"
    rng = ctx.rng
    broken = []
    ctx.trusted += [
        "Model/Digit, ZnxNorm, VecNorm, Encoding as the reading of the Rust kernels (tied limb for limb by `pvh norm` vs `pdriver norm`)",
        "vlib/c08.py oracle: exact torus relation in Python integers on the implementation's outputs",
    ]
    ctx.assumptions += ["i64 limbs within |x| <= 2^62 (i128: 2^126) and 1 <= base2k <= 62: the head-room under which no kernel wraps",
                        "cross-radix theorems: |limb| <= 2^62 - 8 (i128: 2^126 - 8)"]
    ok, failures = ctx.proof_gate(["Poulpy.Props.C08"])
    if not ok:
        broken += failures
    binp = ctx.build_harness()
    drv = ctx.driver()
    if binp is None:
        broken.append("harness build failed: " + getattr(ctx, "build_error", "")[-800:])
    if drv is None:
        broken.append("model driver does not build: " + getattr(ctx, "driver_error", "")[-800:])
    fails = []           # (key, line, implementation answer, detail)
    max_err = {"nogap": 0.0, "gap": 0.0}
    if binp is not None and drv is not None:
        cases = list(CORPUS)
        if quick:
            cases += gen_exhaustive(rng.fork(), 2, 2, True)
            cases += gen_exhaustive(rng.fork(), 3, 3, False)[::7]
            cases += gen_random(rng.fork(), 9000)
        else:
            cases += gen_exhaustive(rng.fork(), 3, 3, True)
            cases += gen_exhaustive(rng.fork(), 4, 2, True)
            cases += gen_random(rng.fork(), 150000)
        # quick tier: exhaustive cases rotate over the back ends instead of running all four
        lines = []
        owner = []
        for ci, c in enumerate(cases):
            bes = c.bes
            if quick and c.tag == "exh" and len(bes) > 1:
                bes = [bes[ci % len(bes)], bes[(ci + 1 + ci // 4) % len(bes)]]
                bes = list(dict.fromkeys(bes))
            for be in bes:
                lines.append(c.line(len(lines), be))
                owner.append((ci, be))
        ctx.log(f"{len(cases)} cases, {len(lines)} request lines")
        rc, impl, err = ctx.run_lines(binp, ["norm"], lines)
        rc2, model, err2 = ctx.run_lines(drv, [], lines)
        if rc != 0 or rc2 != 0 or len(impl) != len(lines) or len(model) != len(lines):
            broken.append(f"harness rc={rc} driver rc={rc2} answers {len(impl)}/{len(model)} of {len(lines)}: {err[-400:]} {err2[-400:]}")
        else:
            cache = {}
            per_be = {}
            ops_hist = {}
            branch_hist = {"exhaustive": {}, "random+corpus": {}}
            for li, (ci, be) in enumerate(owner):
                c = cases[ci]
                iv = impl[li].split(" ", 1)[1] if " " in impl[li] else "?"
                mv = model[li].split(" ", 1)[1] if " " in model[li] else "?"
                per_be[be] = per_be.get(be, 0) + 1
                ops_hist[c.op] = ops_hist.get(c.op, 0) + 1
                if "ab" in c.p and c.p["ab"] != c.p["rb"]:
                    bits = 128 if (c.big and be.startswith("ntt120")) else 64
                    rs_ = c.p.get("rs", len(c.res[0]) if c.res else 0)
                    hk = "exhaustive" if c.tag == "exh" else "random+corpus"
                    for lab in cross_branches(bits, c.p["rb"], rs_, c.p["off"], c.p["ab"], len(c.a[0])):
                        lab = f"{lab}@i{bits}" if lab.startswith("gap:") else lab
                        branch_hist[hk][lab] = branch_hist[hk].get(lab, 0) + 1
                nontrivial = any(x != 0 for cf in c.a for x in cf)
                ctx.count_case(shape_key(c, be), nontrivial)
                if iv != mv:
                    ctx.disagreements += 1
                    if len(broken) < 30:
                        broken.append(f"correspondence: {lines[li][:400]} impl={iv[:200]} model={mv[:200]}")
                gap = in_gap(c)
                if iv.startswith("panic") or iv.startswith("frame") or iv.startswith("err"):
                    kind = iv.split(":")[0]
                    fails.append((fail_key(c, kind, gap, be), lines[li], iv, None))
                    continue
                big64 = c.big and be.startswith("fft64")
                ck = (ci, big64, iv)
                if ck not in cache:
                    cache[ck] = oracle(c, be, parse_col(iv, c.n))
                for (i, kind, e) in cache[ck]:
                    g = "gap" if gap else "nogap"
                    if kind is None or g == "gap":
                        if e > max_err[g]:
                            max_err[g] = e
                    if kind is not None:
                        ctx.oracle_failures += 1
                        fails.append((fail_key(c, kind, gap, be), lines[li], iv, {"coefficient": i, "kind": kind, "error_in_units_of_last_limb": e}))
                if len(ctx.samples) < 8 and li % 977 == 0:
                    ctx.samples.append({"request": lines[li][:300], "implementation": iv[:200], "model": mv[:200]})
            # C10 on these operations: all back ends that ran the same case (same inputs) agree bit for bit
            by_case = {}
            for li, (ci, be) in enumerate(owner):
                c = cases[ci]
                fam = "fft64" if (c.big and be.startswith("fft64") and any(abs(x) >= (1 << 63) for cf in c.a for x in cf)) else "all"
                by_case.setdefault((ci, fam), []).append((be, impl[li].split(" ", 1)[1] if " " in impl[li] else "?", li))
            nd = 0
            for (ci, fam), lst in by_case.items():
                if len({v for _, v, _ in lst}) > 1:
                    nd += 1
                    if nd <= 3:
                        broken.append("correspondence: back ends differ on " + lines[lst[0][2]][:300] + " :: " +
                                      " / ".join(f"{b}={v[:80]}" for b, v, _ in lst))
            ctx.cov["backend_mismatches"] = nd
            ctx.cov["per_backend"] = per_be
            ctx.cov["per_op"] = ops_hist
            ctx.cov["cross_radix_branch_histogram"] = {
                "unit": "request lines (cross-radix operations only) on which the model takes the branch; the loop counters "
                        "are data independent, the labels come from vlib/c08.py:cross_branches",
                "exhaustive": dict(sorted(branch_hist["exhaustive"].items())),
                "random+corpus": dict(sorted(branch_hist["random+corpus"].items())),
                "never_taken": sorted(set(CROSS_LABELS) - set(branch_hist["exhaustive"]) - set(branch_hist["random+corpus"])),
                "unreachable_by_proof": {
                    "inner:extract-nothing": "top of the inner loop has resAccLeft >= 1 and aTakeLeft >= 1 (Lemmas/NormCross: CInv.cnt, NormCrossTerm)",
                    "inner:continue": "after an extraction one of the two counters is 0 (CInv.cnt, pend = false)"},
                "not_reached_in_replica_search": {
                    "outer:skipped-after-break": "no parameters with ab, rb <= 8, sizes <= 5, |offset| < 80 reach it (the outer range ends "
                                                 "with the limb that fills the result); the proof does not exclude it (COut allows k' <= k)"},
            }
            missing_exh = sorted(set(CROSS_LABELS) - set(CROSS_UNREACHABLE) - set(branch_hist["exhaustive"]) - {"outer:skipped-after-break"})
            if missing_exh:
                broken.append("coverage: exhaustive small-scope tie does not reach model branches " + ", ".join(missing_exh))
            ctx.cov["exhaustive"] = True
            ctx.cov["exhaustive_scope"] = ("b<=2, sizes<=2 complete; b<=3 sizes<=3 stratified 1/7" if quick
                                           else "b<=3, sizes<=3 complete; b<=4, sizes<=2 complete") + \
                "; all digit values in [-2^b, 2^b], all offsets/shift amounts in [-(a_bits+2b), a_bits+2b]"
            ctx.cov["max_error_units_outside_gap_passing_checks"] = max_err["nogap"]
            ctx.cov["max_error_units_in_gap"] = max_err["gap"]
        run_codec(ctx, binp, drv, quick, broken, fails)

    # ---- verdicts
    by_key = {}
    for f in fails:
        by_key.setdefault(f[0], []).append(f)
    ctx.cov["oracle_failure_keys"] = {k: len(v) for k, v in by_key.items()}
    for key, fl in sorted(by_key.items()):
        w = fl[0]
        ctx.violation(f"property oracle fails on the implementation's output: {key} ({len(fl)} failing lines)",
                      {"request": w[1], "implementation": w[2], "detail": w[3], "count": len(fl),
                       "rerun": "printf '%s\\n' '<request>' | harness/target/release/pvh norm"}, True, key=key)
    if broken:
        ctx.log("broken:", *broken[:5])
        found = any(b.startswith("correspondence") for b in broken)
        ctx.violation("C08 obligation or correspondence no longer checks", {"broken": broken[:30]}, found)
    return ctx.finish(rule="distinct = (operation, back end, radix relation, a_size, res_size, offset/shift class "
                           "{gap, neg, zero, pos, beyond | zero, in, full, gap}, limb-aligned?, min(b,8), value class); "
                           "non-trivial = some input limb non-zero; every line is run on the real code and on the Lean model and "
                           "the implementation's output is checked by the independent Python oracle")
