"""C19 — seed-compressed objects expand to exactly what full encryption would produce.

Gate 1 (proof): lake build Poulpy.Props.C19 + axiom audit.
Gate 2 (implementation vs implementation, `pvh cmp`): for every compressed layout (GLWE, GGLWE, GGSW,
        switching / automorphism / tensor / GGLWE→GGSW keys, and the compressed blind-rotation key of poulpy-bin-fhe), ranks 1..3, dnum/dsize grids, N in {8,16},
        four back ends: encrypt compressed, decompress, and check per ciphertext cell
          masks   = vec_znx_fill_uniform from Source::new(stored seed), columns 1..rank in order (bytes)
          phase   = exact phase (harness-side i128 arithmetic, independent of glwe_decrypt) identical to
                    that of the standard encryption of the same key with the same error stream
          cellenc = (GLWE, GGLWE) bytes identical to glwe_encrypt_sk(cell plaintext, Source::new(stored seed),
                    error source in loop order)
          seeds   = stored seeds are the branch() draws of Source::new(seed_xa) in loop order at
                    index row*rank_in+col (GGLWE family) / row*(rank+1)+col (GGSW)
          ser     = serialise/deserialise round trip of the compressed object, then decompress: identical
Gate 3 (model vs implementation, `pdriver enc cmp_*`): the Lean model recomputes every decompressed cell
        and every stored seed of GLWE / GGLWE / GGSW objects from (secret, plaintext, top stream, Source::new
        table, errors); must equal the implementation limb for limb.
"""
from . import common  # noqa: F401
from .enclib import BES, bits_of, parse_answer, parse_col, parse_cols, target_limb_and_scale

LAYOUTS = ["glwe", "gglwe", "ggsw", "ksk", "atk", "tsk", "g2g"]
MODEL_LAYOUTS = ("glwe", "gglwe", "ggsw", "ksk", "tsk")


def gen_case(rng, idx):
    lay = LAYOUTS[idx % len(LAYOUTS)]
    be = BES[(idx // len(LAYOUTS)) % 4]
    n = rng.choice([8, 16])
    rank = rng.range(1, 3)
    if lay in ("tsk", "g2g") and rank == 3 and rng.chance(1, 2):
        rank = 2
    b = rng.range(2, 17) if be.startswith("fft64") else rng.choice([rng.range(2, 17), rng.range(18, 30)])
    dsize = rng.range(1, 2)
    dnum = rng.range(1, 3)
    if lay == "glwe":
        size = rng.range(1, 4)
    else:
        size = max(dnum * dsize + rng.range(0, 1), dsize + 1)
    while b * size > 96:
        b -= 1
    k = (size - 1) * b + rng.range(1, b)
    c = dict(layout=lay, be=be, n=n, b=b, k=k, kxe=k, rank=rank, dnum=dnum, dsize=dsize, size=size,
             dist=rng.choice(["tp:0.5", "tp:0.5", "bp:0.5", f"th:{rng.range(1, n)}", "tp:1.0"]),
             sxs=rng.next(), sxa=rng.next(), sxe=rng.next())
    if lay in ("gglwe", "ksk"):
        c["rank_in"] = rng.range(1, 3)
    else:
        c["rank_in"] = rank
    if lay == "ksk":
        # the two secrets may live in rings of smaller degree (independently): n, n/2, n/4, ..., 1
        degs = [n >> j for j in range(0, n.bit_length())]
        c["nin"] = rng.choice([n, n] + degs)
        c["nout"] = rng.choice([n, n] + degs)
        if c["dist"].startswith("th:"):
            c["dist"] = f"th:{min(int(c['dist'][3:]), c['nin'], c['nout'])}"
    if lay == "atk":
        c["p"] = rng.choice([-1, 1, 3, 5, -3, 7, -5])
    if lay == "tsk" and rng.chance(1, 2):
        # tensor secrets are normalised at radix 2^17: at a small key radix every coefficient carries through several limbs
        c["b"] = b = rng.range(2, 4)
        c["k"] = c["kxe"] = (size - 1) * b + rng.range(1, b)
    if lay in ("gglwe", "ggsw"):
        cols = c["rank_in"] if lay == "gglwe" else 1
        # caller-supplied ScalarZnx: small, at the carry boundary 2^(b-1), or well above the radix (carries into the limbs
        # above the gadget limb of the routine's temporary)
        mode = rng.range(0, 3)
        half = 1 << (b - 1)

        def coef():
            if mode == 0:
                return rng.range(-3, 3)
            if mode == 1:
                return rng.choice([half, -half, half - 1, -half - 1, 2 * half, -2 * half, 0, half + 1])
            if mode == 2:
                return rng.range(-(8 * half), 8 * half)
            return rng.range(-(1 << min(3 * b, 40)), 1 << min(3 * b, 40))
        c["pt"] = ";".join(",".join(str(coef()) for _ in range(n)) for _ in range(cols))
        c["ptmode"] = mode
    if lay == "glwe":
        c["ptv"] = "|".join(",".join(str(rng.range(-(1 << (b - 1)), (1 << (b - 1)) - 1)) for _ in range(n)) for _ in range(size))
    return c


def harness_line(i, c):
    keys = ["be", "n", "b", "k", "kxe", "rank", "rank_in", "dnum", "dsize", "dist", "sxs", "sxa", "sxe"]
    s = f"{i} {c['layout']} " + " ".join(f"{k}={c[k]}" for k in keys)
    for k in ("p", "pt", "ptv", "nin", "nout"):
        if k in c:
            s += f" {k}={c[k]}"
    return s


def err_polys(estr, limb):
    cols = parse_cols(estr)
    return ";".join(",".join(str(x) for x in col[limb]) for col in cols)


def model_line(i, c, a):
    limb = target_limb_and_scale(c["kxe"], c["b"])[0]
    head = f"bits={bits_of(c['be'])} n={c['n']} b={c['b']} k={c['k']} kxe={c['kxe']} size={c['size']} rank={c['rank']}"
    if c["layout"] == "glwe":
        e = parse_col(a["e"])
        return f"{i} enc glwe_cmp {head} sk={a['sk']} xa={a['child']} e={','.join(str(x) for x in e[limb])} pt={a['ptv']}"
    if c["layout"] == "tsk":
        return (f"{i} enc cmp_tsk {head} dnum={c['dnum']} dsize={c['dsize']} sk={a['sk']} top={a['top']} "
                f"seeds={a['seeds']} child={a['child']} es={err_polys(a['e'], limb)}")
    op = "cmp_ggsw" if c["layout"] == "ggsw" else ("cmp_ksk" if c["layout"] == "ksk" else "cmp_gglwe")
    return (f"{i} enc {op} {head} rank_in={c['rank_in']} dnum={c['dnum']} dsize={c['dsize']} sk={a['sk']} pt={a['pt']} top={a['top']} "
            f"seeds={a['seeds']} child={a['child']} es={err_polys(a['e'], limb)}")


def run(ctx):
    rng = ctx.rng
    quick = ctx.tier == "quick"
    ctx.trusted += ["harness/src/cmd_cmp.rs (public API only; exact phases computed harness-side in i128)", "lean/Poulpy/Driver/Enc.lean cmp_* ops"]
    ctx.assumptions += ["ChaCha8 (Source::new) is a parameter of the model: the harness supplies the words each Source delivers; "
                        "the model decides which Source feeds which cell, in which order, and where the seed is stored"]
    broken = []
    ok, failures = ctx.proof_gate(["Poulpy.Props.C19"])
    broken += failures
    binp = ctx.build_harness()
    drv = ctx.driver()
    if binp is None:
        broken.append("harness build failed: " + getattr(ctx, "build_error", "")[-600:])
    if drv is None:
        broken.append("model driver does not build")
    witness = None
    if binp and drv:
        ncases = 616 if quick else 6000
        cases = [gen_case(rng, i) for i in range(ncases)]
        hl = [harness_line(i, c) for i, c in enumerate(cases)]
        rc, hout, err = ctx.run_lines(binp, ["cmp"], hl, timeout=3000)
        if rc != 0 or len(hout) != len(cases):
            broken.append(f"pvh cmp failed rc={rc} lines={len(hout)}/{len(cases)} {err[-300:]}")
        else:
            ml, idx = [], []
            per_layout = {}
            cells_total = 0
            wrappers_total = 0
            for i, (c, line) in enumerate(zip(cases, hout)):
                _, st, a = parse_answer(line)
                lay = c["layout"]
                per_layout[lay] = per_layout.get(lay, 0) + 1
                ctx.count_case((lay, c["be"], c["n"], c["rank"], c["rank_in"], c["dnum"], c["dsize"], c["size"], min(c["b"], 18) // 4, c["dist"][:2], c.get("ptmode", -1),
                                c.get("nin", 0), c.get("nout", 0)))
                if st != "ok":
                    ctx.disagreements += 1
                    if len(broken) < 20:
                        broken.append(f"implementation failed: {hl[i][:200]} -> {line[:120]}")
                    continue
                cells = int(a["cells"])
                cells_total += cells
                good = (int(a["masks"]) == cells and int(a["dec"]) == cells and int(a["ser"]) == 1 and int(a["seedwords"]) == 1
                        and int(a["cellenc"]) in (-1, cells) and a.get("degrees", "1") == "1")
                if not good:
                    ctx.oracle_failures += 1
                    w = {"case": hl[i], "implementation": line[:300],
                         "oracle": f"cells={cells} masks={a['masks']} phases-equal={a['dec']} cellenc={a['cellenc']} ser={a['ser']} seeds-in-loop-order={a['seedwords']} "
                                   f"degree-fields-ok={a.get('degrees', '-')}",
                         "rerun": f"printf '%s\\n' '{hl[i]}' | harness/target/release/pvh cmp"}
                    witness = witness or w
                wrappers_total += int(a.get("wrappers", 0))
                if lay in MODEL_LAYOUTS:
                    ml.append(model_line(i, c, a))
                    idx.append(i)
                if len(ctx.samples) < 8 and i % 83 == 0:
                    ctx.samples.append({"request": hl[i], "implementation": line[:200]})
            rc2, mout, err2 = ctx.run_lines(drv, [], ml, timeout=3000)
            if rc2 != 0 or len(mout) != len(ml):
                broken.append(f"pdriver cmp failed rc={rc2} lines={len(mout)}/{len(ml)} {err2[-300:]}")
            else:
                agree = 0
                for i, ln in zip(idx, mout):
                    c = cases[i]
                    _, st, a = parse_answer(hout[i])
                    t = ln.split()
                    if c["layout"] == "glwe":
                        okm = len(t) >= 2 and t[1] == a["obj"]
                    else:
                        okm = len(t) >= 3 and t[1] == a["seeds"] and t[2] == a["obj"]
                    if okm:
                        agree += 1
                    else:
                        ctx.disagreements += 1
                        if len(broken) < 20:
                            broken.append(f"model/implementation disagree ({c['layout']}): {hl[i][:240]}")
                            ctx.cov.setdefault("first_disagreement", {"harness": hl[i], "impl": hout[i][:1500], "model": ln[:1500]})
                ctx.cov["lwe_wrapper_objects"] = wrappers_total
                ctx.cov["model_tied_objects"] = len(ml)
                ctx.cov["model_agree"] = agree
            # compressed blind-rotation key of poulpy-bin-fhe (pvh rndb brkc_check): same per-cell criteria
            bl = []
            for be in BES:
                for _ in range(6 if quick else 60):
                    b = rng.range(6, 16)
                    size = rng.range(2, 3)
                    bl.append(f"{len(bl)} brkc_check layout=brkc be={be} n={rng.choice([8, 16])} nl={rng.choice([2, 4, 6])} bs=2 rank={rng.range(1, 2)} b={b} "
                              f"kbrk={(size - 1) * b + rng.range(1, b)} sxs={rng.next()} sxa={rng.next()} sxe={rng.next()}")
            rcb, bout, berr = ctx.run_lines(binp, ["rndb"], bl, timeout=3000)
            if rcb != 0 or len(bout) != len(bl):
                broken.append(f"pvh rndb brkc_check failed rc={rcb} {berr[-300:]}")
            else:
                # model recomputation of the whole compressed blind-rotation key (every GGSW, every cell, every stored seed)
                bml, bidx = [], []
                for j, (req, line) in enumerate(zip(bl, bout)):
                    _, st, a = parse_answer(line)
                    if st != "ok":
                        continue
                    kv = dict(x.split("=", 1) for x in req.split()[2:] if "=" in x)
                    bb, kb = int(kv["b"]), int(kv["kbrk"])
                    limb = target_limb_and_scale(kb, bb)[0]
                    bml.append(f"{j} enc cmp_brk bits={bits_of(kv['be'])} n={kv['n']} b={bb} k={kb} kxe={kb} size={a['size']} rank={kv['rank']} dnum={a['dnum']} "
                               f"sk={a['sk']} sklwe={a['sklwe']} top={a['top']} gseeds={a['gseeds']} sub={a['sub']} seeds={a['seeds']} child={a['child']} "
                               f"es={err_polys(a['e'], limb)}")
                    bidx.append(j)
                rcm, bmout, bmerr = ctx.run_lines(drv, [], bml, timeout=3000)
                if rcm != 0 or len(bmout) != len(bml):
                    broken.append(f"pdriver cmp_brk failed rc={rcm} lines={len(bmout)}/{len(bml)} {bmerr[-300:]}")
                else:
                    bagree = 0
                    for j, ln in zip(bidx, bmout):
                        _, st, a = parse_answer(bout[j])
                        t = ln.split()
                        if len(t) >= 3 and t[1] == a["seeds"] and t[2] == a["obj"]:
                            bagree += 1
                        else:
                            ctx.disagreements += 1
                            if len(broken) < 20:
                                broken.append(f"model/implementation disagree (brkc): {bl[j]}")
                                ctx.cov.setdefault("first_disagreement", {"harness": bl[j], "impl": bout[j][:1500], "model": ln[:1500]})
                    ctx.cov["model_tied_brkc"] = len(bml)
                    ctx.cov["model_agree_brkc"] = bagree
                for req, line in zip(bl, bout):
                    _, st, a = parse_answer(line)
                    per_layout["brkc"] = per_layout.get("brkc", 0) + 1
                    ctx.count_case(("brkc", req.split("be=")[1].split()[0], req.split(" n=")[1].split()[0], req.split("rank=")[1].split()[0]))
                    if st != "ok":
                        ctx.disagreements += 1
                        broken.append(f"implementation failed: {req} -> {line[:120]}")
                        continue
                    cells = int(a["cells"])
                    cells_total += cells
                    if not (int(a["masks"]) == cells and int(a["dec"]) == cells and a["ser"] == "1" and a["seedwords"] == "1"):
                        ctx.oracle_failures += 1
                        witness = witness or {"case": req, "implementation": line, "object": "BlindRotationKeyCompressed",
                                              "oracle": "a decompressed cell of the compressed blind-rotation key differs from the standard encryption under the stored seed",
                                              "rerun": f"printf '%s\\n' '{req}' | harness/target/release/pvh rndb"}
            # LWECompressed (no producing routine in poulpy-core): built from its wire format out of a standard LWE ciphertext with
            # source_xa = Source::new(seed); decompress_lwe into a receiver of the same radix and size must return that ciphertext for
            # every LWE dimension; a receiver with another radix or number of limbs must be refused (assertion) — on both sides
            ll, lmeta = [], []
            for be in BES:
                for j in range(12 if quick else 120):
                    b = rng.range(3, 17)
                    size = rng.range(1, 3)
                    k = (size - 1) * b + rng.range(1, b)
                    nl = [1, 2, 3, 4, 5, 6, 7, 8, 2, 5, 3, 8][j % 12]
                    ptv = "|".join(str(rng.range(-(1 << (b - 1)), (1 << (b - 1)) - 1)) for _ in range(size))
                    extra, mism = "", "none"
                    if j % 12 in (8, 9):                 # other radix, same number of limbs
                        rb = b + 1 if b < 17 else b - 1
                        extra, mism = f" resb={rb} resk={size * rb}", "base2k"
                    elif j % 12 in (10, 11):             # same radix, one limb more
                        extra, mism = f" resb={b} resk={(size + 1) * b}", "size"
                    ll.append(f"{len(ll)} lwec be={be} n=8 nl={nl} b={b} k={k} kxe={k} rank=1 dnum=1 dsize=1 dist={rng.choice(['tp:0.5', 'bp:0.5'])} "
                              f"sxs={rng.next()} sxa={rng.next()} sxe={rng.next()} ptv={ptv}{extra}")
                    lmeta.append(mism)
            rcl, lout, lerr = ctx.run_lines(binp, ["cmp"], ll, timeout=3000)
            if rcl != 0 or len(lout) != len(ll):
                broken.append(f"pvh cmp lwec failed rc={rcl} {lerr[-300:]}")
            else:
                lml = []
                for j, (req, line) in enumerate(zip(ll, lout)):
                    _, st, a = parse_answer(line)
                    kvr = dict(x.split("=", 1) for x in req.split()[2:] if "=" in x)
                    per_layout["lwec"] = per_layout.get("lwec", 0) + 1
                    ctx.count_case(("lwec", kvr["be"], kvr["nl"], kvr["b"], kvr["k"], lmeta[j]))
                    if st != "ok":
                        ctx.disagreements += 1
                        broken.append(f"implementation failed: {req} -> {line[:160]}")
                        lml.append(f"{j} enc lwe_dec b=1 nl=0 body=0 xa=0")
                        continue
                    lml.append(f"{j} enc lwe_dec b={kvr['b']} nl={kvr['nl']} resb={kvr.get('resb', kvr['b'])} ressize={a['ressize']} body={a['body']} xa={a['child']}")
                rcm, lmout, lmerr = ctx.run_lines(drv, [], lml, timeout=3000)
                if rcm != 0 or len(lmout) != len(lml):
                    broken.append(f"pdriver lwe_dec failed rc={rcm} {lmerr[-200:]}")
                else:
                    lagree = 0
                    refused = 0
                    for j, (req, line, ln) in enumerate(zip(ll, lout, lmout)):
                        _, st, a = parse_answer(line)
                        if st != "ok":
                            continue
                        t = ln.split()
                        model = t[1] if len(t) > 1 else ""
                        impl_panic = a["dec"] == "-2"
                        impl_assert = impl_panic and a.get("panic", "").startswith("assert")
                        if model == "panic":
                            okm = impl_assert
                            refused += okm
                        else:
                            okm = (not impl_panic) and model == a["obj"] and a["ser"] == "1"
                        if okm:
                            lagree += 1
                        else:
                            ctx.disagreements += 1
                            if len(broken) < 20:
                                broken.append(f"model/implementation disagree (lwec): {req} -> {line[:200]} / model {ln[:120]}")
                        # the property itself: same radix and size => decompress_lwe returns the standard ciphertext, whatever the dimension
                        if lmeta[j] == "none" and a["dec"] != "1":
                            ctx.oracle_failures += 1
                            witness = witness or {"case": req, "implementation": line[:400], "object": "LWECompressed",
                                                  "oracle": "decompress_lwe does not return the standard LWE ciphertext encrypted with Source::new(seed) "
                                                            "(theorem C19.lwe_decompress)",
                                                  "rerun": f"printf '%s\\n' '{req}' | harness/target/release/pvh cmp"}
                    ctx.cov["model_tied_lwec"] = len(lml)
                    ctx.cov["model_agree_lwec"] = lagree
                    ctx.cov["lwec_refused_on_both_sides"] = refused
            ctx.cov["objects_by_layout"] = per_layout
            ctx.cov["cells_total"] = cells_total
            ctx.cov["by_backend"] = {be: sum(1 for c in cases if c["be"] == be) for be in BES}
    if witness is not None:
        ctx.violation("a decompressed cell differs from the standard encryption of its plaintext under the stored seed", witness, True)
    elif broken:
        ctx.log("broken:", *broken[:6])
        ctx.violation("C19 obligation or correspondence no longer checks", {"broken": broken[:20], "first_disagreement": ctx.cov.get("first_disagreement")}, False)
    return ctx.finish(rule="object = (layout in {glwe, gglwe, ggsw, ksk, atk, tsk, g2g}, back end, N in {8,16}, rank 1..3, rank_in 1..3, dnum 1..3, dsize 1..2, "
                           "size, radix, secret distribution, seeds); distinct = (layout, be, N, rank, rank_in, dnum, dsize, size, radix bucket, distribution); "
                           "every cell of every object is checked (masks, exact phase, seeds, serialisation); GLWE/GGLWE/GGSW objects are additionally "
                           "recomputed by the Lean model")
