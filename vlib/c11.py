"""C11 — outputs are fully determined by inputs: no stale data, no stray writes.
Proof gate: Props/C11.lean (determinacy + frame theorems of every buffer transformer of the model).
Tie: whole-buffer comparison (all columns, limbs beyond the active size via set_size) of every
operation run from garbage-filled outputs on four back ends against the model's predicted write
set; plus the oracle-free two-fill run (same call from two different prior contents)."""
import re

from . import halgen, halrun


def _ans(out, k):
    return out[k].split(" ", 1)[1] if k < len(out) and " " in out[k] else "missing"


def core_two_fill(ctx, binp, quick):
    """Core-level two-fill run (oracle-free): every core harness command hands the real code a result operand
    pre-filled with garbage; the same request is executed from two different position-dependent fills
    (`fill=A`, `fill=B`, see harness/src/fillpat.rs) and, where the command has one, from its historical constant
    fill; the printed results must be identical.  In-place forms copy their operand into `res`, so the fill does
    not apply to them and they run as controls."""
    from . import c01, c02, c03, c04, c05
    rng = ctx.rng.fork()
    A, B = 0x5EED0001 + rng.below(1 << 20), 0xC0FFEE01 + rng.below(1 << 20)
    jobs = []          # (command, [lines without id], label)
    # ---- ops: programs of C02 (the destination of every overwriting step is refilled before the call)
    progs = [c02.gen_program(rng, force=f) for f in (["linear", "rotate", "shift", "norm", "ggsw", "ggsw", "radixmix", None] * (40 if quick else 400))]
    for be in c02.BACKENDS:
        jobs.append(("ops", [f"be={be} fill={{fill}} {p['req']}" for p in progs], "ops/" + be))
    # ---- ks family (keyswitch, automorphisms, trace, LWE conversions; GGSW forms; GGLWE / automorphism-key forms; packing)
    def spread(cases, k):
        """k cases taken evenly across the generator's list (it emits the operations family by family)"""
        if len(cases) <= k:
            return cases
        return [cases[(i * len(cases)) // k] for i in range(k)]
    ks_cases = (spread(c03.generate(ctx, rng.fork()), 200 if quick else 2000) + spread(c03.generate_ggsw(ctx, rng.fork()), 16 if quick else 120)
                + spread(c03.generate_mat(ctx, rng.fork()), 24 if quick else 200) + spread(c03.generate_pack(ctx, rng.fork()), 12 if quick else 80))
    lines = []
    for ci, c in enumerate(ks_cases):
        bes = c03.BACKENDS if c03.in_fft_domain(c) else c03.NTT
        for be in ([bes[ci % len(bes)]] if quick else bes):
            lines.append(c03.harness_line(0, c, be, ci % 2).split(" ", 1)[1] + " fill={fill}")
    jobs.append(("ks", lines, "ks"))
    # ---- external products, CMux, Cswap
    ep_cases = [c04.gen_case(rng, i, quick) for i in range(240 if quick else 2400)]
    jobs.append(("ep", [c04.req_line(c, i % 2) + " fill={fill}" for i, c in enumerate(ep_cases)], "ep"))
    ex_cases = [c04.gen_expand(rng, i, quick) for i in range(24 if quick else 200)]
    jobs.append(("expand", [c04.req_line(c) + " fill={fill}" for c in ex_cases], "expand"))
    # ---- tensor / plaintext / constant products, relinearisation
    mul_cases = [c05.gen_case(rng, i, quick) for i in range(240 if quick else 2400)]
    jobs.append(("mul", [c05.req_line(c, i % 2) + " fill={fill}" for i, c in enumerate(mul_cases)], "mul"))
    # ---- encryption / decryption
    enc_cases = [c01.gen_case(rng, i) for i in range(400 if quick else 4000)]
    jobs.append(("enc", [c01.harness_line(0, c).split(" ", 1)[1] + " fill={fill}" for c in enc_cases], "enc"))

    stats = {}
    for cmd, tmpl, label in jobs:
        outs = []
        for fill in (0, A, B):
            ls = [f"{k} " + t.replace("{fill}", str(fill)) for k, t in enumerate(tmpl)]
            rc, out, err = ctx.run_lines(binp, [cmd], ls, timeout=3000)
            outs.append(out)
        n_ok = n_panic = 0
        for k, t in enumerate(tmpl):
            a0, a1, a2 = _ans(outs[0], k), _ans(outs[1], k), _ans(outs[2], k)
            ctx.count_case(("core-two-fill", label, a0.split(" ", 1)[0][:24], len(t) // 256))
            if a0.startswith("panic") or a0.startswith("err") or a0 == "missing":
                n_panic += 1
            if a0 == a1 == a2:
                n_ok += 1
            else:
                ctx.oracle_failures += 1
                ctx.violation("core operation: result depends on the previous contents of the result operand",
                              {"command": cmd, "request": t.replace("{fill}", "<fill>")[:3000], "fills": [0, A, B],
                               "result_fill_0": a0[:1200], "result_fill_A": a1[:1200], "result_fill_B": a2[:1200],
                               "rerun": f"printf '1 %s\\n' '<request with fill=..>' | harness/target/release/pvh {cmd}"}, True)
                break
        hist = {}
        for t in tmpl:
            if cmd == "ops":
                for st in t.split(";")[1:]:
                    w = st.split()
                    if w and w[0] not in ("ct", "gg") and "=" not in w[0]:
                        hist[w[0]] = hist.get(w[0], 0) + 1
            else:
                o = next((x[3:] for x in t.split() if x.startswith("op=")), None) or t.split()[0]
                hist[o] = hist.get(o, 0) + 1
        stats[label] = {"requests": len(tmpl), "identical_under_3_fills": n_ok, "non_ok_outcomes": n_panic, "ops": hist}
    ctx.cov["core_two_fill"] = stats


def run(ctx):
    quick = ctx.tier == "quick"
    ok, failures = ctx.proof_gate(["Poulpy.Props.C11"])
    broken = list(failures)
    binp = ctx.build_harness()
    drv = ctx.driver()
    if binp is None or drv is None:
        broken.append("harness or model driver does not build")
    else:
        n_cases = 2500 if quick else 60000
        rng = ctx.rng
        cases = [halgen.program(rng) for _ in range(n_cases)]
        for off in range(0, len(cases), 5000):
            chunk = cases[off:off + 5000]
            bad = halrun.run_cases(ctx, binp, drv, chunk)
            for (k, d, a, b) in bad[:5]:
                ctx.disagreements += 1
                line, meta = chunk[k]
                found, w = halrun.classify(ctx, binp, line, a, b)
                w["difference"] = d
                w["meta"] = meta
                ctx.violation("buffer contents after the call differ from the predicted write set", w, found)
            if bad:
                broken.append(f"{len(bad)} model/implementation disagreements")
                break
            # two-fill metamorphic run on the implementation alone (overwriting families only)
            sel = [(l, m) for (l, m) in chunk if m["family"] not in ("dft_assign", "setsize") and m.get("op") != "svp_assign"][: (400 if quick else 4000)]
            l1 = [f"{k} {l}" for k, (l, m) in enumerate(sel)]
            l2 = [f"{k} {halrun.refill(l, 777)}" for k, (l, m) in enumerate(sel)]
            _, o1, _ = ctx.run_lines(binp, ["hal"], l1)
            _, o2, _ = ctx.run_lines(binp, ["hal"], l2)
            n2 = 0
            for k, (l, m) in enumerate(sel):
                a1, a2 = halrun.ans_of(o1, k), halrun.ans_of(o2, k)
                s1, g1 = halgen.parse_answer(a1)
                s2, g2 = halgen.parse_answer(a2)
                if s1 != "ok" or s2 != "ok" or "d" not in g1:
                    continue
                n2 += 1
                cols, size, v1 = g1["d"]
                _, _, v2 = g2["d"]
                per = len(v1) // max(1, cols * size)
                target = set(range(cols)) if m["family"].startswith("vmp") else {m["dc"]}
                for c in target:
                    seg1 = v1[c * size * per:(c + 1) * size * per]
                    seg2 = v2[c * size * per:(c + 1) * size * per]
                    if seg1 != seg2:
                        ctx.oracle_failures += 1
                        ctx.violation("selected output column depends on the previous contents of the output buffer",
                                      {"request_fill_1": l, "request_fill_2": halrun.refill(l, 777), "column": c,
                                       "result_fill_1": a1[:1500], "result_fill_2": a2[:1500], "meta": m}, True)
                        break
            ctx.cov["two_fill_runs"] = ctx.cov.get("two_fill_runs", 0) + n2
    # core level: two-fill run of every core harness command (ops, ks, ep, expand, mul, enc)
    if binp is not None:
        try:
            core_two_fill(ctx, binp, quick)
        except Exception as e:
            broken.append(f"core two-fill sub-run crashed: {e!r}")
    # coefficient-domain operations (vec_znx_* and big twins): the C09 correspondence compares whole
    # buffers from garbage-filled outputs with hidden guard limbs and flags stray writes / operand
    # mutation; run it here as part of C11 (violations are reported under C11).
    from . import c09, common
    sub = common.Ctx("C11", ctx.tier, ctx.seed)
    sub.finish = lambda **kw: (1 if sub.violations else 0)
    sub._registry_done = True
    try:
        c09.run(sub)
    except Exception as e:      # the sub-run must not hide C11's own verdict
        broken.append(f"coefficient-domain sub-run crashed: {e!r}")
    ctx.violations += sub.violations
    ctx.evaluations += sub.evaluations
    ctx.distinct |= {("ring",) + tuple(k) if isinstance(k, tuple) else ("ring", k) for k in sub.distinct}
    ctx.disagreements += sub.disagreements
    ctx.cov["coefficient_domain_cases"] = sub.evaluations
    # normalisation / shift / encode family (vec_znx_normalize, vec_znx_big_normalize incl. the fused and cross-radix forms on both
    # accumulator widths, lsh/rsh): the C08 correspondence runs every request from a garbage-filled result and compares whole
    # results with the model and the exact oracle, so an output limb that keeps or depends on previous contents is reported here too.
    from . import c08
    sub8 = common.Ctx("C11", ctx.tier, ctx.seed)
    sub8.finish = lambda **kw: (1 if sub8.violations else 0)
    sub8._registry_done = True
    try:
        c08.run(sub8)
    except Exception as e:
        broken.append(f"normalisation sub-run crashed: {e!r}")
    ctx.violations += sub8.violations
    ctx.evaluations += sub8.evaluations
    ctx.distinct |= {("norm",) + tuple(k) if isinstance(k, tuple) else ("norm", k) for k in sub8.distinct}
    ctx.disagreements += sub8.disagreements
    ctx.cov["normalisation_family_cases"] = sub8.evaluations
    if broken and not ctx.violations:
        ctx.violation("C11 obligation or correspondence no longer checks", {"broken": broken[:20]}, False)
    return ctx.finish(rule="random hal programs (all families incl. in-place and set_size shrink/grow); every output buffer starts from garbage, "
                           "1..3 columns, every target column; whole buffers (all columns, operands after the call) compared with the model; "
                           "distinct = (family, back end, n, class, op, limb_offset, cnv_offset, step); non-trivial = non-zero content")
