"""C11 — outputs are fully determined by inputs: no stale data, no stray writes.
Proof gate: Props/C11.lean (determinacy + frame theorems of every buffer transformer of the model).
Tie: whole-buffer comparison (all columns, limbs beyond the active size via set_size) of every
operation run from garbage-filled outputs on four back ends against the model's predicted write
set; plus the oracle-free two-fill run (same call from two different prior contents)."""
import re

from . import halgen, halrun


def run(ctx):
    quick = ctx.tier == "quick"
    ok, failures = ctx.proof_gate(["Poulpy.Props.C11"])
    broken = list(failures)
    binp = ctx.build_harness()
    drv = ctx.driver()
    if binp is None or drv is None:
        broken.append("harness or model driver does not build")
    else:
        n_cases = 2500 if quick else 60000
        rng = ctx.rng
        cases = [halgen.program(rng) for _ in range(n_cases)]
        for off in range(0, len(cases), 5000):
            chunk = cases[off:off + 5000]
            bad = halrun.run_cases(ctx, binp, drv, chunk)
            for (k, d, a, b) in bad[:5]:
                ctx.disagreements += 1
                line, meta = chunk[k]
                found, w = halrun.classify(ctx, binp, line, a, b)
                w["difference"] = d
                w["meta"] = meta
                ctx.violation("buffer contents after the call differ from the predicted write set", w, found)
            if bad:
                broken.append(f"{len(bad)} model/implementation disagreements")
                break
            # two-fill metamorphic run on the implementation alone (overwriting families only)
            sel = [(l, m) for (l, m) in chunk if m["family"] not in ("dft_assign", "setsize") and m.get("op") != "svp_assign"][: (400 if quick else 4000)]
            l1 = [f"{k} {l}" for k, (l, m) in enumerate(sel)]
            l2 = [f"{k} {halrun.refill(l, 777)}" for k, (l, m) in enumerate(sel)]
            _, o1, _ = ctx.run_lines(binp, ["hal"], l1)
            _, o2, _ = ctx.run_lines(binp, ["hal"], l2)
            n2 = 0
            for k, (l, m) in enumerate(sel):
                a1, a2 = halrun.ans_of(o1, k), halrun.ans_of(o2, k)
                s1, g1 = halgen.parse_answer(a1)
                s2, g2 = halgen.parse_answer(a2)
                if s1 != "ok" or s2 != "ok" or "d" not in g1:
                    continue
                n2 += 1
                cols, size, v1 = g1["d"]
                _, _, v2 = g2["d"]
                per = len(v1) // max(1, cols * size)
                target = set(range(cols)) if m["family"].startswith("vmp") else {m["dc"]}
                for c in target:
                    seg1 = v1[c * size * per:(c + 1) * size * per]
                    seg2 = v2[c * size * per:(c + 1) * size * per]
                    if seg1 != seg2:
                        ctx.oracle_failures += 1
                        ctx.violation("selected output column depends on the previous contents of the output buffer",
                                      {"request_fill_1": l, "request_fill_2": halrun.refill(l, 777), "column": c,
                                       "result_fill_1": a1[:1500], "result_fill_2": a2[:1500], "meta": m}, True)
                        break
            ctx.cov["two_fill_runs"] = ctx.cov.get("two_fill_runs", 0) + n2
    # coefficient-domain operations (vec_znx_* and big twins): the C09 correspondence compares whole
    # buffers from garbage-filled outputs with hidden guard limbs and flags stray writes / operand
    # mutation; run it here as part of C11 (violations are reported under C11).
    from . import c09, common
    sub = common.Ctx("C11", ctx.tier, ctx.seed)
    sub.finish = lambda **kw: (1 if sub.violations else 0)
    sub._registry_done = True
    try:
        c09.run(sub)
    except Exception as e:      # the sub-run must not hide C11's own verdict
        broken.append(f"coefficient-domain sub-run crashed: {e!r}")
    ctx.violations += sub.violations
    ctx.evaluations += sub.evaluations
    ctx.distinct |= {("ring",) + tuple(k) if isinstance(k, tuple) else ("ring", k) for k in sub.distinct}
    ctx.disagreements += sub.disagreements
    ctx.cov["coefficient_domain_cases"] = sub.evaluations
    if broken and not ctx.violations:
        ctx.violation("C11 obligation or correspondence no longer checks", {"broken": broken[:20]}, False)
    return ctx.finish(rule="random hal programs (all families incl. in-place and set_size shrink/grow); every output buffer starts from garbage, "
                           "1..3 columns, every target column; whole buffers (all columns, operands after the call) compared with the model; "
                           "distinct = (family, back end, n, class, op, limb_offset, cnv_offset, step); non-trivial = non-zero content")
