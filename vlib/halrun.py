"""Shared runner for the `hal`-program based checks (C07, C11): runs generated programs on the
implementation (all four back ends) and on the Lean model, compares, and on a disagreement asks
the independent oracle (vlib/haloracle.py) and the metamorphic two-fill / cross-back-end oracles
which side violates the property."""
import re

from . import halgen, haloracle


def ans_of(lines, k):
    if k < len(lines) and " " in lines[k]:
        return lines[k].split(" ", 1)[1]
    return "missing"


def run_cases(ctx, binp, drv, cases):
    """cases: [(line, meta)] -> list of (idx, diff) disagreements; fills ctx counters/samples"""
    ilines = [f"{k} {c[0]}" for k, c in enumerate(cases)]
    mlines = [f"{k} hal {c[0]}" for k, c in enumerate(cases)]
    rc, iout, ierr = ctx.run_lines(binp, ["hal"], ilines)
    rc2, mout, merr = ctx.run_lines(drv, [], mlines)
    bad = []
    branch = {}
    for k, (line, meta) in enumerate(cases):
        a, b = ans_of(iout, k), ans_of(mout, k)
        d = halgen.compare(a, b)
        nontrivial = not a.startswith("panic") and re.search(r"[1-9]", a.split(":", 1)[-1]) is not None
        key = (meta["family"], meta["be"], meta["n"], meta["class"], meta.get("op"), meta.get("limb_offset"), meta.get("off"), meta.get("step"))
        ctx.count_case(key, nontrivial)
        fam = f"{meta['family']}/{meta['be']}"
        branch[fam] = branch.get(fam, 0) + 1
        if d:
            bad.append((k, d, a, b))
    ctx.cov.setdefault("family_backend_histogram", {})
    for f, v in branch.items():
        ctx.cov["family_backend_histogram"][f] = ctx.cov["family_backend_histogram"].get(f, 0) + v
    if cases and len(ctx.samples) < 8:
        ctx.samples.append({"request": cases[0][0][:400], "implementation": ans_of(iout, 0)[:200], "model": ans_of(mout, 0)[:200]})
    return bad


def refill(line, salt):
    """same program with different garbage in every `dft D cols size r5:seed` result buffer"""
    return re.sub(r"((?:dft|big) d \d+ \d+ r\d+:)(\d+)", lambda m: m.group(1) + str((int(m.group(2)) * 7919 + salt) % (1 << 30)), line)


def classify(ctx, binp, line, impl_ans, model_ans):
    """-> (found_input, witness dict)"""
    try:
        want = haloracle.run(line)
    except Exception as e:          # oracle cannot evaluate: no verdict
        want = None
    w = {"request": line, "implementation": impl_ans[:2000], "model": model_ans[:2000]}
    if want is not None:
        d_impl = halgen.compare(impl_ans, want)
        d_model = halgen.compare(model_ans, want) if not model_ans.startswith("panic") else "model panic"
        w["oracle_vs_implementation"] = d_impl
        w["oracle_vs_model"] = d_model
        if d_impl and not d_model:
            w["verdict"] = "implementation differs from the exact result (oracle and model agree)"
            return True, w
    # metamorphic: other back ends on the same request
    m = re.search(r"be=(\w+)", line)
    outs = {}
    for be in halgen.BACKENDS:
        l2 = line.replace(f"be={m.group(1)}", f"be={be}")
        rc, o, _ = ctx.run_lines(binp, ["hal"], ["0 " + l2])
        outs[be] = ans_of(o, 0)
    if len(set(outs.values())) > 1:
        w["backends"] = {k: v[:300] for k, v in outs.items()}
        w["verdict"] = "back ends disagree with each other on identical inputs"
        return True, w
    # metamorphic: two garbage fills of the output buffer
    l2 = refill(line, 12345)
    if l2 != line:
        rc, o, _ = ctx.run_lines(binp, ["hal"], ["0 " + l2])
        a2 = ans_of(o, 0)
        w["second_fill"] = a2[:600]
    w["verdict"] = "model and implementation differ; no independent evidence that the implementation is wrong"
    return False, w
