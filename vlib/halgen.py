"""Generator of `hal` programs (harness/src/cmd_hal.rs, lean/Poulpy/Driver/Hal.lean) shared by the
C07 (DFT-domain products = exact convolution) and C11 (no stale data / stray writes) checks.

Every case is one request line; the implementation (pvh hal) and the model (pdriver) both answer
`id ok NAME=cxs:v,…`; a `?` in the model's answer is a wildcard (limb clobbered by an op that
uses its operand as scratch)."""

BACKENDS = ["fft64ref", "ntt120ref", "fft64avx", "ntt120avx"]


def gen_r(rng, bits):
    return f"r{bits}:{rng.below(1 << 30)}"


def explicit(vals):
    return "d:" + ",".join(str(v) for v in vals)


def extreme(rng, n, cols, size, bits, mode):
    """worst-case value classes: all +max, all -min, alternating, sparse, sign-aligned"""
    hi = (1 << (bits - 1)) - 1
    lo = -(1 << (bits - 1))
    out = []
    for k in range(n * cols * size):
        if mode == "max":
            out.append(hi)
        elif mode == "min":
            out.append(lo)
        elif mode == "alt":
            out.append(hi if k % 2 == 0 else lo)
        elif mode == "sparse":
            out.append((hi if rng.chance(1, 2) else lo) if rng.chance(1, 8) else 0)
        else:
            out.append(0)
    return explicit(out)


def value_gen(rng, n, cols, size, bits, cls):
    if cls == "random":
        return gen_r(rng, bits)
    if cls == "zero":
        return "z"
    return extreme(rng, n, cols, size, bits, cls)


def pick_bits(rng, n, rows_flat, be):
    """digit width such that n * rows * 2^(2b) stays inside the FFT64 domain (2^50); NTT120 exact far beyond"""
    import math
    budget = 50 - int(math.log2(n)) - max(1, (rows_flat - 1).bit_length())
    b = max(2, min(17, budget // 2))
    if be.startswith("ntt120") and rng.chance(1, 3):
        b = min(26, b + 8)
    return rng.range(2, b)


def program(rng, family=None):
    """returns (line_without_id, meta)"""
    be = rng.choice(BACKENDS)
    n = rng.choice([8, 8, 16, 16, 32, 64])
    fams = ["dft_roundtrip", "dft_select", "dft_arith", "dft_assign", "svp", "svp_dft", "vmp", "vmp_offset", "vmp_small", "cnv", "cnv_pair", "cnv_const", "setsize"]
    fam = family or rng.choice(fams)
    if fam == "dft_bign":
        # the transforms switch kernels / table layouts with the ring degree (iterative vs recursive passes, block sizes):
        # a forward/inverse round trip at EVERY power of two up to the maximum degree, linear-time for the model
        n = rng.choice([128, 256, 512, 1024, 2048, 4096, 8192, 16384, 32768, 65536])
        bits = pick_bits(rng, n, 1, be)
        cls = rng.choice(["random", "random", "max", "alt", "sparse"])
        st = [f"vec a 1 1 {value_gen(rng, n, 1, 1, bits, cls)}", f"dft d 1 1 {gen_r(rng, 5)}", "dft_apply 1 0 d 0 a 0",
              f"big b 1 1 {gen_r(rng, 9)}", f"idft{'_tmpa' if rng.chance(1, 3) else ''} b 0 d 0", "dump b"]
        meta = {"be": be, "n": n, "family": "dft_bign", "class": cls, "dc": 0, "step": 1, "off": 0, "rs": 1, "asz": 1}
        return f"be={be} n={n} ; " + " ; ".join(st), meta
    cls = rng.choice(["random", "random", "random", "max", "min", "alt", "sparse", "zero"])
    if fam in ("dft_roundtrip", "dft_select", "dft_arith", "dft_assign", "svp", "svp_dft", "setsize") and rng.chance(1, 6):
        # tiny rings: the SIMD kernels have no full vector pass there and fall back (or must fall back) to scalar code
        n = rng.choice([2, 4] if be.startswith("fft64") else [1, 2, 4])
    st = []
    meta = {"be": be, "n": n, "family": fam, "class": cls}
    rc = rng.range(1, 3)              # result columns
    dc = rng.below(rc)                # target column
    meta["dc"] = dc
    rs = rng.range(1, 6)              # result size
    garbage = gen_r(rng, 5)

    if fam in ("dft_roundtrip", "dft_select"):
        ac = rng.range(1, 3)
        xc = rng.below(ac)
        asz = rng.range(1, 6)
        bits = pick_bits(rng, n, 1, be)
        step = 1 if fam == "dft_roundtrip" else rng.range(1, 4)
        off = 0 if fam == "dft_roundtrip" else rng.range(0, asz + 2)
        st.append(f"vec a {ac} {asz} {value_gen(rng, n, ac, asz, bits, cls)}")
        st.append(f"dft d {rc} {rs} {garbage}")
        st.append(f"dft_apply {step} {off} d {dc} a {xc}")
        if rng.chance(1, 2):
            bs = rng.range(1, 6)
            bc = rng.range(1, 3)
            tb = rng.below(bc)
            st.append(f"big b {bc} {bs} {gen_r(rng, 9)}")
            st.append(f"idft{'_tmpa' if rng.chance(1, 3) else ''} b {tb} d {dc}")
            st.append("dump b")
        st.append("dump d")
        st.append("dump a")
        meta.update(step=step, off=off, rs=rs, asz=asz)
    elif fam in ("dft_arith", "dft_assign"):
        s1, s2 = rng.range(1, 6), rng.range(1, 6)
        c1, c2 = rng.range(1, 3), rng.range(1, 3)
        bits = pick_bits(rng, n, 1, be)
        st.append(f"dft x {c1} {s1} {value_gen(rng, n, c1, s1, bits, cls)}")
        st.append(f"dft y {c2} {s2} {gen_r(rng, bits)}")
        st.append(f"dft d {rc} {rs} {garbage}")
        if fam == "dft_arith":
            op = rng.choice(["dft_add", "dft_sub", "dft_copy"])
            if op == "dft_copy":
                step, off = rng.range(1, 3), rng.range(0, s1 + 1)
                st.append(f"dft_copy {step} {off} d {dc} x {rng.below(c1)}")
            else:
                st.append(f"{op} d {dc} x {rng.below(c1)} y {rng.below(c2)}")
        else:
            op = rng.choice(["dft_add_assign", "dft_sub_assign", "dft_sub_negate_assign", "dft_add_scaled_assign", "dft_zero"])
            if op == "dft_add_scaled_assign":
                st.append(f"{op} d {dc} x {rng.below(c1)} {rng.range(-7, 7)}")
            elif op == "dft_zero":
                st.append(f"dft_zero d {dc}")
            else:
                st.append(f"{op} d {dc} x {rng.below(c1)}")
        meta.update(op=op)
        st += ["dump d", "dump x", "dump y"]
    elif fam in ("svp", "svp_dft"):
        sc = rng.range(1, 3)
        ac = rng.range(1, 3)
        asz = rng.range(1, 6)
        bits = pick_bits(rng, n, 1, be)
        scls = rng.choice(["random", "ternary", "one", "monomial"])
        if scls == "random":
            sg = gen_r(rng, bits)
        elif scls == "ternary":
            sg = gen_r(rng, 2)
        else:
            vals = [0] * (n * sc)
            for c in range(sc):
                vals[c * n + (0 if scls == "one" else rng.below(n))] = 1 if rng.chance(1, 2) else -1
            sg = explicit(vals)
        st.append(f"sca s {sc} {sg}")
        st.append(f"svp p {sc}")
        for c in range(sc):
            st.append(f"svp_prepare p {c} s {c}")
        st.append(f"dft d {rc} {rs} {garbage}")
        if fam == "svp":
            st.append(f"vec a {ac} {asz} {value_gen(rng, n, ac, asz, bits, cls)}")
            st.append(f"svp_apply_dft d {dc} p {rng.below(sc)} a {rng.below(ac)}")
            st += ["dump d", "dump a"]
        else:
            st.append(f"dft x {ac} {asz} {value_gen(rng, n, ac, asz, bits, cls)}")
            if rng.chance(1, 3):
                st.append(f"svp_apply_dft_to_dft_assign d {dc} p {rng.below(sc)}")
                meta["op"] = "svp_assign"
            else:
                st.append(f"svp_apply_dft_to_dft d {dc} p {rng.below(sc)} x {rng.below(ac)}")
            st += ["dump d", "dump x"]
        meta.update(scalar=scls)
    elif fam in ("vmp", "vmp_offset", "vmp_small"):
        rows = rng.range(1, 5)
        cin = rng.range(1, 3)
        cout = rng.range(1, 3)
        psz = rng.range(1, 5)
        asz = rng.range(1, 6)
        bits = pick_bits(rng, n, rows * cin, be)
        rs2 = rng.range(1, 6)
        lo = 0 if fam == "vmp" else rng.range(0, psz + 1)
        st.append(f"mat m {rows} {cin} {cout} {psz} {value_gen(rng, n, rows * cin * cout, psz, bits, cls if cls != 'zero' else 'random')}")
        st.append(f"vmp p {rows} {cin} {cout} {psz}")
        st.append("vmp_prepare p m")
        st.append(f"dft d {cout} {rs2} {garbage}")
        if fam == "vmp_small":
            st.append(f"vec a {cin} {asz} {value_gen(rng, n, cin, asz, bits, cls)}")
            st.append("vmp_apply_dft d a p")
            st += ["dump d", "dump a"]
        else:
            st.append(f"dft x {cin} {asz} {value_gen(rng, n, cin, asz, bits, cls)}")
            st.append(f"vmp_apply_dft_to_dft d x p {lo}")
            st += ["dump d", "dump x"]
        meta.update(rows=rows, cin=cin, cout=cout, psz=psz, asz=asz, rs=rs2, limb_offset=lo)
    elif fam in ("cnv", "cnv_pair"):
        cols = rng.range(1, 3)
        asz, bsz = rng.range(1, 5), rng.range(1, 5)
        pa, pb = rng.range(1, 5), rng.range(1, 5)     # prepared sizes (may differ from the vector sizes)
        bits = pick_bits(rng, n, min(pa, pb), be)
        off = rng.range(0, pa + pb + 1)
        mask_a = -1 if rng.chance(2, 3) else -(1 << rng.range(0, bits - 1))
        mask_b = -1 if rng.chance(2, 3) else -(1 << rng.range(0, bits - 1))
        st.append(f"vec a {cols} {asz} {value_gen(rng, n, cols, asz, bits, cls)}")
        st.append(f"vec b {cols} {bsz} {gen_r(rng, bits)}")
        st.append(f"cnvl l {cols} {pa}")
        st.append(f"cnvr r {cols} {pb}")
        if rng.chance(1, 5) and pa == pb:
            st.append(f"cnv_prepare_self l r a {mask_a}")
        else:
            st.append(f"cnv_prepare_left l a {mask_a}")
            st.append(f"cnv_prepare_right r b {mask_b}")
        st.append(f"dft d {rc} {rs} {garbage}")
        if fam == "cnv":
            st.append(f"cnv_apply_dft {off} d {dc} l {rng.below(cols)} r {rng.below(cols)}")
        else:
            st.append(f"cnv_pairwise {off} d {dc} l r {rng.below(cols)} {rng.below(cols)}")
        st += ["dump d", "dump a", "dump b"]
        meta.update(off=off, pa=pa, pb=pb, rs=rs, rc=rc)
    elif fam == "cnv_const":
        ac = rng.range(1, 3)
        asz, bsz = rng.range(1, 5), rng.range(1, 5)
        bits = rng.range(2, 30 if be.startswith("ntt120") else 26)
        off = rng.range(0, asz + bsz + 1)
        consts = [rng.range(-(1 << (bits - 1)), (1 << (bits - 1)) - 1) for _ in range(bsz)]
        if cls in ("max", "min", "alt"):
            consts = [((1 << (bits - 1)) - 1) if (k % 2 == 0 or cls == "max") and cls != "min" else -(1 << (bits - 1)) for k in range(bsz)]
        st.append(f"vec a {ac} {asz} {value_gen(rng, n, ac, asz, bits, cls)}")
        st.append(f"big d {rc} {rs} {gen_r(rng, 9)}")
        st.append(f"cnv_by_const {off} d {dc} a {rng.below(ac)} {','.join(str(c) for c in consts)}")
        st += ["dump d", "dump a"]
        meta.update(off=off, rs=rs)
    elif fam == "setsize":
        # operate on a shrunk result, then grow back: limbs beyond the active size must be untouched
        cap = rng.range(2, 6)
        small = rng.range(1, cap - 1)
        asz = rng.range(1, 6)
        bits = pick_bits(rng, n, 1, be)
        st.append(f"vec a 1 {asz} {gen_r(rng, bits)}")
        st.append(f"dft x 1 {asz} {gen_r(rng, bits)}")
        st.append(f"dft d {rc} {cap} {garbage}")
        st.append(f"setsize d {small}")
        op = rng.choice(["dft_apply", "dft_add", "dft_copy", "dft_zero"])
        if op == "dft_apply":
            st.append(f"dft_apply 1 0 d {dc} a 0")
        elif op == "dft_add":
            st.append(f"dft_add d {dc} x 0 x 0")
        elif op == "dft_copy":
            st.append(f"dft_copy 1 0 d {dc} x 0")
        else:
            st.append(f"dft_zero d {dc}")
        if rng.chance(1, 2):
            # consume the shrunk buffer: the resulting big vector has exactly the active limbs (capacity is not content)
            st.append("idft_consume y d")
            st.append("dump y")
            op += "+consume"
        else:
            st.append(f"setsize d {cap}")
            st.append("dump d")
        meta.update(op=op, cap=cap, small=small)
    line = f"be={be} n={n} ; " + " ; ".join(st)
    return line, meta


def parse_answer(ans):
    """'ok A=2x3:1,2 B=…' -> ('ok', {name: (cols,size,[vals])}) or ('panic:cls', {})"""
    t = ans.split()
    if not t:
        return "missing", {}
    if t[0] != "ok":
        return t[0], {}
    segs = {}
    for s in t[1:]:
        name, rest = s.split("=", 1)
        shape, vals = rest.split(":", 1)
        c, z = shape.split("x")
        segs[name] = (int(c), int(z), [] if vals == "-" else vals.split(","))
    return "ok", segs


def compare(impl, model):
    """None if equal modulo wildcards, else a description of the first difference"""
    si, a = parse_answer(impl)
    sm, b = parse_answer(model)
    if si != sm:
        return f"outcome {si} vs model {sm}"
    for name in b:
        if name not in a:
            return f"segment {name} missing"
        (c1, z1, v1), (c2, z2, v2) = a[name], b[name]
        if (c1, z1) != (c2, z2) or len(v1) != len(v2):
            return f"{name}: shape {c1}x{z1}/{len(v1)} vs model {c2}x{z2}/{len(v2)}"
        for k, (x, y) in enumerate(zip(v1, v2)):
            if y != "?" and x != y:
                per = len(v1) // max(1, c1 * z1)
                col = k // (per * z1) if per * z1 else 0
                limb = (k // per) % z1 if per else 0
                return f"{name}: column {col} limb {limb} coeff {k % per if per else 0}: impl {x} vs model {y}"
    return None
