"""C03 — the key-switching family preserves the plaintext within the predicted noise.

Gate 1 (proof): lake build Poulpy.Props.C03 + axiom audit.
Gate 2 (correspondence): every generated case is run on the real code (pvh ks: keys, secrets and
        `enc` inputs are produced by the implementation itself and dumped) on the back ends of its
        magnitude domain; the Lean model (pdriver ks) is run on the dumped inputs, once per
        big-accumulator flavour (i64 = FFT64, i128 = NTT120); the result ciphertexts must agree bit
        for bit (model = every back end, hence FFT64 = NTT120 on the intersection).
Gate 3 (property oracle, Python big integers, independent of the model): the exact phase of the
        implementation's result under the target key must equal the expected image of the exact
        input phase (identity, X -> X^g and its +/- forms, partial trace, extracted coefficient,
        constant coefficient) within the explicit gadget-product bound computed from the dumped
        key: sum_{r,i} n 2^{dsize b} |E_{r,i}|_inf  + radix-conversion / truncation / output-rounding units.
        The key rows themselves are checked to be encryptions of s_i 2^{-(r+1) dsize b}.
Extra: `dirty=1` runs (scratch arena pre-filled with garbage) must give the same bits as `dirty=0`
        (this gate found the un-zeroed res_dft of the fused automorphism forms for dsize >= 3, repaired in
        poulpy d3c2e96; a regression is reported under the key STALE_KEY).
Failure search: the oracle runs on the implementation's own input/output; a case where the
        implementation breaks the bound (or depends on scratch garbage) is the failing input.
"""
from . import common

FFT = ["fft64ref", "fft64avx"]
NTT = ["ntt120ref", "ntt120avx"]
BACKENDS = FFT + NTT
FUSED = ["auto_add", "auto_add_assign", "auto_sub", "auto_sub_assign", "auto_subneg", "auto_subneg_assign"]
AUTO = ["auto", "auto_assign"] + FUSED
GLWE_OPS = ["ks", "ks_assign"] + AUTO + ["trace", "trace_assign"]
PACK = ["pack", "packer"]
MAT = ["gglwe_ks", "gglwe_ks_assign", "atk_auto", "atk_auto_assign"]
GGSW = ["ggsw_ks", "ggsw_ks_assign", "ggsw_auto", "ggsw_auto_assign"]
GGSW_DNUM_KEY = "poulpy-core/src/keyswitching/ggsw.rs:ggsw_keyswitch:res.dnum<a.dnum:loop-over-a.dnum-panics"
STALE_KEY = "poulpy-core/src/automorphism/glwe_ct.rs:glwe_automorphism_{add,sub,sub_negate}{,_assign}:res_dft-not-zeroed:dsize>=3"


def ceil_div(a, b):
    return -(-a // b)


# --------------------------------------------------------------------------- exact ring helpers
def negmul(a, b):
    n = len(b)
    out = [0] * n
    for i, x in enumerate(a):
        if x == 0:
            continue
        for j, y in enumerate(b):
            k = i + j
            if k < n:
                out[k] += x * y
            else:
                out[k - n] -= x * y
    return out


def aut(a, g):
    n = len(a)
    out = [0] * n
    for i, c in enumerate(a):
        e = (i * g) % (2 * n)
        if e < n:
            out[e] += c
        else:
            out[e - n] -= c
    return out


def rot(a, k):
    n = len(a)
    out = [0] * n
    for i, c in enumerate(a):
        e = (i + k) % (2 * n)
        if e < n:
            out[e] += c
        else:
            out[e - n] -= c
    return out


def padd(a, b):
    return [x + y for x, y in zip(a, b)]


def psub(a, b):
    return [x - y for x, y in zip(a, b)]


def val_col(col, b, n):
    """integer value of a limb column, last limb weight 1 (numerator over 2^{b*size})"""
    v = [0] * n
    for limb in col:
        v = [(x << b) + y for x, y in zip(v, limb)]
    return v


def phase_num(cols, sk, b, n):
    """(numerator polynomial, denominator bits) of the exact phase body + sum mask_i * s_i"""
    size = len(cols[0])
    v = val_col(cols[0], b, n)
    for i, s in enumerate(sk):
        v = padd(v, negmul(s, val_col(cols[i + 1], b, n)))
    return v, b * size


def rescale(num, bits, D):
    return [x << (D - bits) for x in num] if D >= bits else None


def centered(x, D):
    m = 1 << D
    r = x % m
    return r - m if r >= (m >> 1) else r


def inv_mod(g, m):
    return pow(g % m, -1, m)


# --------------------------------------------------------------------------- wire format
def p_poly(s):
    return [int(x) for x in s.split(",")] if s and s != "-" else []


def p_col(s):
    return [p_poly(x) for x in s.split("|")] if s and s != "-" else []


def p_ct(s):
    return [p_col(x) for x in s.split(";")] if s and s != "-" else []


def p_keys(s):
    out = []
    if s == "-" or not s:
        return out
    for part in s.split("@"):
        p, body = part.split(":", 1)
        out.append((int(p), [p_ct(x) for x in body.split("/")]))
    return out


def parse_answer(line):
    t = line.split()
    if len(t) < 2:
        return {"status": "missing"}
    if t[1] != "ok":
        return {"status": t[1]}
    d = {"status": "ok"}
    for tok in t[2:]:
        k, v = tok.split("=", 1)
        d[k] = v
    return d


def harness_line(cid, c, be, dirty):
    keys = ["op", "n", "bin", "bkey", "bout", "kin", "kkey", "kout", "rin", "rout", "dsize", "dnum", "seed", "cls", "p", "skip",
            "idx", "nlin", "nlout"]
    extra = ""
    if c["op"] in PACK:
        extra = f" slots={','.join(str(x) for x in c['slots']) or '-'} lgap={c['lgap']}"
    if c["op"] in GGSW:
        extra = f" adnum={c['adnum']} adsize={c['adsize']} rdnum={c['rdnum']}"
    if c["op"] in MAT:
        extra = f" r0={c['r0']} adnum={c['adnum']} adsize={c['adsize']} rdnum={c['rdnum']} pa={c['pa']}"
    return f"{cid} " + " ".join(f"{k}={c[k]}" for k in keys) + extra + f" be={be} dirty={dirty}"


def sout_of(c):
    return ceil_div(c["kout"], c["bout"])


def model_line(cid, c, ans, big):
    return (f"{cid} ks op={c['op']} big={big} n={c['n']} bin={c['bin']} bkey={c['bkey']} bout={c['bout']} sout={sout_of(c)} "
            f"rin={c['rin']} rout={c['rout']} dsize={c['dsize']} skip={c['skip']} idx={c['idx']} nlin={c['nlin']} nlout={c['nlout']} "
            f"dft0={(cid % 3) * 12345} lgap={c.get('lgap', 0)} r0={c.get('r0', 0)} adsize={c.get('adsize', 0)} rdnum={c.get('rdnum', 0)} "
            + (f"tsk={ans['tsk']} " if "tsk" in ans else "") + f"keys={ans['keys']} a={ans['a']}")


# --------------------------------------------------------------------------- generator
def in_fft_domain(c):
    rows = c["rin"] * c["dnum"]
    return c["n"] * rows * (1 << (2 * c["bkey"])) <= (1 << 50)


def shape(rng, op, n, ntt_only=False, force=None):
    """one structured case descriptor"""
    force = force or {}
    c = {"op": op, "n": n, "p": -1, "skip": 0, "idx": 0, "nlin": 4, "nlout": 4}
    if ntt_only:
        bkey = rng.choice([19, 23, 30, 41, 52])
    else:
        bkey = rng.choice([4, 7, 10, 12, 13, 15, 17])
    mism = rng.below(4)          # radix mismatch class
    def other():
        return min(50, max(2, rng.choice([bkey - 1, bkey + 1, bkey - 3, bkey + 4, 5, 9, 19, 2 * bkey, bkey // 2 + 1])))
    bin_ = bkey if mism in (0, 2) else other()
    bout = bkey if mism in (0, 1) else other()
    if mism == 3 and rng.chance(1, 2):
        bout = bin_ - 1 if bin_ - 1 not in (bkey, 1) else bin_ + 1          # three distinct radices
    dsize = force.get("dsize", rng.choice([1, 1, 2, 3, 3, 4]))
    if op in ("lwe_ks", "glwe_to_lwe", "lwe_to_glwe"):
        dsize = 1
    # input size in its own radix, then in the key radix
    for _ in range(20):
        sin = rng.range(1, 5)
        a_size = ceil_div(sin * bin_, bkey)
        if dsize == 1 or a_size % dsize != 0 or rng.chance(1, 5):
            break
    delta = rng.below(bin_) if rng.chance(1, 2) else 0
    kin = max(1, sin * bin_ - delta)
    sin = ceil_div(kin, bin_)
    a_size = ceil_div(sin * bin_, bkey)
    needed = ceil_div(a_size, dsize)
    dcls = rng.below(4)
    dnum = max(1, needed - 1) if dcls == 0 else (needed + 1 if dcls == 1 else needed)
    extra = rng.choice([1, 1, 2, 0]) if dsize == 1 else rng.choice([0, 1, 2])
    skey = dnum * dsize + extra
    if skey <= dsize:
        skey = dsize + 1
    kkey = skey * bkey - (rng.below(bkey) if (extra > 0 and rng.chance(1, 2)) else 0)
    kcls = rng.below(3)     # result shorter / equal / longer than the input (in bits)
    in_bits = sin * bin_
    tgt = max(1, in_bits - rng.range(1, bout + 3)) if kcls == 0 else (in_bits if kcls == 1 else in_bits + rng.range(1, 2 * bout))
    kout = max(1, tgt)
    if ceil_div(kout, bout) > 7:
        kout = 7 * bout
    rin = rng.range(1, 3)
    rout = rng.range(1, 3)
    if op in AUTO or op.startswith("trace"):
        rout = rin
    if op in ("lwe_ks",):
        rin = rout = 1
    if op == "glwe_to_lwe":
        rout = 1
    if op == "lwe_to_glwe":
        rin = 1
    nl = [1, 2, 3, n // 2, n - 1, n]
    c.update({"bin": bin_, "bkey": bkey, "bout": bout, "kin": kin, "kkey": kkey, "kout": kout, "rin": rin, "rout": rout,
              "dsize": dsize, "dnum": dnum, "seed": rng.below(1 << 30) + 1,
              "cls": rng.choice(["raw", "raw", "enc", "enc", "ext", "extp", "alt", "zero"]),
              "nlin": rng.choice(nl), "nlout": rng.choice(nl)})
    if op.endswith("_assign"):
        c["bout"], c["kout"], c["rout"] = c["bin"], sin * bin_, c["rin"]
        if op == "ks_assign":
            c["rout"] = c["rin"]
    c.update(force)
    return c


def generate(ctx, rng):
    quick = ctx.tier == "quick"
    cases = []
    # (a) the plain key-switch over the shape classes; dsize 3/4 over-represented
    for k in range(240 if quick else 3000):
        n = [8, 16, 32][k % 3]
        force = {"dsize": [1, 2, 3, 4, 3, 4][k % 6]} if k % 2 == 0 else None
        cases.append(shape(rng, "ks" if k % 4 else "ks_assign", n, ntt_only=(k % 7 == 6), force=force))
    # (b) every Galois element of (Z/2NZ)* for N <= 16 (thorough: 32), rotating through the forms
    k = 0
    for n in ([8, 16] if quick else [8, 16, 32]):
        for g in range(1, 2 * n, 2):
            op = AUTO[k % len(AUTO)] if (quick and n == 16) else AUTO[k % 2]
            gg = g if g < n else g - 2 * n        # signed representative, as galois_element(-t) produces
            cases.append(shape(rng, op, n, force={"p": gg if k % 3 else g, "dsize": [1, 2, 3, 4][k % 4]}))
            k += 1
    for k2 in range(96 if quick else 1200):
        n = [8, 16, 32][k2 % 3]
        g = 2 * rng.below(n) + 1
        cases.append(shape(rng, FUSED[k2 % len(FUSED)], n, ntt_only=(k2 % 5 == 4), force={"p": g, "dsize": [3, 1, 4, 2][k2 % 4]}))
    # (c) trace: every start level
    for n in [8, 16, 32]:
        logn = n.bit_length() - 1
        for skip in range(0, logn + 1):
            for op in ["trace", "trace_assign"] * (1 if quick else 6):
                cases.append(shape(rng, op, n, force={"skip": skip, "dsize": rng.choice([1, 1, 2, 3])}))
    # (d) LWE <-> GLWE, every extraction index for N = 8 (thorough: all N)
    for n in ([8, 16] if quick else [8, 16, 32]):
        for idx in range(n):
            cases.append(shape(rng, "glwe_to_lwe", n, force={"idx": idx}))
    for k3 in range(64 if quick else 800):
        n = [8, 16, 32][k3 % 3]
        cases.append(shape(rng, ["lwe_ks", "lwe_to_glwe", "glwe_to_lwe", "extract"][k3 % 4], n, ntt_only=(k3 % 6 == 5),
                           force={"idx": rng.below(n)}))
    for c in cases:
        if c["op"] == "extract":
            c["bout"] = c["bin"]
    cases += generate_pack(ctx, rng)
    cases += generate_mat(ctx, rng)
    cases += generate_ggsw(ctx, rng)
    return cases


def generate_ggsw(ctx, rng):
    """GGSW key-switch / automorphism: per-row GLWE form + row expansion with the tensor key"""
    quick = ctx.tier == "quick"
    cases = []
    for k in range(40 if quick else 500):
        n = [8, 16, 8, 32][k % 4]
        op = GGSW[k % 4]
        c = shape(rng, "ks", n, ntt_only=(k % 9 == 8), force={"dsize": [1, 2, 1, 3][(k // 4) % 4]})
        c["op"] = op
        c["rin"] = c["rout"] = [1, 2, 3, 2][(k // 2) % 4]
        adsize = rng.choice([1, 1, 2])
        adnum = rng.range(1, 3)
        sa = adnum * adsize + rng.range(1, 2)
        c["kin"] = sa * c["bin"] - (rng.below(c["bin"] // 2) if c["bin"] > 3 else 0)
        c["adsize"], c["adnum"] = adsize, adnum
        c["bout"] = c["bin"]
        so = sa + rng.range(-1, 1)
        so = max(so, adnum * adsize, adsize + 1)
        c["kout"] = so * c["bout"]
        # res.dnum <= a.dnum is what the entry assertion admits (ggsw_keyswitch panicked for < before poulpy 4a48098)
        c["rdnum"] = adnum if (op not in ("ggsw_auto", "ggsw_ks") or k % 8 == 0) else max(1, adnum - 1)
        # key and tensor key cover the result precision
        a_size = ceil_div(max(sa, so) * c["bin"], c["bkey"])
        c["dnum"] = max(1, ceil_div(a_size, c["dsize"]) + rng.range(-1, 0))
        skey = c["dnum"] * c["dsize"] + rng.choice([1, 2])
        c["kkey"] = skey * c["bkey"]
        c["p"] = rng.choice([-1, 2 * rng.below(n) + 1, -(2 * rng.below(n) + 1), 5, 25])
        c["cls"] = rng.choice(["raw", "raw", "alt", "ext", "zero"])
        if op.endswith("_assign"):
            c["rdnum"], c["kout"] = adnum, ceil_div(c["kin"], c["bin"]) * c["bin"]
        cases.append(c)
    return cases


def generate_mat(ctx, rng):
    """key-switching of switching keys and automorphism of automorphism keys (loops of the GLWE forms over the rows)"""
    quick = ctx.tier == "quick"
    cases = []
    for k in range(36 if quick else 600):
        n = [8, 16, 32][k % 3]
        op = MAT[k % 4]
        c = shape(rng, "ks", n, ntt_only=(k % 9 == 8), force={"dsize": [1, 2, 3, 1][k % 4]})
        c["op"] = op
        # the GGLWE operand A lives in the "input" layout (bin, kin): kin must hold adnum*adsize limbs and more than adsize
        adsize = rng.choice([1, 1, 2])
        adnum = rng.range(1, 3)
        sa = adnum * adsize + rng.range(0, 1)
        if sa <= adsize:
            sa = adsize + 1
        c["kin"] = sa * c["bin"]
        c["adsize"], c["adnum"], c["rdnum"] = adsize, adnum, rng.range(1, adnum)
        c["r0"] = rng.range(1, 2)
        c["bout"] = c["bin"]                       # assert_eq!(res.base2k(), a.base2k())
        c["kout"] = max(c["kout"], (c["rdnum"] * adsize + 1) * c["bin"]) if op.endswith("_ks") or op == "atk_auto" else c["kout"]
        if ceil_div(c["kout"], c["bout"]) > 6:
            c["kout"] = 6 * c["bout"]
        # the key must cover the operand in its own radix
        a_size = ceil_div(sa * c["bin"], c["bkey"])
        c["dnum"] = max(1, ceil_div(a_size, c["dsize"]) + rng.range(-1, 1))
        skey = c["dnum"] * c["dsize"] + rng.choice([0, 1, 2])
        if skey <= c["dsize"]:
            skey = c["dsize"] + 1
        c["kkey"] = skey * c["bkey"]
        if op.startswith("atk"):
            c["rout"] = c["rin"]
            c["r0"] = c["rin"]
            c["pa"] = 2 * rng.below(n) + 1
            c["p"] = rng.choice([-1, 2 * rng.below(n) + 1, -(2 * rng.below(n) + 1)])
        else:
            c["pa"] = 1
        if op.endswith("_assign"):
            c["rdnum"] = adnum
            c["kout"] = c["kin"]
            c["rout"] = c["rin"]
        c["cls"] = "enc"
        cases.append(c)
    return cases


def pack_shape(rng, op, n, slots, lgap, ntt_only=False):
    """small key / ciphertext shapes for the packing trees (many key-switches per case)"""
    c = shape(rng, "trace", n, ntt_only=ntt_only, force={"dsize": rng.choice([1, 1, 2, 3])})
    c["op"] = op
    c["rin"] = c["rout"] = rng.choice([1, 1, 2])
    c["slots"], c["lgap"] = list(slots), lgap
    c["cls"] = rng.choice(["raw", "enc", "enc", "ext", "alt"])
    if op == "packer":                       # accumulators and result share the layout of the inputs
        c["bout"], c["kout"] = c["bin"], ceil_div(c["kin"], c["bin"]) * c["bin"]
    return c


def subsets_of(k):
    return [[i for i in range(k) if (m >> i) & 1] for m in range(1, 1 << k)]


def generate_pack(ctx, rng):
    """every subset of slots for the configurations with <= 8 slots, random subsets beyond"""
    quick = ctx.tier == "quick"
    cases = []
    for n in ([8] if quick else [8, 16, 32]):
        logn = n.bit_length() - 1
        for L in range(0, 4):                # 2^L slots, gap = n / 2^L
            if L > logn:
                continue
            lgap = logn - L
            gap = 1 << lgap
            for sub in subsets_of(1 << L):
                cases.append(pack_shape(rng, "pack", n, [j * gap for j in sub], lgap))
    # random subsets beyond 8 slots, stray (non-slot) indices, NTT-only radices
    for k in range(24 if quick else 400):
        n = [16, 32, 16][k % 3]
        logn = n.bit_length() - 1
        lgap = rng.below(logn - 2) if k % 4 else rng.below(logn + 1)
        gap = 1 << lgap
        cnt = n // gap
        sub = [j * gap for j in range(cnt) if rng.chance(1, 3 if k % 2 else 2)] or [rng.below(cnt) * gap]
        if k % 6 == 5 and gap > 1:
            sub = sorted(set(sub + [rng.below(n - 1) | 1]))          # an index that is not a slot: ignored by glwe_pack
        if k % 12 == 11 and gap > 1:
            sub = [1]                                                   # no slot at all: a.get(&0).unwrap() panics
        cases.append(pack_shape(rng, "pack", n, sub, lgap, ntt_only=(k % 8 == 7)))
    # the streaming packer: arrivals 0..n/2^lb-1, `slots` = the arrivals that carry a ciphertext
    for n in ([8] if quick else [8, 16]):
        logn = n.bit_length() - 1
        for lb in range(0, logn):
            cnt = n >> lb
            subs = subsets_of(cnt) if cnt <= 8 else []
            for sub in subs:
                cases.append(pack_shape(rng, "packer", n, sub, lb))
    for k in range(8 if quick else 120):
        n = [16, 32][k % 2]
        logn = n.bit_length() - 1
        lb = rng.below(logn)
        cnt = n >> lb
        sub = [j for j in range(cnt) if rng.chance(1, 2)] or [rng.below(cnt)]
        cases.append(pack_shape(rng, "packer", n, sub, lb, ntt_only=(k % 8 == 7)))
    return cases


# --------------------------------------------------------------------------- property oracle
class OracleFail(Exception):
    pass


def secrets_of(c, ans):
    """effective (sk_in polys, sk_out polys) of the GLWE key-switch inside the operation"""
    n, op = c["n"], c["op"]
    if op in ("lwe_ks",):
        sin_ = aut(p_poly(ans["skin"]) + [0] * (n - c["nlin"]), -1)
        sout_ = aut(p_poly(ans["skout"]) + [0] * (n - c["nlout"]), -1)
        return [sin_], [sout_]
    if op == "glwe_to_lwe":
        return [p_poly(x) for x in ans["skin"].split(";")], [aut(p_poly(ans["skout"]) + [0] * (n - c["nlout"]), -1)]
    if op == "lwe_to_glwe":
        return [aut(p_poly(ans["skin"]) + [0] * (n - c["nlin"]), -1)], [p_poly(x) for x in ans["skout"].split(";")]
    sk_in = [p_poly(x) for x in ans["skin"].split(";")]
    sk_out = [p_poly(x) for x in ans["skout"].split(";")]
    return sk_in, sk_out


def key_errors(c, p, rows, sk_in, sk_out):
    """max_{r,i} |E_{r,i}|_inf as a pair (numerator, denominator bits): E = phase(K_{r,i}) - s_i 2^{-(r+1) dsize b}.
    For an automorphism key the rows are encrypted under sigma_{p^-1}(s)."""
    n, b, dsize, rin = c["n"], c["bkey"], c["dsize"], c["rin"]
    tgt = sk_out
    if c["op"] in AUTO or c["op"].startswith("trace") or c["op"] in PACK:
        ginv = inv_mod(p, 2 * n)
        tgt = [aut(s, ginv) for s in sk_out]
    size = len(rows[0][0])
    D = b * size
    worst = 0
    for idx, ct in enumerate(rows):
        r, i = idx // rin, idx % rin
        num, bits = phase_num(ct, tgt, b, n)
        sh = D - (r + 1) * dsize * b
        if sh < 0:
            raise OracleFail("key row below its own precision")
        want = [x << sh for x in sk_in[i]]
        e = max(abs(centered(x - y, D)) for x, y in zip(num, want))
        worst = max(worst, e)
        # key well-formedness (C03 covers key generation): every row must be an encryption of the input secret's
        # gadget multiple with the *configured* noise (default sigma 3.2, bound 6 sigma, at precision kkey) — the
        # result bound below is derived from the measured error, so a malformed key must be rejected here
        allowed = 20 * (1 << max(0, D - c["kkey"])) + 2
        if e > allowed:
            raise OracleFail(f"key row {r}, input column {i} is not an encryption of s_in[{i}]*2^-{(r + 1) * dsize * b} within the "
                             f"configured noise: error 2^{e.bit_length() - D} > 2^{allowed.bit_length() - D}")
    return worst, D


def ks_bound(c, D, emax_num, emax_bits, sk_in, sk_out, a_bits_in):
    """explicit bound (numerator over 2^D) on |phase_out - image(phase_in)| of ONE key-switch"""
    n, b, dsize, dnum, rin, rout = c["n"], c["bkey"], c["dsize"], c["dnum"], c["rin"], c["rout"]
    skey = ceil_div(c["kkey"], b)
    l1_in = sum(sum(abs(x) for x in s) for s in sk_in)
    l1_out = sum(sum(abs(x) for x in s) for s in sk_out)
    one = 1 << D
    def u(bits):      # 2^-bits as numerator over 2^D (rounded up)
        return max(1, one >> bits) if bits <= D else 1
    tot = 0
    # gadget product: sum_{r,i} |d_{r,i}|_1 |E_{r,i}|_inf, |d| < 2^{dsize b}
    tot += rin * dnum * n * (1 << (dsize * b)) * ((emax_num << (D - emax_bits)) if D >= emax_bits else (emax_num >> (emax_bits - D)) + 1)
    # conversion of the input into the key radix (one unit of a_conv's last limb per column)
    a_size = ceil_div(a_bits_in, b)
    if c["bin"] != c["bkey"] or c["op"].startswith("trace") or c["op"] in PACK:
        tot += (1 + l1_in) * u(b * a_size) * 2
    # limbs of the mask beyond dnum*dsize and of the body beyond the key size are dropped
    L = min(a_size, dnum * dsize)
    if a_size > L:
        tot += l1_in * u(b * L)
    if a_size > skey:
        tot += u(b * skey)
    # dsize >= 3: product limbs dropped by res.set_size
    if dsize >= 3:
        for di in range(dsize):
            drop = max(dsize - di - 2, 0)
            for l in range(skey - drop, skey - di):
                tot += rin * dnum * (1 + l1_out) * n * (1 << (2 * b - 2)) * u(b * (l + 1))
    # output normalisation: one unit of the result's last limb per column
    tot += (1 + l1_out) * u(c["bout"] * sout_of(c)) * 2
    return tot


def expected_and_bound(c, ans):
    """returns (got numerator list, expected numerator list, D, bound numerator, coefficient indices to compare)"""
    n, op = c["n"], c["op"]
    keys = p_keys(ans["keys"])
    a_cols = p_ct(ans["a"])
    res_cols = p_ct(ans["res"])
    sk_in, sk_out = secrets_of(c, ans)
    bin_, bout = c["bin"], c["bout"]
    lwe_in = op in ("lwe_ks", "lwe_to_glwe")
    lwe_out = op in ("lwe_ks", "glwe_to_lwe")
    # ---- input phase (exact, real representative)
    if lwe_in:
        limbs = a_cols[0]
        emb = [[[l[0]] + [0] * (n - 1) for l in limbs], [l[1:1 + c["nlin"]] + [0] * (n - c["nlin"]) for l in limbs]]
        pin, bits_in = phase_num(emb, sk_in, bin_, n)
    else:
        pin, bits_in = phase_num(a_cols, sk_in, bin_, n)
    # ---- output phase
    if lwe_out:
        limbs = res_cols[0]
        emb = [[[l[0]] + [0] * (n - 1) for l in limbs], [l[1:1 + c["nlout"]] + [0] * (n - c["nlout"]) for l in limbs]]
        pout, bits_out = phase_num(emb, sk_out, bout, n)
    else:
        pout, bits_out = phase_num(res_cols, sk_out, bout, n)
    skey = ceil_div(c["kkey"], c["bkey"])
    levels = 0
    if op.startswith("trace"):
        levels = (n.bit_length() - 1) - c["skip"]
    D = max(bits_in, bits_out, c["bkey"] * skey) + 8 + levels
    pin = rescale(pin, bits_in, D)
    pout = rescale(pout, bits_out, D)
    a_bits = len(a_cols[0]) * bin_
    # ---- key errors (also checks that the key encrypts what it should)
    worst = 0
    for (p, rows) in keys:
        e, eb = key_errors(c, p if p != 0 else 1, rows, sk_in, sk_out)
        worst = max(worst, e)
    eb = c["bkey"] * skey
    idxs = list(range(n))
    if op in ("ks", "ks_assign"):
        exp, B = pin, ks_bound(c, D, worst, eb, sk_in, sk_out, a_bits)
    elif op in AUTO:
        g = keys[0][0]
        ginv = inv_mod(g, 2 * n)
        tgt = [aut(s, ginv) for s in sk_out]
        sg = aut(pin, g)
        exp = {"auto": sg, "auto_assign": sg, "auto_add": padd(sg, pin), "auto_add_assign": padd(sg, pin), "auto_sub": psub(sg, pin),
               "auto_sub_assign": psub(sg, pin), "auto_subneg": psub(pin, sg), "auto_subneg_assign": psub(pin, sg)}[op]
        B = ks_bound(c, D, worst, eb, sk_in, tgt, a_bits)
    elif op.startswith("trace"):
        exp = pin
        B = 0
        bits_tmp = max(a_bits, c["bout"] * sout_of(c)) if op == "trace" else a_bits
        for i in range(c["skip"], n.bit_length() - 1):
            g = -1 if i == 0 else pow(5, 1 << (i - 1), 2 * n)
            if any(x & 1 for x in exp):
                raise OracleFail("D too small for the trace halvings")
            h = [x >> 1 for x in exp]
            exp = padd(h, aut(h, g))
            cc = dict(c, bout=c["bkey"], kout=ceil_div(bits_tmp, c["bkey"]) * c["bkey"])
            B += ks_bound(cc, D, worst, eb, sk_in, sk_out, bits_tmp) + (1 + sum(sum(abs(x) for x in s) for s in sk_in)) * max(1, (1 << D) >> (ceil_div(bits_tmp, c["bkey"]) * c["bkey"])) * 2
        B += (1 + sum(sum(abs(x) for x in s) for s in sk_out)) * max(1, (1 << D) >> (c["bout"] * sout_of(c))) * 4
    elif op == "lwe_ks":
        exp, B, idxs = pin, ks_bound(c, D, worst, eb, sk_in, sk_out, a_bits), [0]
    elif op == "glwe_to_lwe":
        exp, B, idxs = rot(pin, -c["idx"]), ks_bound(c, D, worst, eb, sk_in, sk_out, a_bits), [0]
    elif op == "lwe_to_glwe":
        exp, B, idxs = pin, ks_bound(c, D, worst, eb, sk_in, sk_out, a_bits), [0]
    else:
        return None
    return pout, exp, D, B, idxs, worst


def p_slots(s):
    out = []
    if s == "-" or not s:
        return out
    for part in s.split("@"):
        j, body = part.split(":", 1)
        out.append((int(j), p_ct(body)))
    return out


def bitrev_offset(k, n, lb):
    """rotation received by the k-th arrival of the streaming packer: sum_b bit_b(k) * n / 2^(lb+1+b)"""
    off, b = 0, 0
    while k >> b:
        if (k >> b) & 1:
            off += n >> (lb + 1 + b)
        b += 1
    return off


def pack_expected_and_bound(c, ans):
    """ring packing: glwe_pack puts the constant coefficient of the phase of input J (J a multiple of the gap) on
    coefficient J and nothing anywhere else; the streaming packer puts the coefficients m*n/2^lb of its k-th arrival
    on m*n/2^lb + bitrev_offset(k)."""
    n, op = c["n"], c["op"]
    logn = n.bit_length() - 1
    keys = p_keys(ans["keys"])
    ins = p_slots(ans["a"])
    res_cols = p_ct(ans["res"])
    sk = [p_poly(x) for x in ans["skin"].split(";")]
    bin_, bout = c["bin"], c["bout"]
    pout, bits_out = phase_num(res_cols, sk, bout, n)
    skey = ceil_div(c["kkey"], c["bkey"])
    a_bits = len(ins[0][1][0]) * bin_ if ins else bin_
    D = max(a_bits, bits_out, c["bkey"] * skey) + 8
    pout = rescale(pout, bits_out, D)
    exp = [0] * n
    if op == "pack":
        gap = 1 << c["lgap"]
        L = logn - c["lgap"]
        for (J, cols) in ins:
            if J % gap:
                continue
            ph, bits = phase_num(cols, sk, bin_, n)
            exp[J] += ph[0] << (D - bits)
    else:
        lb = c["lgap"]
        L = logn - lb
        M = n >> lb
        for (k, cols) in ins:
            ph, bits = phase_num(cols, sk, bin_, n)
            proj = [(x << (D - bits)) if t % M == 0 else 0 for t, x in enumerate(ph)]
            exp = padd(exp, rot(proj, bitrev_offset(k, n, lb)))
    worst = 0
    for (p, rows) in keys:
        e, _ = key_errors(c, p, rows, sk, sk)
        worst = max(worst, e)
    eb = c["bkey"] * skey
    l1 = sum(sum(abs(x) for x in s) for s in sk)
    c_in = dict(c, op="auto", bout=bin_, kout=a_bits)
    unit = (ks_bound(c_in, D, worst, eb, sk, sk, a_bits) + ks_bound(dict(c, op="auto"), D, worst, eb, sk, sk, max(a_bits, bits_out))
            + 8 * (1 + l1) * (max(1, (1 << D) >> a_bits) + max(1, (1 << D) >> bits_out)))
    nops = len(ins) * L + logn + 2
    return pout, exp, D, nops * unit, list(range(n)), worst


def ggsw_oracle(c, ans):
    """every cell (row, col) of the resulting GGSW must encrypt m2' * sigma_col * 2^(-(row+1) dsize b) under the target key
    (m2' = m2 or its Galois image; sigma_0 = 1, sigma_col = s_{col-1}) within: l1(sigma_col) * (input error + key-switch bound)
    + gadget bound of the tensor key; the tensor key itself must encrypt the products s_i s_j."""
    n, op, rank = c["n"], c["op"], c["rin"]
    if ans["res"].startswith("panic:"):
        return None
    b, bk, ds, dsk = c["bin"], c["bkey"], c["adsize"], c["dsize"]
    sk_in = [p_poly(x) for x in ans["skin"].split(";")]
    sk_out = [p_poly(x) for x in ans["skout"].split(";")]
    m2 = p_poly(ans["m2"])
    cols = rank + 1
    a_cells = [p_ct(x) for x in ans["a"].split("/")]
    r_cells = [p_ct(x) for x in ans["res"].split("/")]
    (pk, krows) = p_keys(ans["keys"])[0]
    tsk = [[p_ct(x) for x in g.split("/")] for g in ans["tsk"].split("@")]
    skey = ceil_div(c["kkey"], bk)
    so = len(r_cells[0][0])
    sa = len(a_cells[0][0])
    D = max(b * so, b * sa, bk * skey) + 8
    is_auto = "auto" in op
    g = pk if is_auto else 1
    m2p = aut(m2, g) if is_auto else m2
    tgt_ks = [aut(s_, inv_mod(g, 2 * n)) for s_ in sk_out] if is_auto else sk_out
    try:
        cks = dict(c, op="auto" if is_auto else "ks")
        worst_k, _ = key_errors(cks, g, krows, sk_in, sk_out)
        # tensor key i, row r, input column j encrypts s_i * s_j
        worst_t = 0
        for i, rows in enumerate(tsk):
            prods = [negmul(sk_out[i], sj) for sj in sk_out]
            e, _ = key_errors(dict(c, op="ks"), 1, rows, prods, sk_out)
            worst_t = max(worst_t, e)
    except OracleFail as e:
        return f"oracle: {e}"
    eb = bk * skey
    # input error of the column-0 cells
    e_in = 0
    for row in range(len(a_cells) // cols):
        ph, bits = phase_num(a_cells[row * cols], sk_in, b, n)
        sh = bits - (row + 1) * ds * b
        want = [x << sh for x in m2] if sh >= 0 else [0] * n
        e_in = max(e_in, max(abs(centered(x - y, bits)) for x, y in zip(ph, want)) << (D - bits))
    u_ks = ks_bound(dict(cks, rout=rank), D, worst_k, eb, sk_in, tgt_ks, b * sa)
    b0 = e_in + u_ks
    for q, cell in enumerate(r_cells):
        row, col = q // cols, q % cols
        sigma = ([1] + [0] * (n - 1)) if col == 0 else sk_out[col - 1]
        want = negmul(m2p, sigma)
        ph, bits = phase_num(cell, sk_out, b, n)
        sh = D - (row + 1) * ds * b
        ref = [w << sh for w in want] if sh >= 0 else [0] * n
        got = rescale(ph, bits, D)
        dev = max(abs(centered(x - y, D)) for x, y in zip(got, ref))
        if col == 0:
            bnd = b0
        else:
            prods = [negmul(sk_out[col - 1], sj) for sj in sk_out]
            bnd = sum(abs(x) for x in sk_out[col - 1]) * b0 + ks_bound(dict(c, op="ks", bout=b, kout=b * so, rout=rank), D, worst_t, eb, prods, sk_out, b * so)
        c["_dev_bits"] = (dev.bit_length() - D) if dev else None
        c["_bound_bits"] = bnd.bit_length() - D
        if dev > bnd:
            return f"GGSW cell (row {row}, col {col}) deviates by 2^{dev.bit_length() - D} > bound 2^{bnd.bit_length() - D}"
    return None


def s_ct(cols):
    return ";".join("|".join(",".join(str(x) for x in l) for l in col) for col in cols)


def rust_rem(a, m):
    r = abs(a) % m
    return -r if a < 0 else r


def mat_oracle(c, ans):
    """every ciphertext of the result matrix is the key-switch of the corresponding ciphertext of the operand:
    the `ks` oracle row by row (for the automorphism of an automorphism key: after conjugation by sigma_pa)"""
    n, op = c["n"], c["op"]
    a_txt, r_txt = ans["a"], ans["res"]
    if r_txt.startswith("panic:"):
        return None
    if op.startswith("atk"):
        pa, a_body = a_txt.split(":", 1)
        pr, r_body = r_txt.split(":", 1)
        pa, pr = int(pa), int(pr)
        q = int(ans["keys"].split(":", 1)[0])
        if pr != rust_rem(pa * q, 2 * n):
            return f"Galois element of the result is {pr}, expected {rust_rem(pa * q, 2 * n)}"
    else:
        a_body, r_body, pa, q = a_txt, r_txt, 1, 1
    rows_in = a_body.split("/")
    rows_out = r_body.split("/")
    sk = [p_poly(x) for x in ans["skin"].split(";")]
    worst_msg = None
    dev_max = None
    for idx, ro in enumerate(rows_out):
        ci = p_ct(rows_in[idx])
        co = p_ct(ro)
        if op.startswith("atk"):
            ci = [[aut(l, pa) for l in col] for col in ci]
            co = [[aut(l, pa) for l in col] for col in co]
            sub = {"skin": ans["skin"], "skout": ";".join(",".join(str(x) for x in aut(s_, inv_mod(q, 2 * n))) for s_ in sk)}
        else:
            sub = {"skin": ans["skin"], "skout": ans["skout"]}
        sub.update({"keys": "0:" + ans["keys"].split(":", 1)[1], "a": s_ct(ci), "res": s_ct(co)})
        cc = dict(c, op="ks", rout=len(co) - 1)
        try:
            pout, exp, D, B, idxs, worst = expected_and_bound(cc, sub)
        except OracleFail as e:
            return f"oracle: {e}"
        dev = max(abs(centered(pout[t] - exp[t], D)) for t in idxs)
        if dev > B:
            return f"row {idx}: phase deviates by 2^{dev.bit_length() - D} > bound 2^{B.bit_length() - D}"
        c["_dev_bits"] = (dev.bit_length() - D) if dev else None
        c["_bound_bits"] = B.bit_length() - D
    return None


def oracle(c, ans):
    """None if the implementation's own output satisfies the property, else a description"""
    if c["op"] == "extract" or ans["res"].startswith("panic:"):
        return None
    if c["op"] in GGSW:
        return ggsw_oracle(c, ans)
    if c["op"] in MAT:
        return mat_oracle(c, ans)
    try:
        r = pack_expected_and_bound(c, ans) if c["op"] in PACK else expected_and_bound(c, ans)
    except OracleFail as e:
        return f"oracle: {e}"
    if r is None:
        return None
    pout, exp, D, B, idxs, worst = r
    dev = max(abs(centered(pout[t] - exp[t], D)) for t in idxs)
    c["_dev_bits"] = (dev.bit_length() - D) if dev else None
    c["_bound_bits"] = B.bit_length() - D
    if dev > B:
        return f"phase deviates by 2^{dev.bit_length() - D} > bound 2^{B.bit_length() - D} (key error 2^{worst.bit_length() - c['bkey'] * ceil_div(c['kkey'], c['bkey'])})"
    return None


# --------------------------------------------------------------------------- run
def class_key(c):
    rel = lambda x, y: "=" if x == y else ("<" if x < y else ">")
    a_size = ceil_div(ceil_div(c["kin"], c["bin"]) * c["bin"], c["bkey"])
    needed = ceil_div(a_size, c["dsize"])
    if c["op"] in GGSW:
        return (c["op"], c["n"], c["rin"], c["dsize"], c["adsize"], c["adnum"], c["rdnum"], rel(c["bin"], c["bkey"]), c["bkey"] > 17,
                rel(c["kout"], c["kin"]), c["cls"])
    if c["op"] in MAT:
        return (c["op"], c["n"], c["rin"], c["rout"], c["r0"], c["dsize"], c["adsize"], c["adnum"], c["rdnum"], rel(c["bin"], c["bkey"]),
                c["bkey"] > 17, rel(c["kout"], c["kin"]))
    if c["op"] in PACK:
        cnt = c["n"] >> c["lgap"]
        return (c["op"], c["n"], c["lgap"], tuple(c["slots"]) if cnt <= 8 else len(c["slots"]), c["rin"], c["dsize"], c["cls"], c["bkey"] > 17,
                rel(c["bin"], c["bkey"]), rel(c["bout"], c["bkey"]))
    return (c["op"], c["n"], c["rin"], c["rout"], c["dsize"], a_size % c["dsize"] != 0, rel(c["dnum"], needed), rel(c["bin"], c["bkey"]),
            rel(c["bout"], c["bkey"]), rel(c["kout"], c["kin"]), c["cls"], c["bkey"] > 17)


def run(ctx):
    rng = ctx.rng
    ctx.trusted += ["pvh ks (harness/src/cmd_ks.rs) and pdriver ks (lean/Poulpy/Driver/Ks.lean): parsing/printing of the dumped keys, "
                    "secrets, inputs and results", "the Python phase oracle of vlib/c03.py (exact big-integer negacyclic arithmetic)"]
    ctx.assumptions += ["FFT64 back ends are compared inside their magnitude domain n*rows*2^(2*base2k) <= 2^50 only",
                        "the error of a fresh key row is taken from the dumped key itself (exact decryption), not from a variance estimate"]
    broken = []
    ok, failures = ctx.proof_gate(["Poulpy.Props.C03"])
    if not ok:
        broken += failures
    binp = ctx.build_harness()
    drv = ctx.driver()
    if binp is None:
        broken.append("harness build failed: " + getattr(ctx, "build_error", "")[-400:])
    if drv is None:
        broken.append("model driver does not build: " + getattr(ctx, "driver_error", "")[-400:])
    found = None
    dnum_panics = []
    stale = []
    hist = {}
    if binp and drv:
        cases = generate(ctx, rng.fork())
        # ---- implementation
        lines, meta = [], []
        for ci, c in enumerate(cases):
            bes = (BACKENDS if in_fft_domain(c) else NTT)
            for be in bes:
                meta.append((ci, be, 0))
                lines.append(harness_line(len(lines), c, be, 0))
            # scratch-garbage twin on one reference back end of each family
            for be in ([bes[0], bes[-2]] if len(bes) == 4 else [bes[0]]):
                meta.append((ci, be, 1))
                lines.append(harness_line(len(lines), c, be, 1))
        rc, out, err = ctx.run_lines(binp, ["ks"], lines, timeout=3000)
        if rc != 0 or len(out) != len(lines):
            broken.append(f"pvh ks failed rc={rc} lines={len(out)}/{len(lines)} {err[-300:]}")
            out = out + [""] * (len(lines) - len(out))
        answers = [parse_answer(l) for l in out]
        # ---- model, once per (case, flavour, distinct input dump)
        mlines, mkey = [], {}
        for k, (ci, be, dirty) in enumerate(meta):
            a = answers[k]
            if a["status"] != "ok" or dirty:
                continue
            big = 64 if be.startswith("fft") else 128
            key = (ci, big, a["keys"], a["a"])
            if key not in mkey:
                mkey[key] = len(mlines)
                mlines.append(model_line(len(mlines), cases[ci], a, big))
        rc, mout, err = ctx.run_lines(drv, [], mlines, timeout=3000)
        if rc != 0 or len(mout) != len(mlines):
            broken.append(f"pdriver ks failed rc={rc} lines={len(mout)}/{len(mlines)} {err[-300:]}")
            mout = mout + [""] * (len(mlines) - len(mout))
        # ---- compare
        clean = {}
        for k, (ci, be, dirty) in enumerate(meta):
            c, a = cases[ci], answers[k]
            if dirty:
                continue
            big = 64 if be.startswith("fft") else 128
            ctx.count_case((be,) + class_key(c), nontrivial=(c["cls"] != "zero"))
            hist[c["op"]] = hist.get(c["op"], 0) + 1
            if a["status"] != "ok":
                ctx.disagreements += 1
                broken.append(f"implementation did not complete: case {ci} {be} {a['status']} {harness_line(0, c, be, 0)}")
                continue
            clean[(ci, be)] = a["res"]
            if c["op"] == "ggsw_ks" and c["rdnum"] < c["adnum"] and a["res"].startswith("panic:"):
                dnum_panics.append((c, be, a["res"]))
            mi = mkey[(ci, big, a["keys"], a["a"])]
            mt = mout[mi].split()
            mres = mt[2] if len(mt) > 2 and mt[1] == "ok" else (mt[1] if len(mt) > 1 else "?")
            if mres != a["res"] and c["op"].startswith("trace") and c["dsize"] >= 3:
                stale.append((c, be))          # res_dft of level i+1 holds level i's data (same defect, see STALE_KEY)
                continue
            if mres != a["res"]:
                ctx.disagreements += 1
                if len(broken) < 12:
                    broken.append(f"model != {be}: {harness_line(0, c, be, 0)} model={mres[:80]} impl={a['res'][:80]}")
            bad = oracle(c, a)
            if bad:
                ctx.oracle_failures += 1
                if found is None:
                    found = {"case": harness_line(0, c, be, 0), "verdict": bad, "res": a["res"][:400]}
                if len(broken) < 12:
                    broken.append(f"property oracle: {bad}: {harness_line(0, c, be, 0)}")
            if len(ctx.samples) < 10 and be == "ntt120ref" and ci % 17 == 0:
                ctx.samples.append({"case": harness_line(ci, c, be, 0), "deviation_log2": c.get("_dev_bits"), "bound_log2": c.get("_bound_bits"),
                                    "res_head": a["res"][:60]})
        # FFT64 = NTT120 on the intersection
        for ci, c in enumerate(cases):
            rs = {be: clean.get((ci, be)) for be in BACKENDS if (ci, be) in clean}
            if len(set(rs.values())) > 1:
                ctx.disagreements += 1
                if len(broken) < 12:
                    broken.append(f"back ends disagree with each other: {harness_line(0, c, 'x', 0)} {sorted((k, v[:40]) for k, v in rs.items())}")
        # scratch-garbage twins
        for k, (ci, be, dirty) in enumerate(meta):
            if not dirty:
                continue
            c, a = cases[ci], answers[k]
            ctx.evaluations += 1
            ref = clean.get((ci, be))
            if ref is None:
                continue
            if a["status"] != "ok" or a["res"] != ref:
                if (c["op"] in FUSED or c["op"].startswith("trace")) and c["dsize"] >= 3:
                    stale.append((c, be))
                    bad = oracle(c, a) if a["status"] == "ok" else a["status"]
                    if bad and "stale_oracle" not in ctx.cov:
                        ctx.cov["stale_oracle"] = {"case": harness_line(0, c, be, 1), "verdict": bad}
                else:
                    ctx.disagreements += 1
                    if len(broken) < 12:
                        broken.append(f"result depends on scratch garbage: {harness_line(0, c, be, 1)}")
                    if found is None:
                        found = {"case": harness_line(0, c, be, 1), "verdict": "result depends on the previous content of scratch"}
        ctx.cov["ops_histogram"] = hist
        sh = {}
        def bump(k):
            sh[k] = sh.get(k, 0) + 1
        for c in cases:
            if c["op"] in PACK:
                bump(f"{c['op']}: N={c['n']} lgap={c['lgap']} slots={len(c['slots'])}")
                continue
            if c["op"] in MAT or c["op"] in GGSW:
                bump(f"{c['op']}: dsize={c['dsize']}")
                continue
            ck = class_key(c)
            bump(f"dsize={c['dsize']}")
            bump("a_size%dsize!=0" if ck[5] else "a_size%dsize==0")
            bump("dnum" + ck[6] + "needed")
            bump("radix in" + ck[7] + "key,out" + ck[8] + "key")
            bump("result" + ck[9] + "input")
            bump("cls=" + c["cls"])
            bump(f"N={c['n']}")
            bump(f"ranks={c['rin']}->{c['rout']}")
            bump("ntt-only-radix" if not in_fft_domain(c) or c["bkey"] > 17 else "all-back-ends")
        ctx.cov["shape_histogram"] = dict(sorted(sh.items()))
        ctx.cov["cases"] = len(cases)
        ctx.cov["model_runs"] = len(mlines)
        ctx.cov["dirty_twins"] = sum(1 for m in meta if m[2])
        ctx.cov["stale_res_dft_cases"] = len(stale)
    if stale:
        c, be = stale[0]
        ctx.violation("glwe_automorphism_{add,sub,sub_negate}{,_assign} read the un-zeroed res_dft scratch buffer when dsize >= 3",
                      {"case": harness_line(0, c, be, 1), "clean_case": harness_line(0, c, be, 0), "count": len(stale),
                       "rerun": "printf '<case>\\n' | harness/target/release/pvh ks   (dirty=1 vs dirty=0)"}, True, key=STALE_KEY)
    if dnum_panics:
        c, be, r = dnum_panics[0]
        ctx.violation("ggsw_keyswitch panics for res.dnum < a.dnum although its entry assertion admits it (loops over a.dnum rows of res)",
                      {"case": harness_line(0, c, be, 0), "observed": r, "expected": "a GGSW with res.dnum rows (as ggsw_automorphism gives)",
                       "count": len(dnum_panics)}, True, key=GGSW_DNUM_KEY)
    if broken:
        ctx.log("broken:", *broken[:6])
        ctx.violation("C03 obligation, correspondence or phase bound no longer checks",
                      {"broken": broken[:20], "witness": found, "rerun": "./check C03 --tier " + ctx.tier}, found is not None)
    return ctx.finish(rule="case = (op, back end, N, ranks, dsize, a_size % dsize != 0, dnum </=/> needed, radix in/key/out relations, "
                           "result shorter/equal/longer, input class, NTT-only radix); distinct = that tuple; non-trivial = input class != zero; "
                           "each case: implementation on every back end of its magnitude domain, Lean model per big-accumulator flavour, "
                           "Python exact-phase oracle with the explicit bound; dirty twins = same case with garbage-filled scratch")
