"""NTT120 integer-arithmetic correspondence (part of C07): explicit-value cases for
`pvh ntt120` (harness/src/cmd_ntt120.rs — the lowest-level public functions of
poulpy_cpu_ref::reference::ntt120 and the Ntt* trait implementations of NTT120Ref / NTT120Avx)
against the Lean model `Ntt120.*` (lean/Poulpy/Driver/Ntt120.lean).

Every request is answered by both sides and compared bit for bit.  The constants (primes, roots,
CRT constants, Bbc/Bbb/Baa split points and reduction constants, Q_SHIFTED, the NTT reduction
meta) are dumped from the Rust and compared with the Lean constants first.

The independent oracle (Python big integers) evaluates the *property*, not the bit pattern:
residues congruent to the input, CRT result = centred representative, dot products congruent to the
exact sum of products, lazy add/sub/negate congruent and inside the documented range."""

PRIMES = {
    29: [(1 << 29) - 2 * (1 << 17) + 1, (1 << 29) - 5 * (1 << 17) + 1, (1 << 29) - 26 * (1 << 17) + 1, (1 << 29) - 35 * (1 << 17) + 1],
    30: [(1 << 30) - 2 * (1 << 17) + 1, (1 << 30) - 17 * (1 << 17) + 1, (1 << 30) - 23 * (1 << 17) + 1, (1 << 30) - 42 * (1 << 17) + 1],
    31: [(1 << 31) - (1 << 17) + 1, (1 << 31) - 4 * (1 << 17) + 1, (1 << 31) - 11 * (1 << 17) + 1, (1 << 31) - 23 * (1 << 17) + 1],
}
I64_MIN, I64_MAX = -(1 << 63), (1 << 63) - 1
U64, U32 = 1 << 64, 1 << 32

RULE = ("ntt120: explicit values through b_from_znx64(+masked)/c_from_znx64/c_from_b/b_to_znx128/idft_consume CRT/"
        "vec_mat{1col,1col_x2,2cols_x2}_product_bbc/bbb/baa/add_bbb/add_ccc/NttAdd..NttNegateAssign/split_precompmul/modq_red/"
        "modq_pow, ntt_ref/intt_ref (n = 1 … 1024, whole tables compared for n ≤ 1024) and the n=1 HAL pipeline; generic functions for Primes29/30/31, trait forms on NTT120Ref and NTT120Avx; "
        "boundary classes 0, ±1, ±2^62, i64::MIN/MAX, k·q_j+d, ±Q/2±d, all-max lazy residues, ell up to 9999; "
        "per-value counting for per-value operations; distinct = (op, target, value class, ell class); "
        "HAL level: whole programs through pvh hal on NTT120Ref and NTT120Avx (vec_znx_dft_apply(step, offset), cnv_prepare_left/right + "
        "cnv_apply_dft / cnv_pairwise_apply_dft, vmp_prepare + vmp_apply_dft_to_dft(limb_offset, all parities of limb_offset·cols_out / "
        "col_max / ncols), random compositions of dft_apply / svp / dft_add / dft_sub / negate up to depth 4), the raw q120b words of the "
        "result buffer compared word for word with the lane compositions of Model/Ntt120Hal.lean; the VmpPMat offsets of a single "
        "non-zero entry compared with Ntt120.vmpSlotAddr")


def bigq(p):
    q = PRIMES[p]
    return q[0] * q[1] * q[2] * q[3]


def centred(x, Q):
    r = x % Q
    return r - Q if r >= (Q + 1) // 2 else r


def crt(res, p):
    q = PRIMES[p]
    Q = bigq(p)
    x = 0
    for k in range(4):
        m = Q // q[k]
        x += (res[k] % q[k]) * pow(m, -1, q[k]) * m
    return centred(x, Q)


# ------------------------------------------------------------------ value classes
def i64_value(rng, p):
    """-> (value, class)"""
    q = PRIMES[p]
    c = rng.below(12)
    if c == 0:
        return rng.choice([0, 1, -1, 2, -2]), "small"
    if c == 1:
        return rng.choice([I64_MIN, I64_MIN + 1, I64_MAX, I64_MAX - 1]), "i64-extreme"
    if c == 2:
        s = rng.choice([1, -1])
        return s * ((1 << 62) + rng.range(-2, 2)), "2^62"
    if c in (3, 4):
        qq = rng.choice(q)
        k = rng.range(-(I64_MAX // qq), I64_MAX // qq)
        return max(I64_MIN, min(I64_MAX, k * qq + rng.range(-2, 2))), "k*q+d"
    if c == 5:
        qq = rng.choice(q)
        return rng.choice([1, -1]) * (qq + rng.range(-2, 2)), "q+d"
    if c == 6:
        # around 2^63 mod q (the OQ constant)
        qq = rng.choice(q)
        return -((1 << 63) % qq) + rng.range(-2, 2), "2^63 mod q"
    if c == 7:
        return rng.choice([1, -1]) * (1 << rng.range(0, 62)), "pow2"
    b = rng.range(1, 64)
    v = rng.below(1 << b) - (1 << (b - 1))
    return v, "random"


def u64_value(rng, p):
    q = PRIMES[p]
    c = rng.below(12)
    if c == 0:
        return rng.choice([0, 1, 2]), "small"
    if c == 1:
        return rng.choice([U64 - 1, U64 - 2, 1 << 63, (1 << 63) - 1, (1 << 63) + 1]), "u64-extreme"
    if c == 2:
        return rng.choice([U32 - 1, U32, U32 + 1, (1 << 48) - 1, 1 << 48]), "2^32"
    if c in (3, 4):
        qq = rng.choice(q)
        k = rng.range(0, (U64 - 1) // qq)
        return max(0, min(U64 - 1, k * qq + rng.range(-2, 2))), "k*q+d"
    if c == 5:
        qq = rng.choice(q)
        return max(0, min(U64 - 1, (qq << 33) * rng.range(0, 2) + rng.range(-2, 2))), "Q_SHIFTED"
    if c == 6:
        qq = rng.choice(q)
        return max(0, qq * rng.range(0, 4) + rng.range(-2, 2)), "small k*q"
    if c == 7:
        # high word ≥ q (reduce_q120b_crt's x_hi branch), low word extreme
        qq = rng.choice(q)
        hi = min(U32 - 1, qq + rng.range(-1, 3) + rng.choice([0, qq, 2 * qq]))
        return (hi << 32) | rng.choice([0, 0xFFFF, 0x10000, 0xFFFFFFFF, rng.below(U32)]), "hi>=q"
    b = rng.range(1, 64)
    return rng.below(1 << b), "random"


def u32_value(rng, p):
    q = PRIMES[p]
    c = rng.below(8)
    if c == 0:
        return rng.choice([0, 1]), "small"
    if c == 1:
        return rng.choice([U32 - 1, U32 - 2, 1 << 31, (1 << 31) - 1]), "u32-extreme"
    if c == 2:
        return rng.choice(q) + rng.range(-2, 0), "q-d"
    if c == 3:
        return min(U32 - 1, rng.choice(q) * rng.range(1, 3) + rng.range(-1, 1)), "k*q"
    b = rng.range(1, 32)
    return rng.below(1 << b), "random"


def lazy_residues(rng, x, p, cls):
    """four u64 values congruent to x modulo the four primes"""
    out = []
    for qq in PRIMES[p]:
        r = x % qq
        kmax = (U64 - 1 - r) // qq
        if cls == "canonical":
            k = 0
        elif cls == "max-lazy":
            k = kmax - rng.below(3)
        else:
            k = rng.range(0, kmax)
        out.append(r + k * qq)
    return out


def crt_value(rng, p):
    Q = bigq(p)
    h = (Q - 1) // 2
    c = rng.below(8)
    if c == 0:
        return rng.choice([0, 1, -1, 2, -2]), "small"
    if c == 1:
        return rng.choice([h, -h, h - 1, -h + 1, h - 2]), "Q/2 inside"
    if c == 2:
        return rng.choice([h + 1, -h - 1, h + 2, Q - 1, -Q + 1, Q, Q + 1, 2 * Q + 5]), "Q/2 outside"
    if c == 3:
        qq = rng.choice(PRIMES[p])
        return rng.choice([1, -1]) * (qq * rng.range(1, 1 << 40) + rng.range(-1, 1)), "k*q"
    if c == 4:
        return rng.choice([1, -1]) * (Q // rng.choice(PRIMES[p])) * rng.range(1, 3), "Q/q_k multiple"
    b = rng.range(2, Q.bit_length() - 1)
    return rng.below(1 << b) - (1 << (b - 1)), "random"


def target(rng, allow_traits=True, allow_p=True):
    """-> (token, p, label)"""
    c = rng.below(6)
    if allow_traits and c == 0:
        return "be=ref", 30, "NTT120Ref"
    if allow_traits and c in (1, 2):
        return "be=avx", 30, "NTT120Avx"
    if allow_p and c == 3:
        return "p=29", 29, "Primes29"
    if allow_p and c == 4:
        return "p=31", 31, "Primes31"
    return "p=30", 30, "Primes30"


def csv(v):
    return ",".join(str(x) for x in v) if v else "-"


# ------------------------------------------------------------------ cases
def case(rng, quick=True):
    """-> (line, meta) ; meta: op, p, label, classes (one per counted value), data for the oracle"""
    op = rng.choice(["bfrom", "bfrom", "bfromm", "cfrom", "cfromb", "bto", "bto", "consume", "bbc", "bbc", "bbcx2", "bbc2c", "bbb",
                     "baa", "lazy", "lazy", "addccc", "prim", "pipe", "pipe", "xform", "xform", "xform", "pack", "pack"])
    if op == "pack":
        # the x2-block pack kernels of the convolution (NttPackLeft1BlkX2 … on NTT120Ref / NTT120Avx)
        tok, p, lab = rng.choice([("be=ref", 30, "NTT120Ref"), ("be=avx", 30, "NTT120Avx")])
        sub = rng.choice(["packl", "packr", "ppackl", "ppackr"])
        rows = rng.range(0, 4)
        nblk = rng.range(1, 3)
        blk = rng.below(nblk)
        cols = rng.range(1, 2)
        w = 8 if sub in ("packl", "ppackl") else 16
        stride = w * nblk * cols
        total = stride * max(rows, 1)
        vc = rng.choice(["classes", "classes", "all-max", "canonical"])
        def val(i):
            qq = PRIMES[p][(i % 8) % 4] if w == 8 else PRIMES[p][(i % 16 % 8) // 2]
            if w == 8:
                return U64 - 1 if vc == "all-max" else (rng.below(qq) if vc == "canonical" else u64_value(rng, p)[0])
            return U32 - 1 if vc == "all-max" else (rng.below(qq) if vc == "canonical" else u32_value(rng, p)[0])
        x = [val(i) for i in range(total)]
        y = [val(i) for i in range(total)]
        if w == 16 and sub == "ppackr" and vc != "canonical" and tok == "be=ref":
            pass  # u32 + u32 may wrap in the reference (debug builds would panic on overflow; the harness profile wraps)
        short = rng.chance(1, 30) and total > 0 and tok != "be=avx"
        if short:
            x = x[:-1]
            y = y[:-1]
            vc = "short-operand"
        ys = f" y={csv(y)}" if sub.startswith("pp") else ""
        return f"{sub} {tok} rows={rows} stride={stride} blk={blk} x={csv(x)}{ys}", {"op": sub, "p": p, "label": lab, "classes": [vc] * max(rows, 1), "rows": rows,
                                                                                      "stride": stride, "blk": blk, "x": x, "y": y}
    if op == "xform":
        # ntt_ref / intt_ref with a fresh table (NttDFTExecute on NTT120Ref / NTT120Avx for be=)
        tok, p, lab = target(rng)
        sub = rng.choice(["ntt", "intt"])
        jc = rng.below(10)
        j = rng.range(0, 4) if jc < 6 else (rng.range(5, 7) if jc < 9 or quick else rng.range(8, 10))
        if not quick and rng.chance(1, 3):
            j = rng.range(8, 10)
        n = 1 << j
        vc = rng.choice(["all-max", "zero", "random", "random", "b_from", "classes", "impulse"])
        if vc == "all-max":
            x = [U64 - 1] * (4 * n)
        elif vc == "zero":
            x = [0] * (4 * n)
        elif vc == "random":
            x = [rng.below(U64) for _ in range(4 * n)]
        elif vc == "b_from":
            x = []
            for _ in range(n):
                v = i64_value(rng, p)[0]
                x += [v if v >= 0 else (v + (1 << 63)) + (qq - (1 << 63) % qq) for qq in PRIMES[p]]
        elif vc == "impulse":
            x = [0] * (4 * n)
            i0 = rng.below(n)
            for k in range(4):
                x[4 * i0 + k] = rng.choice([1, PRIMES[p][k] - 1, U64 - 1])
        else:
            x = [u64_value(rng, p)[0] for _ in range(4 * n)]
        return f"{sub} {tok} n={n} x={csv(x)}", {"op": sub, "p": p, "label": lab, "classes": [vc + f"/n={n}"], "n": n, "x": x}
    if op in ("bfrom", "bfromm"):
        tok, p, lab = target(rng)
        vals = [i64_value(rng, p) for _ in range(16)]
        x = [v for v, _ in vals]
        m = {"op": op, "p": p, "label": lab, "classes": [c for _, c in vals], "x": x}
        if op == "bfromm":
            mask = rng.choice([-1, 0, 1, I64_MAX, I64_MIN, (1 << rng.range(1, 62)) - 1, -(1 << rng.range(1, 62)), i64_value(rng, p)[0]])
            m["mask"] = mask
            return f"bfromm {tok} mask={mask} x={csv(x)}", m
        return f"bfrom {tok} x={csv(x)}", m
    if op == "cfrom":
        tok, p, lab = target(rng, allow_traits=False)
        vals = [i64_value(rng, p) for _ in range(16)]
        x = [v for v, _ in vals]
        return f"cfrom {tok} x={csv(x)}", {"op": op, "p": p, "label": lab, "classes": [c for _, c in vals], "x": x}
    if op == "cfromb":
        tok, p, lab = target(rng)
        m = 4 * rng.range(1, 4)        # AVX kernel: whole elements
        vals = [u64_value(rng, p) for _ in range(4 * m)]
        x = [v for v, _ in vals]
        return f"cfromb {tok} x={csv(x)}", {"op": op, "p": p, "label": lab, "classes": [vals[4 * i][1] for i in range(m)], "x": x}
    if op in ("bto", "consume"):
        tok, p, lab = target(rng, allow_p=(op == "bto"))
        if op == "consume" and not tok.startswith("be="):
            tok, p, lab = "be=ref", 30, "NTT120Ref"
        m = rng.range(1, 8)
        xs, classes, res = [], [], []
        for _ in range(m):
            if rng.chance(1, 6):
                r = [u64_value(rng, p)[0] for _ in range(4)]
                xs.append(None)
                classes.append("raw residues")
            else:
                v, c = crt_value(rng, p)
                lz = rng.choice(["canonical", "max-lazy", "random-lazy"])
                r = lazy_residues(rng, v, p, lz)
                xs.append(v)
                classes.append(c + "/" + lz)
            res += r
        return f"{op} {tok} x={csv(res)}", {"op": op, "p": p, "label": lab, "classes": classes, "x": res, "values": xs}
    if op in ("bbc", "bbcx2", "bbc2c", "bbb", "baa"):
        tok, p, lab = target(rng, allow_traits=(op != "baa"))
        ellc = rng.below(10)
        if ellc == 0:
            ell, ec = 0, "0"
        elif ellc <= 4:
            ell, ec = rng.range(1, 4), "1..4"
        elif ellc <= 7:
            ell, ec = rng.range(5, 64), "5..64"
        elif ellc == 8 or quick and rng.chance(3, 4):
            ell, ec = rng.range(65, 600), "65..600"
        else:
            ell, ec = rng.choice([9999, 9999, 10000, rng.range(601, 9998)]), "601..10000"
        wx = {"bbc": 8, "bbcx2": 16, "bbc2c": 16, "bbb": 4, "baa": 4}[op]
        wy = {"bbc": 8, "bbcx2": 16, "bbc2c": 32, "bbb": 4, "baa": 4}[op]
        vc = rng.choice(["all-max", "random", "random", "classes", "y-prepared"])
        gen = u64_value if op == "bbb" else u32_value
        top = U64 - 1 if op == "bbb" else U32 - 1
        if vc == "all-max":
            x = [top] * (wx * ell)
            y = [top] * (wy * ell)
        elif vc == "random":
            x = [rng.below(top + 1) for _ in range(wx * ell)]
            y = [rng.below(top + 1) for _ in range(wy * ell)]
        elif vc == "y-prepared" and op not in ("bbb", "baa"):
            # y a genuine q120c vector (r, r·2^32 mod q), x arbitrary lazy residues
            x = [rng.below(U32) for _ in range(wx * ell)]
            y = []
            for i in range(wy * ell // 2):
                qq = PRIMES[p][i % 4]
                r = rng.choice([0, 1, qq - 1, rng.below(qq)])
                y += [r, (r << 32) % qq]
        else:
            vc = "classes"
            x = [gen(rng, p)[0] for _ in range(wx * ell)]
            y = [gen(rng, p)[0] for _ in range(wy * ell)]
        # a short operand must trip the entry assertion.  Never sent to NTT120Avx: its safe trait methods
        # read through raw pointers without any length check (reported finding, C17 territory) — the
        # request would be undefined behaviour, not a test.
        short = rng.chance(1, 25) and ell > 0 and tok != "be=avx"
        if short:
            (x if rng.chance(1, 2) else y).pop()
            vc = "short-operand"
        return f"{op} {tok} ell={ell} x={csv(x)} y={csv(y)}", {"op": op, "p": p, "label": lab, "classes": [vc], "ell": ell, "ellc": ec, "x": x, "y": y}
    if op == "lazy":
        sub = rng.choice(["add", "add", "sub", "neg", "addas", "subas", "subneg", "negas"])
        if sub == "add":
            tok, p, lab = target(rng)
        else:
            tok, p, lab = rng.choice([("be=ref", 30, "NTT120Ref"), ("be=avx", 30, "NTT120Avx")])
        m = 4 * rng.range(1, 4)
        xv = [u64_value(rng, p) for _ in range(4 * m)]
        yv = [u64_value(rng, p) for _ in range(4 * m)]
        x, y = [v for v, _ in xv], [v for v, _ in yv]
        dom = "any u64"
        if tok == "be=avx":
            # documented input range of the lazy kernels (types.rs): x < 2·Q_SHIFTED[k]; the AVX2 kernels rely on it
            if rng.chance(4, 5):
                x = [v % (2 * (PRIMES[p][i % 4] << 33)) for i, v in enumerate(x)]
                y = [v % (2 * (PRIMES[p][i % 4] << 33)) for i, v in enumerate(y)]
                dom = "< 2·Q_SHIFTED"
            else:
                dom = "outside 2·Q_SHIFTED"
        return f"{sub} {tok} x={csv(x)} y={csv(y)}", {"op": sub, "p": p, "label": lab, "dom": dom,
                                                     "classes": [dom + ":" + xv[4 * i][1] + "," + yv[4 * i][1] for i in range(m)], "x": x, "y": y}
    if op == "addccc":
        tok, p, lab = target(rng, allow_traits=False)
        m = rng.range(1, 4)
        x = [u32_value(rng, p)[0] for _ in range(8 * m)]
        y = [u32_value(rng, p)[0] for _ in range(8 * m)]
        return f"addccc {tok} x={csv(x)} y={csv(y)}", {"op": op, "p": p, "label": lab, "classes": ["classes"] * m, "x": x, "y": y}
    if op == "prim":
        sub = rng.choice(["spm", "red", "pow"])
        p = rng.choice([29, 30, 31])
        qq = rng.choice(PRIMES[p])
        if sub == "pow":
            xx = rng.choice([0, 1, 2, qq - 1, rng.below(qq), rng.below(U32)])
            n = rng.choice([0, 1, -1, 2, -2, qq - 1, qq - 2, -(qq - 1), I64_MIN, I64_MAX, i64_value(rng, p)[0], 1 << 16, -(1 << 16)])
            return f"pow x={xx} n={n} q={qq}", {"op": "pow", "p": p, "label": "fn", "classes": ["classes"], "x": xx, "n": n, "q": qq}
        if sub == "red":
            h = rng.range(30, 63)
            xx = u64_value(rng, p)[0]
            cst = pow(2, h, qq)
            return f"red x={xx} h={h} mask={(1 << h) - 1} cst={cst}", {"op": "red", "p": p, "label": "fn", "classes": ["classes"], "x": xx, "h": h, "q": qq, "cst": cst}
        bs = rng.range(34, 64)
        hb = (bs + 1) // 2
        inp = min(u64_value(rng, p)[0], (1 << bs) - 1) if rng.chance(1, 2) else rng.below(1 << bs)
        t = rng.choice([0, 1, qq - 1, rng.below(qq)])
        t1 = (t << hb) % qq
        po = (t1 << 32) | t
        return f"spm inp={inp} po={po} h={hb} mask={(1 << hb) - 1}", {"op": "spm", "p": p, "label": "fn", "classes": ["classes"], "x": inp, "t": t, "hb": hb, "q": qq, "bs": bs}
    # pipe: whole n=1 HAL pipeline
    tok, p, lab = rng.choice([("be=ref", 30, "NTT120Ref"), ("be=avx", 30, "NTT120Avx")])
    a, ca = i64_value(rng, p)
    bv = [i64_value(rng, p) for _ in range(rng.range(1, 6))]
    if rng.chance(1, 3):
        # |a·b| around Q/2: a fixed near 2^60, b = ±(Q/2 ± d) / a
        Q = bigq(p)
        a = rng.choice([1, -1]) * ((1 << rng.range(57, 62)) + rng.below(1 << 20))
        bv = [(max(I64_MIN, min(I64_MAX, ((Q // 2) // abs(a) + rng.range(-2, 2)) * rng.choice([1, -1]))), "Q/2 boundary") for _ in range(4)]
        ca = "Q/2 boundary"
    b = [v for v, _ in bv]
    return f"pipe {tok} a={a} b={csv(b)}", {"op": "pipe", "p": p, "label": lab, "classes": [ca + "*" + c for _, c in bv], "a": a, "b": b}


# ------------------------------------------------------------------ property oracle
def ints(s):
    return [] if s in ("-", "") else [int(v) for v in s.split(",")]


def oracle(meta, ans):
    """None when the implementation's answer satisfies the property statements, else a description."""
    op, p = meta["op"], meta["p"]
    q = PRIMES[p]
    if ans.startswith("panic"):
        if op in ("bbc", "bbcx2", "bbc2c", "bbb", "baa") and meta["classes"] == ["short-operand"]:
            return None
        if op in ("packl", "packr", "ppackl", "ppackr") and set(meta["classes"]) == {"short-operand"}:
            return None  # the reference's `debug_assert!`s on the slice lengths (the model raises the same panic class)
        return "unexpected panic"
    try:
        if op in ("bfrom", "bfromm"):
            xs = meta["x"]
            if op == "bfromm":
                xs = [((x & meta["mask"]) + (1 << 63)) % U64 - (1 << 63) for x in xs]
            for x, el in zip(xs, ans.split("|")):
                r = ints(el)
                if len(r) != 4 or any(not (0 <= r[k] < U64) or (r[k] - x) % q[k] for k in range(4)):
                    return f"residues {r} not congruent to {x}"
        elif op == "cfrom":
            for x, el in zip(meta["x"], ans.split("|")):
                r = ints(el)
                for k in range(4):
                    if r[2 * k] != x % q[k] or r[2 * k + 1] != ((x % q[k]) << 32) % q[k]:
                        return f"q120c of {x} wrong at prime {k}"
        elif op == "cfromb":
            for i, el in enumerate(ans.split("|")):
                r = ints(el)
                for k in range(4):
                    x = meta["x"][4 * i + k]
                    if r[2 * k] != x % q[k] or r[2 * k + 1] != ((x % q[k]) << 32) % q[k]:
                        return f"q120c of residue {x} wrong at prime {k}"
        elif op in ("bto", "consume"):
            r = ints(ans)
            for i, got in enumerate(r):
                want = crt(meta["x"][4 * i:4 * i + 4], p)
                if got != want:
                    return f"CRT of {meta['x'][4 * i:4 * i + 4]} is {got}, centred representative is {want}"
                v = meta["values"][i]
                if v is not None and abs(v) <= (bigq(p) - 1) // 2 and got != v:
                    return f"CRT does not return x={v} although |x| < Q/2"
        elif op in ("bbc", "bbcx2", "bbc2c", "bbb", "baa"):
            if meta["classes"] == ["short-operand"]:
                return "missing length assertion"
            r = ints(ans)
            ell, x, y = meta["ell"], meta["x"], meta["y"]
            if ell >= 10000:
                return None        # outside the documented domain: only model = implementation is demanded
            outs = {"bbc": [(8, 0, 8, 0)], "bbcx2": [(16, 0, 16, 0), (16, 8, 16, 8)],
                    "bbc2c": [(16, 0, 32, 0), (16, 8, 32, 8), (16, 0, 32, 16), (16, 8, 32, 24)]}
            if op in outs:
                for o, (sx, ox, sy, oy) in enumerate(outs[op]):
                    for k in range(4):
                        s = sum(x[sx * i + ox + 2 * k] * y[sy * i + oy + 2 * k] + x[sx * i + ox + 2 * k + 1] * y[sy * i + oy + 2 * k + 1] for i in range(ell))
                        if (r[4 * o + k] - s) % q[k]:
                            return f"bbc output {o} prime {k} not congruent to the sum of products"
            else:
                for k in range(4):
                    s = sum(x[4 * i + k] * y[4 * i + k] for i in range(ell))
                    if (r[k] - s) % q[k]:
                        return f"{op} prime {k} not congruent to the sum of products"
        elif op in ("add", "addas", "sub", "subas", "subneg", "neg", "negas"):
            r = ints(ans)
            if meta.get("dom") == "outside 2·Q_SHIFTED":
                return None        # outside the documented input range: only model = implementation is demanded
            for i, got in enumerate(r):
                k = i % 4
                a, b = meta["x"][i], meta["y"][i]
                if p == 31 and a % (q[k] << 33) + b % (q[k] << 33) >= U64:
                    # add_bbb_ref::<Primes31>: 2·(Q[k] << 33) > 2^64, the documented "fits in 64 bits" is false for this
                    # prime set (no back end uses it; Lean: C07.add_bbb_primes31_counterexample).  Only model = implementation.
                    continue
                want = {"add": a + b, "addas": a + b, "sub": a - b, "subas": a - b, "subneg": b - a, "neg": -a, "negas": -a}[op]
                if (got - want) % q[k] or not (0 <= got < U64):
                    return f"lazy {op} not congruent at index {i}"
        elif op == "addccc":
            r = ints(ans)
            for i, got in enumerate(r):
                k = (i % 8) // 2
                if got != (meta["x"][i] + meta["y"][i]) % q[k]:
                    return f"add_ccc wrong at index {i}"
        elif op in ("ntt", "intt"):
            r = ints(ans)
            n, x = meta["n"], meta["x"]
            if len(r) != len(x) or any(not (0 <= v < U64) for v in r):
                return "transform output has the wrong shape"
            if n <= 64:
                lg = n.bit_length() - 1
                brev = lambda i: int(format(i, f"0{lg}b")[::-1], 2) if lg else 0
                omegas = {29: [78289835, 178519192, 483889678, 239808033], 30: [1070907127, 315046632, 309185662, 846468380],
                          31: [1615402923, 1137738560, 154880552, 558784885]}[p]
                for k in range(4):
                    qq = q[k]
                    w = pow(omegas[k], (1 << 16) // n, qq)
                    if op == "ntt":
                        # output position s holds the value of the input polynomial at w^(2·brev(s)+1)
                        for s_ in range(n):
                            pt = pow(w, 2 * brev(s_) + 1, qq)
                            want = sum(x[4 * i + k] * pow(pt, i, qq) for i in range(n)) % qq
                            if (r[4 * s_ + k] - want) % qq:
                                return f"ntt output {s_} of prime {k} is not the evaluation at psi^(2·brev+1)"
                    else:
                        # applying the evaluation map to the output must give back the input (mod q)
                        for s_ in range(n):
                            pt = pow(w, 2 * brev(s_) + 1, qq)
                            got = sum(r[4 * i + k] * pow(pt, i, qq) for i in range(n)) % qq
                            if (got - x[4 * s_ + k]) % qq:
                                return f"intt output of prime {k} does not evaluate back to the input at position {s_}"
        elif op in ("packl", "packr", "ppackl", "ppackr"):
            if meta["classes"][0] == "short-operand":
                return None
            r = ints(ans)
            rows, stride, blk, x, y = meta["rows"], meta["stride"], meta["blk"], meta["x"], meta["y"]
            if len(r) != 16 * rows:
                return "packed block has the wrong length"
            for row in range(rows):
                for e in range(8 if op in ("packl", "ppackl") else 16):
                    if op == "packl":
                        want = [x[row * stride + 8 * blk + e] % q[e % 4], 0]
                        got = r[16 * row + 2 * e:16 * row + 2 * e + 2]
                    elif op == "ppackl":
                        i = row * stride + 8 * blk + e
                        want = [(x[i] + y[i]) % q[e % 4], 0]
                        got = r[16 * row + 2 * e:16 * row + 2 * e + 2]
                    elif op == "packr":
                        want = [x[(rows - 1 - row) * stride + 16 * blk + e]]
                        got = [r[16 * row + e]]
                    else:
                        i = (rows - 1 - row) * stride + 16 * blk + e
                        want = [(x[i] + y[i]) % U32]
                        got = [r[16 * row + e]]
                    if got != want:
                        return f"{op}: row {row} entry {e} is {got}, expected {want}"
        elif op == "pow":
            qq = meta["q"]
            e = meta["n"] % (qq - 1)
            if int(ans) != pow(meta["x"], e, qq):
                return "modq_pow differs from x^(n mod (q-1)) mod q"
        elif op == "red":
            if (int(ans) - meta["x"]) % meta["q"]:
                return "modq_red not congruent to its input"
        elif op == "spm":
            if (int(ans) - meta["x"] * meta["t"]) % meta["q"] or int(ans) >= 1 << (meta["hb"] + p + 1):
                return "split_precompmul not congruent to inp·ω or above the tracked bit size"
        elif op == "pipe":
            r = ints(ans)
            Q = bigq(p)
            for b, got in zip(meta["b"], r):
                if got != centred(meta["a"] * b, Q):
                    return f"n=1 pipeline: {meta['a']}·{b} gives {got}, centred product mod Q is {centred(meta['a'] * b, Q)}"
    except (ValueError, IndexError) as e:
        return f"unparsable answer ({e})"
    return None


# ---------------------------------------------------------------------------------------------------------------
# 3. HAL level: the raw q120b words stored in DFT-domain buffers by whole HAL calls (`pvh hal … ; raw D`, NTT120Ref and
#    NTT120Avx) against the lane compositions of Model/Ntt120Hal.lean (`pdriver ntt120 hdft|hcnv|hcnvp|hvmp|hexpr|hslot`)
# ---------------------------------------------------------------------------------------------------------------

def _poly(rng, n, small=False):
    if small:
        return [rng.range(-9, 9) for _ in range(n)]
    return [i64_value(rng, 30)[0] for _ in range(n)]


def _flat(polys):
    return csv([c for p in polys for c in p])


def _mask(rng):
    c = rng.below(5)
    if c == 0:
        return -1
    if c == 1:
        return (1 << rng.range(1, 62)) - 1
    if c == 2:
        return -(1 << rng.range(1, 62))
    if c == 3:
        return 0
    return i64_value(rng, 30)[0]


def _expr(rng, n, depth):
    """-> (tokens for the driver, builder(stmts, fresh) -> buffer name)"""
    c = rng.below(7) if depth > 0 else rng.below(2)
    if c == 0 and depth < 3:
        def bz(st, fresh):
            d = fresh("E")
            st += [f"dft {d} 1 1 z", f"dft_zero {d} 0"]
            return d
        return ["zero"], bz
    if c <= 1:
        a = _poly(rng, n)
        def bd(st, fresh, a=a):
            v, d = fresh("V"), fresh("E")
            st += [f"vec {v} 1 1 d:{csv(a)}", f"dft {d} 1 1 z", f"dft_apply 1 0 {d} 0 {v} 0"]
            return d
        return ["dft", ":".join(str(x) for x in a)], bd
    if c == 2:
        pl = _poly(rng, n)
        t, b = _expr(rng, n, depth - 1)
        def bs(st, fresh, pl=pl, b=b):
            e = b(st, fresh)
            sc, pp, d = fresh("S"), fresh("P"), fresh("E")
            st += [f"sca {sc} 1 d:{csv(pl)}", f"svp {pp} 1", f"svp_prepare {pp} 0 {sc} 0", f"dft {d} 1 1 z",
                   f"svp_apply_dft_to_dft {d} 0 {pp} 0 {e} 0"]
            return d
        return ["svp", ":".join(str(x) for x in pl)] + t, bs
    if c in (3, 4, 5):
        op = "add" if c != 4 else "sub"
        t1, b1 = _expr(rng, n, depth - 1)
        t2, b2 = _expr(rng, n, depth - 1)
        def bb(st, fresh, b1=b1, b2=b2, op=op):
            x = b1(st, fresh)
            y = b2(st, fresh)
            d = fresh("E")
            st += [f"dft {d} 1 1 z", f"dft_{op} {d} 0 {x} 0 {y} 0"]
            return d
        return [op] + t1 + t2, bb
    t, b = _expr(rng, n, depth - 1)
    def bn(st, fresh, b=b):
        x = b(st, fresh)
        z, d = fresh("Z"), fresh("E")
        st += [f"dft {z} 1 1 z", f"dft_zero {z} 0", f"dft {d} 1 1 z", f"dft_sub {d} 0 {z} 0 {x} 0"]
        return d
    return ["neg"] + t, bn


def hal_case(rng, kind):
    """-> (hal statements, buffer to dump, driver request (without back end), meta)"""
    n = rng.choice([2, 2, 4, 4, 8, 16, 64] if kind in ("dft", "cnv", "cnvp", "expr") else [2, 4, 4, 8, 16])
    if kind == "dft":
        sa, rs, step, off = rng.range(1, 4), rng.range(1, 5), rng.range(1, 3), rng.range(0, 4)
        a = [_poly(rng, n) for _ in range(sa)]
        st = [f"vec X 1 {sa} d:{_flat(a)}", f"dft D 1 {rs} r30:{rng.below(1 << 30)}", f"dft_apply {step} {off} D 0 X 0"]
        return st, "D", f"hdft n={n} step={step} off={off} rs={rs} x={_flat(a)}", {"kind": kind, "n": n, "shape": (sa, rs, step, off)}
    if kind in ("cnv", "cnvp"):
        two = kind == "cnvp"
        sa, sb, la, lb = rng.range(1, 3), rng.range(1, 3), rng.range(1, 3), rng.range(1, 3)
        rs, off = rng.range(1, 5), rng.range(0, 6)
        ma, mb = _mask(rng), _mask(rng)
        cols = 2 if two else 1
        A = [[_poly(rng, n) for _ in range(sa)] for _ in range(cols)]
        B = [[_poly(rng, n) for _ in range(sb)] for _ in range(cols)]
        st = [f"vec A {cols} {sa} d:{_flat([p for c in A for p in c])}", f"vec B {cols} {sb} d:{_flat([p for c in B for p in c])}",
              f"cnvl L {cols} {la}", f"cnvr R {cols} {lb}", f"cnv_prepare_left L A {ma}", f"cnv_prepare_right R B {mb}",
              f"dft D 1 {rs} r30:{rng.below(1 << 30)}"]
        if two:
            st.append(f"cnv_pairwise {off} D 0 L R 0 1")
            req = (f"hcnvp n={n} rs={rs} off={off} la={la} lb={lb} ma={ma} mb={mb} x={_flat(A[0])} x2={_flat(A[1])} "
                   f"y={_flat(B[0])} y2={_flat(B[1])}")
        else:
            st.append(f"cnv_apply_dft {off} D 0 L 0 R 0")
            req = f"hcnv n={n} rs={rs} off={off} la={la} lb={lb} ma={ma} mb={mb} x={_flat(A[0])} y={_flat(B[0])}"
        return st, "D", req, {"kind": kind, "n": n, "shape": (sa, sb, la, lb, rs, off)}
    if kind == "vmp":
        rows, cin, cout, size = rng.range(1, 3), rng.range(1, 2), rng.range(1, 3), rng.range(1, 3)
        sa, rsz, lo = rng.range(1, 4), rng.range(1, 4), rng.range(0, 3)
        mat = {}
        order = []
        for r in range(rows):
            for ci in range(cin):
                for c in range(cout):
                    for j in range(size):
                        pl = _poly(rng, n)
                        mat[(r * cin + ci, j * cout + c)] = pl
                        order.append(pl)
        a = {}
        aord = []
        for c in range(cin):
            for j in range(sa):
                pl = _poly(rng, n)
                a[j * cin + c] = pl
                aord.append(pl)
        nrows, ncols = cin * rows, cout * size
        st = [f"mat M {rows} {cin} {cout} {size} d:{_flat(order)}", f"vmp P {rows} {cin} {cout} {size}", "vmp_prepare P M",
              f"dft A {cin} {sa} d:{_flat(aord)}", f"dft D {cout} {rsz} r30:{rng.below(1 << 30)}", f"vmp_apply_dft_to_dft D A P {lo}"]
        req = (f"hvmp n={n} nrows={nrows} ncols={ncols} off={lo * cout} rl={rsz * cout} x={_flat([a[i] for i in range(sa * cin)])} "
               f"y={_flat([mat[(i, q)] for i in range(nrows) for q in range(ncols)])}")
        return st, "D", req, {"kind": kind, "n": n, "shape": (rows, cin, cout, size, sa, rsz, lo),
                              "parity": (lo * cout % 2, min(ncols, rsz * cout + lo * cout) % 2, ncols % 2)}
    if kind == "expr":
        toks, build = _expr(rng, n, 4)
        cnt = [0]

        def fresh(pfx):
            cnt[0] += 1
            return f"{pfx}{cnt[0]}"
        st = []
        d = build(st, fresh)
        return st, d, f"hexpr n={n} e={','.join(toks)}", {"kind": kind, "n": n, "shape": (len(toks),), "ops": sorted(set(t for t in toks if t.isalpha()))}
    raise ValueError(kind)


def slot_case(rng):
    """one non-zero entry of a prepared matrix: where do its x2-blocks land in the raw `VmpPMat`?"""
    n = rng.choice([2, 4, 8])
    rows, cin, cout, size = rng.range(1, 3), rng.range(1, 2), rng.range(1, 3), rng.range(1, 3)
    nrows, ncols = rows * cin, cout * size
    ti, tq = rng.below(nrows), rng.below(ncols)
    order = []
    for r in range(rows):
        for ci in range(cin):
            for c in range(cout):
                for j in range(size):
                    order.append([3 + k for k in range(n)] if (r * cin + ci, j * cout + c) == (ti, tq) else [0] * n)
    st = [f"mat M {rows} {cin} {cout} {size} d:{_flat(order)}", f"vmp P {rows} {cin} {cout} {size}", "vmp_prepare P M"]
    reqs = [f"hslot nrows={nrows} ncols={ncols} row={ti} col={tq} blk={b}" for b in range(n // 2)]
    return st, reqs, {"n": n, "nrows": nrows, "ncols": ncols, "row": ti, "col": tq}


def hal_gate(ctx, binp, drv, rng, quick):
    broken = []
    plan = [("dft", 24), ("cnv", 40), ("cnvp", 24), ("vmp", 48), ("expr", 40)] if quick else [("dft", 150), ("cnv", 300), ("cnvp", 200), ("vmp", 400), ("expr", 300)]
    cases = [hal_case(rng, kind) for kind, cnt in plan for _ in range(cnt)]
    words = 0
    hist = {}
    for be, dbe in (("ntt120ref", "ref"), ("ntt120avx", "avx")):
        hl = [f"{k} be={be} n={c[3]['n']} ; " + " ; ".join(c[0]) + f" ; raw {c[1]}" for k, c in enumerate(cases)]
        dl = [f"{k} ntt120 {c[2].replace(' ', f' be={dbe} ', 1)}" for k, c in enumerate(cases)]
        _, iout, _ = ctx.run_lines(binp, ["hal"], hl)
        _, mout, _ = ctx.run_lines(drv, [], dl)
        nbad = 0
        for k, c in enumerate(cases):
            a, b = ans_of(iout, k), ans_of(mout, k)
            meta = c[3]
            got = a.split("=raw:", 1)[1] if "=raw:" in a else a
            exp = b.split(" spec=")[0].replace("|", ",")
            ok = got == exp and a.startswith("ok ")
            nontrivial = any(ch in "123456789" for ch in got)
            ctx.count_case(("ntt120-hal", meta["kind"], be, meta["n"], meta.get("parity"), tuple(meta.get("ops", ()))), nontrivial)
            hk = f"hal-{meta['kind']}/{be}"
            hist[hk] = hist.get(hk, 0) + 1
            words += got.count(",") + 1
            if not ok:
                nbad += 1
                if nbad <= 3:
                    ctx.disagreements += 1
                    gw, ew = got.split(","), exp.split(",")
                    first = next((i for i, (x, y) in enumerate(zip(gw, ew)) if x != y), min(len(gw), len(ew)))
                    ctx.violation("NTT120 HAL call stores different q120b words than the lane composition of the model",
                                  {"program": hl[k][:3000], "model_request": dl[k][:3000], "first_differing_word": first,
                                   "implementation": ",".join(gw[first:first + 8]), "model": ",".join(ew[first:first + 8]),
                                   "lengths": (len(gw), len(ew)), "replay": "printf '<program>\\n' | harness/target/release/pvh hal"}, False)
        if nbad:
            broken.append(f"{nbad} NTT120 HAL-level disagreements on {be}")
    # the block-interleaved layout of vmp_prepare: the x2-blocks of one non-zero entry sit exactly at vmpSlotAddr
    sc = [slot_case(rng) for _ in range(16 if quick else 100)]
    hl = [f"{k} be=ntt120ref n={c[2]['n']} ; " + " ; ".join(c[0]) + " ; raw P" for k, c in enumerate(sc)]
    _, iout, _ = ctx.run_lines(binp, ["hal"], hl)
    flatreq = [(k, r) for k, c in enumerate(sc) for r in c[1]]
    _, mout, _ = ctx.run_lines(drv, [], [f"{i} ntt120 {r}" for i, (k, r) in enumerate(flatreq)])
    addr = {}
    for i, (k, r) in enumerate(flatreq):
        addr.setdefault(k, set()).add(ans_of(mout, i))
    for k, c in enumerate(sc):
        a = ans_of(iout, k)
        ws = a.split("=raw:", 1)[1].split(",") if "=raw:" in a else []
        nz = {str(16 * (i // 8)) for i, w in enumerate(ws) if w != "0"}
        ctx.count_case(("ntt120-hal", "slot", c[2]["ncols"] % 2, c[2]["col"] == c[2]["ncols"] - 1), True)
        if nz != addr.get(k) or not ws:
            ctx.disagreements += 1
            ctx.violation("vmp_prepare stores the blocks of a matrix entry at other offsets than Ntt120.vmpSlotAddr",
                          {"case": c[2], "nonzero_u32_offsets": sorted(nz, key=int)[:16], "model": sorted(addr.get(k, []), key=int)[:16], "program": hl[k][:1500]}, False)
            broken.append("vmp_prepare layout")
            break
    ctx.cov["ntt120_hal_programs"] = 2 * len(cases) + len(sc)
    ctx.cov["ntt120_hal_words_compared"] = words
    ctx.cov["ntt120_hal_histogram"] = hist
    return broken


def ans_of(lines, k):
    if k < len(lines) and " " in lines[k]:
        return lines[k].split(" ", 1)[1]
    return "missing"


def gate(ctx, binp, drv):
    """runs the constants comparison and the generated cases; reports through ctx; returns list of broken-gate strings"""
    quick = ctx.tier == "quick"
    broken = []
    rng = ctx.rng.fork()
    # 1. constants
    clines = [f"{i} consts p={p}" for i, p in enumerate((29, 30, 31))]
    _, iout, _ = ctx.run_lines(binp, ["ntt120"], clines)
    _, mout, _ = ctx.run_lines(drv, [], [l.replace(" consts", " ntt120 consts", 1) for l in clines])
    for i, p in enumerate((29, 30, 31)):
        a, b = ans_of(iout, i), ans_of(mout, i)
        ctx.count_case(("ntt120-consts", p), True)
        if a != b or not a.startswith("q="):
            ctx.disagreements += 1
            fa, fb = a.split(" "), b.split(" ")
            diff = [(x, y) for x, y in zip(fa, fb) if x != y][:4]
            ctx.violation(f"NTT120 constants of Primes{p} differ between the Rust and the Lean model", {"implementation": a, "model": b, "fields": diff,
                          "replay": f"printf '0 consts p={p}\\n' | harness/target/release/pvh ntt120"}, True)
            broken.append(f"constants Primes{p}")
    ctx.cov["ntt120_constants_compared"] = ["q", "omega", "crt", "logq", "bbc(h,s2l,s2h)", "bbb(h,s1h,s2l..s4h)", "baa(h,h_pow_red)", "ntt reduc(h,mask,cst)", "Q_SHIFTED"]
    # 1a. whole NTT tables (bit sizes, level metadata, every packed twiddle) for n = 1 … 1024, three prime sets
    tl = [f"{i} tab p={p} n={1 << j}" for i, (p, j) in enumerate((p, j) for p in (29, 30, 31) for j in range(0, 11))]
    _, iout, _ = ctx.run_lines(binp, ["ntt120"], tl)
    _, mout, _ = ctx.run_lines(drv, [], [l.replace(" tab", " ntt120 tab", 1) for l in tl])
    for i, l in enumerate(tl):
        a, b = ans_of(iout, i), ans_of(mout, i)
        ctx.count_case(("ntt120-table", l.split(" ", 1)[1]), True)
        if a != b or not a.startswith("fwd="):
            ctx.disagreements += 1
            ctx.violation("NTT120 table differs between the Rust and the Lean model", {"request": l, "implementation": a[:1500], "model": b[:1500],
                          "replay": f"printf '0 {l.split(' ', 1)[1]}\\n' | harness/target/release/pvh ntt120"}, True)
            broken.append("table " + l)
    ctx.cov["ntt120_tables_compared"] = len(tl)
    # 1b. regression corpus (corpus/C07/*.case): boundary requests and the witnesses of the recorded observations
    import glob
    import os
    corpus = []
    for f in sorted(glob.glob(os.path.join(os.path.dirname(os.path.dirname(os.path.abspath(__file__))), "corpus", "C07", "*.case"))):
        corpus += [l.strip() for l in open(f) if l.strip() and not l.startswith("#")]
    if corpus:
        _, iout, _ = ctx.run_lines(binp, ["ntt120"], [f"{k} {l}" for k, l in enumerate(corpus)])
        _, mout, _ = ctx.run_lines(drv, [], [f"{k} ntt120 {l}" for k, l in enumerate(corpus)])
        for k, l in enumerate(corpus):
            a, b = ans_of(iout, k), ans_of(mout, k)
            ctx.count_case(("ntt120-corpus", l.split(" ")[0], k), True)
            if a != b:
                ctx.disagreements += 1
                ctx.violation("NTT120 arithmetic (corpus): model and implementation differ", {"request": l, "implementation": a[:2000], "model": b[:2000]}, False)
                broken.append(f"corpus line {k}")
        ctx.cov["ntt120_corpus_lines"] = len(corpus)
    # 2. generated cases
    n_cases = 3400 if quick else 20000
    cases = [case(rng, quick) for _ in range(n_cases)]
    hist, values = {}, 0
    for off in range(0, len(cases), 4000):
        part = cases[off:off + 4000]
        _, iout, _ = ctx.run_lines(binp, ["ntt120"], [f"{k} {c[0]}" for k, c in enumerate(part)])
        _, mout, _ = ctx.run_lines(drv, [], [f"{k} ntt120 {c[0]}" for k, c in enumerate(part)])
        nbad = 0
        for k, (line, meta) in enumerate(part):
            a, b = ans_of(iout, k), ans_of(mout, k)
            nontrivial = any(ch in "123456789" for ch in a)
            for cls in meta["classes"]:
                ctx.count_case(("ntt120", meta["op"], meta["label"], cls, meta.get("ellc")), nontrivial)
                values += 1
            hk = f"{meta['op']}/{meta['label']}"
            hist[hk] = hist.get(hk, 0) + len(meta["classes"])
            verdict = oracle(meta, a)
            if a != b or verdict is not None:
                nbad += 1
                if nbad <= 3:
                    ctx.disagreements += 1
                    found = verdict is not None
                    if found:
                        ctx.oracle_failures += 1
                    w = {"request": line[:6000], "implementation": a[:2000], "model": b[:2000], "oracle": verdict or "implementation satisfies the property statements; model differs",
                         "model_vs_oracle": oracle(meta, b), "replay": "printf '0 <request>\\n' | harness/target/release/pvh ntt120"}
                    ctx.violation("NTT120 arithmetic: " + (verdict or "model and implementation differ"), w, found)
        if nbad:
            broken.append(f"{nbad} ntt120 model/implementation disagreements")
            break
    if len(ctx.samples) < 12:
        for line, meta in cases[:3]:
            ctx.samples.append({"request": "ntt120 " + line[:300]})
    ctx.cov["ntt120_histogram"] = hist
    ctx.cov["ntt120_values"] = values
    ctx.cov["ntt120_requests"] = len(cases)
    if not broken:
        broken += hal_gate(ctx, binp, drv, rng, quick)
    return broken
