"""Shared machinery of ./check: seeds, builds, proof gate + audit, driver/harness plumbing,
violation / known-finding reporting and evidence writing.  See DESIGN.md §4."""
import hashlib
import json
import os
import re
import subprocess
import sys
import time

VERIF = os.path.dirname(os.path.dirname(os.path.abspath(__file__)))
LEAN = os.path.join(VERIF, "lean")
HARNESS = os.path.join(VERIF, "harness")
REPO = os.environ.get("VERIF_REPO", "/repo")
ENV = dict(os.environ, CARGO_NET_OFFLINE="true")
ALLOWED_AXIOMS = {"propext", "Classical.choice", "Quot.sound"}
FORBIDDEN = re.compile(r"\b(sorry|admit|native_decide|implemented_by|unsafe)\b|^\s*axiom\s|maxHeartbeats\s+0\b")


class SplitMix64:
    """The single PRNG every random choice of a run derives from."""

    def __init__(self, seed):
        self.s = seed & 0xFFFFFFFFFFFFFFFF

    def next(self):
        self.s = (self.s + 0x9E3779B97F4A7C15) & 0xFFFFFFFFFFFFFFFF
        z = self.s
        z = ((z ^ (z >> 30)) * 0xBF58476D1CE4E5B9) & 0xFFFFFFFFFFFFFFFF
        z = ((z ^ (z >> 27)) * 0x94D049BB133111EB) & 0xFFFFFFFFFFFFFFFF
        return z ^ (z >> 31)

    def below(self, n):
        return self.next() % n if n > 0 else 0

    def range(self, lo, hi):
        """inclusive"""
        return lo + self.below(hi - lo + 1)

    def choice(self, xs):
        return xs[self.below(len(xs))]

    def chance(self, num, den):
        return self.below(den) < num

    def fork(self):
        return SplitMix64(self.next())


def strip_comments(text):
    """Remove Lean comments (line and nested block) so that the audit ignores them."""
    out = []
    i = 0
    depth = 0
    n = len(text)
    while i < n:
        if text.startswith("/-", i):
            depth += 1
            i += 2
        elif depth and text.startswith("-/", i):
            depth -= 1
            i += 2
        elif depth:
            if text[i] == "\n":
                out.append("\n")
            i += 1
        elif text.startswith("--", i):
            while i < n and text[i] != "\n":
                i += 1
        else:
            out.append(text[i])
            i += 1
    return "".join(out)


def run(cmd, cwd=None, inp=None, timeout=None, env=None):
    p = subprocess.run(cmd, cwd=cwd, input=inp, capture_output=True, text=True, timeout=timeout, env=env or ENV)
    return p.returncode, p.stdout, p.stderr


class Ctx:
    def __init__(self, prop, tier, seed):
        self.prop = prop
        self.tier = tier
        self.seed = seed
        self.rng = SplitMix64(seed ^ int(hashlib.sha256(prop.encode()).hexdigest()[:15], 16))
        self.t0 = time.time()
        self.violations = []          # (replay_path, found_input)
        self.known_hits = []
        self.obligations = 0
        self.discharged = 0
        self.theorems = []
        self.axioms = {}
        self.cov = {}
        self.assumptions = []
        self.trusted = [
            "Lean 4.33.0 kernel", "axioms propext / Classical.choice / Quot.sound",
            "hand-written Lean model tied to /repo by the correspondence harness (harness/, lean/Driver.lean, ./check)",
        ]
        self.checker_cmd = ""
        self.samples = []
        self.evaluations = 0
        self.distinct = set()
        self.disagreements = 0
        self.oracle_failures = 0
        self.log_lines = []
        kf = os.path.join(VERIF, "known_findings.json")
        self.known = json.load(open(kf)) if os.path.exists(kf) else {"findings": [], "fixed": []}

    # ------------------------------------------------------------------ logging
    def log(self, *a):
        msg = " ".join(str(x) for x in a)
        self.log_lines.append(msg)
        print(f"[{self.prop}] {msg}", flush=True)

    # ------------------------------------------------------------------ builds
    def registry(self):
        if not getattr(self, "_registry_done", False):
            subprocess.run([sys.executable, os.path.join(VERIF, "tools", "gen_registry.py")], check=True)
            self._registry_done = True

    def build_harness(self, profile="release"):
        """Rebuild the harness against /repo's current tree (hooks on). Returns binary path or None."""
        self.registry()
        for f in ("Cargo.lock", "rust-toolchain.toml"):
            src = os.path.join(REPO, f)
            dst = os.path.join(HARNESS, f)
            try:
                if open(src).read() != (open(dst).read() if os.path.exists(dst) else None):
                    open(dst, "w").write(open(src).read())
            except OSError:
                pass
        t = time.time()
        rc, out, err = run(["cargo", "build", "--profile", profile, "--offline"], cwd=HARNESS)
        self.log(f"harness build ({profile}) rc={rc} {time.time() - t:.1f}s")
        if rc != 0:
            self.build_error = err[-4000:]
            return None
        return os.path.join(HARNESS, "target", profile, "pvh")

    def lake_build(self, targets):
        self.registry()
        t = time.time()
        rc, out, err = run(["lake", "build"] + targets, cwd=LEAN)
        self.log(f"lake build {' '.join(targets)[:120]} rc={rc} {time.time() - t:.1f}s")
        return rc == 0, out + err

    def driver(self):
        ok, out = self.lake_build(["pdriver"])
        if not ok:
            self.driver_error = out[-4000:]
            return None
        return os.path.join(LEAN, ".lake", "build", "bin", "pdriver")

    # ------------------------------------------------------------------ proof gate
    def proof_gate(self, prop_modules, extra_source_dirs=(), allow_bv=False, extra_targets=()):
        """Build the property modules, grep-audit their sources (and the helper sources they
        import from this project), and `#print axioms` every theorem of the Props files.
        Returns (ok, failures) where failures is a list of human-readable strings."""
        failures = []
        self.checker_cmd = "cd lean && lake build " + " ".join(prop_modules)
        ok, out = self.lake_build(list(prop_modules) + list(extra_targets))
        self.build_output = out
        if not ok:
            bad = re.findall(r"^- (\S+)$", out, re.M)
            failures.append("lake build failed for: " + ", ".join(bad[:20]))
        # collect sources transitively imported inside the project
        files = self._project_closure(prop_modules)
        for f in files:
            txt = strip_comments(open(f).read())
            for ln, line in enumerate(txt.split("\n"), 1):
                m = FORBIDDEN.search(line)
                if m:
                    failures.append(f"forbidden token {m.group(0).strip()!r} at {os.path.relpath(f, VERIF)}:{ln}")
        # theorem names of the Props files
        thms = []
        for mod in prop_modules:
            path = os.path.join(LEAN, mod.replace(".", "/") + ".lean")
            thms += self._theorems_of(path)
        self.theorems = thms
        self.obligations += len(thms)
        if ok and thms:
            audit = os.path.join(LEAN, ".lake", f"audit_{self.prop}.lean")
            os.makedirs(os.path.dirname(audit), exist_ok=True)
            with open(audit, "w") as fh:
                for mod in prop_modules:
                    fh.write(f"import {mod}\n")
                for t in thms:
                    fh.write(f"#print axioms {t}\n")
            rc, o, e = run(["lake", "env", "lean", audit], cwd=LEAN)
            if rc != 0:
                failures.append("axiom audit failed to run: " + (o + e)[-500:])
            else:
                blocks = re.findall(r"'([^']+)' (depends on axioms: \[([^\]]*)\]|does not depend on any axioms)", o.replace("\n", " "))
                seen = set()
                for name, _, axs in blocks:
                    seen.add(name)
                    al = [a.strip() for a in axs.split(",") if a.strip()]
                    extra = [a for a in al if a not in ALLOWED_AXIOMS and not (allow_bv and "._native.bv_decide.ax" in a)]
                    self.axioms[name] = al
                    if extra:
                        failures.append(f"theorem {name} depends on unaccepted axioms {extra}")
                    else:
                        self.discharged += 1
                for t in thms:
                    if t not in seen:
                        failures.append(f"theorem {t} missing from axiom audit")
        self.cov["property_theorems"] = thms
        if ok and self.tier == "thorough":
            # independent re-check of the compiled property modules
            for mod in prop_modules:
                rc, o, e = run(["lake", "env", "leanchecker", mod], cwd=LEAN)
                self.cov.setdefault("leanchecker", {})[mod] = rc
                if rc != 0:
                    failures.append(f"leanchecker rejects {mod}: " + (o + e)[-300:])
        return (not failures), failures

    def _theorems_of(self, path):
        txt = strip_comments(open(path).read())
        ns = []
        names = []
        for line in txt.split("\n"):
            m = re.match(r"\s*namespace\s+(\S+)", line)
            if m:
                ns.append(m.group(1))
                continue
            m = re.match(r"\s*end\s+(\S+)", line)
            if m and ns and ns[-1] == m.group(1):
                ns.pop()
                continue
            m = re.match(r"\s*(?:@\[[^\]]*\]\s*)?(?:private\s+|protected\s+)?theorem\s+(\S+)", line)
            if m:
                names.append(".".join(ns + [m.group(1)]))
        return names

    def _project_closure(self, modules):
        seen = {}
        todo = list(modules)
        while todo:
            m = todo.pop()
            if m in seen or not m.startswith("Poulpy"):
                continue
            path = os.path.join(LEAN, m.replace(".", "/") + ".lean")
            if not os.path.exists(path):
                continue
            seen[m] = path
            for imp in re.findall(r"^\s*import\s+(\S+)", open(path).read(), re.M):
                todo.append(imp)
        return sorted(seen.values())

    # ------------------------------------------------------------------ driver / harness I/O
    def run_lines(self, binary, args, lines, timeout=3600):
        rc, out, err = run([binary] + args, inp="\n".join(lines) + "\n", timeout=timeout)
        return rc, out.split("\n")[:-1] if out.endswith("\n") else out.split("\n"), err

    # ------------------------------------------------------------------ reporting
    def write_replay(self, obj):
        os.makedirs(os.path.join(VERIF, "replays"), exist_ok=True)
        blob = json.dumps(obj, indent=1, sort_keys=True, default=str)
        h = hashlib.sha256(blob.encode()).hexdigest()[:12]
        path = os.path.join("replays", f"{self.prop}-{h}.json")
        with open(os.path.join(VERIF, path), "w") as fh:
            fh.write(blob + "\n")
        return path

    def match_known(self, key):
        for f in self.known.get("findings", []):
            if f.get("property") == self.prop and f.get("key") == key:
                return f
        return None

    def violation(self, what, replay, found_input, key=None):
        """Report a violation unless `key` names a recorded known finding."""
        if key is not None:
            kf = self.match_known(key)
            if kf is not None:
                if key not in self.known_hits:
                    self.known_hits.append(key)
                    print(f"KNOWN-FINDING: property={self.prop} {kf.get('what', key)}", flush=True)
                return
        replay = dict(replay)
        replay.setdefault("property", self.prop)
        replay.setdefault("what", what)
        replay.setdefault("failing_input_found", bool(found_input))
        replay.setdefault("seed", self.seed)
        replay.setdefault("tier", self.tier)
        path = self.write_replay(replay)
        self.violations.append((path, found_input))
        tail = "" if found_input else " no-failing-input-found"
        print(f"VIOLATION property={self.prop} replay={path}{tail}", flush=True)
        self.log("violation:", what)

    def count_case(self, distinct_key, nontrivial=True):
        self.evaluations += 1
        if nontrivial:
            self.distinct.add(distinct_key)

    def finish(self, level="proof", rule="", extra=None):
        cov = dict(self.cov)
        cov.update({
            "obligations": self.obligations,
            "discharged": self.discharged,
            "checker_cmd": self.checker_cmd or "cd lean && lake build",
            "trusted_base": self.trusted,
            "evaluations": self.evaluations,
            "distinct_nontrivial": len(self.distinct),
            "rule": rule,
            "samples": self.samples[:12] if self.samples else ["(no correspondence cases in this run)"],
            "disagreements_checked": self.disagreements,
            "oracle_failures": self.oracle_failures,
            "axioms": {k: v for k, v in list(self.axioms.items())[:400]},
            "known_findings_hit": self.known_hits,
        })
        if extra:
            cov.update(extra)
        # schema hygiene: typed keys must have their schema types
        if "exhaustive" in cov and not isinstance(cov["exhaustive"], bool):
            cov["exhaustive_scopes"] = cov.pop("exhaustive")
        for k in ("states", "transitions", "traces_validated_against_impl", "programs", "obligations", "discharged",
                  "evaluations", "distinct_nontrivial", "disagreements_checked"):
            if k in cov and not isinstance(cov[k], int):
                cov[k + "_detail"] = cov.pop(k)
        if "samples" in cov and not isinstance(cov["samples"], list):
            cov["samples"] = [cov["samples"]]
        if "explanation" in cov and not isinstance(cov["explanation"], str):
            cov["explanation"] = json.dumps(cov["explanation"])
        ev = {
            "property_id": self.prop,
            "tier": self.tier,
            "seed": self.seed,
            "level": level,
            "coverage": cov,
            "assumptions": self.assumptions,
            "wall_s": round(time.time() - self.t0, 2),
            "violations": len(self.violations),
        }
        os.makedirs(os.path.join(VERIF, "evidence"), exist_ok=True)
        with open(os.path.join(VERIF, "evidence", f"{self.prop}.json"), "w") as fh:
            json.dump(ev, fh, indent=1, sort_keys=True, default=str)
            fh.write("\n")
        self.log(f"done: obligations={self.obligations} discharged={self.discharged} evaluations={self.evaluations} "
                 f"distinct={len(self.distinct)} violations={len(self.violations)} wall={ev['wall_s']}s")
        return 1 if self.violations else 0
