"""C09 — coefficient-domain ring operations match Z[X]/(X^N+1) exactly.

Gate 1 (proof): lake build Poulpy.Props.C09 + axiom audit.
Gate 2 (correspondence): every generated case is evaluated three times — by the real code through
        the public HAL API on all four back ends (pvh ring), by the Lean model (pdriver ring) and by
        the property oracle below (the quotient-ring map written directly on Python integers:
        operands zero-extended to the result size, exact ring map, one final wrap) — and the three
        must agree bit for bit.  Additionally: nothing outside the selected result column may change
        (`stray`), operands may not change (`mutin`), merge(split a) = a on the real code, and the
        Galois-element helpers satisfy g * g^-1 = 1 (mod 2N).
Failure search: the oracle is evaluated on the implementation's own input; a case where the
        implementation differs from the oracle is the failing input (replayed), a case where only
        the model differs is a model/tie defect (no failing input).
"""
from . import common

BACKENDS = ["fft64ref", "ntt120ref", "fft64avx", "ntt120avx"]
I64MIN, I64MAX = -(1 << 63), (1 << 63) - 1
BOUND64 = [I64MIN, I64MAX, I64MIN + 1, -1, 0, 1, 2, -2, 1 << 62, -(1 << 62), (1 << 32), -(1 << 32) - 1]
I128MIN, I128MAX = -(1 << 127), (1 << 127) - 1
BOUND128 = BOUND64 + [I128MIN, I128MAX, I128MIN + 1, 1 << 64, -(1 << 64), 1 << 126, -(1 << 126) - 1, 1 << 63, -(1 << 63) - 1]


def wrap(x, bits):
    h = 1 << (bits - 1)
    return (x + h) % (1 << bits) - h


# --------------------------------------------------------------------------- property oracle
def o_rot(a, k):
    """X^k * a in Z[X]/(X^n+1), exact"""
    n = len(a)
    out = [0] * n
    for i, c in enumerate(a):
        e = (i + k) % (2 * n)
        if e < n:
            out[e] += c
        else:
            out[e - n] -= c
    return out


def o_aut(a, g):
    """a(X^g) in Z[X]/(X^n+1), exact (g odd)"""
    n = len(a)
    out = [0] * n
    for i, c in enumerate(a):
        e = (i * g) % (2 * n)
        if e < n:
            out[e] += c
        else:
            out[e - n] -= c
    return out


def o_switch(a, n_out):
    n_in = len(a)
    if n_in == n_out:
        return list(a)
    if n_in > n_out:
        gap = n_in // n_out
        return [a[k * gap] for k in range(n_out)]
    gap = n_out // n_in
    out = [0] * n_out
    for k, c in enumerate(a):
        out[k * gap] = c
    return out


def limb(col, j, n):
    return col[j] if j < len(col) else [0] * n


def oracle(c):
    """Expected result column (list of limbs) or 'panic:<class>' for case dict c, from the property
    statement alone.  Returns None when the property says nothing (inadmissible input)."""
    op, n, rs = c["op"], c["n"], c["rs"]
    bits = 128 if (op.startswith("big_") and c["be"].startswith("ntt120")) else 64
    W = lambda l: [wrap(x, bits) for x in l]
    a, b, r = c.get("a", []), c.get("b", []), c.get("r", [])
    p = c.get("p", 0)
    base = op[4:] if op.startswith("big_") else op
    if c.get("mismatch"):
        return "panic:assert"
    if base == "zero":
        return [[0] * n for _ in range(rs)]
    if base in ("copy", "from_small"):
        return [W(limb(a, j, n)) for j in range(rs)]
    if base in ("add", "add_small"):
        return [W([x + y for x, y in zip(limb(a, j, n), limb(b, j, n))]) for j in range(rs)]
    if base in ("sub", "sub_small_a", "sub_small_b"):
        return [W([x - y for x, y in zip(limb(a, j, n), limb(b, j, n))]) for j in range(rs)]
    if base in ("add_assign", "add_small_assign"):
        return [W([x + y for x, y in zip(r[j], limb(a, j, n))]) for j in range(rs)]
    if base in ("sub_assign", "sub_small_assign"):
        return [W([x - y for x, y in zip(r[j], limb(a, j, n))]) for j in range(rs)]
    if base in ("sub_negate_assign", "sub_small_negate_assign"):
        return [W([y - x for x, y in zip(r[j], limb(a, j, n))]) for j in range(rs)]
    if base == "negate":
        return [W([-x for x in limb(a, j, n)]) for j in range(rs)]
    if base == "negate_assign":
        return [W([-x for x in r[j]]) for j in range(rs)]
    if base in ("add_scalar", "sub_scalar"):
        m = min(len(b), rs)
        if c["limb"] >= m:
            return "panic:assert"
        s = 1 if base == "add_scalar" else -1
        return [W([y + s * x for x, y in zip(a[0], limb(b, j, n))]) if j == c["limb"] else W(limb(b, j, n)) for j in range(rs)]
    if base in ("add_scalar_assign", "sub_scalar_assign"):
        if c["limb"] >= rs:
            return "panic:assert"
        s = 1 if base == "add_scalar_assign" else -1
        return [W([y + s * x for x, y in zip(a[0], r[j])]) if j == c["limb"] else list(r[j]) for j in range(rs)]
    if base == "rotate":
        return [W(o_rot(limb(a, j, n), p)) for j in range(rs)]
    if base == "rotate_assign":
        return [W(o_rot(r[j], p)) for j in range(rs)]
    if base == "mulxp":
        return [W([x - y for x, y in zip(o_rot(limb(a, j, n), p), limb(a, j, n))]) for j in range(rs)]
    if base == "mulxp_assign":
        return [W([x - y for x, y in zip(o_rot(r[j], p), r[j])]) for j in range(rs)]
    if base == "autom":
        if p % 2 == 0:
            return None
        return [W(o_aut(limb(a, j, n), p)) for j in range(rs)]
    if base == "autom_assign":
        if p % 2 == 0:
            return None
        return [W(o_aut(r[j], p)) for j in range(rs)]
    if base == "switch":
        nin = c["nin"]
        return [o_switch(limb(a, j, nin), n) for j in range(rs)]
    if base == "split":
        nin, nouts, ps = c["nin"], c["nouts"], c["ps"]
        if c.get("nt", nin) != nin:
            return "panic:assert"
        gap = len(nouts)
        nout = nouts[0]
        return [[[limb(a, j, nin)[i + m * gap] for m in range(nout)] for j in range(ps[i])] for i in range(gap)]
    if base == "merge":
        parts, nins = c["parts"], c["nins"]
        if c.get("nt", n) != n:
            return "panic:assert"
        gap = len(parts)
        return [[limb(parts[q % gap], j, nins[0])[q // gap] for q in range(n)] for j in range(rs)]
    raise ValueError(op)


# --------------------------------------------------------------------------- wire format
def s_poly(l):
    return ",".join(str(x) for x in l) if l else "-"


def s_col(c):
    return "|".join(s_poly(l) for l in c) if c else "-"


def s_cols(cs):
    return ";".join(s_col(c) for c in cs)


def p_col(s):
    if s == "-" or s == "":
        return []
    return [[int(x) for x in l.split(",")] if l != "-" else [] for l in s.split("|")]


def fmt(idx, c):
    t = [str(idx), "ring", c["op"], "be=" + c["be"], f"n={c['n']}", f"rs={c['rs']}"]
    for k in ("p", "limb", "nin", "nt", "order", "scr", "rcols", "rc", "acols", "ac", "bcols", "bc"):
        if k in c:
            t.append(f"{k}={c[k]}")
    for k in ("nouts", "nins", "ps"):
        if k in c:
            t.append(f"{k}=" + ",".join(str(x) for x in c[k]))
    for k in ("a", "b", "r"):
        if k in c:
            t.append(f"{k}=" + s_col(c[k]))
    if "parts" in c:
        t.append("parts=" + s_cols(c["parts"]))
    return " ".join(t)


def show_expected(e):
    if e is None or isinstance(e, str):
        return e
    if e and e[0] and isinstance(e[0][0], list):
        return s_cols(e)
    return s_col(e)


# --------------------------------------------------------------------------- generator
class Gen:
    def __init__(self, ctx):
        self.rng = ctx.rng.fork()
        self.quick = ctx.tier == "quick"
        self.cases = []

    def val(self, vclass, bits):
        r = self.rng
        if vclass == "zero":
            return 0
        if vclass == "small":
            return r.range(-7, 7)
        if vclass == "bound":
            return r.choice(BOUND128 if bits == 128 else BOUND64)
        if bits == 128:
            return wrap((r.next() << 64) | r.next(), 128)
        return wrap(r.next(), 64)

    def poly(self, n, vclass, bits=64):
        if vclass == "mixed":
            return [self.val(self.rng.choice(["full", "bound", "small"]), bits) for _ in range(n)]
        return [self.val(vclass, bits) for _ in range(n)]

    def col(self, n, size, vclass, bits=64):
        return [self.poly(n, vclass, bits) for _ in range(size)]

    def vclass(self):
        return self.rng.choice(["full", "full", "bound", "mixed", "small"])

    def cols(self, c, names):
        """1..3 columns per container, random selected column (source/target columns distinct when possible)"""
        r = self.rng
        used = []
        for nm in names:
            k = r.range(1, 3)
            sel = r.below(k)
            if used and k > 1 and sel == used[-1]:
                sel = (sel + 1) % k
            used.append(sel)
            c[nm + "cols"] = k
            c[nm + "c"] = sel
        return c

    def add(self, c, backends=None, **meta):
        for be in (backends or BACKENDS):
            if be.startswith("fft64") and max(c["n"], c.get("nin", 0), c.get("nt", 0)) < 2:
                continue
            d = dict(c)
            d["be"] = be
            d["_meta"] = meta
            self.cases.append(d)

    def bits_for(self, op, be):
        return 128 if (op.startswith("big_") and be.startswith("ntt120")) else 64

    def add_big(self, build, backends=None):
        """build(bits) -> case dict; i64-valued on FFT64, i128-valued on NTT120"""
        for fam, bits in (("fft64", 64), ("ntt120", 128)):
            bes = [b for b in (backends or BACKENDS) if b.startswith(fam)]
            if bes:
                c, meta = build(bits)
                self.add(c, bes, **meta)


SMALL_N = [2, 4, 8, 16]


def gen_cases(ctx):
    g = Gen(ctx)
    r = g.rng
    quick = g.quick
    exhaustive_n = SMALL_N if quick else SMALL_N + [32, 64]

    # ---- rotations and (X^k - 1): every k in [-4N, 4N]
    rot_ops = ["rotate", "rotate_assign", "mulxp", "mulxp_assign"]
    for n in [1] + exhaustive_n:
        for k in range(-4 * n, 4 * n + 1):
            for op in rot_ops:
                if n > 16 and r.below(4) != 0:
                    continue
                rs = r.range(1, 5)
                c = {"op": op, "n": n, "rs": rs, "p": k}
                vc = g.vclass()
                if op.endswith("_assign"):
                    c["r"] = g.col(n, rs, vc)
                    g.cols(c, ["r"])
                else:
                    c["a"] = g.col(n, r.range(1, 5), vc)
                    g.cols(c, ["r", "a"])
                g.add(c, branch=(k % (2 * n) < n, k % n == 0), vclass=vc)
    for n in ([64, 1024] if quick else [256, 1024, 4096]):
        ks = [0, 1, -1, n - 1, n, n + 1, -n, 2 * n - 1, 2 * n, -2 * n, 4 * n, -4 * n, 3 * n + 1] + [r.range(-4 * n, 4 * n) for _ in range(6)]
        for k in ks:
            op = r.choice(rot_ops)
            rs = r.range(1, 3)
            c = {"op": op, "n": n, "rs": rs, "p": k}
            if op.endswith("_assign"):
                c["r"] = g.col(n, rs, "full")
            else:
                c["a"] = g.col(n, r.range(1, 3), "full")
            g.add(c, branch=(k % (2 * n) < n, k % n == 0), vclass="full")
    # huge exponents (p is an i64)
    for k in [I64MIN, I64MAX, I64MIN + 1, (1 << 40) + 3, -(1 << 40) - 5]:
        for n in [4, 16]:
            g.add({"op": "rotate", "n": n, "rs": 2, "p": k, "a": g.col(n, 2, "full")}, branch=("huge",), vclass="full")
            g.add({"op": "autom", "n": n, "rs": 2, "p": k | 1, "a": g.col(n, 2, "full")}, branch=("huge",), vclass="full")

    # ---- automorphisms: every odd g mod 2N (both signs, and shifted by multiples of 2N)
    aut_ops = ["autom", "autom_assign", "big_autom", "big_autom_assign"]
    for n in [1] + exhaustive_n:
        for g0 in range(1, 2 * n, 2):
            for gg in (g0, g0 - 2 * n, g0 + 2 * n * r.range(-3, 3)):
                for op in aut_ops:
                    if n > 16 and r.below(4) != 0:
                        continue
                    rs = r.range(1, 5)
                    vc = g.vclass()

                    def build(bits, op=op, rs=rs, vc=vc, gg=gg, n=n):
                        c = {"op": op, "n": n, "rs": rs, "p": gg}
                        if op.endswith("_assign"):
                            c["r"] = g.col(n, rs, vc, bits)
                            g.cols(c, ["r"])
                        else:
                            c["a"] = g.col(n, r.range(1, 5), vc, bits)
                            g.cols(c, ["r", "a"])
                        return c, {"branch": ("odd", gg < 0), "vclass": vc}
                    if op.startswith("big_"):
                        g.add_big(build)
                    else:
                        c, meta = build(64)
                        g.add(c, **meta)
    for n in ([64, 1024] if quick else [256, 1024, 4096]):
        for _ in range(6):
            gg = r.range(-2 * n, 2 * n) | 1
            op = r.choice(aut_ops)

            def build(bits, op=op, gg=gg, n=n):
                c = {"op": op, "n": n, "rs": 2, "p": gg}
                if op.endswith("_assign"):
                    c["r"] = g.col(n, 2, "full", bits)
                else:
                    c["a"] = g.col(n, r.range(1, 3), "full", bits)
                return c, {"branch": ("odd", gg < 0), "vclass": "full"}
            if op.startswith("big_"):
                g.add_big(build)
            else:
                c, meta = build(64)
                g.add(c, **meta)
    # even g is inadmissible: the reference kernels leave the positions they do not hit untouched
    # (model: znxAutomorphismIntoW); the AVX kernels debug-assert oddness.  Reference back ends only.
    for n in [2, 4, 8]:
        for gg in range(-2 * n, 2 * n + 1, 2):
            rs = r.range(1, 3)
            c = {"op": "autom", "n": n, "rs": rs, "p": gg, "a": g.col(n, r.range(1, 3), "small"), "r": g.col(n, rs, "small")}
            g.add(c, ["fft64ref", "ntt120ref"], branch=("even",), vclass="small")
            c = {"op": "big_autom", "n": n, "rs": rs, "p": gg, "a": g.col(n, r.range(1, 3), "small"), "r": g.col(n, rs, "small")}
            g.add(c, ["fft64ref", "ntt120ref"], branch=("even",), vclass="small")
            c = {"op": "big_autom_assign", "n": n, "rs": rs, "p": gg, "r": g.col(n, rs, "small")}
            g.add(c, ["ntt120ref"], branch=("even",), vclass="small")
            # in-place forms that go through the scratch polynomial: its content is an explicit input (`scr`)
            for scr in (0, r.range(-9, 9), wrap(r.next(), 64)):
                c = {"op": "autom_assign", "n": n, "rs": rs, "p": gg, "r": g.col(n, rs, "small"), "scr": scr}
                g.add(c, ["fft64ref", "ntt120ref"], branch=("even-scr",), vclass="small")
                c = {"op": "big_autom_assign", "n": n, "rs": rs, "p": gg, "r": g.col(n, rs, "small"), "scr": scr}
                g.add(c, ["fft64ref"], branch=("even-scr",), vclass="small")
        for gg in range(1, 2 * n, 2):
            rs = r.range(1, 3)
            c = {"op": "autom_assign", "n": n, "rs": rs, "p": gg, "r": g.col(n, rs, "full"), "scr": wrap(r.next(), 64)}
            g.add(c, branch=("odd-scr",), vclass="full")

    # ---- size rule: every (a, b, res) size triple 1..5 for the binary operations
    for op in ["add", "sub", "big_add", "big_sub", "big_add_small", "big_sub_small_a", "big_sub_small_b"]:
        for sa in range(1, 6):
            for sb in range(1, 6):
                for rs in range(1, 6):
                    n = r.choice([1, 2, 4, 8] if quick else [1, 2, 4, 8, 16, 64])
                    vc = g.vclass()

                    def build(bits, op=op, sa=sa, sb=sb, rs=rs, n=n, vc=vc):
                        ab = 64 if op in ("big_sub_small_a",) else bits
                        bb = 64 if op in ("big_add_small", "big_sub_small_b") else bits
                        c = {"op": op, "n": n, "rs": rs, "a": g.col(n, sa, vc, ab), "b": g.col(n, sb, vc, bb)}
                        g.cols(c, ["r", "a", "b"])
                        return c, {"branch": (sa <= sb, min(sa, sb) < rs, max(sa, sb) < rs), "vclass": vc}
                    if op.startswith("big_"):
                        g.add_big(build)
                    else:
                        c, meta = build(64)
                        g.add(c, **meta)
    # ---- size rule: every (a, res) pair for the unary / in-place operations
    un_ops = ["copy", "negate", "add_assign", "sub_assign", "sub_negate_assign", "big_negate", "big_add_assign", "big_sub_assign",
              "big_sub_negate_assign", "big_add_small_assign", "big_sub_small_assign", "big_sub_small_negate_assign", "big_from_small"]
    for op in un_ops:
        for sa in range(1, 6):
            for rs in range(1, 6):
                for rep in range(1 if quick else 3):
                    n = r.choice([1, 2, 4, 8, 16])
                    vc = g.vclass()

                    def build(bits, op=op, sa=sa, rs=rs, n=n, vc=vc):
                        small_a = "small" in op
                        c = {"op": op, "n": n, "rs": rs, "a": g.col(n, sa, vc, 64 if small_a else bits)}
                        if op.endswith("_assign"):
                            c["r"] = g.col(n, rs, vc, bits)
                        g.cols(c, ["r", "a"])
                        return c, {"branch": (sa < rs, sa == rs), "vclass": vc}
                    if op.startswith("big_"):
                        g.add_big(build)
                    else:
                        c, meta = build(64)
                        g.add(c, **meta)
    for op in ["zero", "negate_assign", "big_negate_assign"]:
        for rs in range(1, 6):
            n = r.choice([1, 2, 4, 8, 16])

            def build(bits, op=op, rs=rs, n=n):
                c = {"op": op, "n": n, "rs": rs}
                if op != "zero":
                    c["r"] = g.col(n, rs, "mixed", bits)
                g.cols(c, ["r"])
                return c, {"branch": (), "vclass": "mixed"}
            if op.startswith("big_"):
                g.add_big(build)
            else:
                c, meta = build(64)
                g.add(c, **meta)
    # ---- scalar add / sub on a chosen limb (including the limb assertion)
    for op in ["add_scalar", "sub_scalar", "add_scalar_assign", "sub_scalar_assign"]:
        for sb in range(1, 6):
            for rs in range(1, 6):
                n = r.choice([1, 2, 4, 8])
                vc = g.vclass()
                top = rs if op.endswith("_assign") else min(sb, rs)
                for lb in sorted(set([0, top - 1, top, r.below(top + 1)])):
                    c = {"op": op, "n": n, "rs": rs, "limb": lb, "a": [g.poly(n, vc)]}
                    if op.endswith("_assign"):
                        c["r"] = g.col(n, rs, vc)
                        g.cols(c, ["r", "a"])
                    else:
                        c["b"] = g.col(n, sb, vc)
                        g.cols(c, ["r", "a", "b"])
                    g.add(c, branch=(lb < top, sb < rs), vclass=vc)
    # ---- ring-degree switching, ratios 1..16 both ways
    degs = [1, 2, 4, 8, 16, 32, 64] + ([1024] if quick else [256, 1024, 4096])
    for nin in degs:
        for nout in degs:
            ratio = max(nin, nout) // min(nin, nout)
            if ratio > 16 and not (nin == 1024 or nout == 1024):
                continue
            if max(nin, nout) >= 1024 and ratio not in (1, 2, 16):
                continue
            for rep in range(2 if quick else 4):
                sa, rs = r.range(1, 5), r.range(1, 5)
                vc = g.vclass()
                c = {"op": "switch", "nin": nin, "n": nout, "rs": rs, "a": g.col(nin, sa, vc)}
                g.cols(c, ["r", "a"])
                g.add(c, branch=(nin < nout, nin == nout, sa < rs), vclass=vc)
    # ---- split / merge, ratios 2..16
    for nin in [2, 4, 8, 16, 32, 64] + ([] if quick else [256]):
        for gap in [2, 4, 8, 16]:
            if gap > nin:
                continue
            nout = nin // gap
            for rep in range(2 if quick else 6):
                sa = r.range(1, 5)
                ps = [r.range(1, 5) for _ in range(gap)] if rep else [sa] * gap
                vc = g.vclass()
                c = {"op": "split", "nin": nin, "nt": nin, "n": nout, "rs": 0, "nouts": [nout] * gap, "ps": ps, "a": g.col(nin, sa, vc)}
                g.cols(c, ["r", "a"])
                g.add(c, branch=("roundtrip" if not rep else "sizes",), vclass=vc)
                rs = r.range(1, 5)
                parts = [g.col(nout, r.range(1, 5), vc) for _ in range(gap)]
                c = {"op": "merge", "n": nin, "nt": nin, "rs": rs, "nins": [nout] * gap, "parts": parts}
                g.cols(c, ["r", "a"])
                g.add(c, branch=(min(len(p) for p in parts) < rs,), vclass=vc)
    # wrong scratch polynomial (module degree != operand degree): the entry assertion fires
    g.add({"op": "split", "nin": 8, "nt": 4, "n": 4, "rs": 0, "nouts": [4, 4], "ps": [1, 1], "a": g.col(8, 1, "small")}, branch=("nt",), vclass="small")
    g.add({"op": "merge", "n": 8, "nt": 16, "rs": 1, "nins": [4, 4], "parts": [g.col(4, 1, "small"), g.col(4, 1, "small")]}, branch=("nt",), vclass="small")
    # ---- degree mismatch: the entry assertion of the vec_znx_* functions
    for op in ["add", "sub", "copy", "negate", "rotate", "autom", "add_assign", "mulxp"]:
        c = {"op": op, "n": 4, "rs": 2, "p": 1, "a": g.col(2, 2, "small"), "mismatch": True}
        if op in ("add", "sub"):
            c["b"] = g.col(4, 2, "small")
        if op.endswith("_assign"):
            c["r"] = g.col(4, 2, "small")
        g.add(c, branch=("mismatch",), vclass="small")
    return g.cases


def galois_cases(ctx):
    """(op, n, arg) triples for galois_element / galois_element_inv"""
    out = []
    r = ctx.rng.fork()
    for n in [2, 4, 8, 16, 64, 1024, 4096]:
        ts = list(range(-12, 13)) + [I64MIN, I64MAX, -(1 << 40), (1 << 33) + 1, n, -n, 2 * n, 2 * n - 1]
        for t in ts:
            out.append(("gal", n, t))
        gs = list(range(-2 * n + 1, 2 * n, 2)) if n <= 16 else [r.range(-2 * n, 2 * n) | 1 for _ in range(24)]
        gs += [0, 2, -4, I64MIN, I64MAX, (1 << 50) + 1, -(1 << 50) - 1]
        for gg in gs:
            out.append(("galinv", n, gg))
    return out


# --------------------------------------------------------------------------- run
def first_tok(line):
    t = line.split()
    return (t[1] if len(t) > 1 else "?"), t[2:]


def run(ctx):
    quick = ctx.tier == "quick"
    ctx.trusted += [
        "Model/Ring.lean + Model/Galois.lean as the reading of reference/znx, reference/vec_znx, reference/{fft64,ntt120}/vec_znx_big.rs, "
        "layouts/module.rs (tied by pvh ring on all four back ends)",
        "index masks p & (2n-1) are modelled by p % 2n (equal for the power-of-two degrees Module::new enforces)",
    ]
    ctx.assumptions += ["ring degree is a power of two (Module::new asserts it); Galois elements are odd (even values are inadmissible: "
                        "the AVX kernels debug-assert oddness, the reference kernels leave unhit coefficients stale — modelled, ref only)"]
    broken = []
    ok, failures = ctx.proof_gate(["Poulpy.Props.C09"])
    if not ok:
        broken += failures
    binp = ctx.build_harness()
    drv = ctx.driver()
    if binp is None:
        broken.append("harness build failed: " + getattr(ctx, "build_error", "")[-600:])
    if drv is None:
        broken.append("model driver does not build: " + getattr(ctx, "driver_error", "")[-600:])
    witness = None
    if binp is not None and drv is not None:
        cases = gen_cases(ctx)
        lines = [fmt(k, c) for k, c in enumerate(cases)]
        rc1, impl, err1 = ctx.run_lines(binp, ["ring"], lines)
        rc2, model, err2 = ctx.run_lines(drv, [], lines)
        if rc1 != 0 or len(impl) != len(lines):
            broken.append(f"pvh ring failed rc={rc1} lines={len(impl)}/{len(lines)} {err1[-300:]}")
        if rc2 != 0 or len(model) != len(lines):
            broken.append(f"pdriver ring failed rc={rc2} lines={len(model)}/{len(lines)} {err2[-300:]}")
        hist = {}
        per_be = {}
        n_stray = 0
        for k, c in enumerate(cases):
            iv, iflags = first_tok(impl[k]) if k < len(impl) else ("?", [])
            mv, _ = first_tok(model[k]) if k < len(model) else ("?", [])
            exp = show_expected(oracle(c))
            meta = c["_meta"]
            inputs = [x for key in ("a", "b", "r") for l in c.get(key, []) for x in l] + [x for p in c.get("parts", []) for l in p for x in l]
            nontrivial = any(inputs)
            shape = (c["n"], c.get("nin"), c["rs"], len(c.get("a", [])), len(c.get("b", [])), tuple(c.get("ps", [])))
            ctx.count_case((c["op"], c["be"], shape, meta.get("vclass"), meta.get("branch")), nontrivial=True if nontrivial else False)
            hist[c["op"]] = hist.get(c["op"], 0) + 1
            per_be[c["be"]] = per_be.get(c["be"], 0) + 1
            bad_impl = exp is not None and iv != exp
            bad_model = iv != mv
            if iflags:
                n_stray += 1
                bad_impl = True
            if bad_impl or bad_model:
                ctx.disagreements += 1
                if bad_impl:
                    ctx.oracle_failures += 1
                if len(broken) < 12:
                    broken.append(f"case {lines[k][:300]} :: implementation={iv[:200]} {' '.join(iflags)} model={mv[:200]} oracle={str(exp)[:200]}")
                if bad_impl and witness is None:
                    witness = {"case": lines[k], "implementation": impl[k] if k < len(impl) else None, "model": mv, "oracle": exp,
                               "rerun": f"printf '%s\\n' '{lines[k]}' | harness/target/release/pvh ring"}
            if k % 997 == 0 and len(ctx.samples) < 8:
                ctx.samples.append({"case": lines[k][:240], "implementation": iv[:120], "model": mv[:120], "oracle": str(exp)[:120]})
        ctx.cov["ops"] = hist
        ctx.cov["per_backend"] = per_be
        ctx.cov["stray_or_mutated"] = n_stray
        ctx.cov["exhaustive"] = {"rotation_k": "every k in [-4N,4N] for N in " + str([1] + (SMALL_N if quick else SMALL_N + [32, 64])),
                                 "galois_g": "every odd g in (-2N,2N) for the same N", "size_triples": "all (a,b,res) in 1..5^3"}

        # ---- merge(split a) = a on the real code (second pass built from the implementation's own split outputs)
        rt_lines, rt_expect = [], []
        for k, c in enumerate(cases):
            if c["op"] == "split" and c["_meta"].get("branch") == ("roundtrip",) and k < len(impl):
                iv, _ = first_tok(impl[k])
                if iv.startswith("panic"):
                    continue
                parts = [p_col(s) for s in iv.split(";")]
                d = {"op": "merge", "be": c["be"], "n": c["nin"], "nt": c["nin"], "rs": len(c["a"]), "nins": c["nouts"], "parts": parts}
                rt_lines.append(fmt(len(rt_lines), d))
                rt_expect.append(s_col(c["a"]))
        # group laws on the real code: X^{-p}(X^p a) = a and sigma_{g^-1}(sigma_g a) = a, second pass on the
        # implementation's own outputs (g^-1 computed here, independently of galois_element_inv)
        for k, c in enumerate(cases):
            if c["op"] in ("rotate", "autom", "big_autom") and k < len(impl) and c["rs"] >= len(c.get("a", [])) and "r" not in c \
                    and not c.get("mismatch") and c["n"] <= 64 and (c["op"] == "rotate" or c["p"] % 2 == 1):
                iv, _ = first_tok(impl[k])
                if iv.startswith("panic"):
                    continue
                out = p_col(iv)[:len(c["a"])]
                n = c["n"]
                q = -c["p"] if c["op"] == "rotate" else pow(c["p"] % (2 * n), -1, 2 * n) - (2 * n if k % 2 else 0)
                d = {"op": c["op"], "be": c["be"], "n": n, "rs": len(c["a"]), "p": q, "a": out}
                rt_lines.append(fmt(len(rt_lines), d))
                rt_expect.append(s_col(c["a"]))
        if rt_lines:
            rc3, rt_impl, _ = ctx.run_lines(binp, ["ring"], rt_lines)
            rc4, rt_model, _ = ctx.run_lines(drv, [], rt_lines)
            n_rt = 0
            for k, ln in enumerate(rt_lines):
                iv, fl = first_tok(rt_impl[k]) if k < len(rt_impl) else ("?", [])
                mv, _ = first_tok(rt_model[k]) if k < len(rt_model) else ("?", [])
                ctx.count_case(("roundtrip", ln.split()[2], ln.split()[3], ln.split()[4], len(ln) // 64))
                if iv != rt_expect[k] or mv != iv or fl:
                    ctx.disagreements += 1
                    broken.append(f"round trip (merge∘split / inverse rotation / inverse automorphism) != a: {ln[:200]} implementation={iv[:120]} model={mv[:120]} a={rt_expect[k][:120]}")
                    if iv != rt_expect[k] and witness is None:
                        ctx.oracle_failures += 1
                        witness = {"case": ln, "implementation": iv, "expected_a": rt_expect[k], "what": "round trip on the implementation does not return the input"}
                else:
                    n_rt += 1
            ctx.cov["roundtrips_ok"] = n_rt
            ctx.cov["roundtrips"] = len(rt_lines)

        # ---- Galois elements
        gc = galois_cases(ctx)
        glines = []
        for k, (op, n, arg) in enumerate(gc):
            for be in (["fft64ref", "ntt120avx"] if quick else BACKENDS):
                glines.append(f"{len(glines)} ring {op} be={be} n={n} rs=0 p={arg} order={2 * n}")
        rc5, g_impl, _ = ctx.run_lines(binp, ["ring"], glines)
        rc6, g_model, _ = ctx.run_lines(drv, [], glines)
        for k, ln in enumerate(glines):
            t = ln.split()
            op, n, arg = t[2], int(t[4][2:]), int(t[6][2:])
            iv, _ = first_tok(g_impl[k]) if k < len(g_impl) else ("?", [])
            mv, _ = first_tok(g_model[k]) if k < len(g_model) else ("?", [])
            ctx.count_case((op, t[3], n, (arg > 0) - (arg < 0), arg % 2, abs(arg).bit_length() // 8))
            bad = None
            if op == "gal":
                want = 1 if arg == 0 else pow(5, abs(arg), 2 * n) * (1 if arg > 0 else -1)
                if iv != str(want):
                    bad = f"galois_element({arg}) N={n}: got {iv}, want {want}"
            else:
                if arg == 0:
                    if iv != "panic:other":
                        bad = f"galois_element_inv(0): got {iv}"
                elif arg % 2 == 1:
                    try:
                        good = (int(iv) * arg) % (2 * n) == 1 and abs(int(iv)) < 2 * n
                    except ValueError:
                        good = False
                    if not good:
                        bad = f"galois_element_inv({arg}) N={n}: got {iv}, g*inv mod 2N != 1"
            if bad or iv != mv:
                ctx.disagreements += 1
                broken.append(bad or f"galois: {ln} implementation={iv} model={mv}")
                if bad and witness is None:
                    ctx.oracle_failures += 1
                    witness = {"case": ln, "implementation": iv, "what": bad}
        ctx.cov["galois_cases"] = len(glines)

        # ---- negMul (specification-level exact product, no Rust counterpart here): model vs schoolbook negacyclic convolution
        r3 = ctx.rng.fork()
        nm_lines, nm_expect = [], []
        for _ in range(40 if quick else 400):
            n = r3.choice([1, 2, 3, 4, 8, 16])
            a = [r3.range(-(1 << 40), 1 << 40) for _ in range(n)]
            b = [r3.range(-(1 << 40), 1 << 40) for _ in range(n)]
            out = [0] * n
            for i, x in enumerate(a):
                for j, y in enumerate(b):
                    if i + j < n:
                        out[i + j] += x * y
                    else:
                        out[i + j - n] -= x * y
            nm_lines.append(f"{len(nm_lines)} ring negmul n={n} rs=1 a={s_poly(a)} b={s_poly(b)}")
            nm_expect.append(s_poly(out))
        rc7, nm_model, _ = ctx.run_lines(drv, [], nm_lines)
        for k, ln in enumerate(nm_lines):
            mv, _ = first_tok(nm_model[k]) if k < len(nm_model) else ("?", [])
            ctx.count_case(("negmul", ln.split()[3]))
            if mv != nm_expect[k]:
                ctx.disagreements += 1
                broken.append(f"negMul model differs from negacyclic convolution: {ln[:200]} model={mv[:120]} want={nm_expect[k][:120]}")

    if broken:
        ctx.log("broken:", *broken[:6])
        if witness is not None:
            ctx.violation("implementation differs from the quotient-ring map", {"witness": witness, "broken": broken[:20], "rerun": "./check C09 --tier quick"}, True)
        else:
            ctx.violation("C09 obligation or correspondence no longer checks", {"broken": broken[:20]}, False)
    return ctx.finish(rule="case = (operation, back end, degree, sizes, columns, exponent/galois element, digits); distinct = (operation, back end, "
                           "shape (n, n_in, res size, operand sizes, part sizes), value class {full-range, boundary, mixed, small}, branch "
                           "class (rotation: k mod 2N < N, k mod N = 0; automorphism: sign/parity; size rule: which operand is longer, whether "
                           "copy / zero-fill segments are non-empty; limb assertion hit)); non-trivial = some input digit non-zero or the case is "
                           "an assertion case; each case is evaluated by the implementation, the Lean model and the Python ring-map oracle")
