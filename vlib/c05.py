"""C05 — ciphertext multiplication (tensor, relinearise, plain, constant) scales right.

Gate 1 (proof): lake build Poulpy.Props.C05 + audit.
Gate 2 (correspondence): `pvh mul` encrypts operands / generates the tensor key with the real code
        (NTT120Ref) and runs the operation on the four back ends from the same raw containers; the
        Lean model (`pdriver mul`, Model/Core/Mul.lean) must reproduce every output bit for bit.
Gate 3 (property oracle, Python big integers): exact (tensor) phase of operands and result; the
        result must equal the product of the operand phases (operands masked to their effective
        precision) times 2^cnv_offset on the torus, within an explicit worst-case bound
        (normalisation ulps + the convolution limbs dropped by normalize_input_limb_bound + key noise).
Gate 4: dirty-scratch metamorphic run + exactly representable stale content in the res_dft slot of
        relinearisation with dsize >= 3 (regression of the defect repaired by poulpy d3c2e96).
"""
import math

from . import common
from .c04 import negmul, centered, parse_vec, l1, ceil_div, parse_answer, BE_NAMES, BIG128

OPS = ["tensor", "tensor", "square", "tensor_add", "plain", "plain_assign", "const", "const_assign", "relin", "relin"]


def gen_case(rng, idx, quick):
    n = rng.choice([8, 8, 16, 32] if quick else [8, 16, 32, 32])
    rank = rng.choice([1, 1, 2])
    op = OPS[idx % len(OPS)] if idx < 4 * len(OPS) else rng.choice(OPS)
    ntt_only = rng.chance(1, 7)
    b = rng.range(18, 30) if ntt_only else rng.range(5, 14)
    sa = rng.range(1, 4)
    sb = rng.range(1, 4)
    # partially used top limb (mask path) two times out of three
    ka = b * (sa - 1) + (b if rng.chance(1, 3) else rng.range(1, b))
    kb = b * (sb - 1) + (b if rng.chance(1, 3) else rng.range(1, b))
    if ka == kb and rng.chance(2, 3):
        kb = max(1, kb - 1) if kb % b != 1 else kb + 1
    bo = b if rng.chance(1, 2) else max(3, b + rng.range(-3, 3))
    full_bits = (ceil_div(ka, b) + ceil_div(kb, b)) * b
    rc = rng.below(3)
    if rc == 0:
        so = max(1, ceil_div(full_bits, bo) - rng.range(1, 3))       # smaller than the full product
    elif rc == 1:
        so = ceil_div(full_bits, bo) + rng.range(0, 2)               # larger
    else:
        so = rng.range(1, 6)
    ko = bo * so - rng.below(bo)
    ko = max(ko, 1)
    oc = rng.below(4)
    if oc == 0:
        off = rng.below(b)                      # negative cnv_offset_lo path
    elif oc == 1:
        off = b * rng.range(0, sa + sb)         # whole limbs
    else:
        off = rng.range(0, so * bo)             # every offset 0..res precision
    # keep cnv_offset_hi <= a.size + b.size (beyond that `a.size + b.size - cnv_offset_hi` underflows a usize)
    sa_, sb_ = ceil_div(ka, b), (ceil_div(kb, b) if op not in ("square",) else ceil_div(ka, b))
    if op in ("const", "const_assign"):
        sb_ = 1
    off = min(off, (sa_ + sb_ + 1) * b + b - 1)
    c = dict(op=op, n=n, rank=rank, b=b, ka=ka, kb=kb, bo=bo, ko=ko, off=off, m=rng.choice(["rand", "rand", "ext"]),
             seed=rng.below(1 << 40) + 1)
    if op in ("plain_assign", "const_assign"):
        c["bo"] = b
        c["ko"] = ka
    if op in ("const", "const_assign"):
        c["clen"] = rng.range(1, 3)
    if op == "relin":
        # tensor in radix b with precision ka >= 2 limbs; key radix bk, dsize 1..3
        sa = max(sa, 2)
        c["ka"] = ka = b * sa - rng.below(b)
        c["kb"] = ka
        c["off"] = rng.range(0, b * sa)
        dsize = rng.choice([1, 1, 2, 3])
        bk = b if rng.chance(2, 3) else max(4, b + rng.range(-2, 2))
        if ntt_only:
            bk = b
        size_k = dsize + rng.range(1, 3) + ceil_div(b * sa, bk) // 2
        c["bk"] = bk
        c["kk"] = bk * size_k - rng.below(bk)
        if ceil_div(c["kk"], bk) <= dsize:
            c["kk"] = bk * (dsize + 1)
        size_k = ceil_div(c["kk"], bk)
        c["dsize"] = dsize
        c["dnum"] = rng.range(1, max(1, size_k // dsize))
        if rng.chance(1, 2):
            c["bo"] = bk
        if dsize >= 3 and bk == b and rng.chance(1, 2):
            c["stale"] = rng.choice([8, 16, 36, 40])
    return c


def req_line(c, dirty=0):
    toks = [f"{k}={v}" for k, v in c.items()]
    if dirty:
        toks.append(f"dirty={dirty}")
    return " ".join(toks)


def fft_in_domain(c):
    s = min(ceil_div(c["ka"], c["b"]), ceil_div(c["kb"], c["b"]))
    conv = c["n"] * max(s, 1) * 4 * (1 << (2 * c["b"]))
    ok = conv <= (1 << 50) and c["b"] <= 17
    if c["op"] == "relin":
        rows = c["dnum"] * max(1, c["rank"] * (c["rank"] + 1) // 2)
        ok = ok and c["n"] * rows * c["dsize"] * (1 << (2 * c["bk"])) <= (1 << 50) and c["bk"] <= 17
    return ok


def model_line(c, a, big):
    so = ceil_div(c["ko"], c["bo"])
    op = c["op"]
    base = f"mul big={big} n={c['n']} b={c['b']} ka={c['ka']} kb={c['kb']} off={c['off']} a={a['a']}"
    if op in ("tensor", "tensor_add"):
        s = base + f" op={op} bo={c['bo']} so={so} x={a['x']}"
        if op == "tensor_add":
            s += f" r0={a['r0']}"
        return s
    if op == "square":
        return base + f" op=square bo={c['bo']} so={so}"
    if op == "plain":
        return base + f" op=plain bo={c['bo']} so={so} x={a['x']}"
    if op == "plain_assign":
        return base + f" op=plain bo={c['b']} so={ceil_div(c['ka'], c['b'])} x={a['x']}"
    if op == "const":
        return base + f" op=const bo={c['bo']} so={so} c={a['c']}"
    if op == "const_assign":
        return base + f" op=const_assign bo={c['b']} so={ceil_div(c['ka'], c['b'])} c={a['c']}"
    if op == "relin":
        pairs = max(1, c["rank"] * (c["rank"] + 1) // 2)
        s = base + (f" op=relin bo={c['bo']} so={so} gp={c['bk']},{pairs},{c['rank'] + 1},{c['dsize']},{c['dnum']},"
                    f"{ceil_div(c['kk'], c['bk'])} g={a['g']}")
        if "r0" in a:
            s += f" r0={a['r0']}"
        return s
    raise ValueError(op)


# ------------------------------------------------------------------ oracle
def sigma(sk, i, n):
    return [1] + [0] * (n - 1) if i == 0 else sk[i - 1]


def col_idx(cols, i, j):
    return i * cols - i * (i + 1) // 2 + j


def mask_limb(v, b, k):
    r = k % b
    if r == 0:
        return list(v)
    sh = b - r
    return [(x >> sh) << sh for x in v]


def masked(ct, b, k):
    """operand with the bottom limb masked to its top k % b bits"""
    return [col[:-1] + [mask_limb(col[-1], b, k)] for col in ct]


def value_poly(col, b):
    size = len(col)
    n = len(col[0])
    out = [0] * n
    for j in range(size):
        w = 1 << (b * (size - 1 - j))
        for t in range(n):
            out[t] += col[j][t] * w
    return out


def glwe_phase(ct, sk, b):
    n = len(ct[0][0])
    out = [0] * n
    for i, col in enumerate(ct):
        p = value_poly(col, b)
        if i > 0:
            p = negmul(sk[i - 1], p)
        out = [x + y for x, y in zip(out, p)]
    return out, b * len(ct[0])


def tensor_phase(t, sk, b, cols):
    n = len(t[0][0])
    out = [0] * n
    for i in range(cols):
        for j in range(i, cols):
            p = value_poly(t[col_idx(cols, i, j)], b)
            p = negmul(sigma(sk, i, n), negmul(sigma(sk, j, n), p))
            out = [x + y for x, y in zip(out, p)]
    return out, b * len(t[0])


def diff_mod1(p, bits_p, q, bits_q):
    B = max(bits_p, bits_q)
    worst = 0
    for x, y in zip(p, q):
        d = centered((x << (B - bits_p)) - (y << (B - bits_q)), 1 << B)
        worst = max(worst, abs(d))
    return worst / 2.0 ** B if B < 1000 else float(worst) / float(1 << B)


def shift_ref(p, bits, off):
    """p / 2^bits * 2^off as (ints, bits')"""
    if off <= bits:
        return p, bits - off
    return [x << (off - bits) for x in p], 0


def oracle_case(c, a, res_str):
    n, rank, b = c["n"], c["rank"], c["b"]
    cols = rank + 1
    skv = [int(x) for x in a["sk"].split(",")]
    sk = [skv[i * n:(i + 1) * n] for i in range(rank)]
    sn = 1 + sum(l1(s) for s in sk)
    op = c["op"]
    out = parse_vec(res_str, n)
    A = parse_vec(a["a"], n)
    det = {}
    if op in ("tensor", "tensor_add", "square"):
        bo = c["bo"]
        so = len(out[0])
        Am = masked(A, b, c["ka"])
        if op == "square":
            Bm, kb = Am, c["ka"]
        else:
            Bm = masked(parse_vec(a["x"], n), b, c["kb"])
        pa, bits_a = glwe_phase(Am, sk, b)
        pb, bits_b = glwe_phase(Bm, sk, b)
        ref = negmul(pa, pb)
        ref, rbits = shift_ref(ref, bits_a + bits_b, c["off"])
        if op == "tensor_add":
            r0 = parse_vec(a["r0"], n)
            p0, bits0 = tensor_phase(r0, sk, bo, cols)
            B = max(rbits, bits0)
            ref = [(x << (B - rbits)) + (y << (B - bits0)) for x, y in zip(ref, p0)]
            rbits = B
        pr, bits_r = tensor_phase(out, sk, bo, cols)
        sa, sb = len(Am[0]), len(Bm[0])
        hi = 0 if c["off"] < b else c["off"] // b - 1
        lo = -(b - c["off"] % b) if c["off"] < b else c["off"] % b
        ob = lo % b
        dft = min(sa + sb - hi, ceil_div(so * bo + ob, b))
        tail = 0.0
        if dft < sa + sb - hi - 1:
            tail = 4 * n * min(sa, sb) * 2.0 ** (2 * b - 2) * 2.0 ** (-(dft + 1) * b + lo) * 1.01
        ulp = 2.0 ** (-bo * so)
        bound = sn * sn * 3 * (ulp + tail)
        d = diff_mod1(pr, bits_r, ref, rbits)
    elif op in ("plain", "plain_assign"):
        bo = c["bo"] if op == "plain" else b
        so = len(out[0])
        Am = masked(A, b, c["ka"])
        X = masked(parse_vec(a["x"], n), b, c["kb"])
        pa, bits_a = glwe_phase(Am, sk, b)
        px = value_poly(X[0], b)
        ref = negmul(px, pa)
        ref, rbits = shift_ref(ref, bits_a + b * len(X[0]), c["off"])
        pr, bits_r = glwe_phase(out, sk, bo)
        bound = sn * 2.0 ** (-bo * so) * 1.01
        d = diff_mod1(pr, bits_r, ref, rbits)
    elif op in ("const", "const_assign"):
        bo = c["bo"] if op == "const" else b
        so = len(out[0])
        cs = [int(x) for x in a["c"].split(",")]
        C = sum(v << (b * (len(cs) - 1 - j)) for j, v in enumerate(cs))
        pa, bits_a = glwe_phase(A, sk, b)
        ref = [C * x for x in pa]
        ref, rbits = shift_ref(ref, bits_a + b * len(cs), c["off"])
        pr, bits_r = glwe_phase(out, sk, bo)
        bound = sn * 2.0 ** (-bo * so) * 1.01
        if op == "const_assign":
            hi = 0 if c["off"] < b else c["off"] // b - 1
            lo = -(b - c["off"] % b) if c["off"] < b else c["off"] % b
            sa = len(A[0])
            if so < sa + len(cs) - hi - 1:
                bound += sn * min(sa, len(cs)) * 2.0 ** (2 * b - 2) * 2.0 ** (-(so + 1) * b + lo) * 1.01
        d = diff_mod1(pr, bits_r, ref, rbits)
    else:   # relin
        bo = c["bo"]
        so = len(out[0])
        bk, dsize, dnum = c["bk"], c["dsize"], c["dnum"]
        S = ceil_div(c["kk"], bk)
        pairs = max(1, rank * (rank + 1) // 2)
        g = [int(x) for x in a["g"].split(",")]
        cell_len = cols * S * n
        emax = 0
        pair_list = [(i, j) for i in range(1, cols) for j in range(i, cols)]
        for row in range(dnum):
            for p in range(pairs):
                q = row * pairs + p
                v = g[q * cell_len:(q + 1) * cell_len]
                ct = [[v[(co * S + j) * n:(co * S + j + 1) * n] for j in range(S)] for co in range(cols)]
                ph, bits = glwe_phase(ct, sk, bk)
                i, j = pair_list[p]
                want = negmul(sk[i - 1], sk[j - 1])
                sh = bk * S - bk * (row + 1) * dsize
                for t in range(n):
                    e = centered(ph[t] - (want[t] << sh if sh >= 0 else 0), 1 << bits)
                    emax = max(emax, abs(e))
        det["key_emax_log2"] = round(math.log2(emax + 1) - bk * S, 2)
        if emax / 2.0 ** (bk * S) > 20.0 * 2.0 ** (-c["kk"]):
            det["why"] = "a tensor-key cell does not encrypt s_i*s_j at its gadget position (error beyond the sampler's bound)"
            return False, det
        pt, bits_t = tensor_phase(A, sk, b, cols)
        pr, bits_r = glwe_phase(out, sk, bo)
        size_conv = ceil_div(len(A[0]) * b, bk)
        rows_used = min(dnum, ceil_div(size_conv, dsize))
        s2 = max(l1(negmul(sk[i - 1], sk[j - 1])) for (i, j) in pair_list)
        noise = rows_used * pairs * n * 2.0 ** (bk * dsize - 1) * 1.01 * emax / 2.0 ** (bk * S)
        ignored = rows_used * pairs * n * sn * 2.0 ** (-bk * (S - dsize + 1)) if dsize > 2 else 0.0
        trunc = pairs * s2 * 2.0 ** (-bk * dnum * dsize - 1) * 1.01 if size_conv > dnum * dsize else 0.0
        rnd = sn * (2.0 ** (-bo * so) + 2.0 ** (-bk * S)) * 1.01
        bound = noise + ignored + trunc + rnd
        d = diff_mod1(pr, bits_r, pt, bits_t)
    det["bound_log2"] = round(math.log2(bound), 2) if bound > 0 else None
    det["diff_log2"] = round(math.log2(d), 2) if d > 0 else None
    if bound >= 0.125:
        det["loose"] = True
        return True, det
    det["loose"] = False
    det["ratio"] = round(d / bound, 4)
    if d > bound:
        det["why"] = "decrypted result differs from the plaintext product by more than the bound"
        return False, det
    return True, det


def run_batch(ctx, binp, cases, dirty=0):
    lines = [f"{k} {req_line(c, dirty)}" for k, c in enumerate(cases)]
    rc, out, err = ctx.run_lines(binp, ["mul"], lines, timeout=3000)
    return [out[k].split(" ", 1)[1] if k < len(out) and " " in out[k] else "missing" for k in range(len(cases))]


GAP_KEY = "vec_znx_big_normalize:gap-region(C08):cnv_offset<base2k:result-bits<base2k"


def run(ctx):
    rng = ctx.rng
    quick = ctx.tier == "quick"
    broken = []
    ok, failures = ctx.proof_gate(["Poulpy.Props.C05"])
    if not ok:
        broken += failures
    binp = ctx.build_harness()
    drv = ctx.driver()
    if binp is None:
        broken.append("harness build failed: " + getattr(ctx, "build_error", "")[-600:])
    if drv is None:
        broken.append("model driver does not build: " + getattr(ctx, "driver_error", "")[-600:])
    hist = {}
    witness = None
    known = {}
    if binp and drv:
        ncases = 300 if quick else 3000
        cases = [gen_case(rng, i, quick) for i in range(ncases)]
        answers = run_batch(ctx, binp, cases)
        mlines, index = [], []
        for k, (c, ans) in enumerate(zip(cases, answers)):
            a = parse_answer(ans)
            if a is None:
                broken.append(f"harness could not generate case {req_line(c)}: {ans[:80]}")
                continue
            for big in (0, 1):
                mlines.append(f"{len(mlines)} " + model_line(c, a, big))
                index.append((k, big))
            # model-level laws checked on every case: square = self-product, accumulate = previous + product
            if c["op"] == "square":
                c2 = dict(c, op="tensor", kb=c["ka"])
                mlines.append(f"{len(mlines)} " + model_line(c2, dict(a, x=a["a"]), 1))
                index.append((k, "self"))
            if c["op"] == "tensor_add":
                c2 = dict(c, op="tensor")
                mlines.append(f"{len(mlines)} " + model_line(c2, a, 1))
                index.append((k, "prod"))
        rc, mout, merr = ctx.run_lines(drv, [], mlines, timeout=3000)
        model = {index[i]: (mout[i].split(" ", 1)[1] if i < len(mout) and " " in mout[i] else "missing") for i in range(len(index))}
        n_oracle = n_loose = 0
        laws = {}
        max_ratio = 0.0
        for k, (c, ans) in enumerate(zip(cases, answers)):
            a = parse_answer(ans)
            if a is None:
                continue
            fft_ok = fft_in_domain(c)
            outs = [a.get(f"be{i}", "missing") for i in range(4)]
            sa, sb = ceil_div(c["ka"], c["b"]), ceil_div(c["kb"], c["b"])
            so = ceil_div(c["ko"], c["bo"])
            key = (c["op"], c["rank"], c["n"], c["bo"] == c["b"], c["ka"] % c["b"] == 0, c["kb"] % c["b"] == 0,
                   c["off"] < c["b"], c["off"] % c["b"] == 0, so * c["bo"] < (sa + sb) * c["b"], c["m"], fft_ok, c.get("dsize"),
                   c.get("bk") == c["b"] if "bk" in c else None)
            ctx.count_case(key, nontrivial=True)
            if c["op"] == "relin" and c["b"] != c["bk"] and c["bo"] == c["bk"]:
                hist["relin_tensor_radix!=key_radix==res_radix"] = hist.get("relin_tensor_radix!=key_radix==res_radix", 0) + 1
            for hk in (c["op"], f"rank{c['rank']}", "fft64_in_domain" if fft_ok else "ntt120_only",
                       "offset<base2k" if c["off"] < c["b"] else "offset>=base2k",
                       "masked_a" if c["ka"] % c["b"] else "full_a"):
                hist[hk] = hist.get(hk, 0) + 1
            hi_ = 0 if c["off"] < c["b"] else c["off"] // c["b"] - 1
            sb_eff = sa if c["op"] == "square" else (c.get("clen", 1) if c["op"].startswith("const") else sb)
            zero_dft = c["op"] in ("tensor", "tensor_add", "square", "plain", "plain_assign", "const") and sa + sb_eff - hi_ == 0
            if zero_dft:
                hist["zero_limb_convolution"] = hist.get("zero_limb_convolution", 0) + 1
            for i in range(4):
                if BIG128[i] == 0 and not fft_ok:
                    continue
                if outs[i] != model[(k, BIG128[i])]:
                    ctx.disagreements += 1
                    if len(broken) < 12:
                        broken.append(f"model != {BE_NAMES[i]} on: {req_line(c)}")
            if c["op"] in ("tensor", "square", "tensor_add") and not outs[1].startswith("panic"):
                # the real glwe_tensor_decrypt against the oracle's exact tensor phase of the same tensor
                laws["real_tensor_decrypt=exact_tensor_phase"] = laws.get("real_tensor_decrypt=exact_tensor_phase", 0) + 1
                if a.get("dec", "panic") == "panic" or a.get("dect") != outs[1]:
                    broken.append(f"glwe_tensor_decrypt run failed or decrypted a different tensor: {req_line(c)}")
                else:
                    nn, rk = c["n"], c["rank"]
                    skv = [int(x) for x in a["sk"].split(",")]
                    sks = [skv[i * nn:(i + 1) * nn] for i in range(rk)]
                    tens = parse_vec(a["dect"], nn)
                    ph, bits = tensor_phase(tens, sks, c["bo"], rk + 1)
                    dec = value_poly(parse_vec(a["dec"], nn)[0], c["bo"])
                    if any((x - y) % (1 << bits) for x, y in zip(ph, dec)):
                        ctx.oracle_failures += 1
                        broken.append(f"glwe_tensor_decrypt differs from the exact tensor phase: {req_line(c)}")
            if c["op"] == "square":
                laws["square=self-product"] = laws.get("square=self-product", 0) + 1
                if model[(k, "self")] != model[(k, 1)]:
                    broken.append(f"model law square = apply(a, a) fails on: {req_line(c)}")
            if c["op"] == "tensor_add" and not model[(k, 1)].startswith("err"):
                laws["accumulate=previous+product"] = laws.get("accumulate=previous+product", 0) + 1
                pr = [int(x) for x in model[(k, "prod")].split(":")[1].split(",")]
                r0 = [int(x) for x in a["r0"].split(":")[1].split(",")]
                acc = [int(x) for x in outs[1].split(":")[1].split(",")]
                if [((x + y + (1 << 63)) % (1 << 64)) - (1 << 63) for x, y in zip(r0, pr)] != acc:
                    broken.append(f"accumulate form does not add exactly the product on: {req_line(c)}")
            if fft_ok and len(set(outs)) > 1:
                broken.append(f"back ends disagree on: {req_line(c)}")
            if not outs[1].startswith("panic"):
                for i in ([1] + ([0] if fft_ok and not outs[0].startswith("panic") else [])):
                    okc, det = oracle_case(c, a, outs[i])
                    n_oracle += 1
                    n_loose += 1 if det.get("loose") else 0
                    if okc:
                        max_ratio = max(max_ratio, det.get("ratio", 0.0))
                    if not okc:
                        kf = None
                        gap = c["op"] != "relin" and c["off"] < c["b"] and len(parse_vec(outs[i], c["n"])[0]) * (c["bo"] if not c["op"].endswith("_assign") else c["b"]) < c["b"]
                        if gap:
                            kf = GAP_KEY
                        w = {"request": req_line(c), "back_end": BE_NAMES[i], "oracle": det,
                             "model_equals_implementation": outs[i] == model[(k, BIG128[i])],
                             "rerun": f"printf '1 {req_line(c)}\\n' | harness/target/release/pvh mul"}
                        if kf:
                            known.setdefault(kf, w)
                        else:
                            ctx.oracle_failures += 1
                            witness = w
                            broken.append(f"property oracle fails on {BE_NAMES[i]}: {req_line(c)} {det}")
            if len(ctx.samples) < 6 and k % 23 == 0:
                ctx.samples.append({"request": req_line(c), "implementation(NTT120Ref)": outs[1][:160], "model": model[(k, 1)][:160]})
        ctx.cov["oracle_checks"] = n_oracle
        ctx.cov["oracle_bound_too_loose_to_decide"] = n_loose
        ctx.cov["max_observed_error_over_bound"] = round(max_ratio, 4)
        ctx.cov["histogram"] = hist
        ctx.cov["model_laws_checked"] = laws

        sub = [c for c in cases if "stale" not in c][: (80 if quick else 500)]
        clean = {id(c): a for c, a in zip(cases, answers)}
        dirty_ans = run_batch(ctx, binp, sub, dirty=0x412E848000000000)
        n_diff = 0
        for c, a1 in zip(sub, dirty_ans):
            p0, p1 = parse_answer(clean[id(c)]), parse_answer(a1)
            if p0 is None or p1 is None:
                continue
            for i in range(4):
                if p0.get(f"be{i}") != p1.get(f"be{i}"):
                    n_diff += 1
                    broken.append(f"output depends on scratch content: {req_line(c)} ({BE_NAMES[i]})")
                    break
        ctx.cov["dirty_scratch_cases"] = len(sub)
        ctx.cov["dirty_scratch_differences"] = n_diff

    for kf, w in known.items():
        ctx.violation("C05 finding: " + kf, {"witness": w}, True, key=kf)
    if broken:
        ctx.log("broken:", *broken[:6])
        if witness:
            ctx.violation("multiplication result does not decrypt to the plaintext product within the bound",
                          {"witness": witness, "broken": broken[:20]}, True)
        else:
            ctx.violation("C05 obligation or correspondence no longer checks", {"broken": broken[:20]}, False)
    return ctx.finish(rule="cases = (op, n, rank, operand radix, effective precisions a_k / b_k, result radix and precision, cnv_offset, value "
                           "class, tensor-key shape, seed); distinct = (op, rank, n, radix equal, a_k / b_k multiple of the radix, "
                           "offset < radix, offset multiple of the radix, result shorter than the full product, value class, fft64 in "
                           "domain, key dsize, key radix equal); every case on 4 back ends and twice on the model; non-trivial = always")
